// Read/write access to private state of the library for the verification harness.
// Declared `friend` in the library only under -DOPNMIDI_VERIF.
#pragma once
#include "opnmidi_midiplay.hpp"
#include "opnmidi_opn2.hpp"
#include "opnmidi_private.hpp"
#ifndef OPNMIDI_DISABLE_MIDI_SEQUENCER
#include "midi_sequencer.hpp"
#endif
#include <string>
#include <vector>
#include <cstdio>
#include <cstdlib>
#include <cstring>
#include <sstream>
#include <iostream>

struct OpnVerifAccess
{
    static OPNMIDIplay *player(OPN2_MIDIPlayer *dev) { return reinterpret_cast<OPNMIDIplay *>(dev->opn2_midiPlayer); }
    static std::vector<OPNMIDIplay::OpnChannel> &chipChannels(OPNMIDIplay *p) { return p->m_chipChannels; }
    static std::vector<OpnTimbre> &insCache(OPN2 &s) { return s.m_insCache; }
    static std::vector<uint8_t> &regLFOSens(OPN2 &s) { return s.m_regLFOSens; }
    static size_t &arpeggioCounter(OPNMIDIplay *p) { return p->m_arpeggioCounter; }
    static uint8_t deviceId(OPNMIDIplay *p) { return p->m_sysExDeviceId; }
#ifndef OPNMIDI_DISABLE_MIDI_SEQUENCER
    static const BW_MidiRtInterface *seqInterface(OPNMIDIplay *p) { return p->m_sequencerInterface.get(); }
    static double tempoMultiplier(BW_MidiSequencer &s) { return s.m_tempoMultiplier; }
    static const std::vector<bool> &trackDisable(BW_MidiSequencer &s) { return s.m_trackDisable; }
    static size_t trackSolo(BW_MidiSequencer &s) { return s.m_trackSolo; }
    static const bool *channelDisable(BW_MidiSequencer &s) { return s.m_channelDisable; }
#endif
};

// ---- line protocol helpers
std::vector<std::string> splitWords(const std::string &line);
bool parseHex(const std::string &s, std::vector<uint8_t> &out);
std::string toHex(const uint8_t *p, size_t n);

typedef int (*ComponentMain)();
int comp_volume();
int comp_wopn();
int comp_bankmap();
int comp_pitch();
int comp_synth();
int comp_audio();
int comp_api();
int comp_iso();
int comp_front();
