// component `api`: the whole exported surface (setup, banks, sequencer control, real-time, audio, hooks, close)
// one call per line; observation = return value, the events the registered hooks received during the call,
// and (for most calls) the canonical settings line.
#include <cstdarg>
#include <cstdio>
#include "access.hpp"
#include <unistd.h>
#include <cmath>
#include <map>
#include <sys/resource.h>
#include <time.h>

namespace {
typedef unsigned long long u64;
struct H
{
    u64 h; H() : h(14695981039346656037ULL) {}
    void b(unsigned x) { h ^= (x & 0xFF); h *= 1099511628211ULL; }
    void i(long long x) { u64 u = (u64)x; for(int k = 0; k < 8; ++k) b((unsigned)((u >> (8 * k)) & 0xFF)); }
};

std::string dy(double x)
{
    if(std::isnan(x)) return "nan";
    if(std::isinf(x)) return x > 0 ? "inf" : "-inf";
    if(x == 0) return "0:0";
    int ex; double fr = std::frexp(x, &ex);
    long long m = (long long)std::ldexp(fr, 53); int e = ex - 53;
    while(m != 0 && (m % 2) == 0) { m /= 2; e++; }
    std::ostringstream os; os << m << ":" << e; return os.str();
}
bool parseDouble(const std::string &s, double &out)
{
    // "m:e" (exact dyadic) or a decimal literal
    size_t c = s.find(':');
    if(c != std::string::npos)
    {
        char *e1 = 0, *e2 = 0;
        long long m = strtoll(s.c_str(), &e1, 10);
        long e = strtol(s.c_str() + c + 1, &e2, 10);
        if(e1 != s.c_str() + c || *e2) return false;
        out = std::ldexp((double)m, (int)e);
        return true;
    }
    char *end = 0; out = strtod(s.c_str(), &end); return end && !*end && !s.empty();
}

struct Log
{
    double now;                 // song time maintained by the driving op
    long frames;                // frames returned by play calls so far (for playlog)
    bool byFrames;
    std::ostringstream ev;
    unsigned nRaw, nNote, nDebug, nLoopStart, nLoopEnd;
    unsigned long nEntries;     // entries of the current op; only the first CAP are kept (the rest is counted)
    enum { CAP = 5000 };
    Log() : now(0), frames(0), byFrames(false), nRaw(0), nNote(0), nDebug(0), nLoopStart(0), nLoopEnd(0), nEntries(0) {}
    bool rec() { return ++nEntries <= CAP; }
    std::string stamp() { if(byFrames) { std::ostringstream o; o << "f" << frames; return o.str(); } return dy(now); }
    std::string take()
    {
        std::string s = ev.str(); ev.str(""); ev.clear();
        if(nEntries > CAP) { std::ostringstream o; o << "+" << (nEntries - CAP); s += o.str(); }
        nEntries = 0;
        return s.empty() ? "-" : s;
    }
};
Log *g_log = 0;

void rawHook(void *ud, OPN2_UInt8 type, OPN2_UInt8 subtype, OPN2_UInt8 channel, const OPN2_UInt8 *data, size_t len)
{
    Log *l = static_cast<Log *>(ud); l->nRaw++;
    if(l->rec()) l->ev << "E@" << l->stamp() << "," << (unsigned)type << "," << (unsigned)subtype << "," << (unsigned)channel << "," << toHex(data, len) << ";";
}
void noteHook(void *ud, int adlchn, int note, int ins, int pressure, double bend)
{
    Log *l = static_cast<Log *>(ud); l->nNote++;
    (void)adlchn; (void)ins; (void)bend;
    if(l->rec()) l->ev << "N@" << l->stamp() << "," << note << "," << pressure << ";";
}
void debugHook(void *ud, const char *fmt, ...)
{
    // format the message as a real hook does: every %s argument is read up to its terminating zero
    Log *l = static_cast<Log *>(ud); l->nDebug++;
    char buf[512]; va_list ap; va_start(ap, fmt); vsnprintf(buf, sizeof(buf), fmt, ap); va_end(ap);
}
void loopStartHook(void *ud) { Log *l = static_cast<Log *>(ud); l->nLoopStart++; if(l->rec()) l->ev << "LS@" << l->stamp() << ";"; }
void loopEndHook(void *ud) { Log *l = static_cast<Log *>(ud); l->nLoopEnd++; if(l->rec()) l->ev << "LE@" << l->stamp() << ";"; }

// ---- interposition of the calls the sequencer makes into the synthesizer (what actually reaches it, after gating)
BW_MidiRtInterface g_orig;
bool g_wrapped = false;
void wNoteOn(void *, uint8_t ch, uint8_t n, uint8_t v) { if(g_log->rec()) g_log->ev << "R@" << g_log->stamp() << ",9," << (unsigned)ch << "," << (unsigned)n << "," << (unsigned)v << ";"; g_orig.rt_noteOn(g_orig.rtUserData, ch, n, v); }
void wNoteOff(void *, uint8_t ch, uint8_t n) { if(g_log->rec()) g_log->ev << "R@" << g_log->stamp() << ",8," << (unsigned)ch << "," << (unsigned)n << ",0;"; g_orig.rt_noteOff(g_orig.rtUserData, ch, n); }
void wNoteAT(void *, uint8_t ch, uint8_t n, uint8_t v) { if(g_log->rec()) g_log->ev << "R@" << g_log->stamp() << ",10," << (unsigned)ch << "," << (unsigned)n << "," << (unsigned)v << ";"; g_orig.rt_noteAfterTouch(g_orig.rtUserData, ch, n, v); }
void wChanAT(void *, uint8_t ch, uint8_t v) { if(g_log->rec()) g_log->ev << "R@" << g_log->stamp() << ",13," << (unsigned)ch << "," << (unsigned)v << ",0;"; g_orig.rt_channelAfterTouch(g_orig.rtUserData, ch, v); }
void wCtrl(void *, uint8_t ch, uint8_t t, uint8_t v) { if(g_log->rec()) g_log->ev << "R@" << g_log->stamp() << ",11," << (unsigned)ch << "," << (unsigned)t << "," << (unsigned)v << ";"; g_orig.rt_controllerChange(g_orig.rtUserData, ch, t, v); }
void wPatch(void *, uint8_t ch, uint8_t p) { if(g_log->rec()) g_log->ev << "R@" << g_log->stamp() << ",12," << (unsigned)ch << "," << (unsigned)p << ",0;"; g_orig.rt_patchChange(g_orig.rtUserData, ch, p); }
void wBend(void *, uint8_t ch, uint8_t msb, uint8_t lsb) { if(g_log->rec()) g_log->ev << "R@" << g_log->stamp() << ",14," << (unsigned)ch << "," << (unsigned)msb << "," << (unsigned)lsb << ";"; g_orig.rt_pitchBend(g_orig.rtUserData, ch, msb, lsb); }
void wSysEx(void *, const uint8_t *m, size_t n) { if(g_log->rec()) g_log->ev << "X@" << g_log->stamp() << "," << toHex(m, n) << ";"; g_orig.rt_systemExclusive(g_orig.rtUserData, m, n); }
void wSongStart(void *) { if(g_log->rec()) g_log->ev << "SS@" << g_log->stamp() << ";"; g_orig.onSongStart(g_orig.onSongStart_userData); }
void wDevSwitch(void *, size_t track, const char *data, size_t len) { if(g_log->rec()) g_log->ev << "D@" << g_log->stamp() << "," << track << "," << toHex((const uint8_t *)data, len) << ";"; g_orig.rt_deviceSwitch(g_orig.rtUserData, track, data, len); }

void wrapRt(OPN2_MIDIPlayer *dev, bool on)
{
    OPNMIDIplay *play = OpnVerifAccess::player(dev);
    BW_MidiRtInterface *si = const_cast<BW_MidiRtInterface *>(OpnVerifAccess::seqInterface(play));
    if(on && !g_wrapped)
    {
        g_orig = *si;
        si->rt_noteOn = wNoteOn; si->rt_noteOff = wNoteOff; si->rt_noteAfterTouch = wNoteAT; si->rt_channelAfterTouch = wChanAT;
        si->rt_controllerChange = wCtrl; si->rt_patchChange = wPatch; si->rt_pitchBend = wBend; si->rt_systemExclusive = wSysEx;
        si->onSongStart = wSongStart; si->rt_deviceSwitch = wDevSwitch;
        g_wrapped = true;
    }
    else if(!on && g_wrapped)
    {
        si->rt_noteOn = g_orig.rt_noteOn; si->rt_noteOff = g_orig.rt_noteOff; si->rt_noteAfterTouch = g_orig.rt_noteAfterTouch;
        si->rt_channelAfterTouch = g_orig.rt_channelAfterTouch; si->rt_controllerChange = g_orig.rt_controllerChange; si->rt_patchChange = g_orig.rt_patchChange;
        si->rt_pitchBend = g_orig.rt_pitchBend; si->rt_systemExclusive = g_orig.rt_systemExclusive; si->onSongStart = g_orig.onSongStart;
        si->rt_deviceSwitch = g_orig.rt_deviceSwitch;
        g_wrapped = false;
    }
}

u64 bankDigest(OPN2_MIDIPlayer *dev, unsigned &count)
{
    H h; count = 0;
    OPN2_Bank b;
    if(opn2_getFirstBank(dev, &b) != 0) return h.h;
    std::vector<u64> per;
    do
    {
        OPN2_BankId id; opn2_getBankId(dev, &b, &id);
        H hb; hb.i(id.percussive); hb.i(id.msb); hb.i(id.lsb);
        for(unsigned i = 0; i < 128; ++i)
        {
            OPN2_Instrument ins; memset(&ins, 0, sizeof(ins));
            opn2_getInstrument(dev, &b, i, &ins);
            hb.i(ins.note_offset); hb.i(ins.midi_velocity_offset); hb.i(ins.percussion_key_number); hb.i(ins.inst_flags); hb.i(ins.fbalg); hb.i(ins.lfosens);
            for(int op = 0; op < 4; ++op)
            {
                const OPN2_Operator &x = ins.operators[op];
                hb.i(x.dtfm_30); hb.i(x.level_40); hb.i(x.rsatk_50); hb.i(x.amdecay1_60); hb.i(x.decay2_70); hb.i(x.susrel_80); hb.i(x.ssgeg_90);
            }
            hb.i(ins.delay_on_ms); hb.i(ins.delay_off_ms);
        }
        per.push_back(hb.h); ++count;
    } while(opn2_getNextBank(dev, &b) == 0 && count < 100000);
    // order of iteration is an implementation detail of the hash map: combine order-independently
    u64 x = 0; for(size_t i = 0; i < per.size(); ++i) x += per[i];
    return x;
}

std::string settings(OPN2_MIDIPlayer *dev)
{
    OPNMIDIplay *play = OpnVerifAccess::player(dev);
    OPN2 &synth = *play->m_synth;
    std::ostringstream os;
    unsigned nb = 0; u64 bd = bankDigest(dev, nb);
    std::string en = opn2_chipEmulatorName(dev);
    for(size_t i = 0; i < en.size(); ++i) if(en[i] == ' ') en[i] = '_';
    unsigned hk = 0;
#ifndef OPNMIDI_DISABLE_MIDI_SEQUENCER
    const BW_MidiRtInterface *si = OpnVerifAccess::seqInterface(play);
    if(si->onEvent) hk |= 1;
    if(si->onloopStart) hk |= 8;
    if(si->onloopEnd) hk |= 16;
    if(si->onDebugMessage) hk |= 32;
#endif
    if(play->hooks.onNote) hk |= 2;
    if(play->hooks.onDebugMessage) hk |= 4;
    if(play->hooks.onLoopStart) hk |= 64;
    if(play->hooks.onLoopEnd) hk |= 128;
    const char *err = opn2_errorInfo(dev);
    os << "S{nc=" << opn2_getNumChips(dev) << " nco=" << opn2_getNumChipsObtained(dev) << " lfo=" << opn2_getLfoEnabled(dev) << " lff=" << opn2_getLfoFrequency(dev)
       << " ct=" << opn2_getChipType(dev) << " arp=" << opn2_getAutoArpeggio(dev) << " vm=" << opn2_getVolumeRangeModel(dev) << " al=" << opn2_getChannelAllocMode(dev)
       << " emu=" << play->m_setup.emulator << " en=" << en << " rap=" << (play->m_setup.runAtPcmRate ? 1 : 0) << " sm=" << (synth.m_scaleModulators ? 1 : 0)
       << " frb=" << (play->m_setup.fullRangeBrightnessCC74 ? 1 : 0) << " sp=" << (synth.m_softPanning ? 1 : 0) << " lv=" << play->m_setup.LogarithmicVolumes
       << " dev=" << (unsigned)OpnVerifAccess::deviceId(play) << " hk=" << hk;
#ifndef OPNMIDI_DISABLE_MIDI_SEQUENCER
    BW_MidiSequencer &seq = *play->m_sequencer;
    os << " loop=" << (seq.getLoopEnabled() ? 1 : 0) << " lc=" << seq.getLoopsCount() << " tempo=" << dy(OpnVerifAccess::tempoMultiplier(seq))
       << " songs=" << opn2_getSongsCount(dev) << " tracks=" << opn2_trackCount(dev) << " tdis=";
    const std::vector<bool> &td = OpnVerifAccess::trackDisable(seq);
    for(size_t i = 0; i < td.size() && i < 64; ++i) os << (td[i] ? 1 : 0);
    os << " solo=" << (long long)OpnVerifAccess::trackSolo(seq) << " chdis=";
    if(opn2_trackCount(dev) == 0) os << "-";        // the flags are initialised by the first load
    else for(int i = 0; i < 16; ++i) os << (OpnVerifAccess::channelDisable(seq)[i] ? 1 : 0);
#endif
    os << " err=" << ((err && *err) ? 1 : 0) << " banks=" << nb << " bank=" << bd << " nch=" << OpnVerifAccess::chipChannels(play).size() << "}";
    return os.str();
}

std::string ctlState(OPN2_MIDIPlayer *dev)
{
    OPNMIDIplay *play = OpnVerifAccess::player(dev);
    std::ostringstream os;
    unsigned sounding = 0;
    for(size_t i = 0; i < play->m_midiChannels.size(); ++i)
    {
        OPNMIDIplay::MIDIchannel &c = play->m_midiChannels[i];
        for(OPNMIDIplay::MIDIchannel::notes_iterator it = c.activenotes.begin(); !it.is_end(); ++it) ++sounding;
        os << " ch" << i << "[" << (unsigned)c.patch << "," << (unsigned)c.bank_msb << "," << (unsigned)c.bank_lsb << "," << (unsigned)c.volume << "," << (unsigned)c.expression
           << "," << (unsigned)c.panning << "," << c.bend << "," << c.bendsense_msb << "," << c.bendsense_lsb << "," << (c.sustain ? 1 : 0) << "," << (c.softPedal ? 1 : 0)
           << "," << (unsigned)c.lastlrpn << "," << (unsigned)c.lastmrpn << "," << (c.nrpn ? 1 : 0) << "," << (unsigned)c.vibrato << "," << (unsigned)c.aftertouch
           << "," << (unsigned)c.portamento << "," << (c.portamentoEnable ? 1 : 0) << "," << (unsigned)c.brightness << "," << (c.is_xg_percussion ? 1 : 0) << "]";
    }
    unsigned keyed = 0;
    std::vector<OPNMIDIplay::OpnChannel> &chips = OpnVerifAccess::chipChannels(play);
    for(size_t c = 0; c < chips.size(); ++c) if(!chips[c].users.empty()) ++keyed;
    std::ostringstream o2;
    o2 << "notes=" << sounding << " users=" << keyed << " mode=" << play->m_synthMode << " mv=" << (unsigned)play->m_synth->m_masterVolume << os.str();
    return o2.str();
}
} // namespace

int comp_api()
{
    OPN2_MIDIPlayer *dev = 0;
    Log log; g_log = &log;
    std::string line;
    while(std::getline(std::cin, line))
    {
        std::vector<std::string> w = splitWords(line);
        if(w.empty() || w[0][0] == '#') continue;
        const std::string &o = w[0];
        std::vector<long long> a;
        for(size_t i = 1; i < w.size(); ++i) { char *e = 0; long long v = strtoll(w[i].c_str(), &e, 10); a.push_back((e && !*e) ? v : 0); }
        std::ostringstream ret;
        bool showSettings = true;
        if(o == "new" && a.size() == 1)
        {
            if(dev) opn2_close(dev);
            g_wrapped = false;
            dev = opn2_init((long)a[0]);
            log = Log();
            std::cout << "ret=" << (dev ? "ok" : "null") << (dev ? " " + settings(dev) : std::string()) << "\n" << std::flush;
            continue;
        }
        if(o == "close") { if(dev) opn2_close(dev); dev = 0; g_wrapped = false; std::cout << "ret=-\n" << std::flush; continue; }
        if(!dev)
        {
            // calls without an instance: documented to return their error value
            if(o == "numchips" && a.size() == 1) ret << opn2_setNumChips(0, (int)a[0]);
            else if(o == "emu" && a.size() == 1) ret << opn2_switchEmulator(0, (int)a[0]);
            else if(o == "devid" && a.size() == 1) ret << opn2_setDeviceIdentifier(0, (unsigned)a[0]);
            else if(o == "gen" && a.size() == 1) { short b[8]; ret << opn2_generate(0, 4, b); }
            else if(o == "play" && a.size() == 1) { short b[8]; ret << opn2_play(0, 4, b); }
            else if(o == "bankdata") ret << opn2_openBankData(0, "x", 1);
            else if(o == "opendata") ret << opn2_openData(0, "x", 1);
            else if(o == "errinfo") ret << ((opn2_errorInfo(0) && *opn2_errorInfo(0)) ? 1 : 0);
            else ret << "nodev";
            std::cout << "ret=" << ret.str() << "\n" << std::flush;
            continue;
        }
        OPNMIDIplay *play = OpnVerifAccess::player(dev);
        // ---- setup
        if(o == "numchips" && a.size() == 1) ret << opn2_setNumChips(dev, (int)a[0]);
        else if(o == "emu" && a.size() == 1) ret << opn2_switchEmulator(dev, (int)a[0]);
        else if(o == "runatpcm" && a.size() == 1) ret << opn2_setRunAtPcmRate(dev, (int)a[0]);
        else if(o == "devid" && a.size() == 1) ret << opn2_setDeviceIdentifier(dev, (unsigned)a[0]);
        else if(o == "lfo" && a.size() == 1) { opn2_setLfoEnabled(dev, (int)a[0]); ret << "-"; }
        else if(o == "lfofreq" && a.size() == 1) { opn2_setLfoFrequency(dev, (int)a[0]); ret << "-"; }
        else if(o == "chiptype" && a.size() == 1) { opn2_setChipType(dev, (int)a[0]); ret << "-"; }
        else if(o == "scalemod" && a.size() == 1) { opn2_setScaleModulators(dev, (int)a[0]); ret << "-"; }
        else if(o == "frb" && a.size() == 1) { opn2_setFullRangeBrightness(dev, (int)a[0]); ret << "-"; }
        else if(o == "arp" && a.size() == 1) { opn2_setAutoArpeggio(dev, (int)a[0]); ret << "-"; }
        else if(o == "loop" && a.size() == 1) { opn2_setLoopEnabled(dev, (int)a[0]); ret << "-"; }
        else if(o == "loopcount" && a.size() == 1) { opn2_setLoopCount(dev, (int)a[0]); ret << "-"; }
        else if(o == "loophooksonly" && a.size() == 1) { opn2_setLoopHooksOnly(dev, (int)a[0]); ret << "-"; }
        else if(o == "softpan" && a.size() == 1) { opn2_setSoftPanEnabled(dev, (int)a[0]); ret << "-"; }
        else if(o == "logvol" && a.size() == 1) { opn2_setLogarithmicVolumes(dev, (int)a[0]); ret << "-"; }
        else if(o == "vm" && a.size() == 1) { opn2_setVolumeRangeModel(dev, (int)a[0]); ret << "-"; }
        else if(o == "alloc" && a.size() == 1) { opn2_setChannelAllocMode(dev, (int)a[0]); ret << "-"; }
        else if(o == "reservebanks" && a.size() == 1) ret << (opn2_reserveBanks(dev, (unsigned)a[0]) >= (int)a[0] ? "ok" : "short");
        else if(o == "reset") { opn2_reset(dev); ret << "-"; }
        else if(o == "hook" && w.size() == 3)
        {
            bool on = a[1] != 0;
            if(w[1] == "raw") opn2_setRawEventHook(dev, on ? rawHook : 0, on ? &log : 0);
            else if(w[1] == "note") opn2_setNoteHook(dev, on ? noteHook : 0, on ? &log : 0);
            else if(w[1] == "debug") opn2_setDebugMessageHook(dev, on ? debugHook : 0, on ? &log : 0);
            else if(w[1] == "loopstart") opn2_setLoopStartHook(dev, on ? loopStartHook : 0, on ? &log : 0);
            else if(w[1] == "loopend") opn2_setLoopEndHook(dev, on ? loopEndHook : 0, on ? &log : 0);
            else if(w[1] == "rt") wrapRt(dev, on);
            else { std::cout << "bad-op\n" << std::flush; continue; }
            ret << "-";
        }
        // ---- banks and files
        else if((o == "bankdata" || o == "opendata") && w.size() == 2)
        {
            std::vector<uint8_t> img;
            if(!parseHex(w[1], img)) { std::cout << "bad-op\n" << std::flush; continue; }
            uint8_t *blk = (uint8_t *)malloc(img.size() ? img.size() : 1);      // exact-size block: an over-read is an ASan report
            if(!img.empty()) memcpy(blk, img.data(), img.size());
            if(o == "bankdata") ret << opn2_openBankData(dev, blk, (long)img.size());
            else { log.now = 0; log.frames = 0; ret << opn2_openData(dev, blk, (unsigned long)img.size()); }
            free(blk);
        }
        else if(o == "openfile" && w.size() == 2) ret << opn2_openFile(dev, w[1].c_str());
        else if(o == "openfiledata" && w.size() == 2)
        {
            // the same bytes through the FILE-based reader (seeks behind the end are not clamped there)
            std::vector<uint8_t> img;
            if(!parseHex(w[1], img)) { std::cout << "bad-op\n" << std::flush; continue; }
            const char *dir = getenv("VERIF_TMPDIR");
            std::string path = std::string(dir && *dir ? dir : "/tmp") + "/opnharness-" + std::to_string((long)getpid()) + ".bin";
            FILE *f = fopen(path.c_str(), "wb");
            if(!f) { std::cout << "ret=nofile\n" << std::flush; continue; }
            if(!img.empty()) fwrite(img.data(), 1, img.size(), f);
            fclose(f);
            log.now = 0; log.frames = 0;
            ret << opn2_openFile(dev, path.c_str());
            remove(path.c_str());
        }
        else if(o == "openbankfile" && w.size() == 2) ret << opn2_openBankFile(dev, w[1].c_str());
        else if(o == "getbank" && a.size() == 4)
        {
            OPN2_BankId id; id.percussive = (OPN2_UInt8)a[0]; id.msb = (OPN2_UInt8)a[1]; id.lsb = (OPN2_UInt8)a[2];
            OPN2_Bank b; ret << opn2_getBank(dev, &id, (int)a[3], &b);
        }
        else if(o == "rmbank" && a.size() == 3)
        {
            OPN2_BankId id; id.percussive = (OPN2_UInt8)a[0]; id.msb = (OPN2_UInt8)a[1]; id.lsb = (OPN2_UInt8)a[2];
            OPN2_Bank b; int r = opn2_getBank(dev, &id, 0, &b);
            if(r == 0) r = opn2_removeBank(dev, &b);
            ret << r;
        }
        else if(o == "getins" && a.size() == 4)
        {
            OPN2_BankId id; id.percussive = (OPN2_UInt8)a[0]; id.msb = (OPN2_UInt8)a[1]; id.lsb = (OPN2_UInt8)a[2];
            OPN2_Bank b; int r = opn2_getBank(dev, &id, 0, &b);
            OPN2_Instrument ins; memset(&ins, 0, sizeof(ins));
            if(r == 0) r = opn2_getInstrument(dev, &b, (unsigned)a[3], &ins);
            ret << r;
        }
        else if(o == "setins" && a.size() == 5)
        {
            OPN2_BankId id; id.percussive = (OPN2_UInt8)a[0]; id.msb = (OPN2_UInt8)a[1]; id.lsb = (OPN2_UInt8)a[2];
            OPN2_Bank b; int r = opn2_getBank(dev, &id, OPNMIDI_Bank_Create, &b);
            OPN2_Instrument ins; memset(&ins, 0, sizeof(ins)); ins.version = (int)a[4]; ins.fbalg = 7; ins.note_offset = 12;
            if(r == 0) r = opn2_setInstrument(dev, &b, (unsigned)a[3], &ins);
            ret << r;
        }
        // ---- sequencer control
        else if(o == "selectsong" && a.size() == 1) { opn2_selectSongNum(dev, (int)a[0]); ret << "- ev=" << log.take(); log.now = 0; log.frames = 0; showSettings = false; }
        else if(o == "songs") ret << opn2_getSongsCount(dev);
        else if(o == "tracks") ret << opn2_trackCount(dev);
        else if(o == "trackopt" && a.size() == 2) ret << opn2_setTrackOptions(dev, (size_t)a[0], (unsigned)a[1]);
        else if(o == "chanen" && a.size() == 2) { ret << opn2_setChannelEnabled(dev, (size_t)a[0], (int)a[1]) << " ev=" << log.take(); showSettings = false; }
        else if(o == "tempo" && w.size() == 2) { double x; if(!parseDouble(w[1], x)) { std::cout << "bad-op\n" << std::flush; continue; } opn2_setTempo(dev, x); ret << "-"; }
        else if(o == "total") { ret << dy(opn2_totalTimeLength(dev)); showSettings = false; }
        else if(o == "loopstart") { ret << dy(opn2_loopStartTime(dev)); showSettings = false; }
        else if(o == "loopend") { ret << dy(opn2_loopEndTime(dev)); showSettings = false; }
        else if(o == "tell") { ret << dy(opn2_positionTell(dev)); showSettings = false; }
        else if(o == "atend") { ret << opn2_atEnd(dev); showSettings = false; }
        else if(o == "seek" && w.size() == 2)
        {
            double x; if(!parseDouble(w[1], x)) { std::cout << "bad-op\n" << std::flush; continue; }
            opn2_positionSeek(dev, x);
            log.now = opn2_positionTell(dev);
            ret << "tell=" << dy(opn2_positionTell(dev)) << " delay=" << dy(play->m_setup.delay) << " ev=" << log.take();
            showSettings = false;
        }
        else if(o == "rewind") { opn2_positionRewind(dev); log.now = 0; log.frames = 0; ret << "tell=" << dy(opn2_positionTell(dev)) << " ev=" << log.take(); showSettings = false; }
        else if(o == "meta")
        {
            H h;
            const char *t = opn2_metaMusicTitle(dev); for(; t && *t; ++t) h.b((unsigned char)*t);
            t = opn2_metaMusicCopyright(dev); for(; t && *t; ++t) h.b((unsigned char)*t);
            size_t n = opn2_metaTrackTitleCount(dev);
            for(size_t i = 0; i <= n + 1; ++i) { t = opn2_metaTrackTitle(dev, i); for(; t && *t; ++t) h.b((unsigned char)*t); }
            size_t m = opn2_metaMarkerCount(dev);
            for(size_t i = 0; i <= m + 1; ++i) { Opn2_MarkerEntry e = opn2_metaMarker(dev, i); for(t = e.label; t && *t; ++t) h.b((unsigned char)*t); h.i((long long)e.pos_ticks); }
            opn2_metaTrackTitle(dev, (size_t)-1); opn2_metaMarker(dev, (size_t)-1);
            ret << "titles=" << n << " markers=" << m << " h=" << h.h; showSettings = false;
        }
        else if(o == "tick" && w.size() == 3)
        {
            double s, g; if(!parseDouble(w[1], s) || !parseDouble(w[2], g)) { std::cout << "bad-op\n" << std::flush; continue; }
            log.byFrames = false; log.now += s;
            double d = opn2_tickEvents(dev, s, g);
            ret << dy(d) << " ev=" << log.take(); showSettings = false;
        }
        else if(o == "tickall" && w.size() == 3)
        {
            // the documented driving loop: wait the returned delay, tick again, until the end of the song (or the step cap)
            double g; if(!parseDouble(w[2], g)) { std::cout << "bad-op\n" << std::flush; continue; }
            long steps = 0; double d = 0.0;
            log.byFrames = false;
            while(steps < a[0] && !opn2_atEnd(dev))
            {
                log.now += d;
                d = opn2_tickEvents(dev, d, g);
                ++steps;
                if(!(d >= 0.0)) break;
            }
            ret << "steps=" << steps << " end=" << opn2_atEnd(dev) << " T=" << dy(log.now) << " last=" << dy(d) << " tell=" << dy(opn2_positionTell(dev)) << " ev=" << log.take();
            showSettings = false;
        }
        else if(o == "playlog" && a.size() == 2)
        {
            // opn2_play in chunks of a[1] samples until a[0] samples were returned or the song ended; events stamped with the frame count before the call
            long total = (long)a[0], chunk = (long)a[1], got = 0, calls = 0;
            if(chunk < 2) chunk = 2;
            if(chunk > 65536) chunk = 65536;
            std::vector<short> buf((size_t)chunk + 64, 0x5A5A);
            log.byFrames = true;
            bool bad = false;
            while(got < total && calls < 4000000)
            {
                int r = opn2_play(dev, (int)chunk, buf.data() + 32);
                ++calls;
                for(int k = 0; k < 32; ++k) if(buf[k] != 0x5A5A || buf[(size_t)chunk + 32 + k] != 0x5A5A) bad = true;
                if(r <= 0) break;
                if(r > chunk || (r & 1)) { bad = true; break; }
                got += r; log.frames += r / 2;
            }
            log.byFrames = false;
            ret << "got=" << got << " calls=" << calls << " guard=" << (bad ? "BAD" : "ok") << " end=" << opn2_atEnd(dev) << " ev=" << log.take();
            showSettings = false;
        }
        // ---- audio
        else if((o == "gen" || o == "play") && a.size() == 1)
        {
            long n = (long)a[0];
            size_t cap = n > 0 ? (size_t)n : 0;
            short *buf = (short *)malloc((cap ? cap : 1) * sizeof(short));           // exact size: any excess write is an ASan report
            int r = (o == "gen") ? opn2_generate(dev, (int)n, buf) : opn2_play(dev, (int)n, buf);
            free(buf);
            ret << r << " ev=" << log.take(); showSettings = false;
        }
        else if((o == "genfmt" || o == "playfmt") && a.size() == 5)
        {
            OPNMIDI_AudioFormat f; f.type = (OPNMIDI_SampleType)a[0]; f.containerSize = (unsigned)a[1]; f.sampleOffset = (unsigned)a[2];
            long n = (long)a[4]; bool planar = a[3] != 0;
            size_t frames = n > 0 ? (size_t)(n / 2) : 0;
            size_t span = frames * f.sampleOffset + 16;
            uint8_t *l = (uint8_t *)malloc(span), *r2 = planar ? (uint8_t *)malloc(span) : l + f.containerSize;
            int r = (o == "genfmt") ? opn2_generateFormat(dev, (int)n, l, r2, &f) : opn2_playFormat(dev, (int)n, l, r2, &f);
            free(l); if(planar) free(r2);
            ret << r << " ev=" << log.take(); showSettings = false;
        }
        else if(o == "describe" && a.size() == 1)
        {
            size_t n = (size_t)a[0];
            char *s = (char *)malloc(n ? n : 1), *at = (char *)malloc(n ? n : 1);
            int r = opn2_describeChannels(dev, n ? s : s, n ? at : at, n);
            size_t len = 0; if(n) { while(len < n && s[len]) ++len; }
            ret << r << " len=" << (n && len >= n ? "UNTERMINATED" : "ok");
            free(s); free(at); showSettings = false;
        }
        // ---- real time
        else if(o == "on" && a.size() == 3) ret << opn2_rt_noteOn(dev, (OPN2_UInt8)a[0], (OPN2_UInt8)a[1], (OPN2_UInt8)a[2]);
        else if(o == "off" && a.size() == 2) { opn2_rt_noteOff(dev, (OPN2_UInt8)a[0], (OPN2_UInt8)a[1]); ret << "-"; }
        else if(o == "cc" && a.size() == 3) { opn2_rt_controllerChange(dev, (OPN2_UInt8)a[0], (OPN2_UInt8)a[1], (OPN2_UInt8)a[2]); ret << "-"; }
        else if(o == "pc" && a.size() == 2) { opn2_rt_patchChange(dev, (OPN2_UInt8)a[0], (OPN2_UInt8)a[1]); ret << "-"; }
        else if(o == "pb" && a.size() == 2) { opn2_rt_pitchBend(dev, (OPN2_UInt8)a[0], (OPN2_UInt16)a[1]); ret << "-"; }
        else if(o == "pbml" && a.size() == 3) { opn2_rt_pitchBendML(dev, (OPN2_UInt8)a[0], (OPN2_UInt8)a[1], (OPN2_UInt8)a[2]); ret << "-"; }
        else if(o == "bank" && a.size() == 2) { opn2_rt_bankChange(dev, (OPN2_UInt8)a[0], (OPN2_SInt16)a[1]); ret << "-"; }
        else if(o == "bankmsb" && a.size() == 2) { opn2_rt_bankChangeMSB(dev, (OPN2_UInt8)a[0], (OPN2_UInt8)a[1]); ret << "-"; }
        else if(o == "banklsb" && a.size() == 2) { opn2_rt_bankChangeLSB(dev, (OPN2_UInt8)a[0], (OPN2_UInt8)a[1]); ret << "-"; }
        else if(o == "nat" && a.size() == 3) { opn2_rt_noteAfterTouch(dev, (OPN2_UInt8)a[0], (OPN2_UInt8)a[1], (OPN2_UInt8)a[2]); ret << "-"; }
        else if(o == "cat" && a.size() == 2) { opn2_rt_channelAfterTouch(dev, (OPN2_UInt8)a[0], (OPN2_UInt8)a[1]); ret << "-"; }
        else if(o == "sysex" && w.size() == 2)
        {
            std::vector<uint8_t> m; if(!parseHex(w[1], m)) { std::cout << "bad-op\n" << std::flush; continue; }
            uint8_t *blk = (uint8_t *)malloc(m.size() ? m.size() : 1); if(!m.empty()) memcpy(blk, m.data(), m.size());
            ret << opn2_rt_systemExclusive(dev, blk, m.size()); free(blk);
        }
        else if(o == "panic") { opn2_panic(dev); ret << "-"; }
        else if(o == "rs") { opn2_rt_resetState(dev); ret << "-"; }
        else if(o == "ctl") { ret << ctlState(dev); showSettings = false; }
        else if(o == "evlog") { ret << log.take(); showSettings = false; }
        else if(o == "errinfo") { const char *e = opn2_errorInfo(dev); ret << ((e && *e) ? 1 : 0); showSettings = false; }
        else if(o == "usage")
        {
            struct rusage ru; getrusage(RUSAGE_SELF, &ru);
            long ms = ru.ru_utime.tv_sec * 1000 + ru.ru_utime.tv_usec / 1000 + ru.ru_stime.tv_sec * 1000 + ru.ru_stime.tv_usec / 1000;
            ret << "cpu_ms=" << ms << " rss_kb=" << ru.ru_maxrss; showSettings = false;
        }
        else if(o == "misc")
        {
            // functions without state: must return non-null strings / structures
            const OPN2_Version *v = opn2_linkedVersion();
            ret << ((opn2_linkedLibraryVersion() && opn2_emulatorName() && opn2_errorString() && v) ? "ok" : "null"); showSettings = false;
        }
        else { std::cout << "bad-op\n" << std::flush; continue; }
        std::cout << "ret=" << ret.str();
        if(showSettings) std::cout << " " << settings(dev);
        std::cout << "\n" << std::flush;
    }
    if(dev) opn2_close(dev);
    return 0;
}
