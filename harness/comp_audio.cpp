// component `audio`: opn2_generateFormat — what is stored where, in which format (C13)
#include "access.hpp"
#include <cmath>

namespace {
void dy(double x, long long &m, int &e)
{
    if(x == 0) { m = 0; e = 0; return; }
    int ex; double fr = std::frexp(x, &ex);
    m = (long long)std::ldexp(fr, 53); e = ex - 53;
    while(m != 0 && (m % 2) == 0) { m /= 2; e++; }
}
}

int comp_audio()
{
    OPN2_MIDIPlayer *dev = opn2_init(65536);
    if(!dev) return 3;
    std::string line;
    while(std::getline(std::cin, line))
    {
        std::vector<std::string> w = splitWords(line);
        if(w.empty() || w[0][0] == '#') continue;
        std::vector<long> a;
        for(size_t i = 1; i < w.size(); ++i) a.push_back(strtol(w[i].c_str(), NULL, 10));
        std::ostringstream os;
        if(w[0] == "new" && a.size() == 3)
        {
            // new <rate> <chips> <emulator>
            opn2_close(dev);
            dev = opn2_init(a[0]);
            opn2_setNumChips(dev, (int)a[1]);
            opn2_switchEmulator(dev, (int)a[2]);
            os << "ok";
        }
        else if(w[0] == "bank" && w.size() == 2)
        {
            std::vector<uint8_t> img; parseHex(w[1], img);
            os << "ret=" << opn2_openBankData(dev, img.data(), (long)img.size());
        }
        else if(w[0] == "on" && a.size() == 3) os << "ret=" << opn2_rt_noteOn(dev, (OPN2_UInt8)a[0], (OPN2_UInt8)a[1], (OPN2_UInt8)a[2]);
        else if(w[0] == "off" && a.size() == 2) { opn2_rt_noteOff(dev, (OPN2_UInt8)a[0], (OPN2_UInt8)a[1]); os << "ok"; }
        else if(w[0] == "pc" && a.size() == 2) { opn2_rt_patchChange(dev, (OPN2_UInt8)a[0], (OPN2_UInt8)a[1]); os << "ok"; }
        else if(w[0] == "chiptype" && a.size() == 1) { opn2_setChipType(dev, (int)a[0]); os << "ok"; }
        else if(w[0] == "runatpcm" && a.size() == 1) { os << "ret=" << opn2_setRunAtPcmRate(dev, (int)a[0]); }
        else if(w[0] == "emu" && a.size() == 1) { os << "ret=" << opn2_switchEmulator(dev, (int)a[0]); }
        else if(w[0] == "panic") { opn2_panic(dev); os << "ok"; }
        else if(w[0] == "reset") { opn2_reset(dev); os << "ok"; }
        else if(w[0] == "cc" && a.size() == 3) { opn2_rt_controllerChange(dev, (OPN2_UInt8)a[0], (OPN2_UInt8)a[1], (OPN2_UInt8)a[2]); os << "ok"; }
        else if(w[0] == "stat" && a.size() == 1)
        {
            // stat <frames>: renders and summarises the left channel: rising zero crossings around the mean, first audible frame, rms, peak, mean, last value
            long frames = a[0] > 0 ? a[0] : 0;
            std::vector<short> buf((size_t)frames * 2 + 2, 0);
            long got = 0;
            while(got < frames * 2)
            {
                long want = frames * 2 - got; if(want > 8192) want = 8192;
                int r = opn2_generate(dev, (int)want, buf.data() + got);
                if(r <= 0) break;
                got += r;
            }
            long n = got / 2;
            double mean = 0; for(long i = 0; i < n; ++i) mean += buf[2 * i]; if(n) mean /= n;
            long peak = 0, first = -1, zc = 0, firstZ = -1, lastZ = -1; double sq = 0;
            // hysteresis crossing detector (a quarter of the peak) so that noise around the mean does not count
            long pk = 0; for(long i = 0; i < n; ++i) { long d = labs((long)buf[2 * i] - (long)mean); if(d > pk) pk = d; }
            double th = pk / 4.0; int state = 0;
            for(long i = 0; i < n; ++i)
            {
                double x = buf[2 * i] - mean;
                long ax = labs((long)x); if(ax > peak) peak = ax;
                sq += x * x;
                if(first < 0 && ax > 64) first = i;
                if(state <= 0 && x > th) { if(state < 0) { ++zc; if(firstZ < 0) firstZ = i; lastZ = i; } state = 1; }
                else if(state >= 0 && x < -th) state = -1;
            }
            long absPeak = 0; for(long i = 0; i < n; ++i) { long v = labs((long)buf[2 * i]); if(v > absPeak) absPeak = v; }
            os << "ret=" << got << " n=" << n << " zc=" << zc << " firstz=" << firstZ << " lastz=" << lastZ << " first=" << first << " rms=" << (long)(n ? sqrt(sq / n) : 0)
               << " peak=" << peak << " abspeak=" << absPeak << " mean=" << (long)mean << " last=" << (n ? buf[2 * (n - 1)] : 0);
        }
        else if(w[0] == "genfmt" && a.size() == 5)
        {
            // genfmt <type> <container> <sampleOffset> <planar> <n>
            int type = (int)a[0]; unsigned cont = (unsigned)a[1], off = (unsigned)a[2]; bool planar = a[3] != 0; long n = a[4];
            long frames = n > 0 ? n / 2 : 0;
            size_t span = ((size_t)frames * off + 16 + 63) / 64 * 64;     // bytes a correct call may touch from a base pointer, plus slack (64-aligned)
            size_t guard = 64;
            size_t total = guard + (planar ? 2 * (span + guard) : span + cont + guard) + guard;
            std::vector<uint8_t> memv(total + 64, 0xA5), ref;
            uint8_t *membase = memv.data() + ((64 - ((size_t)memv.data() % 64)) % 64);
            struct { uint8_t *p; uint8_t *data() { return p; } uint8_t &operator[](size_t i) { return p[i]; } } mem = { membase };
            uint8_t *left = mem.data() + guard;
            uint8_t *right = planar ? left + span + guard : left + cont;
            OPNMIDI_AudioFormat fmt; fmt.type = (OPNMIDI_SampleType)type; fmt.containerSize = cont; fmt.sampleOffset = off;
            int ret = opn2_generateFormat(dev, (int)n, left, right, &fmt);
            OPNMIDIplay *play = OpnVerifAccess::player(dev);
            os << "ret=" << ret;
            long rframes = ret / 2;
            // the mixed int32 frames of the last period are still in m_outBuf
            long lastFrames = rframes == 0 ? 0 : ((rframes % 512) ? (rframes % 512) : 512);
            long firstOfLast = rframes - lastFrames;
            os << " last=" << firstOfLast << "+" << lastFrames << " buf=";
            for(long i = 0; i < lastFrames * 2; ++i) { if(i) os << ","; os << play->m_outBuf[i]; }
            if(lastFrames == 0) os << "-";
            // stored containers of the last period
            for(int side = 0; side < 2; ++side)
            {
                os << (side ? " R=" : " L=");
                uint8_t *base = side ? right : left;
                bool isFloat = (type == OPNMIDI_SampleType_F32 || type == OPNMIDI_SampleType_F64);
                for(long i = firstOfLast; i < rframes; ++i)
                {
                    uint8_t *p = base + (size_t)i * off;
                    if(i > firstOfLast) os << ",";
                    if(isFloat && cont == 4) { float f; memcpy(&f, p, 4); long long m; int e; dy((double)f, m, e); os << m << ":" << e; }
                    else if(isFloat && cont == 8) { double f; memcpy(&f, p, 8); long long m; int e; dy(f, m, e); os << m << ":" << e; }
                    else os << toHex(p, cont);
                }
                if(rframes == firstOfLast) os << "-";
            }
            // every byte outside the reported frames must be untouched
            std::vector<uint8_t> expectMask(total, 0);
            for(long i = 0; i < rframes; ++i)
                for(unsigned b = 0; b < cont; ++b)
                {
                    expectMask[(size_t)(left - mem.data()) + (size_t)i * off + b] = 1;
                    expectMask[(size_t)(right - mem.data()) + (size_t)i * off + b] = 1;
                }
            long bad = -1;
            for(size_t i = 0; i < total; ++i) if(!expectMask[i] && mem[i] != 0xA5) { bad = (long)i - (long)guard; break; }
            if(bad >= 0 || (bad == -1 && false)) os << " other=changed@" << bad; else os << " other=ok";
        }
        else os << "bad-op";
        std::cout << os.str() << "\n";
        std::cout.flush();
    }
    opn2_close(dev);
    return 0;
}
