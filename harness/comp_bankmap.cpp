// component `bankmap`: the public bank API (opn2_reserveBanks ... opn2_setInstrument, opn2_openBankData)
#include "access.hpp"

namespace {
std::string showKey(const OPN2_BankId &id)
{
    std::ostringstream os; os << (unsigned)id.percussive << ":" << (unsigned)id.msb << ":" << (unsigned)id.lsb; return os.str();
}
}

int comp_bankmap()
{
    OPN2_MIDIPlayer *dev = opn2_init(44100);
    if(!dev) return 3;
    opn2_setNumChips(dev, 1);
    #define map (OpnVerifAccess::player(dev)->m_synth->m_insBanks)
    OPN2_Bank regs[16]; bool valid[16];
    memset(regs, 0, sizeof(regs)); memset(valid, 0, sizeof(valid));

    std::string line;
    while(std::getline(std::cin, line))
    {
        std::vector<std::string> w = splitWords(line);
        if(w.empty() || w[0][0] == '#') continue;
        std::ostringstream os;
        #define TAIL " size=" << map.size() << " cap=" << map.capacity()
        if(w[0] == "reserve" && w.size() == 2)
        {
            int r = opn2_reserveBanks(dev, (unsigned)strtoul(w[1].c_str(), NULL, 10));
            os << "ret=" << r << TAIL;
        }
        else if(w[0] == "get" && w.size() == 6)
        {
            unsigned r = (unsigned)atoi(w[1].c_str()) % 16;
            OPN2_BankId id; id.percussive = (OPN2_UInt8)atoi(w[2].c_str()); id.msb = (OPN2_UInt8)atoi(w[3].c_str()); id.lsb = (OPN2_UInt8)atoi(w[4].c_str());
            OPN2_Bank b;
            int ret = opn2_getBank(dev, &id, atoi(w[5].c_str()), &b);
            os << "ret=" << ret << " key=";
            if(ret == 0)
            {
                regs[r] = b; valid[r] = true;
                OPN2_BankId rid; opn2_getBankId(dev, &b, &rid); os << showKey(rid);
            }
            else os << "-";
            os << TAIL;
        }
        else if(w[0] == "id" && w.size() == 2)
        {
            unsigned r = (unsigned)atoi(w[1].c_str()) % 16;
            if(!valid[r]) os << "bad-handle";
            else { OPN2_BankId rid; int ret = opn2_getBankId(dev, &regs[r], &rid); os << "ret=" << ret << " key=" << showKey(rid) << TAIL; }
        }
        else if(w[0] == "remove" && w.size() == 2)
        {
            unsigned r = (unsigned)atoi(w[1].c_str()) % 16;
            if(!valid[r]) os << "bad-handle";
            else { int ret = opn2_removeBank(dev, &regs[r]); valid[r] = false; os << "ret=" << ret << TAIL; }
        }
        else if(w[0] == "first" && w.size() == 2)
        {
            unsigned r = (unsigned)atoi(w[1].c_str()) % 16;
            OPN2_Bank b;
            int ret = opn2_getFirstBank(dev, &b);
            if(ret == 0) { regs[r] = b; valid[r] = true; OPN2_BankId rid; opn2_getBankId(dev, &b, &rid); os << "ret=0 key=" << showKey(rid) << TAIL; }
            else os << "ret=" << ret << " key=-" << TAIL;
        }
        else if(w[0] == "next" && w.size() == 2)
        {
            unsigned r = (unsigned)atoi(w[1].c_str()) % 16;
            if(!valid[r]) os << "bad-handle";
            else
            {
                int ret = opn2_getNextBank(dev, &regs[r]);
                OPN2_BankId rid; opn2_getBankId(dev, &regs[r], &rid);
                os << "ret=" << ret << " key=" << showKey(rid) << TAIL;
            }
        }
        else if(w[0] == "getins" && w.size() == 3)
        {
            unsigned r = (unsigned)atoi(w[1].c_str()) % 16;
            if(!valid[r]) os << "bad-handle";
            else
            {
                OPN2_Instrument ins; memset(&ins, 0xEE, sizeof(ins));
                int ret = opn2_getInstrument(dev, &regs[r], (unsigned)strtoul(w[2].c_str(), NULL, 10), &ins);
                if(ret != 0) os << "ret=" << ret;
                else
                {
                    uint8_t ops[28];
                    for(int op = 0; op < 4; ++op)
                    {
                        const OPN2_Operator &o = ins.operators[op];
                        uint8_t *p = ops + 7 * op;
                        p[0] = o.dtfm_30; p[1] = o.level_40; p[2] = o.rsatk_50; p[3] = o.amdecay1_60; p[4] = o.decay2_70; p[5] = o.susrel_80; p[6] = o.ssgeg_90;
                    }
                    os << "ret=0 ins=" << ins.note_offset << " " << (int)ins.midi_velocity_offset << " " << (unsigned)ins.percussion_key_number << " "
                       << (unsigned)ins.inst_flags << " " << (unsigned)ins.fbalg << " " << (unsigned)ins.lfosens << " " << toHex(ops, 28) << " "
                       << ins.delay_on_ms << " " << ins.delay_off_ms;
                    if(ins.version != 0) os << " version=" << ins.version;
                }
            }
        }
        else if(w[0] == "setins" && w.size() == 13)
        {
            unsigned r = (unsigned)atoi(w[1].c_str()) % 16;
            std::vector<uint8_t> ops;
            if(!valid[r] || !parseHex(w[10], ops) || ops.size() != 28) os << "bad-handle";
            else
            {
                OPN2_Instrument ins; memset(&ins, 0, sizeof(ins));
                ins.version = atoi(w[3].c_str());
                ins.note_offset = (OPN2_SInt16)atoi(w[4].c_str()); ins.midi_velocity_offset = (OPN2_SInt8)atoi(w[5].c_str());
                ins.percussion_key_number = (OPN2_UInt8)atoi(w[6].c_str()); ins.inst_flags = (OPN2_UInt8)atoi(w[7].c_str());
                ins.fbalg = (OPN2_UInt8)atoi(w[8].c_str()); ins.lfosens = (OPN2_UInt8)atoi(w[9].c_str());
                for(int op = 0; op < 4; ++op)
                {
                    OPN2_Operator &o = ins.operators[op];
                    const uint8_t *p = ops.data() + 7 * op;
                    o.dtfm_30 = p[0]; o.level_40 = p[1]; o.rsatk_50 = p[2]; o.amdecay1_60 = p[3]; o.decay2_70 = p[4]; o.susrel_80 = p[5]; o.ssgeg_90 = p[6];
                }
                ins.delay_on_ms = (OPN2_UInt16)atoi(w[11].c_str()); ins.delay_off_ms = (OPN2_UInt16)atoi(w[12].c_str());
                int ret = opn2_setInstrument(dev, &regs[r], (unsigned)strtoul(w[2].c_str(), NULL, 10), &ins);
                os << "ret=" << ret << TAIL;
            }
        }
        else if(w[0] == "loadbank" && w.size() == 2)
        {
            std::vector<uint8_t> img;
            if(!parseHex(w[1], img)) os << "bad-op";
            else
            {
                uint8_t *blk = (uint8_t *)malloc(img.size() ? img.size() : 1);
                if(!img.empty()) memcpy(blk, img.data(), img.size());
                int ret = opn2_openBankData(dev, blk, (long)img.size());
                free(blk);
                if(ret == 0) memset(valid, 0, sizeof(valid));
                os << "ret=" << ret << TAIL;
            }
        }
        else if(w[0] == "new")
        {
            opn2_close(dev);
            dev = opn2_init(44100);
            opn2_setNumChips(dev, 1);
            memset(valid, 0, sizeof(valid));
            os << "ok" << TAIL;
        }
        else if(w[0] == "list")
        {
            os << "keys=";
            OPN2_Bank b; bool first = true;
            for(int ret = opn2_getFirstBank(dev, &b); ret == 0; ret = opn2_getNextBank(dev, &b))
            {
                OPN2_BankId rid; opn2_getBankId(dev, &b, &rid);
                if(!first) os << ","; first = false;
                os << showKey(rid);
            }
            os << TAIL;
        }
        else os << "bad-op";
        std::cout << os.str() << "\n";
        std::cout.flush();
    }
    opn2_close(dev);
    return 0;
}
