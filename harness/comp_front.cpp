// opnharness front: the register ring of the YMFM OPN2 front-end, observed directly (count and pending entries, oldest first).
// The members are private; this translation unit reads them by compiling the class declaration as a `struct`
// (the object layout is the same; nothing in the library is changed for it).
#include <string>
#include <vector>
#include <cstdio>
#include <cstdlib>
#include <cstring>
#include <sstream>
#include <iostream>
#include <memory>
#include <stdint.h>
#include <stddef.h>
#include "chips/opn_chip_base.h"
// the members of YmFmOPN2 stand before the first access specifier of a `class`: declared as a `struct` they are public
#define class struct
#include "chips/ymfm_opn2.h"
#undef class

std::vector<std::string> splitWords(const std::string &line);

static std::string observe(YmFmOPN2 &c)
{
    std::ostringstream o;
    unsigned long long h = 7;
    const size_t cap = YmFmOPN2::c_queueSize;
    long n = c.m_queueCount;
    std::string first = "-", last = "-";
    for(long i = 0; i < n && i < (long)cap; ++i)
    {
        const YmFmOPN2::Reg &r = c.m_queue[(c.m_tailPos + (size_t)i) % cap];
        h = (unsigned long long)(((unsigned __int128)h * 1000003u + (unsigned long long)r.addr * 256u + r.data + 1u) % 2305843009213693951ull);
        std::ostringstream e; e << r.addr << ":" << (unsigned)r.data;
        if(i == 0) first = e.str();
        last = e.str();
    }
    o << "cnt=" << n << " pend=" << h << " first=" << first << " last=" << last;
    return o.str();
}

int comp_front()
{
    std::unique_ptr<YmFmOPN2> chip;
    std::string line;
    while(std::getline(std::cin, line))
    {
        std::vector<std::string> w = splitWords(line);
        if(w.empty() || w[0][0] == '#') continue;
        if(w[0] == "new" && w.size() == 1)
        {
            chip.reset(new YmFmOPN2(OPNChip_OPN2));
            chip->setRate(44100, 7670454);
            std::cout << observe(*chip) << "\n" << std::flush;
        }
        else if(w[0] == "w" && w.size() == 4 && chip)
        {
            unsigned long p = strtoul(w[1].c_str(), 0, 10), a = strtoul(w[2].c_str(), 0, 10), d = strtoul(w[3].c_str(), 0, 10);
            if(a > 255 || d > 255) { std::cout << "bad-op\n" << std::flush; continue; }
            chip->writeReg((uint32_t)p, (uint16_t)a, (uint8_t)d);
            std::cout << observe(*chip) << "\n" << std::flush;
        }
        else if(w[0] == "n" && w.size() == 2 && chip)
        {
            unsigned long k = strtoul(w[1].c_str(), 0, 10);
            int16_t frame[2];
            for(unsigned long i = 0; i < k; ++i) chip->nativeGenerate(frame);
            std::cout << observe(*chip) << "\n" << std::flush;
        }
        else
            std::cout << "bad-op\n" << std::flush;
    }
    return 0;
}
