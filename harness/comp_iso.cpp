// component `iso`: several instances in one process, optionally rendered on concurrent threads (C14)
#include "access.hpp"
#include <map>
#include <thread>
#include <cmath>

namespace {
typedef unsigned long long u64;
u64 fnv(const short *p, size_t n, u64 h = 14695981039346656037ULL)
{
    for(size_t i = 0; i < n; ++i) { h ^= (unsigned char)(p[i] & 0xFF); h *= 1099511628211ULL; h ^= (unsigned char)((p[i] >> 8) & 0xFF); h *= 1099511628211ULL; }
    return h;
}
struct Inst
{
    OPN2_MIDIPlayer *dev;
    u64 pcm;            // running digest of everything this instance rendered
    u64 regs;           // running digest of its register writes
    Inst() : dev(0), pcm(14695981039346656037ULL), regs(14695981039346656037ULL) {}
};
void regTap(void *ud, int kind, size_t chip, unsigned port, unsigned reg, unsigned val)
{
    Inst *in = static_cast<Inst *>(ud);
    unsigned v[5] = {(unsigned)kind, (unsigned)chip, port, reg, val};
    for(int i = 0; i < 5; ++i) { in->regs ^= v[i] & 0xFF; in->regs *= 1099511628211ULL; in->regs ^= (v[i] >> 8) & 0xFF; in->regs *= 1099511628211ULL; }
}
void render(Inst *in, long frames)
{
    std::vector<short> buf(8192);
    long left = frames * 2;
    while(left > 0)
    {
        long want = left > 8192 ? 8192 : left;
        int r = opn2_generate(in->dev, (int)want, buf.data());
        if(r <= 0) break;
        in->pcm = fnv(buf.data(), (size_t)r, in->pcm);
        left -= r;
    }
}
}

int comp_iso()
{
    std::map<long, Inst> insts;
    std::string line;
    while(std::getline(std::cin, line))
    {
        std::vector<std::string> w = splitWords(line);
        if(w.empty() || w[0][0] == '#') continue;
        std::ostringstream os;
        if(w[0] == "threads" && w.size() >= 3)
        {
            // threads <frames> <k1> <k2> ...: every named instance renders <frames> frames on its own thread, at the same time
            long frames = strtol(w[1].c_str(), 0, 10);
            std::vector<std::thread> th;
            std::vector<Inst *> who;
            for(size_t i = 2; i < w.size(); ++i) { long k = strtol(w[i].c_str(), 0, 10); if(insts.count(k) && insts[k].dev) who.push_back(&insts[k]); }
            for(size_t i = 0; i < who.size(); ++i) th.push_back(std::thread(render, who[i], frames));
            for(size_t i = 0; i < th.size(); ++i) th[i].join();
            os << "ok";
            std::cout << os.str() << "\n" << std::flush;
            continue;
        }
        if(w.size() < 2) { std::cout << "bad-op\n" << std::flush; continue; }
        long k = strtol(w[0].c_str(), 0, 10);
        const std::string &o = w[1];
        std::vector<long> a;
        for(size_t i = 2; i < w.size(); ++i) a.push_back(strtol(w[i].c_str(), 0, 10));
        Inst &in = insts[k];
        if(o == "new" && a.size() == 3)
        {
            if(in.dev) opn2_close(in.dev);
            in = Inst();
            in.dev = opn2_init(a[0]);
            opn2_setNumChips(in.dev, (int)a[2]);
            opn2_switchEmulator(in.dev, (int)a[1]);
            os << (in.dev ? "ok" : "null");
        }
        else if(!in.dev) os << "nodev";
        else if(o == "bank" && w.size() == 3)
        {
            std::vector<uint8_t> img; parseHex(w[2], img);
            os << "ret=" << opn2_openBankData(in.dev, img.data(), (long)img.size());
            OPN2 &synth = *OpnVerifAccess::player(in.dev)->m_synth;
            synth.m_verifTap = regTap; synth.m_verifTapData = &insts[k];
        }
        else if(o == "emu" && a.size() == 1) os << "ret=" << opn2_switchEmulator(in.dev, (int)a[0]);
        else if(o == "chiptype" && a.size() == 1) { opn2_setChipType(in.dev, (int)a[0]); os << "ok"; }
        else if(o == "runatpcm" && a.size() == 1) os << "ret=" << opn2_setRunAtPcmRate(in.dev, (int)a[0]);
        else if(o == "chips" && a.size() == 1) os << "ret=" << opn2_setNumChips(in.dev, (int)a[0]);
        else if(o == "reset") { opn2_reset(in.dev); os << "ok"; }
        else if(o == "lfo" && a.size() == 1) { opn2_setLfoEnabled(in.dev, (int)a[0]); os << "ok"; }
        else if(o == "lfofreq" && a.size() == 1) { opn2_setLfoFrequency(in.dev, (int)a[0]); os << "ok"; }
        else if(o == "on" && a.size() == 3) os << "ret=" << opn2_rt_noteOn(in.dev, (OPN2_UInt8)a[0], (OPN2_UInt8)a[1], (OPN2_UInt8)a[2]);
        else if(o == "off" && a.size() == 2) { opn2_rt_noteOff(in.dev, (OPN2_UInt8)a[0], (OPN2_UInt8)a[1]); os << "ok"; }
        else if(o == "cc" && a.size() == 3) { opn2_rt_controllerChange(in.dev, (OPN2_UInt8)a[0], (OPN2_UInt8)a[1], (OPN2_UInt8)a[2]); os << "ok"; }
        else if(o == "pc" && a.size() == 2) { opn2_rt_patchChange(in.dev, (OPN2_UInt8)a[0], (OPN2_UInt8)a[1]); os << "ok"; }
        else if(o == "gen" && a.size() == 1) { render(&in, a[0]); os << "pcm=" << in.pcm << " regs=" << in.regs; }
        else if(o == "digest") os << "pcm=" << in.pcm << " regs=" << in.regs;
        else if(o == "close") { opn2_close(in.dev); in.dev = 0; os << "ok"; }
        else os << "bad-op";
        std::cout << os.str() << "\n" << std::flush;
    }
    for(std::map<long, Inst>::iterator it = insts.begin(); it != insts.end(); ++it) if(it->second.dev) opn2_close(it->second.dev);
    return 0;
}
