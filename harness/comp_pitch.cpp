// component `pitch`: tone computation and OPN2::noteOn frequency search through the public API
#include "access.hpp"
#include <cmath>

namespace {
struct PTap
{
    std::vector<unsigned> chips, ports, regs, vals;
    bool haveNote; double tone, hertz; size_t chan; int noteCalls;
    PTap() : haveNote(false), tone(0), hertz(0), chan(0), noteCalls(0) {}
};
void regTap(void *ud, int kind, size_t chip, unsigned port, unsigned reg, unsigned val)
{
    PTap *t = static_cast<PTap *>(ud);
    if(kind != 0) return;
    t->chips.push_back((unsigned)chip); t->ports.push_back(port); t->regs.push_back(reg); t->vals.push_back(val);
}
void noteTap(void *ud, size_t c, double tone, double hertz)
{
    PTap *t = static_cast<PTap *>(ud);
    t->haveNote = true; t->tone = tone; t->hertz = hertz; t->chan = c; t->noteCalls++;
}
// exact value of a finite double as <integer mantissa>:<binary exponent>
std::string dyadic(double x)
{
    if(x == 0) return "0:0";
    if(std::isinf(x)) return x > 0 ? "inf" : "-inf";
    if(std::isnan(x)) return "nan";
    int e; double m = std::frexp(x, &e);      // x = m * 2^e, 0.5 <= |m| < 1
    long long mi = (long long)std::ldexp(m, 53);
    e -= 53;
    while(mi != 0 && (mi % 2) == 0) { mi /= 2; e++; }
    std::ostringstream os; os << mi << ":" << e; return os.str();
}
}

int comp_pitch()
{
    OPN2_MIDIPlayer *dev = opn2_init(44100);
    if(!dev) return 3;
    opn2_setNumChips(dev, 1);
    PTap tap;
    std::string line;
    while(std::getline(std::cin, line))
    {
        std::vector<std::string> w = splitWords(line);
        if(w.empty() || w[0][0] == '#') continue;
        std::ostringstream os;
        // pitch fam key bend14 rpnMsb rpnLsb noteOffset dtmul0 dtmul1 dtmul2 dtmul3 perc drumKey
        if(w[0] == "pitch" && w.size() == 13)
        {
            std::vector<long> a;
            for(size_t i = 1; i < w.size(); ++i) a.push_back(strtol(w[i].c_str(), NULL, 10));
            opn2_panic(dev);
            opn2_rt_resetState(dev);
            opn2_setChipType(dev, (int)a[0]);            // applySetup: new chips, family
            OPNMIDIplay *play = OpnVerifAccess::player(dev);
            OPN2 &synth = *play->m_synth;
            synth.m_verifTap = regTap; synth.m_verifNoteTap = noteTap; synth.m_verifTapData = &tap;
            OPN2_Instrument ins; memset(&ins, 0, sizeof(ins));
            ins.note_offset = (OPN2_SInt16)a[5];
            ins.percussion_key_number = (OPN2_UInt8)a[11];
            ins.fbalg = 7; ins.delay_on_ms = 1000; ins.delay_off_ms = 100;
            for(int op = 0; op < 4; ++op) { ins.operators[op].dtfm_30 = (OPN2_UInt8)a[6 + op]; ins.operators[op].rsatk_50 = 0x1f; }
            bool perc = a[10] != 0;
            unsigned key = (unsigned)a[1];
            OPN2_BankId id; id.percussive = perc ? 1 : 0; id.msb = 0; id.lsb = 0;
            OPN2_Bank bank;
            if(opn2_getBank(dev, &id, OPNMIDI_Bank_Create, &bank) != 0) { std::cout << "bad-bank\n"; continue; }
            opn2_setInstrument(dev, &bank, perc ? (key > 127 ? 127 : key) : 0, &ins);
            unsigned ch = perc ? 9 : 0;
            opn2_rt_patchChange(dev, ch, 0);
            opn2_rt_controllerChange(dev, ch, 101, 0);
            opn2_rt_controllerChange(dev, ch, 100, 0);
            opn2_rt_controllerChange(dev, ch, 6, (OPN2_UInt8)a[3]);
            opn2_rt_controllerChange(dev, ch, 38, (OPN2_UInt8)a[4]);
            opn2_rt_pitchBend(dev, ch, (OPN2_UInt16)a[2]);
            tap.chips.clear(); tap.ports.clear(); tap.regs.clear(); tap.vals.clear(); tap.haveNote = false; tap.noteCalls = 0;
            int r = opn2_rt_noteOn(dev, ch, (OPN2_UInt8)key, 100);
            os << "ret=" << r;
            if(tap.haveNote)
            {
                // chip-side effect with the YM2612 frequency latch: 0xA4+cc loads the latch, 0xA0+cc commits latch:low
                unsigned port = (tap.chan % 6 >= 3) ? 1 : 0, cc = (unsigned)(tap.chan % 3);
                int latch = -1, ftone = -1, keyon = 0; int mul[4] = {-1, -1, -1, -1};
                bool afterNote = false;
                for(size_t i = 0; i < tap.regs.size(); ++i)
                {
                    if(tap.ports[i] == port && tap.regs[i] == 0xA4 + cc) latch = (int)tap.vals[i];
                    if(tap.ports[i] == port && tap.regs[i] == 0xA0 + cc) ftone = (latch < 0 ? -1 : ((latch << 8) | (int)tap.vals[i]));
                    for(int op = 0; op < 4; ++op)
                        if(tap.ports[i] == port && tap.regs[i] == 0x30 + 4u * op + cc) mul[op] = (int)tap.vals[i];
                    if(tap.regs[i] == 0x28 && (tap.vals[i] & 0xF0)) keyon++;
                    (void)afterNote;
                }
                os << " calls=" << tap.noteCalls << " tone=" << dyadic(tap.tone) << " hertz=" << dyadic(tap.hertz) << " ftone=" << ftone
                   << " mul=" << mul[0] << "," << mul[1] << "," << mul[2] << "," << mul[3] << " keyon=" << keyon;
            }
            else os << " calls=" << tap.noteCalls << " nosearch";
        }
        else os << "bad-op";
        std::cout << os.str() << "\n";
        std::cout.flush();
    }
    opn2_close(dev);
    return 0;
}
