// component `synth`: the real-time API against Model/Synth.lean — canonical snapshot after every call
#include "access.hpp"
#include <cmath>
#include <map>

namespace {
typedef unsigned long long u64;
struct H
{
    u64 h; H() : h(14695981039346656037ULL) {}
    void b(unsigned x) { h ^= (x & 0xFF); h *= 1099511628211ULL; }
    void i(long long x) { u64 u = (u64)x; for(int k = 0; k < 8; ++k) b((unsigned)((u >> (8 * k)) & 0xFF)); }
    void bo(bool x) { b(x ? 1 : 0); }
};
void hashTimbre(H &h, const OpnTimbre &t)
{
    for(int op = 0; op < 4; ++op) for(int d = 0; d < 7; ++d) h.i(t.OPS[op].data[d]);
    h.i(t.fbalg); h.i(t.lfosens); h.i(t.noteOffset);
}
u64 timbreHash(const OpnTimbre &t) { H h; hashTimbre(h, t); return h.h; }

struct Shadow { bool keyOn; long ftone; unsigned tl[4], mul[4], b4, pan; Shadow() { reset(); }
                void reset() { keyOn = false; ftone = -1; for(int i = 0; i < 4; ++i) { tl[i] = 0; mul[i] = 0; } b4 = 0; pan = 64; } };
struct NoteTapRec { size_t c; double tone, hertz; };
struct State
{
    std::vector<Shadow> sh;            // per chip channel
    std::map<size_t, int> latch;       // per chip: last 0xA4..0xA6 value
    std::vector<NoteTapRec> taps;
    void ensure(size_t n) { if(sh.size() < n) sh.resize(n); }
};
void regTap(void *ud, int kind, size_t chip, unsigned port, unsigned reg, unsigned val)
{
    State *st = static_cast<State *>(ud);
    st->ensure((chip + 1) * 6);
    if(kind == 1) { if(reg < 6) st->sh[chip * 6 + reg].pan = val; return; }
    if(reg == 0x2B) { for(size_t c = chip * 6; c < chip * 6 + 6; ++c) st->sh[c].reset(); st->latch.erase(chip); return; }
    if(reg == 0x28)
    {
        static const int map[8] = {0, 1, 2, -1, 3, 4, 5, -1};
        int ch = map[val & 7];
        if(ch >= 0) st->sh[chip * 6 + ch].keyOn = (val & 0xF0) != 0;
        return;
    }
    unsigned cc = reg & 3;
    if(cc == 3) return;
    size_t c = chip * 6 + (port ? 3 : 0) + cc;
    if(reg >= 0x30 && reg < 0x40) st->sh[c].mul[(reg - 0x30) >> 2] = val;
    else if(reg >= 0x40 && reg < 0x50) st->sh[c].tl[(reg - 0x40) >> 2] = val;
    else if(reg >= 0xA4 && reg < 0xA8) st->latch[chip] = (int)val;
    else if(reg >= 0xA0 && reg < 0xA4) { st->sh[c].ftone = st->latch.count(chip) ? ((st->latch[chip] << 8) | (long)val) : -1; }
    else if(reg >= 0xB4 && reg < 0xB8) st->sh[c].b4 = val;
}
void noteTap(void *ud, size_t c, double tone, double hertz)
{
    State *st = static_cast<State *>(ud);
    NoteTapRec r; r.c = c; r.tone = tone; r.hertz = hertz; st->taps.push_back(r);
}
void dyadicParts(double x, long long &m, int &e)
{
    if(x == 0) { m = 0; e = 0; return; }
    int ex; double fr = std::frexp(x, &ex);
    m = (long long)std::ldexp(fr, 53); e = ex - 53;
    while(m != 0 && (m % 2) == 0) { m /= 2; e++; }
}
std::string ratStr(double x)
{
    long long m; int e; dyadicParts(x, m, e);
    std::ostringstream os;
    if(e >= 0) os << (m * (1LL << e)) << "/1";
    else os << m << "/" << (1ULL << (-e));     // ttl values have small exponents
    return os.str();
}

std::string snapshot(OPN2_MIDIPlayer *dev, State &st)
{
    OPNMIDIplay *play = OpnVerifAccess::player(dev);
    OPN2 &synth = *play->m_synth;
    std::vector<OPNMIDIplay::OpnChannel> &chips = OpnVerifAccess::chipChannels(play);
    std::vector<OpnTimbre> &cache = OpnVerifAccess::insCache(synth);
    st.ensure(chips.size());
    std::ostringstream os;
    H ctl;
    for(size_t i = 0; i < play->m_midiChannels.size(); ++i)
    {
        OPNMIDIplay::MIDIchannel &c = play->m_midiChannels[i];
        ctl.i(c.patch); ctl.i(c.bank_msb); ctl.i(c.bank_lsb); ctl.i(c.volume); ctl.i(c.expression); ctl.i(c.panning);
        ctl.i(c.vibrato); ctl.i(c.aftertouch); ctl.i(c.portamento);
        ctl.bo(c.sustain); ctl.bo(c.softPedal); ctl.bo(c.portamentoEnable); ctl.bo(c.portamentoRate != HUGE_VAL); ctl.bo(c.noteAfterTouchInUse);
        ctl.bo(c.vibpos == 0.0); ctl.bo(c.nrpn); ctl.bo(c.is_xg_percussion);
        ctl.i(c.portamentoSource); ctl.i(c.bend); ctl.i(c.bendsense_msb); ctl.i(c.bendsense_lsb); ctl.i(c.vibdelay_us);
        ctl.i(c.lastlrpn); ctl.i(c.lastmrpn); ctl.i(c.brightness);
        if(c.noteAfterTouchInUse) for(int k = 0; k < 128; ++k) ctl.i(c.noteAftertouch[k]);
    }
    H rh;
    for(size_t c = 0; c < chips.size(); ++c)
    {
        Shadow &s = st.sh[c];
        rh.bo(s.keyOn); rh.i(s.ftone);
        for(int k = 0; k < 4; ++k) rh.i(s.tl[k]);
        for(int k = 0; k < 4; ++k) rh.i(s.mul[k]);
        hashTimbre(rh, cache[c]); rh.i(s.b4); rh.i(s.pan);
    }
    os << "mode=" << play->m_synthMode << " mv=" << (unsigned)synth.m_masterVolume << " dev=" << (unsigned)play->m_sysExDeviceId
       << " arp=" << OpnVerifAccess::arpeggioCounter(play) << " nch=" << chips.size() << " nmidi=" << play->m_midiChannels.size()
       << " ctl=" << ctl.h << " R=" << rh.h;
    for(size_t i = 0; i < play->m_midiChannels.size(); ++i)
    {
        OPNMIDIplay::MIDIchannel &c = play->m_midiChannels[i];
        if(c.activenotes.empty() && c.gliding_note_count == 0 && c.extended_note_count == 0) continue;
        os << " m" << i << "{g" << c.gliding_note_count << ",e" << c.extended_note_count << ":";
        bool first = true;
        for(OPNMIDIplay::MIDIchannel::notes_iterator it = c.activenotes.begin(); !it.is_end(); ++it)
        {
            OPNMIDIplay::MIDIchannel::NoteInfo &n = it->value;
            if(!first) os << ";"; first = false;
            if(n.isBlank)
            {
                // the dummy record of a blank instrument: only key, flags (the percussion flag is read by the allocator) and ttl are defined
                os << (unsigned)n.note << ":0:0:0:" << (n.isPercussion ? "PB:" : "B:") << ratStr(n.ttl) << ">";
                continue;
            }
            os << (unsigned)n.note << ":" << (unsigned)n.vol << ":" << n.noteTone << ":" << n.midiins << ":"
               << (n.isPercussion ? "P" : "") << (n.isBlank ? "B" : "") << (n.isOnExtendedLifeTime ? "X" : "") << (n.glideRate != HUGE_VAL ? "G" : "")
               << ":" << ratStr(n.ttl) << ">";
            for(unsigned k = 0; k < n.chip_channels_count; ++k) { if(k) os << ","; os << n.chip_channels[k].chip_chan; }
        }
        os << "}";
    }
    for(size_t c = 0; c < chips.size(); ++c)
    {
        OPNMIDIplay::OpnChannel &ch = chips[c];
        Shadow &s = st.sh[c];
        if(ch.users.empty() && !s.keyOn && ch.koff_time_until_neglible_us == 0) continue;
        os << " c" << c << "{k" << (s.keyOn ? 1 : 0) << " koff=" << ch.koff_time_until_neglible_us << " f=";
        if(s.ftone < 0) os << "-"; else os << s.ftone;
        os << " tl=" << s.tl[0] << "." << s.tl[1] << "." << s.tl[2] << "." << s.tl[3]
           << " mul=" << s.mul[0] << "." << s.mul[1] << "." << s.mul[2] << "." << s.mul[3]
           << " p=" << timbreHash(cache[c]) << " b4=" << s.b4 << " pan=" << s.pan << " rec=" << timbreHash(ch.recent_ins.ains) << ":";
        bool first = true;
        for(OPNMIDIplay::OpnChannel::users_iterator j = ch.users.begin(); !j.is_end(); ++j)
        {
            OPNMIDIplay::OpnChannel::LocationData &d = j->value;
            if(!first) os << ";"; first = false;
            os << d.loc.MidCh << ":" << (unsigned)d.loc.note << ":" << d.sustained << ":" << (d.fixed_sustain ? 1 : 0) << ":"
               << d.kon_time_until_neglible_us << ":" << d.vibdelay_us;
        }
        os << "}";
    }
    // the taps of this call, for the model: chan:toneMant:toneExp:hertzMant:hertzExp
    os << " @";
    for(size_t i = 0; i < st.taps.size(); ++i)
    {
        long long tm, hm; int te, he;
        dyadicParts(st.taps[i].tone, tm, te);
        if(st.taps[i].hertz < 0) { hm = -1; he = 0; } else dyadicParts(st.taps[i].hertz, hm, he);
        os << " " << st.taps[i].c << ":" << tm << ":" << te << ":" << hm << ":" << he;
    }
    st.taps.clear();
    return os.str();
}

void hook(OPN2_MIDIPlayer *dev, State &st)
{
    OPN2 &synth = *OpnVerifAccess::player(dev)->m_synth;
    synth.m_verifTap = regTap; synth.m_verifNoteTap = noteTap; synth.m_verifTapData = &st;
}
}

int comp_synth()
{
    State *st = new State();
    OPN2_MIDIPlayer *dev = opn2_init(65536);
    if(!dev) return 3;
    hook(dev, *st);
    std::string line;
    short *pcm = new short[262144];
    while(std::getline(std::cin, line))
    {
        std::vector<std::string> w = splitWords(line);
        if(w.empty() || w[0][0] == '#') continue;
        std::vector<long> a;
        for(size_t i = 1; i < w.size(); ++i) a.push_back(strtol(w[i].c_str(), NULL, 10));
        std::ostringstream ret;
        const std::string &o = w[0];
        if(o == "new" && a.size() == 2)
        {
            opn2_close(dev);
            delete st; st = new State();
            dev = opn2_init(a[0]);
            hook(dev, *st);
            // the constructor already built 2 chips before the tap was installed; rebuild through the public API
            opn2_setNumChips(dev, (int)a[1] == 1 ? 2 : 1);
            opn2_setNumChips(dev, (int)a[1]);
            st->taps.clear();
            ret << "-";
        }
        else if(o == "bank" && w.size() == 2)
        {
            std::vector<uint8_t> img;
            if(!parseHex(w[1], img)) { std::cout << "bad-op\n"; continue; }
            ret << opn2_openBankData(dev, img.data(), (long)img.size());
        }
        else if(o == "setins" && w.size() == 14)
        {
            std::vector<uint8_t> ops;
            if(!parseHex(w[11], ops) || ops.size() != 28) { std::cout << "bad-op\n"; continue; }
            OPN2_BankId id; id.percussive = (OPN2_UInt8)a[0]; id.msb = (OPN2_UInt8)a[1]; id.lsb = (OPN2_UInt8)a[2];
            OPN2_Bank bank;
            int r = opn2_getBank(dev, &id, OPNMIDI_Bank_Create, &bank);
            if(r == 0)
            {
                OPN2_Instrument ins; memset(&ins, 0, sizeof(ins));
                ins.note_offset = (OPN2_SInt16)a[4]; ins.midi_velocity_offset = (OPN2_SInt8)a[5];
                ins.percussion_key_number = (OPN2_UInt8)a[6]; ins.inst_flags = (OPN2_UInt8)a[7]; ins.fbalg = (OPN2_UInt8)a[8]; ins.lfosens = (OPN2_UInt8)a[9];
                for(int op = 0; op < 4; ++op)
                {
                    OPN2_Operator &x = ins.operators[op]; const uint8_t *p = ops.data() + 7 * op;
                    x.dtfm_30 = p[0]; x.level_40 = p[1]; x.rsatk_50 = p[2]; x.amdecay1_60 = p[3]; x.decay2_70 = p[4]; x.susrel_80 = p[5]; x.ssgeg_90 = p[6];
                }
                ins.delay_on_ms = (OPN2_UInt16)a[11]; ins.delay_off_ms = (OPN2_UInt16)a[12];
                r = opn2_setInstrument(dev, &bank, (unsigned)a[3], &ins);
            }
            ret << r;
        }
        else if(o == "on" && a.size() == 3) ret << opn2_rt_noteOn(dev, (OPN2_UInt8)a[0], (OPN2_UInt8)a[1], (OPN2_UInt8)a[2]);
        else if(o == "off" && a.size() == 2) { opn2_rt_noteOff(dev, (OPN2_UInt8)a[0], (OPN2_UInt8)a[1]); ret << "-"; }
        else if(o == "cc" && a.size() == 3) { opn2_rt_controllerChange(dev, (OPN2_UInt8)a[0], (OPN2_UInt8)a[1], (OPN2_UInt8)a[2]); ret << "-"; }
        else if(o == "pc" && a.size() == 2) { opn2_rt_patchChange(dev, (OPN2_UInt8)a[0], (OPN2_UInt8)a[1]); ret << "-"; }
        else if(o == "pb" && a.size() == 2) { opn2_rt_pitchBend(dev, (OPN2_UInt8)a[0], (OPN2_UInt16)a[1]); ret << "-"; }
        else if(o == "bankmsb" && a.size() == 2) { opn2_rt_bankChangeMSB(dev, (OPN2_UInt8)a[0], (OPN2_UInt8)a[1]); ret << "-"; }
        else if(o == "banklsb" && a.size() == 2) { opn2_rt_bankChangeLSB(dev, (OPN2_UInt8)a[0], (OPN2_UInt8)a[1]); ret << "-"; }
        else if(o == "nat" && a.size() == 3) { opn2_rt_noteAfterTouch(dev, (OPN2_UInt8)a[0], (OPN2_UInt8)a[1], (OPN2_UInt8)a[2]); ret << "-"; }
        else if(o == "cat" && a.size() == 2) { opn2_rt_channelAfterTouch(dev, (OPN2_UInt8)a[0], (OPN2_UInt8)a[1]); ret << "-"; }
        else if(o == "sysex" && w.size() == 2)
        {
            std::vector<uint8_t> msg;
            if(!parseHex(w[1], msg)) { std::cout << "bad-op\n"; continue; }
            // exact-size heap block: ASan sees any read past the message
            uint8_t *blk = (uint8_t *)malloc(msg.size() ? msg.size() : 1);
            if(!msg.empty()) memcpy(blk, msg.data(), msg.size());
            ret << opn2_rt_systemExclusive(dev, blk, msg.size());
            free(blk);
        }
        else if(o == "panic") { opn2_panic(dev); ret << "-"; }
        else if(o == "rs") { opn2_rt_resetState(dev); ret << "-"; }
        else if(o == "gen" && a.size() == 1) { long n = a[0]; if(n > 262144) n = 262144; ret << opn2_generate(dev, (int)n, pcm); }
        else if(o == "arp" && a.size() == 1) { opn2_setAutoArpeggio(dev, (int)a[0]); ret << "-"; }
        else if(o == "frb" && a.size() == 1) { opn2_setFullRangeBrightness(dev, (int)a[0]); ret << "-"; }
        else if(o == "sm" && a.size() == 1) { opn2_setScaleModulators(dev, (int)a[0]); ret << "-"; }
        else if(o == "softpan" && a.size() == 1) { opn2_setSoftPanEnabled(dev, (int)a[0]); ret << "-"; }
        else if(o == "alloc" && a.size() == 1) { opn2_setChannelAllocMode(dev, (int)a[0]); ret << "-"; }
        else if(o == "vm" && a.size() == 1) { opn2_setVolumeRangeModel(dev, (int)a[0]); ret << "-"; }
        else if(o == "devid" && a.size() == 1) ret << opn2_setDeviceIdentifier(dev, (unsigned)a[0]);
        else if(o == "chips" && a.size() == 1) ret << opn2_setNumChips(dev, (int)a[0]);
        else if(o == "emu" && a.size() == 1) ret << opn2_switchEmulator(dev, (int)a[0]);
        else if(o == "reset") { opn2_reset(dev); ret << "-"; }
        else if(o == "chiptype" && a.size() == 1) { opn2_setChipType(dev, (int)a[0]); ret << "-"; }
        else if(o == "runatpcm" && a.size() == 1) { opn2_setRunAtPcmRate(dev, (int)a[0]); ret << "-"; }
        else { std::cout << "bad-op\n"; continue; }
        std::cout << "ret=" << ret.str() << " " << snapshot(dev, *st) << "\n";
        std::cout.flush();
    }
    opn2_close(dev);
    return 0;
}
