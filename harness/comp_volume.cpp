// component `volume`: OPN2::touchNote against Model/Volume.lean
#include "access.hpp"

namespace {
struct Tap { std::vector<unsigned> regs, vals; bool all; std::vector<unsigned> chips, ports; Tap() : all(false) {} };
void tapfn(void *ud, int kind, size_t chip, unsigned port, unsigned reg, unsigned val)
{
    Tap *t = static_cast<Tap *>(ud);
    if(kind != 0) return;
    if(t->all || (chip == 0 && port == 0))
    {
        t->regs.push_back(reg); t->vals.push_back(val);
        t->chips.push_back((unsigned)chip); t->ports.push_back(port);
    }
}

// apitouch: the same quantity through the public API only (bank API, setters, SysEx master volume, CCs, note-on)
// args: model alg scaleMod fullRange cc74 perc softPedal veloff vel vol expr master tl0 tl1 tl2 tl3
std::string apiTouch(OPN2_MIDIPlayer *dev, Tap &tap, const std::vector<long> &a)
{
    OPNMIDIplay *play = OpnVerifAccess::player(dev);
    opn2_panic(dev);
    opn2_rt_resetState(dev);
    OPN2_Instrument ins;
    memset(&ins, 0, sizeof(ins));
    ins.fbalg = (OPN2_UInt8)a[1];
    ins.midi_velocity_offset = (OPN2_SInt8)a[7];
    ins.delay_on_ms = 1000; ins.delay_off_ms = 100;
    for(int op = 0; op < 4; ++op)
    {
        ins.operators[op].level_40 = (OPN2_UInt8)a[12 + op];
        ins.operators[op].dtfm_30 = 1;
        ins.operators[op].rsatk_50 = 0x1f;
    }
    for(int perc = 0; perc < 2; ++perc)
    {
        OPN2_BankId id; id.percussive = (OPN2_UInt8)perc; id.msb = 0; id.lsb = 0;
        OPN2_Bank bank;
        if(opn2_getBank(dev, &id, OPNMIDI_Bank_Create, &bank) != 0) return "bad-bank";
        if(opn2_setInstrument(dev, &bank, perc ? 60 : 0, &ins) != 0) return "bad-setins";
    }
    opn2_setVolumeRangeModel(dev, (int)a[0] + 1);
    opn2_setScaleModulators(dev, (int)a[2]);
    opn2_setFullRangeBrightness(dev, (int)a[3]);
    unsigned ch = a[5] ? 9 : 0;
    OPN2_UInt8 mv[8] = {0xF0, 0x7F, 0x7F, 0x04, 0x01, 0x00, (OPN2_UInt8)(a[11] & 0x7F), 0xF7};
    if(opn2_rt_systemExclusive(dev, mv, 8) != 1) return "bad-sysex";
    opn2_rt_patchChange(dev, ch, 0);
    opn2_rt_controllerChange(dev, ch, 7, (OPN2_UInt8)a[9]);
    opn2_rt_controllerChange(dev, ch, 11, (OPN2_UInt8)a[10]);
    opn2_rt_controllerChange(dev, ch, 74, (OPN2_UInt8)a[4]);
    opn2_rt_controllerChange(dev, ch, 67, a[6] ? 127 : 0);
    tap.all = true;
    tap.regs.clear(); tap.vals.clear(); tap.chips.clear(); tap.ports.clear();
    int r = opn2_rt_noteOn(dev, ch, 60, (OPN2_UInt8)a[8]);
    tap.all = false;
    if(!r) return "rejected";
    // find the key-on write, derive the chip channel, then take the last write to each level register
    int kchip = -1, kch = -1;
    for(size_t i = 0; i < tap.regs.size(); ++i)
        if(tap.regs[i] == 0x28 && (tap.vals[i] & 0xF0)) { kchip = (int)tap.chips[i]; kch = (int)(tap.vals[i] & 7); }
    if(kchip < 0) return "no-keyon";
    unsigned port = (kch >= 4) ? 1 : 0, cc = (unsigned)(kch & 3);
    std::ostringstream os;
    os << "ok";
    for(unsigned op = 0; op < 4; ++op)
    {
        int v = -1;
        for(size_t i = 0; i < tap.regs.size(); ++i)
            if((int)tap.chips[i] == kchip && tap.ports[i] == port && tap.regs[i] == 0x40 + cc + 4 * op) v = (int)tap.vals[i];
        os << " " << v;
    }
    (void)play;
    return os.str();
}
}

int comp_volume()
{
    OPN2_MIDIPlayer *dev = opn2_init(44100);
    if(!dev) return 3;
    opn2_setNumChips(dev, 1);
    OPNMIDIplay *play = OpnVerifAccess::player(dev);
    OPN2 &synth = *play->m_synth;
    Tap tap;
    synth.m_verifTap = tapfn;
    synth.m_verifTapData = &tap;

    std::string line;
    while(std::getline(std::cin, line))
    {
        std::vector<std::string> w = splitWords(line);
        if(w.empty() || w[0][0] == '#') continue;
        std::vector<unsigned long> a;
        for(size_t i = 1; i < w.size(); ++i) a.push_back(strtoul(w[i].c_str(), NULL, 10));
        if(w[0] == "touch" && a.size() == 12)
        {
            synth.m_volumeScale = static_cast<OPN2::VolumesScale>(a[0]);
            OpnTimbre &t = OpnVerifAccess::insCache(synth)[0];
            t.fbalg = static_cast<uint8_t>(a[1]);
            synth.m_scaleModulators = a[2] != 0;
            synth.m_masterVolume = static_cast<uint8_t>(a[7]);
            for(int op = 0; op < 4; ++op) t.OPS[op].data[1] = static_cast<uint8_t>(a[8 + op]);
            tap.regs.clear(); tap.vals.clear();
            synth.touchNote(0, a[4], a[5], a[6], static_cast<uint8_t>(a[3]));
            // canonical: the value written to 0x40, 0x44, 0x48, 0x4C (each must be written exactly once)
            unsigned out[4]; int cnt[4] = {0, 0, 0, 0};
            for(size_t i = 0; i < tap.regs.size(); ++i)
                for(int op = 0; op < 4; ++op)
                    if(tap.regs[i] == 0x40u + 4u * op) { out[op] = tap.vals[i]; cnt[op]++; }
            if(cnt[0] != 1 || cnt[1] != 1 || cnt[2] != 1 || cnt[3] != 1 || tap.regs.size() != 4)
                std::cout << "bad-writes " << tap.regs.size() << "\n";
            else
                std::cout << "ok " << out[0] << " " << out[1] << " " << out[2] << " " << out[3] << "\n";
        }
        else if(w[0] == "apitouch" && w.size() == 17)
        {
            std::vector<long> sa;
            for(size_t i = 1; i < w.size(); ++i) sa.push_back(strtol(w[i].c_str(), NULL, 10));
            synth.m_verifTap = tapfn; synth.m_verifTapData = &tap;
            std::cout << apiTouch(dev, tap, sa) << "\n";
        }
        else
            std::cout << "bad-op\n";
        std::cout.flush();
    }
    opn2_close(dev);
    return 0;
}
