// component `wopn`: src/wopn/wopn_file.c against Model/Wopn.lean
#include "access.hpp"
extern "C" {
#include "wopn/wopn_file.h"
}

namespace {
typedef unsigned long long u64;
struct Fnv { u64 h; Fnv() : h(14695981039346656037ULL) {} void b(unsigned x) { h ^= (x & 0xFF); h *= 1099511628211ULL; }
             void u16(unsigned x) { b(x >> 8); b(x); } };

void serInst(Fnv &f, std::vector<uint8_t> *raw, const WOPNInstrument &i)
{
    uint8_t buf[72]; size_t n = 0;
    for(int k = 0; k < 32; ++k) buf[n++] = (uint8_t)i.inst_name[k];
    buf[n++] = (uint8_t)(((uint16_t)i.note_offset) >> 8); buf[n++] = (uint8_t)i.note_offset;
    buf[n++] = (uint8_t)i.midi_velocity_offset; buf[n++] = i.percussion_key_number; buf[n++] = i.inst_flags;
    buf[n++] = i.fbalg; buf[n++] = i.lfosens;
    for(int op = 0; op < 4; ++op)
    {
        const WOPNOperator &o = i.operators[op];
        buf[n++] = o.dtfm_30; buf[n++] = o.level_40; buf[n++] = o.rsatk_50; buf[n++] = o.amdecay1_60;
        buf[n++] = o.decay2_70; buf[n++] = o.susrel_80; buf[n++] = o.ssgeg_90;
    }
    buf[n++] = (uint8_t)(i.delay_on_ms >> 8); buf[n++] = (uint8_t)i.delay_on_ms;
    buf[n++] = (uint8_t)(i.delay_off_ms >> 8); buf[n++] = (uint8_t)i.delay_off_ms;
    for(size_t k = 0; k < n; ++k) { f.b(buf[k]); if(raw) raw->push_back(buf[k]); }
}

u64 hashFile(const WOPNFile *w)
{
    Fnv f;
    f.u16(w->version); f.b(w->lfo_freq); f.b(w->chip_type); f.b(w->volume_model);
    f.u16(w->banks_count_melodic); f.u16(w->banks_count_percussion);
    for(int s = 0; s < 2; ++s)
    {
        const WOPNBank *bs = s ? w->banks_percussive : w->banks_melodic;
        unsigned cnt = s ? w->banks_count_percussion : w->banks_count_melodic;
        for(unsigned j = 0; j < cnt; ++j)
        {
            for(int k = 0; k < 33; ++k) f.b((uint8_t)bs[j].bank_name[k]);
            f.b(bs[j].bank_midi_lsb); f.b(bs[j].bank_midi_msb);
            for(int k = 0; k < 128; ++k) serInst(f, NULL, bs[j].ins[k]);
        }
    }
    return f.h;
}

std::string showFile(const WOPNFile *w)
{
    std::ostringstream os;
    os << "ok v=" << w->version << " lfo=" << (unsigned)w->lfo_freq << " chip=" << (unsigned)w->chip_type << " vm=" << (unsigned)w->volume_model
       << " M=" << w->banks_count_melodic << " P=" << w->banks_count_percussion << " h=" << hashFile(w);
    return os.str();
}

// the loader is given an exact-size heap copy, so that ASan sees any read outside the block
WOPNFile *loadExact(const std::vector<uint8_t> &img, int *err)
{
    uint8_t *blk = (uint8_t *)malloc(img.size() ? img.size() : 1);
    if(!img.empty()) memcpy(blk, img.data(), img.size());
    WOPNFile *w = WOPN_LoadBankFromMem(blk, img.size(), err);
    free(blk);
    return w;
}

bool modInst(WOPNInstrument &i, const std::string &field, const std::string &val)
{
    long v = strtol(val.c_str(), NULL, 10);
    if(field == "flags") i.inst_flags = (uint8_t)v;
    else if(field == "delayOn") i.delay_on_ms = (uint16_t)v;
    else if(field == "delayOff") i.delay_off_ms = (uint16_t)v;
    else if(field == "vel") i.midi_velocity_offset = (int8_t)v;
    else if(field == "key") i.percussion_key_number = (uint8_t)v;
    else if(field == "off") i.note_offset = (int16_t)v;
    else if(field == "name") { std::vector<uint8_t> b; if(!parseHex(val, b) || b.size() != 32) return false; memcpy(i.inst_name, b.data(), 32); }
    else return false;
    return true;
}

bool applyMod(WOPNFile *w, const std::string &m)
{
    size_t eq = m.find('=');
    if(eq == std::string::npos) return false;
    std::string lhs = m.substr(0, eq), val = m.substr(eq + 1);
    std::vector<std::string> p; { std::string t; std::istringstream is(lhs); while(std::getline(is, t, '.')) p.push_back(t); }
    long v = strtol(val.c_str(), NULL, 10);
    if(p.size() == 2 && p[0] == "f")
    {
        if(p[1] == "lfo") w->lfo_freq = (uint8_t)v; else if(p[1] == "chip") w->chip_type = (uint8_t)v;
        else if(p[1] == "vm") w->volume_model = (uint8_t)v; else if(p[1] == "ver") w->version = (uint16_t)v; else return false;
        return true;
    }
    if(p.size() != 4) return false;
    WOPNBank *bs = p[0] == "p" ? w->banks_percussive : w->banks_melodic;
    unsigned cnt = p[0] == "p" ? w->banks_count_percussion : w->banks_count_melodic;
    unsigned bi = (unsigned)strtoul(p[1].c_str(), NULL, 10);
    if(bi >= cnt) return false;
    if(p[2] == "-")
    {
        if(p[3] == "lsb") bs[bi].bank_midi_lsb = (uint8_t)v; else if(p[3] == "msb") bs[bi].bank_midi_msb = (uint8_t)v;
        else if(p[3] == "bname") { std::vector<uint8_t> b; if(!parseHex(val, b) || b.size() != 33) return false; memcpy(bs[bi].bank_name, b.data(), 33); }
        else return false;
        return true;
    }
    unsigned k = (unsigned)strtoul(p[2].c_str(), NULL, 10);
    if(k >= 128) return false;
    return modInst(bs[bi].ins[k], p[3], val);
}
}

int comp_wopn()
{
    std::string line;
    while(std::getline(std::cin, line))
    {
        std::vector<std::string> w = splitWords(line);
        if(w.empty() || w[0][0] == '#') continue;
        std::vector<uint8_t> img;
        if(w.size() >= 2 && !parseHex(w[1], img)) { std::cout << "bad-op\n"; continue; }
        if(w[0] == "load" && w.size() == 2)
        {
            int err = 0;
            WOPNFile *f = loadExact(img, &err);
            if(f) { std::cout << showFile(f) << "\n"; WOPN_Free(f); }
            else std::cout << "err " << err << "\n";
        }
        else if(w[0] == "loadinst" && w.size() == 2)
        {
            OPNIFile f; memset(&f, 0, sizeof(f));
            uint8_t *blk = (uint8_t *)malloc(img.size() ? img.size() : 1);
            if(!img.empty()) memcpy(blk, img.data(), img.size());
            int err = WOPN_LoadInstFromMem(&f, blk, img.size());
            free(blk);
            if(err == 0)
            {
                Fnv h; std::vector<uint8_t> raw; serInst(h, &raw, f.inst);
                std::cout << "ok v=" << f.version << " drum=" << (unsigned)f.is_drum << " ins=" << toHex(raw.data(), raw.size()) << "\n";
            }
            else std::cout << "err " << err << "\n";
        }
        else if(w[0] == "save" && w.size() >= 5)
        {
            int err = 0;
            WOPNFile *f = loadExact(img, &err);
            if(!f) { std::cout << "bad-image\n"; continue; }
            bool ok = true;
            for(size_t i = 5; i < w.size(); ++i) ok = ok && applyMod(f, w[i]);
            if(!ok) { std::cout << "bad-mod\n"; WOPN_Free(f); continue; }
            unsigned ver = (unsigned)strtoul(w[2].c_str(), NULL, 10), gm = (unsigned)strtoul(w[3].c_str(), NULL, 10);
            size_t n = strtoul(w[4].c_str(), NULL, 10);
            // exact-size destination: ASan sees any store outside it
            uint8_t *dst = (uint8_t *)malloc(n ? n : 1);
            memset(dst, 0xA5, n ? n : 1);
            int code = WOPN_SaveBankToMem(f, dst, n, (uint16_t)ver, (uint16_t)gm);
            std::cout << "code=" << code << " size=" << WOPN_CalculateBankFileSize(f, (uint16_t)ver) << " buf=" << toHex(dst, n) << "\n";
            free(dst); WOPN_Free(f);
        }
        else if(w[0] == "rt" && w.size() >= 3)
        {
            int err = 0;
            WOPNFile *f = loadExact(img, &err);
            if(!f) { std::cout << "bad-image\n"; continue; }
            bool ok = true;
            for(size_t i = 3; i < w.size(); ++i) ok = ok && applyMod(f, w[i]);
            if(!ok) { std::cout << "bad-mod\n"; WOPN_Free(f); continue; }
            unsigned ver = (unsigned)strtoul(w[2].c_str(), NULL, 10);
            size_t n = WOPN_CalculateBankFileSize(f, (uint16_t)ver);
            uint8_t *dst = (uint8_t *)malloc(n ? n : 1);
            memset(dst, 0xA5, n ? n : 1);
            int code = WOPN_SaveBankToMem(f, dst, n, (uint16_t)ver, 0);
            if(code != 0) std::cout << "savecode=" << code << "\n";
            else
            {
                // reload exactly the bytes the model reloads: the written prefix. v1 images are 2 bytes shorter than
                // the calculator reports; the unwritten tail is still 0xA5 and is cut off here.
                size_t used = n;
                while(used > 0 && dst[used - 1] == 0xA5 && ver == 1 && used > n - 2) --used;
                std::vector<uint8_t> out(dst, dst + used);
                WOPNFile *g = loadExact(out, &err);
                if(!g) std::cout << "reload-err " << err << "\n";
                else
                {
                    std::cout << showFile(g) << " same=" << WOPN_BanksCmp(f, g) << " src=" << hashFile(f) << "\n";
                    WOPN_Free(g);
                }
            }
            free(dst); WOPN_Free(f);
        }
        else if(w[0] == "saveinst" && w.size() == 4)
        {
            OPNIFile f; memset(&f, 0, sizeof(f));
            uint8_t *blk = (uint8_t *)malloc(img.size() ? img.size() : 1);
            if(!img.empty()) memcpy(blk, img.data(), img.size());
            int err = WOPN_LoadInstFromMem(&f, blk, img.size());
            free(blk);
            if(err != 0) { std::cout << "bad-image\n"; continue; }
            unsigned ver = (unsigned)strtoul(w[2].c_str(), NULL, 10);
            size_t n = strtoul(w[3].c_str(), NULL, 10);
            uint8_t *dst = (uint8_t *)malloc(n ? n : 1);
            memset(dst, 0xA5, n ? n : 1);
            int code = WOPN_SaveInstToMem(&f, dst, n, (uint16_t)ver);
            std::cout << "code=" << code << " size=" << WOPN_CalculateInstFileSize(&f, (uint16_t)ver) << " buf=" << toHex(dst, n) << "\n";
            free(dst);
        }
        else
            std::cout << "bad-op\n";
        std::cout.flush();
    }
    return 0;
}
