// opnharness <component>: reads one operation per line on stdin, calls the real library in-process,
// writes one canonical observation line per operation on stdout (DESIGN.md section 2.4).
#include "access.hpp"

std::vector<std::string> splitWords(const std::string &line)
{
    std::vector<std::string> w;
    std::istringstream is(line);
    std::string t;
    while(is >> t) w.push_back(t);
    return w;
}

static int hexv(char c)
{
    if(c >= '0' && c <= '9') return c - '0';
    if(c >= 'a' && c <= 'f') return c - 'a' + 10;
    if(c >= 'A' && c <= 'F') return c - 'A' + 10;
    return -1;
}

bool parseHex(const std::string &s, std::vector<uint8_t> &out)
{
    out.clear();
    if(s == "-") return true;
    if(s.size() % 2) return false;
    for(size_t i = 0; i < s.size(); i += 2)
    {
        int a = hexv(s[i]), b = hexv(s[i + 1]);
        if(a < 0 || b < 0) return false;
        out.push_back(static_cast<uint8_t>(a * 16 + b));
    }
    return true;
}

std::string toHex(const uint8_t *p, size_t n)
{
    if(n == 0) return "-";
    static const char *d = "0123456789abcdef";
    std::string s;
    s.reserve(n * 2);
    for(size_t i = 0; i < n; ++i) { s.push_back(d[p[i] >> 4]); s.push_back(d[p[i] & 15]); }
    return s;
}

int main(int argc, char **argv)
{
    std::ios::sync_with_stdio(false);
    if(argc < 2) { fprintf(stderr, "usage: opnharness <component>\n"); return 2; }
    std::string c = argv[1];
    if(c == "volume") return comp_volume();
    if(c == "wopn") return comp_wopn();
    if(c == "bankmap") return comp_bankmap();
    if(c == "pitch") return comp_pitch();
    if(c == "synth") return comp_synth();
    if(c == "audio") return comp_audio();
    if(c == "api") return comp_api();
    if(c == "iso") return comp_iso();
    if(c == "front") return comp_front();
    fprintf(stderr, "unknown component %s\n", c.c_str());
    return 2;
}
