import Driver.Util
import Driver.Volume
import Driver.Wopn
import Driver.BankMap
import Driver.Pitch
import Driver.Synth
import Driver.Audio
import Driver.Seq
