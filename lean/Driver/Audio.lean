import OpnVerif.Model.Audio
import Driver.Util
namespace Driver.Audio
open Opn Opn.Audio

def dyStr (q : Rat) : String :=
  if q == 0 then "0:0" else
  -- q = num / 2^k (den is a power of two for binary floating-point values); print as odd-mantissa : exponent
  let rec strip (fuel : Nat) (m : Int) (e : Int) : Int × Int :=
    match fuel with
    | 0 => (m, e)
    | f + 1 => if m % 2 == 0 && m != 0 then strip f (m / 2) (e + 1) else (m, e)
  let k := Nat.log2 q.den
  let (m, e) := strip 200 q.num (-(k : Int))
  s!"{m}:{e}"

def step (_ : Unit) (ws : List String) : Unit × String :=
  match ws with
  | "cvt" :: t :: c :: vals =>
    match t.toNat?.bind SType.ofId, c.toNat?, ints? vals with
    | some t, some c, some vs =>
      let outs := vs.map fun v => match convert t c v with
        | some (.bytes bs) => hexStr bs
        | some (.real q _) => dyStr q
        | none => "refused"
      ((), ",".intercalate outs)
    | none, some _, some _ => ((), "refused-type")
    | _, _, _ => ((), "bad-op")
  | "genloop" :: n :: off :: ps =>
    match n.toInt?, off.toNat?, nats? ps with
    | some n, some off, some ps =>
      let req := evenCount n
      let (ret, wsx) := generateLoop req off ps req 0 []
      let fr := (wsx.filter (fun w => !w.right)).map (·.frame)
      let okOff := wsx.all fun w => w.offset == w.frame * off
      ((), s!"ret={ret} frames={fr.length} inorder={if fr == List.range (ret / 2) then 1 else 0} offsets={if okOff then 1 else 0}")
    | _, _, _ => ((), "bad-op")
  | _ => ((), "bad-op")

end Driver.Audio
