import OpnVerif.Model.BankApi
import Driver.Util
namespace Driver.BankMap
open Opn Opn.BankMap Opn.BankApi

structure St where
  s : State
  regs : List (Option Nat)     -- handle registers h0..h15

def showKey (k : Nat) : String :=
  let (p, m, l) := bankId k
  s!"{p}:{m}:{l}"

def tail (s : State) : String := s!" size={s.size} cap={s.capacity}"

def showInst (i : AInst) : String :=
  s!"{i.noteOffset} {i.velOffset} {i.percKey} {i.flags} {i.fbalg} {i.lfosens} {hexStr i.ops} {i.delayOn} {i.delayOff}"

def init : St := { s := BankMap.bempty, regs := List.replicate 16 none }

def reg (st : St) (r : Nat) : Option Nat := (st.regs[r]?).bind id

def step (st : St) (ws : List String) : St × String :=
  match ws with
  | ["reserve", n] =>
    match n.toNat? with
    | some n => let s := breserve st.s n; ({ st with s := s }, s!"ret={s.capacity}{tail s}")
    | none => (st, "bad-op")
  | ["get", r, perc, msb, lsb, flags] =>
    match r.toNat?, perc.toNat?, msb.toNat?, lsb.toNat?, flags.toNat? with
    | some r, some perc, some msb, some lsb, some flags =>
      let (s, ret, h) := getBank st.s perc msb lsb flags
      let regs := match h with
        | some k => st.regs.set r (some k)
        | none => st.regs
      ({ s := s, regs := regs }, s!"ret={ret} key={match h with | some k => showKey k | none => "-"}{tail s}")
    | _, _, _, _, _ => (st, "bad-op")
  | ["id", r] =>
    match r.toNat?.bind (reg st) with
    | some k => (st, s!"ret=0 key={showKey k}{tail st.s}")
    | none => (st, "bad-handle")
  | ["remove", r] =>
    match r.toNat? with
    | some rr =>
      match reg st rr with
      | some k => let (s, ret) := removeBank st.s k
                  ({ s := s, regs := st.regs.set rr none }, s!"ret={ret}{tail s}")
      | none => (st, "bad-handle")
    | none => (st, "bad-op")
  | ["first", r] =>
    match r.toNat? with
    | some rr =>
      match firstBank st.s with
      | some k => ({ st with regs := st.regs.set rr (some k) }, s!"ret=0 key={showKey k}{tail st.s}")
      | none => (st, s!"ret=-1 key=-{tail st.s}")
    | none => (st, "bad-op")
  | ["next", r] =>
    match r.toNat? with
    | some rr =>
      match reg st rr with
      | some k =>
        match nextBank st.s k with
        | some k' => ({ st with regs := st.regs.set rr (some k') }, s!"ret=0 key={showKey k'}{tail st.s}")
        | none => (st, s!"ret=-1 key={showKey k}{tail st.s}")
      | none => (st, "bad-handle")
    | none => (st, "bad-op")
  | ["getins", r, idx] =>
    match r.toNat?.bind (reg st), idx.toNat? with
    | some k, some idx =>
      match getInstrument st.s k idx with
      | some i => (st, s!"ret=0 ins={showInst i}")
      | none => (st, "ret=-1")
    | _, _ => (st, "bad-handle")
  | ["setins", r, idx, ver, no, vo, pk, fl, fb, lf, ops, don, doff] =>
    match r.toNat?.bind (reg st), idx.toNat?, ver.toNat?, no.toInt?, vo.toInt?, pk.toNat?, fl.toNat?, fb.toNat?, lf.toNat?,
          hexBytes? ops, don.toNat?, doff.toNat? with
    | some k, some idx, some ver, some no, some vo, some pk, some fl, some fb, some lf, some ops, some don, some doff =>
      let (s, ret) := setInstrument st.s k idx ver
        { noteOffset := no, velOffset := vo, percKey := pk, flags := fl, fbalg := fb, lfosens := lf, ops := ops,
          delayOn := don, delayOff := doff }
      ({ st with s := s }, s!"ret={ret}{tail s}")
    | _, _, _, _, _, _, _, _, _, _, _, _ => (st, "bad-handle")
  | ["loadbank", hex] =>
    match hexBytes? hex with
    | some b =>
      match Wopn.loadBank b with
      | .ok (.ok f) => let s := loadBanks st.s f
                       ({ s := s, regs := st.regs.map (fun _ => none) }, s!"ret=0{tail s}")
      | .ok (.err _) => (st, s!"ret=-1{tail st.s}")
      | .error e => (st, toString e)
    | none => (st, "bad-op")
  | ["new"] => (init, "ok" ++ tail init.s)
  | ["list"] =>
    (st, "keys=" ++ ",".intercalate ((toList st.s).map (fun p => showKey p.1)) ++ tail st.s)
  | _ => (st, "bad-op")


end Driver.BankMap
