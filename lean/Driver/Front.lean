/- `opnmodel front`: the register ring of the YMFM front-ends (Model/ChipFront.lean, the ring as the code writes it) -/
import Driver.Util
import OpnVerif.Model.ChipFront
import OpnVerif.Gen.Pitch

namespace Driver.Front
open Opn Opn.ChipFront

def cap : Nat := Opn.Gen.ymfmQueueSizeOPN2

def hashRegs (xs : List Reg) : Nat := xs.foldl (fun h (x : Reg) => (h * 1000003 + x.1 * 256 + x.2 + 1) % 2305843009213693951) 7

def show1 (x : Option Reg) : String := match x with | some (a, d) => s!"{a}:{d}" | none => "-"

def obs (r : Ring) : String :=
  let p := r.pending cap
  s!"cnt={r.count} pend={hashRegs p} first={show1 p.head?} last={show1 p.getLast?}"

def step (r : Ring) (ws : List String) : Ring × String :=
  match ws with
  | ["new"] => let r := Ring.empty cap; (r, obs r)
  | ["w", port, addr, data] =>
    match port.toNat?, addr.toNat?, data.toNat? with
    | some p, some a, some d =>
      if a < 256 ∧ d < 256 then
        let r := r.write cap ((if p > 0 then a + 256 else a), d)      -- `port > 0 ? addr | 0x100 : addr` (addr is a byte here)
        (r, obs r)
      else (r, "bad-op")
    | _, _, _ => (r, "bad-op")
  | ["n", k] =>
    match k.toNat? with
    | some k => let r := (List.range k).foldl (fun r _ => r.drain cap) r; (r, obs r)
    | none => (r, "bad-op")
  | _ => (r, "bad-op")

end Driver.Front
