import Driver.Util
import Driver.Volume
import Driver.Wopn
import Driver.BankMap
import Driver.Pitch
import Driver.Synth
import Driver.Audio
import Driver.Seq
import Driver.Settings
import Driver.Front

def main (args : List String) : IO UInt32 := do
  let stdin ← IO.getStdin
  let stdout ← IO.getStdout
  match args with
  | ["volume"] => Driver.loop stdin stdout Driver.Volume.step (); return 0
  | ["bankmap"] => Driver.loop stdin stdout Driver.BankMap.step Driver.BankMap.init; return 0
  | ["pitch"] => Driver.loop stdin stdout Driver.Pitch.step (); return 0
  | ["synth"] => Driver.loop stdin stdout Driver.Synth.step Opn.Synth.init; return 0
  | ["audio"] => Driver.loop stdin stdout Driver.Audio.step (); return 0
  | ["seq"] => Driver.loop stdin stdout (fun st ws => Driver.Seq.step st (match ws with | "openfiledata" :: r => "opendata" :: r | _ => ws)) ({} : Driver.Seq.St); return 0
  | ["settings"] => Driver.loop stdin stdout Driver.Settings.step' ({} : Opn.Settings.S); return 0
  | ["front"] => Driver.loop stdin stdout Driver.Front.step (Opn.ChipFront.Ring.empty Driver.Front.cap); return 0
  | ["wopn"] => Driver.loop stdin stdout Driver.Wopn.step (); return 0
  | _ =>
    IO.eprintln "usage: opnmodel <component>   (ops on stdin, one observation line per op on stdout)"
    return 2
