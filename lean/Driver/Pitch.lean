import OpnVerif.Model.Pitch
import Driver.Util
namespace Driver.Pitch
open Opn Opn.Pitch

def dyOf (m : Nat) (e : Int) : Dy := if e ≥ 0 then ⟨m * 2 ^ e.toNat, 0⟩ else ⟨m, (-e).toNat⟩

def step (_ : Unit) (ws : List String) : Unit × String :=
  match ws with
  | "tone" :: rest =>
    match ints? rest with
    | some [key, off, bend, bm, bl] =>
      let t := toneOf key off bend bm bl
      ((), s!"{t.num}/{t.den}")
    | _ => ((), "bad-op")
  | "search" :: m :: e :: regs =>
    match m.toNat?, e.toInt?, nats? regs with
    | some m, some e, some regs =>
      match search (dyOf m e) with
      | .ok r => ((), s!"ftone={r.ftone} mul={",".intercalate ((mulBytes r.mulOffset regs).map toString)}")
      | .error f => ((), toString f)
    | _, _, _ => ((), "bad-op")
  | _ => ((), "bad-op")

end Driver.Pitch
