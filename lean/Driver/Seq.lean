import OpnVerif.Model.Seq
import OpnVerif.Model.Mus
import OpnVerif.Model.Xmi
import Driver.Util
/-! driver of the `seq` component: the sequencer model behind the op names of the `api` harness component -/
namespace Driver.Seq
open Opn Opn.Seq

/-- exact dyadic spelling of a double: odd mantissa ":" exponent -/
def dyStr (q : Rat) : String :=
  if q == 0 then "0:0" else
  if q.den == 1 then
    let rec strip (fuel : Nat) (m : Int) (e : Nat) : Int × Nat :=
      match fuel with
      | 0 => (m, e)
      | f + 1 => if m % 2 == 0 then strip f (m / 2) (e + 1) else (m, e)
    let (m, e) := strip 1100 q.num 0
    s!"{m}:{e}"
  else s!"{q.num}:-{Nat.log2 q.den}"

def parseDy (s : String) : Option Rat :=
  match s.splitOn ":" with
  | [m, e] =>
    match m.toInt?, e.toInt? with
    | some m, some e => some (if e ≥ 0 then ((m * (2 : Int) ^ e.toNat : Int) : Rat) else mkRat m (2 ^ (-e).toNat))
    | _, _ => none
  | _ => none

structure St where
  seq : Seq := {}
  rate : Nat := 44100
  now : Rat := 0
  frames : Nat := 0
  delay : Rat := 0          -- m_setup.delay
  carry : Rat := 0          -- m_setup.carry
  skip : Nat := 0           -- m_setup.tick_skip_samples_delay
  songs : List Bytes := []  -- m_rawSongsData (XMI)
  songNum : Int := 0        -- m_loadTrackNumber
  deriving Inhabited

def showOut (stamp : String) : Out → String
  | .event _ e => s!"E@{stamp},{e.type % 256},{e.subtype % 256},{e.channel % 256},{hexStr e.data};"
  | .rt kind ch a b =>
    if kind == tNoteOff then s!"R@{stamp},8,{ch},{a},0;"
    else s!"R@{stamp},{kind},{ch},{a},{b};"
  | .sysex d => s!"X@{stamp},{hexStr d};"
  | .songStart => s!"SS@{stamp};"
  | .loopStart => s!"LS@{stamp};"
  | .loopEnd => s!"LE@{stamp};"
  | .deviceSwitch t n => s!"D@{stamp},{t},{hexStr n};"

/-- event log of one op: only the first 5000 entries are kept, the rest is counted (as in the harness) -/
structure Acc where
  s : String := ""
  n : Nat := 0

def logCap : Nat := 5000

def Acc.add (a : Acc) (stamp : String) (os : List Out) : Acc :=
  os.foldl (fun a o => if a.n < logCap then { s := a.s ++ showOut stamp o, n := a.n + 1 } else { a with n := a.n + 1 }) a

def Acc.done (a : Acc) : String :=
  let s := if a.n > logCap then a.s ++ s!"+{a.n - logCap}" else a.s
  if s.isEmpty then "-" else s

def showOuts (stamp : String) (os : List Out) : String := (Acc.add {} stamp os).done

def fuelTick : Nat := 200000

/-- the documented driving loop of the harness op `tickall` -/
def tickAll (gran : Rat) : Nat → Nat → Rat → St → Acc → St × Acc × Nat × Rat
  | 0, steps, d, st, acc => (st, acc, steps, d)
  | n + 1, steps, d, st, acc =>
    if st.seq.atEnd then (st, acc, steps, d) else
    let now := fadd st.now d
    let (s, outs, d') := tick st.seq d gran fuelTick
    let acc := acc.add (dyStr now) outs
    tickAll gran n (steps + 1) d' { st with seq := s, now := now } acc

/-- opn2_playFormat's period loop for one call of `chunk` samples (chunk even, > 0); returns samples produced and the log -/
def playCall (st : St) (chunk : Nat) : Nat → Nat → Nat → Bool → St → Acc → St × Nat × Acc
  | 0, _, got, _, s, acc => (s, got, acc)
  | fuel + 1, left, got, hasSkipped, s, acc =>
    if left == 0 then (s, got, acc) else
    let maxdelay := fdiv 512 (st.rate : Rat)
    let mindelay := fdiv 1 (st.rate : Rat)
    let eat := if s.delay < maxdelay then s.delay else maxdelay
    let (s, n) :=
      if hasSkipped then (s, (if s.skip > chunk then chunk else s.skip) / 2)
      else
        let delay := fsub s.delay eat
        let carry := fadd s.carry (fmul (st.rate : Rat) eat)
        let n := d2nat carry
        ({ s with delay := delay, carry := fsub carry (n : Rat) }, n)
    if s.seq.atEnd && s.delay ≤ 0 then (s, got, acc) else
    let leftSamples := left / 2
    let (s, n) := if n > leftSamples then ({ s with skip := (n - leftSamples) * 2 }, leftSamples) else (s, n)
    let inGen := if n > 512 then 512 else n
    let phys := inGen * 2
    let left := left - phys
    let got := got + phys
    if hasSkipped then
      let skip := s.skip - n * 2
      playCall st chunk fuel left got (skip > 0) { s with skip := skip } acc
    else
      let (sq, outs, d') := tick s.seq eat mindelay fuelTick
      let acc := acc.add s!"f{s.frames}" outs
      playCall st chunk fuel left got false { s with seq := sq, delay := d' } acc

def playLog : Nat → Nat → Nat → Nat → Nat → St → Acc → St × Nat × Nat × Acc
  | 0, _, _, got, calls, s, acc => (s, got, calls, acc)
  | fuel + 1, total, chunk, got, calls, s, acc =>
    if got ≥ total then (s, got, calls, acc) else
    let (s', r, acc) := playCall s chunk 100000 chunk 0 (s.skip > 0) s acc
    let calls := calls + 1
    if r == 0 then (s', got, calls, acc) else
    playLog fuel total chunk (got + r) calls { s' with frames := s'.frames + r / 2 } acc

def emptyDash (s : String) : String := if s.isEmpty then "-" else s

def loadRes (st : St) (r : Except Fault LoadRes) : St × String :=
  match r with
  | .error f => (st, toString f)
  | .ok .rejected => ({ st with now := 0, frames := 0 }, "ret=-1")
  | .ok (.ok s) => ({ st with seq := s, now := 0, frames := 0 }, "ret=0")

def step (st : St) (ws : List String) : St × String :=
  match ws with
  | ["new", rate] =>
    match rate.toNat? with
    | some r => ({ rate := r }, "ret=ok")
    | none => (st, "bad-op")
  | ["opendata", hex] =>
    match hexBytes? hex with
    | some b =>
      -- LoadMIDI_pre resets nothing of the sequencer; loadMIDI clears the song list
      let st := { st with songs := [], skip := 0 }      -- opn2_openData: tick_skip_samples_delay = 0
      if b.length ≥ 14 && b.take 4 == [77, 85, 83, 0x1A] then
        match Mus.convert b with
        | none => ({ st with now := 0, frames := 0 }, "ret=-1")
        | some mid => loadRes st (parseSMF st.seq .midi mid)
      else if b.length ≥ 14 && b.take 4 == [70, 79, 82, 77] && (b.drop 8).take 4 == [88, 68, 73, 82] then
        match Xmi.convert b with
        | none => ({ st with now := 0, frames := 0 }, "ret=-1")
        | some songs =>
          if songs.isEmpty then ({ st with now := 0, frames := 0 }, "ret=-1") else
          let k : Int := if st.songNum ≥ (songs.length : Int) then (songs.length : Int) - 1 else st.songNum
          let k := if k < 0 then 0 else k
          let st := { st with songs := songs, songNum := k }
          loadRes st (parseSMF st.seq .xmidi (songs.getD k.toNat []))
      else loadRes st (loadMidi st.seq b)
    | none => (st, "bad-op")
  | ["selectsong", n] =>
    match n.toInt? with
    | some n =>
      let st := { st with songNum := n }
      if !st.songs.isEmpty && st.seq.fmt == .xmidi then
        let k : Int := if n ≥ (st.songs.length : Int) then (st.songs.length : Int) - 1 else n
        let k := if k < 0 then 0 else k
        let st := { st with songNum := k }
        -- all-notes-off on channels 0..14, then the song is parsed again
        let offs := String.join ((List.range 15).map fun i => showOut (dyStr st.now) (Out.rt tCtrl i 123 0))
        let sq := { st.seq with atEnd := false, loop := { caughtStart := true }, smfFormat := 0 }
        match parseSMF sq .xmidi (st.songs.getD k.toNat []) with
        | .ok (.ok s) => ({ st with seq := s, now := 0, frames := 0 }, s!"ret=- ev={offs}")
        | _ => ({ st with seq := sq, now := 0, frames := 0 }, s!"ret=- ev={offs}")
      else ({ st with now := 0, frames := 0 }, "ret=- ev=-")
    | none => (st, "bad-op")
  | ["songs"] => (st, s!"ret={st.songs.length}")
  | ["tracks"] => (st, s!"ret={st.seq.tracks.length}")
  | ["hook", "loopstart", v] => ({ st with seq := { st.seq with hookLoopStart := v != "0" } }, "ret=-")
  | ["hook", "loopend", v] => ({ st with seq := { st.seq with hookLoopEnd := v != "0" } }, "ret=-")
  | ["hook", _, _] => (st, "ret=-")
  | ["loop", v] => ({ st with seq := { st.seq with loopEnabled := v != "0" } }, "ret=-")
  | ["loopcount", v] =>
    match v.toInt? with
    | some n => ({ st with seq := { st.seq with loopCount := if n ≥ 1 then n - 1 else n } }, "ret=-")
    | none => (st, "bad-op")
  | ["loophooksonly", v] => ({ st with seq := { st.seq with loopHooksOnly := v != "0" } }, "ret=-")
  | ["tempo", v] =>
    match parseDy v with
    | some x => (if x > 0 then { st with seq := { st.seq with tempoMult := x } } else st, "ret=-")
    | none => (st, "bad-op")
  | ["trackopt", t, o] =>
    match t.toNat?, o.toNat? with
    | some t, some o =>
      let flag := o % 4
      let rest := o / 4
      let n := st.seq.tracks.length
      if (flag == 1 || flag == 2) && t ≥ n then (st, "ret=-1") else
      let sq := if flag == 1 || flag == 2 then { st.seq with trackDisable := st.seq.trackDisable.set t (flag == 2) }
                else if flag == 3 then { st.seq with solo := some t } else st.seq
      ({ st with seq := sq }, if rest != 0 then "ret=-1" else "ret=0")
    | _, _ => (st, "bad-op")
  | ["chanen", c, e] =>
    match c.toNat?, e.toInt? with
    | some c, some e =>
      if c ≥ 16 then (st, "ret=-1 ev=-") else
      let enable := e != 0
      let cur := st.seq.chanDisable.getD c false
      let outs : List Out :=
        if !enable && cur != true then
          [Out.rt tCtrl c 64 0, Out.rt tCtrl c 66 0] ++ (List.range 128).map fun i => Out.rt tNoteOff c i 0
        else []
      ({ st with seq := { st.seq with chanDisable := st.seq.chanDisable.set c (!enable) } }, s!"ret=0 ev={showOuts (dyStr st.now) outs}")
    | _, _ => (st, "bad-op")
  | ["total"] => (st, s!"ret={dyStr st.seq.fullLen}")
  | ["loopstart"] => (st, s!"ret={dyStr st.seq.loopStartTime}")
  | ["loopend"] => (st, s!"ret={dyStr st.seq.loopEndTime}")
  | ["tell"] => (st, s!"ret={dyStr st.seq.cur.absTime}")
  | ["atend"] => (st, s!"ret={if st.seq.atEnd then 1 else 0}")
  | ["tick", s, g] =>
    match parseDy s, parseDy g with
    | some s, some g =>
      let now := fadd st.now s
      let (sq, outs, d) := tick st.seq s g fuelTick
      ({ st with seq := sq, now := now }, s!"ret={dyStr d} ev={showOuts (dyStr now) outs}")
    | _, _ => (st, "bad-op")
  | ["tickall", n, g] =>
    match n.toNat?, parseDy g with
    | some n, some g =>
      let (st, acc, steps, d) := tickAll g n 0 0 st {}
      (st, s!"ret=steps={steps} end={if st.seq.atEnd then 1 else 0} T={dyStr st.now} last={dyStr d} tell={dyStr st.seq.cur.absTime} ev={acc.done}")
    | _, _ => (st, "bad-op")
  | ["playlog", total, chunk] =>
    match total.toNat?, chunk.toNat? with
    | some total, some chunk =>
      let chunk := if chunk < 2 then 2 else if chunk > 65536 then 65536 else chunk
      let chunk := chunk - chunk % 2
      let (st, got, calls, acc) := playLog 4000000 total chunk 0 0 st {}
      (st, s!"ret=got={got} calls={calls} guard=ok end={if st.seq.atEnd then 1 else 0} ev={acc.done}")
    | _, _ => (st, "bad-op")
  | ["seek", t] =>
    match parseDy t with
    | some x =>
      if x < 0 then (st, s!"ret=tell={dyStr st.seq.cur.absTime} delay={dyStr st.delay} ev=-") else
      let (sq, outs, d) := seek st.seq x (fdiv 1 (st.rate : Rat)) fuelTick
      let ev := showOuts (dyStr st.now) outs
      ({ st with seq := sq, delay := d, carry := 0, now := sq.cur.absTime }, s!"ret=tell={dyStr sq.cur.absTime} delay={dyStr d} ev={ev}")
    | none => (st, "bad-op")
  | ["rewind"] =>
    let sq := rewind st.seq
    ({ st with seq := sq, now := 0, frames := 0 }, s!"ret=tell={dyStr sq.cur.absTime} ev=-")
  | _ => (st, "bad-op")

end Driver.Seq
