import OpnVerif.Model.Settings
import OpnVerif.Model.Wopn
import OpnVerif.Model.Seq
import OpnVerif.Model.Mus
import OpnVerif.Model.Xmi
import Driver.Util
import Driver.Seq
/-! driver of the `settings` component: the configuration model behind the op names of the `api` harness component -/
namespace Driver.Settings
open Opn Opn.Settings

def hookBits (s : S) : Nat :=
  (if s.hooks &&& 1 != 0 then 1 else 0) + (if s.hooks &&& 2 != 0 then 2 else 0) + (if s.hooks &&& 4 != 0 then 4 + 32 else 0) +
  (if s.hooks &&& 8 != 0 then 8 + 64 else 0) + (if s.hooks &&& 16 != 0 then 16 + 128 else 0)

def b2n (b : Bool) : Nat := if b then 1 else 0

def show' (s : S) : String :=
  let v := view s
  let lc : Int := if s.seq.loopCount ≥ 0 then s.seq.loopCount + 1 else s.seq.loopCount
  s!"nc={v.numChips} nco={v.numChipsObtained} lfo={b2n v.lfoEnabled} lff={v.lfoFrequency} ct={v.chipType} arp={b2n v.autoArpeggio} vm={v.volumeModel} al={v.chanAlloc} " ++
  s!"emu={s.setup.emulator} rap={b2n s.setup.runAtPcmRate} sm={b2n s.live.scaleModulators} frb={b2n s.setup.fullRangeBrightness} sp={b2n s.live.softPan} " ++
  s!"lv={s.setup.logVolumes} dev={s.devId} hk={hookBits s} loop={b2n s.seq.loopEnabled} lc={lc} tempo={Driver.Seq.dyStr s.seq.tempo} nch={v.numChipsObtained * 6}"

def fin (r : S × Option Int) : S × String :=
  (r.1, s!"ret={match r.2 with | some x => toString x | none => "-"} {show' r.1}")

def intOp (s : S) (v : String) (f : Int → Op) : S × String :=
  match v.toInt? with
  | some x => fin (step s (f x))
  | none => (s, "bad-op")

def step' (s : S) (ws : List String) : S × String :=
  match ws with
  | ["new", _] => let s0 : S := {}; (s0, s!"ret=ok {show' s0}")
  | ["numchips", v] => intOp s v .numChips
  | ["emu", v] => intOp s v .emulator
  | ["runatpcm", v] => intOp s v .runAtPcm
  | ["devid", v] => match v.toNat? with | some x => fin (step s (.devId x)) | none => (s, "bad-op")
  | ["lfo", v] => intOp s v .lfo
  | ["lfofreq", v] => intOp s v .lfoFreq
  | ["chiptype", v] => intOp s v .chipType
  | ["scalemod", v] => intOp s v .scaleMod
  | ["frb", v] => intOp s v .frb
  | ["arp", v] => intOp s v .arp
  | ["loop", v] => intOp s v .loop
  | ["loopcount", v] => intOp s v .loopCount
  | ["loophooksonly", v] => intOp s v .loopHooksOnly
  | ["softpan", v] => intOp s v .softPan
  | ["logvol", v] => intOp s v .logVol
  | ["vm", v] => intOp s v .volModel
  | ["alloc", v] => intOp s v .chanAlloc
  | ["tempo", v] => match Driver.Seq.parseDy v with | some x => fin (step s (.tempo x)) | none => (s, "bad-op")
  | ["reset"] => fin (step s .reset)
  | ["hook", k, v] =>
    let bit := if k == "raw" then 1 else if k == "note" then 2 else if k == "debug" then 4 else if k == "loopstart" then 8 else if k == "loopend" then 16 else 0
    if bit == 0 then (s, s!"ret=- {show' s}") else fin (step s (.hook bit (v != "0")))
  | ["bankdata", hex] =>
    match hexBytes? hex with
    | some b =>
      match Wopn.loadBank b with
      | .ok (.ok f) => fin (step s (.bankAccepted f.volumeModel f.lfoFreq f.chipType))
      | .ok (.err _) => fin (step s .bankRejected)
      | .error e => (s, toString e)
    | none => (s, "bad-op")
  | ["opendata", hex] =>
    match hexBytes? hex with
    | some b =>
      if !s.banksLoaded then fin (step s .musicRejected) else
      if b.length ≥ 14 && b.take 4 == [70, 79, 82, 77] && (b.drop 8).take 4 == [88, 68, 73, 82] then
        match Xmi.convert b with
        | none => fin (step s .musicRejected)
        | some songs =>
          match Seq.parseSMF {} .xmidi (songs.headD []) with
          | .ok (.ok _) => fin (step s .musicAccepted)
          | .ok .rejected => fin (step s .musicRejected)
          | .error e => (s, toString e)
      else
      let r : Except Fault Seq.LoadRes :=
        if b.length ≥ 14 && b.take 4 == [77, 85, 83, 0x1A] then
          match Mus.convert b with
          | none => .ok .rejected
          | some mid => Seq.parseSMF {} .midi mid
        else Seq.loadMidi {} b
      match r with
      | .ok (.ok _) => fin (step s .musicAccepted)
      | .ok .rejected => fin (step s .musicRejected)
      | .error e => (s, toString e)
    | none => (s, "bad-op")
  | _ => (s, "bad-op")

end Driver.Settings
