import OpnVerif.Model.Synth
import OpnVerif.Spec.Inv
import Driver.Util
import Driver.BankMap
namespace Driver.Synth
open Opn Opn.Synth

def fnvB (h : Nat) (b : Nat) : Nat := ((h ^^^ (b % 256)) * 1099511628211) % 18446744073709551616

/-- 8 bytes little endian, two's complement -/
def fnvBytes : Nat → Nat → Nat → Nat
  | 0, _, h => h
  | n + 1, u, h => fnvBytes n (u / 256) (fnvB h (u % 256))

def fnvInt (h : Nat) (x : Int) : Nat :=
  if x ≥ 0 && x < 256 then
    -- one data byte followed by seven zero bytes
    fnvBytes 7 0 (fnvB h x.toNat)
  else fnvBytes 8 (x % 18446744073709551616).toNat h

def fnvNat (h : Nat) (x : Nat) : Nat := fnvInt h x
def fnvBool (h : Nat) (b : Bool) : Nat := fnvB h (if b then 1 else 0)
def fnvList (h : Nat) (xs : List Nat) : Nat := xs.foldl fnvNat h
def fnv0 : Nat := 14695981039346656037

def hashTimbre (h : Nat) (t : Timbre) : Nat :=
  fnvInt (fnvNat (fnvNat (fnvList h t.ops) t.fbalg) t.lfosens) t.noteOffset

def hashCtl (h : Nat) (c : MidiCh) : Nat :=
  let h := fnvList h [c.patch, c.bankMsb, c.bankLsb, c.volume, c.expression, c.panning, c.vibrato, c.aftertouch, c.portamento]
  let h := [c.sustain, c.softPedal, c.portamentoEnable, c.portamentoRateSet, c.noteAfterTouchInUse, c.vibposZero, c.nrpn, c.isXgPerc].foldl fnvBool h
  let h := [c.portamentoSource, c.bend, c.bendMsb, c.bendLsb, c.vibdelayUs].foldl fnvInt h
  let h := fnvList h [c.lastlrpn, c.lastmrpn, c.brightness]
  if c.noteAfterTouchInUse then fnvList h c.noteAftertouch else h

def hashRegs (h : Nat) (r : ChRegs) : Nat :=
  let h := fnvBool h r.keyOn
  let h := fnvInt h (match r.ftone with | some f => f | none => -1)
  let h := fnvList (fnvList h r.tl) r.mul
  fnvNat (fnvNat (hashTimbre h r.patch) r.b4) r.pan

def ratStr (q : Rat) : String := s!"{q.num}/{q.den}"

def showNote (n : Note) : String :=
  let fl := (if n.isPerc then "P" else "") ++ (if n.isBlank then "B" else "") ++ (if n.onExt then "X" else "") ++ (if n.gliding then "G" else "")
  s!"{n.key}:{n.vol}:{n.noteTone}:{n.midiins}:{fl}:{ratStr n.ttl}>{",".intercalate (n.phys.map (toString ·.chan))}"

def showUser (u : User) : String :=
  s!"{u.midCh}:{u.key}:{u.sus}:{if u.fixedSustain then 1 else 0}:{u.kon}:{u.vibdelay}"

def snapshot (s : S) : String :=
  let ctl := s.midi.foldl hashCtl fnv0
  let rh := s.regs.foldl hashRegs fnv0
  let ms := (s.midi.zipIdx.filter (fun (m, _) => !m.notes.isEmpty || m.glidingCount != 0 || m.extCount != 0)).map fun (m, i) =>
    s!" m{i}\{g{m.glidingCount},e{m.extCount}:{";".intercalate (m.notes.map showNote)}}"
  let cs := ((s.chip.zip s.regs).zipIdx.filter (fun ((c, r), _) => !c.users.isEmpty || r.keyOn || c.koff != 0)).map fun ((c, r), i) =>
    let f := match r.ftone with | some f => toString f | none => "-"
    s!" c{i}\{k{if r.keyOn then 1 else 0} koff={c.koff} f={f} tl={".".intercalate (r.tl.map toString)} mul={".".intercalate (r.mul.map toString)} p={hashTimbre fnv0 r.patch} b4={r.b4} pan={r.pan} rec={hashTimbre fnv0 c.recent}:{";".intercalate (c.users.map showUser)}}"
  s!"mode={s.mode} mv={s.master} dev={s.devId} arp={s.arpCounter} nch={s.chip.length} nmidi={s.midi.length} ctl={ctl} R={rh}" ++
    String.join ms ++ String.join cs

/-- parse the taps appended by the check after '@': chan:toneMant:toneExp:hertzMant:hertzExp -/
def parseTap (w : String) : Option Tap :=
  match w.splitOn ":" with
  | [c, tm, te, hm, he] =>
    match c.toNat?, tm.toInt?, te.toInt?, hm.toInt?, he.toInt? with
    | some c, some tm, some te, some hm, some he =>
      let tone : Rat := if te ≥ 0 then (tm * (2 : Int) ^ te.toNat : Int) else (tm : Rat) / ((2 : Nat) ^ (-te).toNat : Nat)
      if hm < 0 then some { chan := c, tone := tone, hertz := ⟨0, 0⟩, refused := true }
      else some { chan := c, tone := tone, hertz := if he ≥ 0 then ⟨hm.toNat * 2 ^ he.toNat, 0⟩ else ⟨hm.toNat, (-he).toNat⟩ }
    | _, _, _, _, _ => none
  | _ => none

def splitTaps (ws : List String) : List String × List String :=
  match ws.span (· != "@") with
  | (a, _ :: b) => (a, b)
  | (a, []) => (a, [])

def runM (s : S) (m : M α) : Except Fault (α × S) := m.run s

def finish (s0 : S) (r : Except Fault (String × S)) : S × String :=
  match r with
  | .error f => (s0, toString f)
  | .ok (ret, s) =>
    let leftover := if s.taps.isEmpty then "" else s!" TAPS-LEFT={s.taps.length}"
    let errs := if s.tapErr.isEmpty then "" else " TAPERR=" ++ "|".intercalate s.tapErr
    let inv := if invB s then "" else " INV-VIOLATED:" ++ invReport s
    ({ s with taps := [], tapErr := [] }, s!"ret={ret} {snapshot s}{leftover}{errs}{inv}")

def insOfFields (no vo : Int) (pk fl fb lf : Nat) (ops : List Nat) (don doff : Nat) : Ins :=
  { op := { ops := ops, fbalg := fb, lfosens := lf, noteOffset := no }, drumTone := pk, flags := fl, keyOnMs := don, keyOffMs := doff, velOffset := vo }

/-- LoadBank on an accepted image: replace the banks, take the bank-wide setup, applySetup -/
def loadBankM (f : Wopn.WFile) : M Unit := do
  let api := BankApi.loadBanks (BankMap.bempty) f
  let banks : BankMap.BMap (List Ins) :=
    { buckets := api.buckets.map (fun c => c.map fun (k, b) => (k, b.map Ins.ofApi)), free := api.free, capacity := api.capacity, size := api.size }
  modify fun s =>
    -- the slot pool of the existing map is kept by clear(); only the contents matter to the synth
    { s with banks := banks, bankVolumeModel := f.volumeModel, bankChipType := f.chipType,
             setup := { s.setup with volumeModel := 0, lfoEnable := -1, lfoFrequency := -1, chipType := -1 } }
  applySetup

def step (s : S) (ws0 : List String) : S × String :=
  let (ws, tapWs) := splitTaps ws0
  let taps := tapWs.filterMap parseTap
  let s := { s with taps := taps, tapErr := if taps.length != tapWs.length then ["bad-tap-syntax"] else [] }
  let unit (m : M Unit) : S × String := finish s ((runM s m).map fun (_, s') => ("-", s'))
  match ws with
  | ["new", rate, chips] =>
    match rate.toNat?, chips.toNat? with
    | some rate, some chips =>
      let s0 : S := { Synth.init with pcmRate := rate }
      finish s0 ((runM s0 (do
        modify fun st => { st with setup := { st.setup with numChips := chips }, numChips := chips, taps := taps }
        rebuildChips)).map fun (_, s') => ("-", s'))
    | _, _ => (s, "bad-op")
  | ["bank", hex] =>
    match hexBytes? hex with
    | some b =>
      match Wopn.loadBank b with
      | .ok (.ok f) => finish s ((runM s (loadBankM f)).map fun (_, s') => ("0", s'))
      | .ok (.err _) => finish s (.ok ("-1", s))
      | .error e => (s, toString e)
    | none => (s, "bad-op")
  | ["setins", perc, msb, lsb, idx, no, vo, pk, fl, fb, lf, ops, don, doff] =>
    match nats? [perc, msb, lsb, idx, pk, fl, fb, lf, don, doff], no.toInt?, vo.toInt?, hexBytes? ops with
    | some [perc, msb, lsb, idx, pk, fl, fb, lf, don, doff], some no, some vo, some ops =>
      let k := BankApi.keyOf perc msb lsb
      let blank : List Ins := List.replicate 128 Ins.empty
      let banks := (BankMap.binsert s.banks k blank).1
      let newIns := insOfFields no vo pk fl fb lf ops don doff
      let oldIns : Option Ins := ((BankMap.bfind banks k).bind fun b => b[idx]?)
      let banks := BankMap.bupdate banks k (fun b => b.set idx newIns)
      -- a sounding note refers to its bank entry (pointer in the implementation): it sees the edited instrument
      let midi := match oldIns with
        | some o => s.midi.map fun m => { m with notes := m.notes.map fun n => if n.midiins == idx && n.ins == o && !n.isBlank then { n with ins := newIns } else n }
        | none => s.midi
      finish s (.ok ("0", { s with banks := banks, midi := midi }))
    | _, _, _, _ => (s, "bad-op")
  | ["on", ch, key, vel] =>
    match nats? [ch, key, vel] with
    | some [ch, key, vel] => finish s ((runM s (realTimeNoteOn ch key vel)).map fun (r, s') => (if r then "1" else "0", s'))
    | _ => (s, "bad-op")
  | ["off", ch, key] =>
    match nats? [ch, key] with
    | some [ch, key] => unit (do let c ← normChan ch; noteOffM c key)
    | _ => (s, "bad-op")
  | ["cc", ch, t, v] =>
    match nats? [ch, t, v] with
    | some [ch, t, v] => unit (realTimeController ch t v)
    | _ => (s, "bad-op")
  | ["pc", ch, p] =>
    match nats? [ch, p] with
    | some [ch, p] => unit (realTimePatchChange ch p)
    | _ => (s, "bad-op")
  | ["pb", ch, v] =>
    match nats? [ch, v] with
    | some [ch, v] => unit (realTimePitchBend ch v)
    | _ => (s, "bad-op")
  | ["bankmsb", ch, v] =>
    match nats? [ch, v] with
    | some [ch, v] => unit (realTimeBankChange ch none (some v))
    | _ => (s, "bad-op")
  | ["banklsb", ch, v] =>
    match nats? [ch, v] with
    | some [ch, v] => unit (realTimeBankChange ch (some v) none)
    | _ => (s, "bad-op")
  | ["nat", ch, n, v] =>
    match nats? [ch, n, v] with
    | some [ch, n, v] => unit (realTimeNoteAfterTouch ch n v)
    | _ => (s, "bad-op")
  | ["cat", ch, v] =>
    match nats? [ch, v] with
    | some [ch, v] => unit (realTimeChannelAfterTouch ch v)
    | _ => (s, "bad-op")
  | ["sysex", hex] =>
    match hexBytes? hex with
    | some b => finish s ((runM s (realTimeSysEx b)).map fun (r, s') => (if r then "1" else "0", s'))
    | none => (s, "bad-op")
  | ["panic"] => unit realTimePanic
  | ["rs"] => unit realTimeResetState
  | ["gen", n] =>
    match n.toInt? with
    | some n => finish s ((runM s (generate n)).map fun (r, s') => (toString r, s'))
    | none => (s, "bad-op")
  | ["arp", v] => finish s (.ok ("-", { s with setup := { s.setup with autoArpeggio := v != "0" } }))
  | ["frb", v] => finish s (.ok ("-", { s with setup := { s.setup with fullRangeBrightness := v != "0" } }))
  | ["sm", v] => finish s (.ok ("-", { s with setup := { s.setup with scaleModulators := v != "0" }, scaleModulators := v != "0" }))
  | ["softpan", v] => finish s (.ok ("-", { s with softPan := v != "0" }))
  | ["alloc", v] =>
    match v.toInt? with
    | some a => finish s (.ok ("-", { s with chanAlloc := if a < -1 || a ≥ 3 then -1 else a }))
    | none => (s, "bad-op")
  | ["vm", v] =>
    match v.toNat? with
    | some m =>
      let s' := { s with setup := { s.setup with volumeModel := m } }
      let s' := if m == 0 then { s' with volumeScale := s'.bankVolumeModel } else { s' with volumeScale := volumeScaleOfModel m s'.volumeScale }
      finish s (.ok ("-", s'))
    | none => (s, "bad-op")
  | ["chips", v] =>
    match v.toInt? with
    | some n =>
      if n < 1 || n > 100 then finish s (.ok ("-1", s))
      else finish s ((runM s (do
        modify fun st => { st with setup := { st.setup with numChips := n.toNat }, numChips := n.toNat }
        partialReset)).map fun (_, s') => ("0", s'))
    | none => (s, "bad-op")
  | ["emu", v] =>
    match v.toInt? with
    | some e =>
      -- every emulator id 0..8 is compiled in by default (Gen.emulatorMask); 7 is the VGM dumper, never used by the tests
      if e < 0 || e > 8 then finish s (.ok ("-1", s))
      else finish s ((runM s partialReset).map fun (_, s') => ("0", s'))
    | none => (s, "bad-op")
  | ["reset"] => unit (do partialReset; resetMIDI)
  | ["chiptype", v] =>
    match v.toInt? with
    | some t => unit (do modify (fun st => { st with setup := { st.setup with chipType := t } }); applySetup)
    | none => (s, "bad-op")
  | ["runatpcm", _] => unit partialReset
  | ["devid", v] =>
    match v.toNat? with
    | some d => if d > 15 then finish s (.ok ("-1", s)) else finish s (.ok ("0", { s with devId := d }))
    | none => (s, "bad-op")
  | _ => (s, "bad-op")

end Driver.Synth
