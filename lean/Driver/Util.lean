/- line-protocol helpers for the `opnmodel` driver (core Lean only) -/
namespace Driver

def words (line : String) : List String :=
  (line.trimAscii.toString.splitOn " ").filter (· ≠ "")

def nat? (s : String) : Option Nat := s.toNat?
def int? (s : String) : Option Int := s.toInt?

def nats? (ws : List String) : Option (List Nat) := ws.mapM nat?
def ints? (ws : List String) : Option (List Int) := ws.mapM int?

def joinNat (xs : List Nat) : String := " ".intercalate (xs.map toString)

/-- generic stdin loop: state machine over lines; empty/comment lines are echoed as nothing -/
partial def loop {σ : Type} (h : IO.FS.Stream) (out : IO.FS.Stream) (step : σ → List String → σ × String) (s : σ) : IO Unit := do
  let line ← h.getLine
  if line.isEmpty then
    out.flush
    return ()
  let ws := words line
  match ws with
  | [] => loop h out step s
  | w :: _ =>
    if w.startsWith "#" then loop h out step s
    else
      let (s', o) := step s ws
      out.putStrLn o
      loop h out step s'

def hexDigit (c : Char) : Option Nat :=
  if '0' ≤ c ∧ c ≤ '9' then some (c.toNat - '0'.toNat)
  else if 'a' ≤ c ∧ c ≤ 'f' then some (c.toNat - 'a'.toNat + 10)
  else if 'A' ≤ c ∧ c ≤ 'F' then some (c.toNat - 'A'.toNat + 10)
  else none

/-- "0a1bff" → [10, 27, 255]; "-" → [] -/
def hexBytes? (s : String) : Option (List Nat) :=
  if s = "-" then some [] else
  let rec go : List Char → List Nat → Option (List Nat)
    | [], acc => some acc.reverse
    | [_], _ => none
    | a :: b :: rest, acc => do
        let x ← hexDigit a
        let y ← hexDigit b
        go rest ((x * 16 + y) :: acc)
  go s.toList []

def hexOf (n : Nat) : String :=
  let d (k : Nat) : Char := if k < 10 then Char.ofNat (48 + k) else Char.ofNat (87 + k)
  String.ofList [d ((n / 16) % 16), d (n % 16)]

def hexStr (bs : List Nat) : String :=
  if bs.isEmpty then "-" else String.join (bs.map hexOf)

end Driver
