import OpnVerif.Model.Volume
import Driver.Util
namespace Driver.Volume
open Opn Opn.Volume

def showRes : Except Fault (List Nat) → String
  | .ok xs => "ok " ++ joinNat xs
  | .error f => toString f

/-- ops:
    touch model alg scaleMod bright vel vol expr master tl0 tl1 tl2 tl3
    vol   model vel vol expr master              (level only)
    bright b                                      (the re-mapping function)
    effbright isPerc fullRange cc74 -/
def step (_ : Unit) (ws : List String) : Unit × String :=
  match ws with
  | "touch" :: rest =>
    match nats? rest with
    | some [m, alg, sm, br, vel, vol, ex, ms, a, b, c, d] =>
        ((), showRes (touch { model := VModel.ofId m, alg := alg, scaleMod := sm != 0, bright := br, vel := vel,
                              vol := vol, expr := ex, master := ms, tl := [a, b, c, d] }))
    | _ => ((), "bad-op")
  | "apitouch" :: rest =>
    match ints? rest with
    | some [m, alg, sm, fr, cc74, perc, soft, off, vel, vol, ex, ms, a, b, c, d] =>
        ((), showRes (apiTouch (VModel.ofId m.toNat) alg.toNat (sm != 0) (fr != 0) cc74.toNat (perc != 0) (soft != 0)
                        off vel.toNat vol.toNat ex.toNat ms.toNat [a.toNat, b.toNat, c.toNat, d.toNat]))
    | _ => ((), "bad-op")
  | "vol" :: rest =>
    match nats? rest with
    | some [m, vel, vol, ex, ms] =>
        ((), match volumeOf (VModel.ofId m) vel vol ex ms with
             | .ok v => s!"ok {v}"
             | .error f => toString f)
    | _ => ((), "bad-op")
  | "bright" :: rest =>
    match nats? rest with
    | some [b] => ((), s!"ok {brightMap b}")
    | _ => ((), "bad-op")
  | "effbright" :: rest =>
    match nats? rest with
    | some [p, f, c] => ((), s!"ok {effectiveBrightness (p != 0) (f != 0) c}")
    | _ => ((), "bad-op")
  | _ => ((), "bad-op")

end Driver.Volume
