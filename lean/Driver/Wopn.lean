import OpnVerif.Model.Wopn
import Driver.Util
namespace Driver.Wopn
open Opn Opn.Wopn

def fnv (h : Nat) (bs : List Nat) : Nat :=
  bs.foldl (fun h b => ((h ^^^ (b % 256)) * 1099511628211) % 18446744073709551616) h

def serInst (i : Inst) : Bytes :=
  i.name ++ putS16be i.noteOffset ++ [(i.velOffset % 256).toNat, i.percKey, i.flags, i.fbalg, i.lfosens] ++ i.ops ++
    putU16be i.delayOn ++ putU16be i.delayOff

def serBank (b : Bank) : Bytes := b.name ++ [b.lsb, b.msb] ++ b.ins.flatMap serInst

def serFile (f : WFile) : Bytes :=
  putU16be f.version ++ [f.lfoFreq, f.chipType, f.volumeModel] ++ putU16be f.melodic.length ++ putU16be f.percussive.length ++
    f.melodic.flatMap serBank ++ f.percussive.flatMap serBank

def showFile (f : WFile) : String :=
  s!"ok v={f.version} lfo={f.lfoFreq} chip={f.chipType} vm={f.volumeModel} M={f.melodic.length} P={f.percussive.length} h={fnv 14695981039346656037 (serFile f)}"

def showIFile (f : IFile) : String :=
  s!"ok v={f.version} drum={f.isDrum} ins={hexStr (serInst f.inst)}"

def showLoad : Except Fault (LoadRes WFile) → String
  | .ok (.ok f) => showFile f
  | .ok (.err c) => s!"err {c}"
  | .error e => toString e

/-- modifications applied to a loaded value: `<sec>.<bank>.<ins>.<field>=<value>`; sec m|p; fields
    flags delayOn delayOff vel key off name(hex32); bank-level (ins = -) lsb msb bname(hex33); file-level `f.lfo= f.chip= f.vm= f.ver=` -/
def modInst (i : Inst) (field val : String) : Option Inst :=
  match field with
  | "flags" => val.toNat?.map fun v => { i with flags := v }
  | "delayOn" => val.toNat?.map fun v => { i with delayOn := v }
  | "delayOff" => val.toNat?.map fun v => { i with delayOff := v }
  | "vel" => val.toInt?.map fun v => { i with velOffset := v }
  | "key" => val.toNat?.map fun v => { i with percKey := v }
  | "off" => val.toInt?.map fun v => { i with noteOffset := v }
  | "name" => (hexBytes? val).bind fun b => if b.length = 32 then some { i with name := b } else none
  | _ => none

def modBanks (bs : List Bank) (bi : Nat) (ins field val : String) : Option (List Bank) := do
  let b ← bs[bi]?
  let b' ← (if ins = "-" then
      match field with
      | "lsb" => val.toNat?.map fun v => { b with lsb := v }
      | "msb" => val.toNat?.map fun v => { b with msb := v }
      | "bname" => (hexBytes? val).bind fun n => if n.length = 33 then some { b with name := n } else none
      | _ => none
    else do
      let k ← ins.toNat?
      let i ← b.ins[k]?
      let i' ← modInst i field val
      some { b with ins := b.ins.set k i' })
  some (bs.set bi b')

def applyMod (f : WFile) (m : String) : Option WFile :=
  match m.splitOn "=" with
  | [lhs, val] =>
    match lhs.splitOn "." with
    | ["f", "lfo"] => val.toNat?.map fun v => { f with lfoFreq := v }
    | ["f", "chip"] => val.toNat?.map fun v => { f with chipType := v }
    | ["f", "vm"] => val.toNat?.map fun v => { f with volumeModel := v }
    | ["f", "ver"] => val.toNat?.map fun v => { f with version := v }
    | ["m", bi, ins, field] => do
        let k ← bi.toNat?
        let bs ← modBanks f.melodic k ins field val
        some { f with melodic := bs }
    | ["p", bi, ins, field] => do
        let k ← bi.toNat?
        let bs ← modBanks f.percussive k ins field val
        some { f with percussive := bs }
    | _ => none
  | _ => none

def applyMods (f : WFile) : List String → Option WFile
  | [] => some f
  | m :: ms => (applyMod f m).bind (applyMods · ms)

def pad (out : Bytes) (n : Nat) : Bytes := out ++ List.replicate (n - out.length) 0xA5

def step (_ : Unit) (ws : List String) : Unit × String :=
  match ws with
  | ["load", hex] =>
    match hexBytes? hex with
    | some b => ((), showLoad (loadBank b))
    | none => ((), "bad-op")
  | ["loadinst", hex] =>
    match hexBytes? hex with
    | some b => ((), match loadInst b with
        | .ok (.ok f) => showIFile f
        | .ok (.err c) => s!"err {c}"
        | .error e => toString e)
    | none => ((), "bad-op")
  -- save <image> <ver> <gm> <destLen> mods... : destination bytes after the call (0xA5 prefill) and the return code
  | "save" :: hex :: ver :: gm :: dl :: mods =>
    match hexBytes? hex, ver.toNat?, gm.toNat?, dl.toNat? with
    | some b, some v, some g, some n =>
      match loadBank b with
      | .ok (.ok f) =>
        match applyMods f mods with
        | some f =>
          match saveBank f n v (g != 0) with
          | .ok r => ((), s!"code={r.code} size={calcBankSize f v} buf={hexStr (pad r.out n)}")
          | .error e => ((), toString e)
        | none => ((), "bad-mod")
      | _ => ((), "bad-image")
    | _, _, _, _ => ((), "bad-op")
  -- rt <image> <ver> mods... : save into exactly calcSize bytes, load again, compare
  | "rt" :: hex :: ver :: mods =>
    match hexBytes? hex, ver.toNat? with
    | some b, some v =>
      match loadBank b with
      | .ok (.ok f) =>
        match applyMods f mods with
        | some f =>
          match saveBank f (calcBankSize f v) v false with
          | .ok r =>
            if r.code != 0 then ((), s!"savecode={r.code}") else
            match loadBank r.out with
            | .ok (.ok g) => ((), s!"{showFile g} same={if g = f then 1 else 0} src={fnv 14695981039346656037 (serFile f)}")
            | .ok (.err c) => ((), s!"reload-err {c}")
            | .error e => ((), toString e)
          | .error e => ((), toString e)
        | none => ((), "bad-mod")
      | _ => ((), "bad-image")
    | _, _ => ((), "bad-op")
  -- saveinst <image> <ver> <destLen> ; rtinst <image> <ver>
  | ["saveinst", hex, ver, dl] =>
    match hexBytes? hex, ver.toNat?, dl.toNat? with
    | some b, some v, some n =>
      match loadInst b with
      | .ok (.ok f) =>
        match saveInst f n v with
        | .ok r => ((), s!"code={r.code} size={calcInstSize v} buf={hexStr (pad r.out n)}")
        | .error e => ((), toString e)
      | _ => ((), "bad-image")
    | _, _, _ => ((), "bad-op")
  | _ => ((), "bad-op")

end Driver.Wopn
