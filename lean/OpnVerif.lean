import OpnVerif.Model.Basic
import OpnVerif.Gen.Tables
import OpnVerif.Model.Volume
