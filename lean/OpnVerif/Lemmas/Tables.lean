/- Helper lemmas about finite tables (core Lean only). -/
import OpnVerif.Model.Basic
namespace Opn

/-- Bool check: list is non-decreasing -/
def isNonDec : List Nat → Bool
  | [] => true
  | [_] => true
  | a :: b :: xs => a ≤ b && isNonDec (b :: xs)

/-- Bool check: list is non-increasing -/
def isNonInc : List Nat → Bool
  | [] => true
  | [_] => true
  | a :: b :: xs => b ≤ a && isNonInc (b :: xs)

def allLe (n : Nat) (xs : List Nat) : Bool := xs.all (· ≤ n)

theorem isNonDec_head_le : ∀ (xs : List Nat) (a : Nat), isNonDec (a :: xs) = true → ∀ y ∈ xs, a ≤ y
  | [], _, _, y, hy => by cases hy
  | b :: xs, a, h, y, hy => by
      simp only [isNonDec, Bool.and_eq_true, decide_eq_true_eq] at h
      cases hy with
      | head => exact h.1
      | tail _ hy' => exact Nat.le_trans h.1 (isNonDec_head_le xs b h.2 y hy')

theorem isNonDec_tail : ∀ (xs : List Nat) (a : Nat), isNonDec (a :: xs) = true → isNonDec xs = true
  | [], _, _ => rfl
  | b :: xs, a, h => by
      simp only [isNonDec, Bool.and_eq_true, decide_eq_true_eq] at h
      exact h.2

theorem isNonDec_get : ∀ (xs : List Nat), isNonDec xs = true →
    ∀ i j (hi : i < xs.length) (hj : j < xs.length), i ≤ j → xs[i] ≤ xs[j]
  | [], _, i, _, hi, _, _ => by cases hi
  | a :: xs, h, i, j, hi, hj, hij => by
      cases i with
      | zero =>
          cases j with
          | zero => exact Nat.le_refl _
          | succ j =>
              simp only [List.getElem_cons_zero, List.getElem_cons_succ]
              exact isNonDec_head_le xs a h _ (List.getElem_mem _)
      | succ i =>
          cases j with
          | zero => omega
          | succ j =>
              simp only [List.getElem_cons_succ]
              exact isNonDec_get xs (isNonDec_tail xs a h) i j (by simpa using hi) (by simpa using hj) (by omega)

theorem isNonInc_head_ge : ∀ (xs : List Nat) (a : Nat), isNonInc (a :: xs) = true → ∀ y ∈ xs, y ≤ a
  | [], _, _, y, hy => by cases hy
  | b :: xs, a, h, y, hy => by
      simp only [isNonInc, Bool.and_eq_true, decide_eq_true_eq] at h
      cases hy with
      | head => exact h.1
      | tail _ hy' => exact Nat.le_trans (isNonInc_head_ge xs b h.2 y hy') h.1

theorem isNonInc_tail : ∀ (xs : List Nat) (a : Nat), isNonInc (a :: xs) = true → isNonInc xs = true
  | [], _, _ => rfl
  | b :: xs, a, h => by
      simp only [isNonInc, Bool.and_eq_true, decide_eq_true_eq] at h
      exact h.2

theorem isNonInc_get : ∀ (xs : List Nat), isNonInc xs = true →
    ∀ i j (hi : i < xs.length) (hj : j < xs.length), i ≤ j → xs[j] ≤ xs[i]
  | [], _, i, _, hi, _, _ => by cases hi
  | a :: xs, h, i, j, hi, hj, hij => by
      cases i with
      | zero =>
          cases j with
          | zero => exact Nat.le_refl _
          | succ j =>
              simp only [List.getElem_cons_zero, List.getElem_cons_succ]
              exact isNonInc_head_ge xs a h _ (List.getElem_mem _)
      | succ i =>
          cases j with
          | zero => omega
          | succ j =>
              simp only [List.getElem_cons_succ]
              exact isNonInc_get xs (isNonInc_tail xs a h) i j (by simpa using hi) (by simpa using hj) (by omega)

theorem allLe_get (n : Nat) (xs : List Nat) (h : allLe n xs = true) (i : Nat) (hi : i < xs.length) :
    xs[i] ≤ n := by
  have := List.all_eq_true.mp h xs[i] (List.getElem_mem hi)
  simpa using this

/-- number of list entries ≤ v is monotone in v -/
theorem filter_le_length_mono (xs : List Nat) {v w : Nat} (h : v ≤ w) :
    (xs.filter (· ≤ v)).length ≤ (xs.filter (· ≤ w)).length := by
  induction xs with
  | nil => simp
  | cons a xs ih =>
      simp only [List.filter_cons]
      by_cases h1 : a ≤ v
      · have h2 : a ≤ w := Nat.le_trans h1 h
        simp [h1, h2]; exact ih
      · by_cases h2 : a ≤ w
        · simp [h1, h2]; omega
        · simp [h1, h2]; exact ih

end Opn
