/- Helper lemmas for the WOPN/OPNI model (core Lean only). -/
import OpnVerif.Model.Wopn
namespace Opn.Wopn
open Opn

@[simp] theorem zeros_length (n : Nat) : (zeros n).length = n := by simp [zeros]

theorem rd_ok (site : String) (n : Nat) (cur : Bytes) (h : n ≤ cur.length) :
    rd site n cur = .ok (cur.take n, cur.drop n) := by simp [rd, h]

theorem strncpy_length : ∀ (n : Nat) (s : Bytes), (strncpy n s).length = n
  | 0, _ => rfl
  | n + 1, [] => by simp [strncpy]
  | n + 1, c :: cs => by
      unfold strncpy; split
      · simp
      · simp [strncpy_length n cs]

theorem strncpy_zeros : ∀ (n m : Nat), strncpy n (zeros m) = zeros n
  | 0, _ => rfl
  | n + 1, 0 => by simp [strncpy, zeros]
  | n + 1, m + 1 => by simp [strncpy, zeros, List.replicate_succ]

theorem strncpy_idem : ∀ (n : Nat) (s : Bytes), strncpy n (strncpy n s) = strncpy n s
  | 0, _ => rfl
  | n + 1, [] => by
      have := strncpy_zeros (n + 1) (n + 1)
      simpa [strncpy] using this
  | n + 1, c :: cs => by
      by_cases hc : c = 0
      · subst hc
        have := strncpy_zeros (n + 1) (n + 1)
        simpa [strncpy] using this
      · simp only [strncpy, hc, if_false]
        rw [strncpy_idem n cs]

/-- strncpy only looks at the first n bytes of its source -/
theorem strncpy_take : ∀ (n : Nat) (s : Bytes), strncpy n (s.take n) = strncpy n s
  | 0, _ => rfl
  | n + 1, [] => rfl
  | n + 1, c :: cs => by
      simp only [List.take_succ_cons, strncpy]
      split
      · rfl
      · rw [strncpy_take n cs]

theorem strncpy_bytes : ∀ (n : Nat) (s : Bytes), (∀ x ∈ s, x < 256) → ∀ x ∈ strncpy n s, x < 256
  | 0, _, _, x, hx => by simp [strncpy] at hx
  | n + 1, [], _, x, hx => by
      simp [strncpy, zeros] at hx; omega
  | n + 1, c :: cs, h, x, hx => by
      unfold strncpy at hx
      split at hx
      · simp [zeros] at hx; omega
      · cases hx with
        | head => exact h c (by simp)
        | tail _ hx' => exact strncpy_bytes n cs (fun y hy => h y (by simp [hy])) x hx'

theorem s16_roundtrip (n : Int) (h1 : -32768 ≤ n) (h2 : n ≤ 32767) :
    s16be ((n % 65536).toNat / 256) ((n % 65536).toNat % 256) = n := by
  unfold s16be
  split <;> omega

theorem u16be_roundtrip (n : Nat) (h : n < 65536) : 256 * ((n / 256) % 256) + n % 256 = n := by omega

theorem putS16be_bytes (n : Int) : ∀ x ∈ putS16be n, x < 256 := by
  intro x hx
  simp only [putS16be, List.mem_cons, List.mem_nil_iff, or_false] at hx
  rcases hx with h | h <;> omega

end Opn.Wopn

namespace Opn.Wopn

/-! ## shape (what the C struct types guarantee) -/

/-- the field ranges the C types of WOPNInstrument impose -/
structure Inst.Shape (i : Inst) : Prop where
  name_len : i.name.length = 32
  ops_len : i.ops.length = 28
  name_b : ∀ x ∈ i.name, x < 256
  ops_b : ∀ x ∈ i.ops, x < 256
  key_b : i.percKey < 256
  fbalg_b : i.fbalg < 256
  lfo_b : i.lfosens < 256
  flags_b : i.flags < 256
  on_b : i.delayOn < 65536
  off_b : i.delayOff < 65536
  no_lo : -32768 ≤ i.noteOffset
  no_hi : i.noteOffset ≤ 32767
  vel_lo : -128 ≤ i.velOffset
  vel_hi : i.velOffset ≤ 127

/-- what load∘save does to an instrument (format version `v` ≤ 2; `d` = record carries delays) -/
def canonInst (v : Nat) (d : Bool) (i : Inst) : Inst :=
  let del := v ≥ 2 && d
  let blank := i.flags % 4 / 2 == 1
  let on := if del then (if blank then 0 else i.delayOn) else 0
  let off := if del then (if blank then 0 else i.delayOff) else 0
  { i with name := (strncpy 32 i.name).set 31 0, velOffset := 0, delayOn := on, delayOff := off,
           flags := if del && on == 0 && off == 0 then 2 else 0 }

theorem writeInst_length (v : Nat) (d : Bool) (i : Inst) (hs : i.ops.length = 28) :
    (writeInst v d i).length = if v ≥ 2 && d then 69 else 65 := by
  unfold writeInst
  simp only [List.length_append, strncpy_length, putS16be, hs, List.length_cons, List.length_nil]
  split
  · split <;> simp [putU16be]
  · simp

/-- parsing never faults on a record of sufficient length -/
theorem parseInst_ok (v : Nat) (d : Bool) (r : Bytes) (h : (if v ≥ 2 && d then 69 else 65) ≤ r.length) :
    ∃ i, parseInst v d r = .ok i := by
  have h65 : 65 ≤ r.length := by split at h <;> omega
  unfold parseInst
  have hl : (r.drop 32).length = r.length - 32 := List.length_drop
  match hd : r.drop 32 with
  | [] => rw [hd] at hl; simp at hl; omega
  | [_] => rw [hd] at hl; simp at hl; omega
  | [_, _] => rw [hd] at hl; simp at hl; omega
  | [_, _, _] => rw [hd] at hl; simp at hl; omega
  | [_, _, _, _] => rw [hd] at hl; simp at hl; omega
  | hi :: lo :: key :: fb :: lfo :: rest =>
    rw [hd] at hl
    simp only [List.length_cons] at hl
    have hr : ¬ rest.length < 28 := by omega
    simp only [hr, if_false]
    split
    · rename_i hv
      have h69 : 69 ≤ r.length := by simp [hv] at h; exact h
      have hl2 : (rest.drop 28).length = rest.length - 28 := List.length_drop
      match hd2 : rest.drop 28 with
      | [] => rw [hd2] at hl2; simp at hl2; omega
      | [_] => rw [hd2] at hl2; simp at hl2; omega
      | [_, _] => rw [hd2] at hl2; simp at hl2; omega
      | [_, _, _] => rw [hd2] at hl2; simp at hl2; omega
      | a :: b :: c :: e :: _ => exact ⟨_, rfl⟩
    · exact ⟨_, rfl⟩

/-- **instrument record round trip** -/
theorem parse_write_inst (v : Nat) (d : Bool) (i : Inst) (hs : i.Shape) (hv : v < 3) :
    parseInst v d (writeInst v d i) = .ok (canonInst v d i) := by
  have hn := strncpy_length 32 i.name
  have e1 : (writeInst v d i).drop 32 =
      (i.noteOffset % 65536).toNat / 256 :: (i.noteOffset % 65536).toNat % 256 :: i.percKey :: i.fbalg :: i.lfosens ::
        (i.ops ++ (if v ≥ 2 && d then
          (if v < 3 && i.flags % 4 / 2 == 1 then [0, 0, 0, 0] else putU16be i.delayOn ++ putU16be i.delayOff) else [])) := by
    unfold writeInst
    rw [List.append_assoc, List.append_assoc, List.append_assoc, List.drop_left' hn]
    simp [putS16be]
  have e2 : (writeInst v d i).take 32 = strncpy 32 i.name := by
    unfold writeInst
    rw [List.append_assoc, List.append_assoc, List.append_assoc, List.take_left' hn]
  unfold parseInst
  rw [e1]
  simp only [e2, strncpy_idem]
  have hlen : ¬ (i.ops ++ (if v ≥ 2 && d then
          (if v < 3 && i.flags % 4 / 2 == 1 then [0, 0, 0, 0] else putU16be i.delayOn ++ putU16be i.delayOff) else [])).length < 28 := by
    simp [hs.ops_len]
  simp only [hlen, if_false, List.take_left' hs.ops_len, List.drop_left' hs.ops_len,
    s16_roundtrip _ hs.no_lo hs.no_hi]
  have hv3 : (decide (v < 3)) = true := by simp [hv]
  by_cases hdel : (v ≥ 2 && d) = true
  · simp only [hdel, if_true, hv3, Bool.true_and]
    by_cases hb : (i.flags % 4 / 2 == 1) = true
    · simp [hb, canonInst, hdel]
    · simp only [hb]
      have on_rt := u16be_roundtrip _ hs.on_b
      have off_rt := u16be_roundtrip _ hs.off_b
      simp only [putU16be, List.cons_append, List.nil_append, Bool.false_eq_true, if_false, on_rt, off_rt]
      simp [canonInst, hdel, hb]
  · simp only [hdel, Bool.false_eq_true, if_false]
    simp [canonInst, hdel]

end Opn.Wopn

namespace Opn.Wopn

theorem instSize_cases (v : Nat) : instSize v = if v ≥ 2 && true then 69 else 65 := by
  unfold instSize; by_cases h : v > 1 <;> simp [h] <;> omega

/-- reading `k` records never faults when `k` records are present -/
theorem readInsts_ok (v : Nat) : ∀ (k : Nat) (cur : Bytes), k * instSize v ≤ cur.length →
    ∃ xs rest, readInsts v (instSize v) k cur = .ok (xs, rest) ∧ xs.length = k ∧ rest = cur.drop (k * instSize v)
  | 0, cur, _ => ⟨[], cur, rfl, rfl, by simp⟩
  | k + 1, cur, h => by
      have hsz : instSize v ≤ cur.length := by
        have : (k + 1) * instSize v = k * instSize v + instSize v := Nat.succ_mul _ _
        omega
      have hp : (if v ≥ 2 && true then 69 else 65) ≤ (cur.take (instSize v)).length := by
        rw [List.length_take, ← instSize_cases]; omega
      obtain ⟨i, hi⟩ := parseInst_ok v true _ hp
      have hrest : k * instSize v ≤ (cur.drop (instSize v)).length := by
        rw [List.length_drop]
        have : (k + 1) * instSize v = k * instSize v + instSize v := Nat.succ_mul _ _
        omega
      obtain ⟨xs, rest, hx, hl, hr⟩ := readInsts_ok v k _ hrest
      refine ⟨i :: xs, rest, ?_, by simp [hl], ?_⟩
      · simp only [readInsts, rd_ok _ _ _ hsz, bind, Except.bind, hi, hx]
      · rw [hr, List.drop_drop]
        congr 1
        have : (k + 1) * instSize v = k * instSize v + instSize v := Nat.succ_mul _ _
        omega

/-- reading back what `writeInst` produced -/
theorem readInsts_write (v : Nat) (hv : v < 3) : ∀ (is : List Inst) (rest : Bytes), (∀ i ∈ is, i.Shape) →
    readInsts v (instSize v) is.length (is.flatMap (writeInst v true) ++ rest) =
      .ok (is.map (canonInst v true), rest)
  | [], rest, _ => by simp [readInsts]
  | i :: is, rest, h => by
      have hs := h i (by simp)
      have hl : (writeInst v true i).length = instSize v := by
        rw [writeInst_length v true i hs.ops_len, instSize_cases]
      have ih := readInsts_write v hv is rest (fun j hj => h j (by simp [hj]))
      have hsz : instSize v ≤ (writeInst v true i ++ (is.flatMap (writeInst v true) ++ rest)).length := by
        simp [hl]
      simp only [List.flatMap_cons, List.length_cons, readInsts, List.append_assoc, rd_ok _ _ _ hsz, bind, Except.bind,
        List.take_left' hl, List.drop_left' hl, parse_write_inst v true i hs hv, ih, List.map_cons]

/-- reading bank meta-data never faults -/
theorem readMetas_ok : ∀ (k : Nat) (cur : Bytes), ∃ r, readMetas k cur = .ok r
  | 0, cur => ⟨_, rfl⟩
  | k + 1, cur => by
      unfold readMetas
      by_cases h : cur.length < 34
      · simp [h]
      · simp only [h, if_false]
        have h34 : 34 ≤ cur.length := by omega
        simp only [rd_ok _ _ _ h34, bind, Except.bind]
        have hl : ((cur.take 34).drop 32).length = 2 := by simp [List.length_drop, List.length_take]; omega
        match hd : (cur.take 34).drop 32 with
        | [] => rw [hd] at hl; simp at hl
        | [_] => rw [hd] at hl; simp at hl
        | lsb :: msb :: _ =>
          obtain ⟨r, hr⟩ := readMetas_ok k (cur.drop 34)
          simp only [hr]
          cases r with
          | none => exact ⟨_, rfl⟩
          | some p => obtain ⟨ms, c⟩ := p; exact ⟨_, rfl⟩

/-- the bytes the saver stores for one bank's meta-data -/
def metaBytes (b : Bank) : Bytes := b.name.take 32 ++ [b.lsb, b.msb]

structure Bank.Shape (b : Bank) : Prop where
  name_len : b.name.length = 33
  name_b : ∀ x ∈ b.name, x < 256
  lsb_b : b.lsb < 256
  msb_b : b.msb < 256
  ins_len : b.ins.length = 128
  ins_s : ∀ i ∈ b.ins, i.Shape

theorem readMetas_write : ∀ (bs : List Bank) (rest : Bytes), (∀ b ∈ bs, b.Shape) →
    readMetas bs.length (bs.flatMap metaBytes ++ rest) =
      .ok (some (bs.map (fun b => (strncpy 32 b.name ++ [0], b.lsb, b.msb)), rest))
  | [], rest, _ => by simp [readMetas]
  | b :: bs, rest, h => by
      have hs := h b (by simp)
      have hl : (metaBytes b).length = 34 := by simp [metaBytes, List.length_take, hs.name_len]
      have ih := readMetas_write bs rest (fun j hj => h j (by simp [hj]))
      have h34 : ¬ (metaBytes b ++ (bs.flatMap metaBytes ++ rest)).length < 34 := by simp [hl]
      have h34' : 34 ≤ (metaBytes b ++ (bs.flatMap metaBytes ++ rest)).length := by simp [hl]
      have ht : (b.name.take 32).length = 32 := by simp [List.length_take, hs.name_len]
      have e1 : (metaBytes b).drop 32 = [b.lsb, b.msb] := by
        unfold metaBytes; rw [List.drop_left' ht]
      have e2 : (metaBytes b).take 32 = b.name.take 32 := by
        unfold metaBytes; rw [List.take_left' ht]
      simp only [List.flatMap_cons, List.length_cons, readMetas, List.append_assoc, h34, if_false, rd_ok _ _ _ h34', bind,
        Except.bind, List.take_left' hl, List.drop_left' hl, e1, e2, ih, List.map_cons, strncpy_take]

end Opn.Wopn

namespace Opn.Wopn

theorem readVersion_ok (m1 m2 b : Bytes) : ∃ r, readVersion m1 m2 b = .ok r := by
  unfold readVersion
  by_cases h : b.length < 11
  · simp [h]
  · simp only [h, if_false, rd_ok _ _ _ (show 11 ≤ b.length by omega)]
    split
    · exact ⟨_, rfl⟩
    · split
      · generalize b.drop 11 = cur
        match cur with
        | [] => exact ⟨_, rfl⟩
        | [_] => exact ⟨_, rfl⟩
        | a :: c :: rest =>
          simp only [List.length_cons]
          split
          · exact ⟨_, rfl⟩
          · split
            · exact ⟨_, rfl⟩
            · split <;> exact ⟨_, rfl⟩
      · exact ⟨_, rfl⟩

theorem readMetasBoth_ok (v cm cp : Nat) (cur : Bytes) : ∃ r, readMetasBoth v cm cp cur = .ok r := by
  unfold readMetasBoth
  split
  · obtain ⟨r, hr⟩ := readMetas_ok cm cur
    rw [hr]
    cases r with
    | none => exact ⟨_, rfl⟩
    | some p =>
      obtain ⟨mm, c⟩ := p
      obtain ⟨r2, hr2⟩ := readMetas_ok cp c
      simp only [hr2]
      cases r2 with
      | none => exact ⟨_, rfl⟩
      | some p2 => obtain ⟨pm, c2⟩ := p2; exact ⟨_, rfl⟩
  · exact ⟨_, rfl⟩

theorem readSections_ok (v cm cp : Nat) (cur : Bytes) : ∃ r, readSections v cm cp cur = .ok r := by
  unfold readSections
  by_cases h : cur.length < instSize v * 128 * cm
  · simp [h]
  · simp only [h, if_false]
    have h1 : cm * 128 * instSize v ≤ cur.length := by
      have : cm * 128 * instSize v = instSize v * 128 * cm := by ac_rfl
      omega
    obtain ⟨xs, rest, hx, _, _⟩ := readInsts_ok v (cm * 128) cur h1
    simp only [hx]
    by_cases h2 : rest.length < instSize v * 128 * cp
    · simp [h2]
    · simp only [h2, if_false]
      have h3 : cp * 128 * instSize v ≤ rest.length := by
        have : cp * 128 * instSize v = instSize v * 128 * cp := by ac_rfl
        omega
      obtain ⟨ys, rest2, hy, _, _⟩ := readInsts_ok v (cp * 128) rest h3
      simp only [hy]
      exact ⟨_, rfl⟩

theorem loadBankBody_ok (v : Nat) (cur : Bytes) : ∃ r, loadBankBody v cur = .ok r := by
  unfold loadBankBody
  by_cases h : cur.length < 5
  · simp [h]
  · simp only [h, if_false]
    match cur, h with
    | [], h => simp at h
    | [_], h => simp at h
    | [_, _], h => simp at h
    | [_, _, _], h => simp at h
    | [_, _, _, _], h => simp at h
    | h0 :: h1 :: h2 :: h3 :: h4 :: cur, _ =>
      simp only
      obtain ⟨r, hr⟩ := readMetasBoth_ok v (256 * h0 + h1) (256 * h2 + h3) cur
      rw [hr]
      cases r with
      | none => exact ⟨_, rfl⟩
      | some p =>
        obtain ⟨mm, pm, c⟩ := p
        simp only
        obtain ⟨r2, hr2⟩ := readSections_ok v (256 * h0 + h1) (256 * h2 + h3) c
        rw [hr2]
        cases r2 with
        | none => exact ⟨_, rfl⟩
        | some q => obtain ⟨mi, pi⟩ := q; exact ⟨_, rfl⟩

end Opn.Wopn

namespace Opn.Wopn

/-! ## savers -/

def St.w : St → W
  | .go w => w
  | .short w => w

/-- the stage does not fault and keeps `stored + remaining = destination length` -/
def Good (n : Nat) (r : Except Fault St) : Prop := ∃ st, r = .ok st ∧ st.w.out.length + st.w.rem = n

theorem put_ok (site : String) (w : W) (bs : Bytes) (h : bs.length ≤ w.rem) :
    put site w bs = .ok { out := w.out ++ bs, rem := w.rem - bs.length } := by simp [put, h]

theorem good_short (n : Nat) (w : W) (h : w.out.length + w.rem = n) : Good n (.ok (.short w)) := ⟨_, rfl, h⟩
theorem good_go (n : Nat) (w : W) (h : w.out.length + w.rem = n) : Good n (.ok (.go w)) := ⟨_, rfl, h⟩

theorem good_andThen (n : Nat) (r : Except Fault St) (k : W → Except Fault St) (hr : Good n r)
    (hk : ∀ w, w.out.length + w.rem = n → Good n (k w)) : Good n (andThen r k) := by
  obtain ⟨st, e, h⟩ := hr
  subst e
  cases st with
  | go w => exact hk w h
  | short w => exact ⟨_, rfl, h⟩

theorem writeInsts_ok (v : Nat) : ∀ (is : List Inst) (w : W), (∀ i ∈ is, i.ops.length = 28) →
    is.length * (if v ≥ 2 then 69 else 65) ≤ w.rem →
    writeInsts v w is = .ok { out := w.out ++ is.flatMap (writeInst v true),
                              rem := w.rem - is.length * (if v ≥ 2 then 69 else 65) }
  | [], w, _, _ => by simp [writeInsts]
  | i :: is, w, hs, h => by
      have hl : (writeInst v true i).length = if v ≥ 2 then 69 else 65 := by
        rw [writeInst_length v true i (hs i (by simp))]; simp
      have hmul : (is.length + 1) * (if v ≥ 2 then 69 else 65) = is.length * (if v ≥ 2 then 69 else 65) + (if v ≥ 2 then 69 else 65) :=
        Nat.succ_mul _ _
      simp only [List.length_cons] at h
      have h1 : (writeInst v true i).length ≤ w.rem := by omega
      simp only [writeInsts, put_ok _ _ _ h1, bind, Except.bind]
      rw [writeInsts_ok v is _ (fun j hj => hs j (by simp [hj])) (by simp only [hl]; omega)]
      simp only [List.flatMap_cons, List.append_assoc, List.length_cons, hl, Except.ok.injEq, W.mk.injEq, true_and]
      omega

theorem writeMetas_good (n : Nat) : ∀ (bs : List Bank) (w : W), (∀ b ∈ bs, b.name.length = 33) →
    w.out.length + w.rem = n → Good n (writeMetas w bs)
  | [], w, _, h => good_go n w h
  | b :: bs, w, hs, h => by
      unfold writeMetas
      by_cases h34 : w.rem < 34
      · simp only [h34, if_true]; exact good_short n w h
      · have hl : (b.name.take 32 ++ [b.lsb, b.msb]).length = 34 := by
          simp [List.length_take, hs b (by simp)]
        simp only [h34, if_false, put_ok _ _ _ (show (b.name.take 32 ++ [b.lsb, b.msb]).length ≤ w.rem by omega), bind, Except.bind]
        apply writeMetas_good n bs _ (fun j hj => hs j (by simp [hj]))
        show (w.out ++ (b.name.take 32 ++ [b.lsb, b.msb])).length + (w.rem - (b.name.take 32 ++ [b.lsb, b.msb]).length) = n
        rw [List.length_append, hl]
        omega

theorem writeMetas_ok : ∀ (bs : List Bank) (w : W), (∀ b ∈ bs, b.name.length = 33) → 34 * bs.length ≤ w.rem →
    writeMetas w bs = .ok (.go { out := w.out ++ bs.flatMap metaBytes, rem := w.rem - 34 * bs.length })
  | [], w, _, _ => by simp [writeMetas]
  | b :: bs, w, hs, h => by
      simp only [List.length_cons] at h
      have hl : (b.name.take 32 ++ [b.lsb, b.msb]).length = 34 := by
        simp [List.length_take, hs b (by simp)]
      have h34 : ¬ w.rem < 34 := by omega
      simp only [writeMetas, h34, if_false, put_ok _ _ _ (show (b.name.take 32 ++ [b.lsb, b.msb]).length ≤ w.rem by omega), bind, Except.bind]
      rw [writeMetas_ok bs _ (fun j hj => hs j (by simp [hj])) (by simp only [hl]; omega)]
      simp only [List.flatMap_cons, metaBytes, List.append_assoc, List.length_cons, hl, Except.ok.injEq, St.go.injEq, W.mk.injEq, true_and]
      omega

end Opn.Wopn

namespace Opn.Wopn

/-! ## whole files -/

structure WFile.Shape (f : WFile) : Prop where
  mel_pos : 1 ≤ f.melodic.length
  mel_lt : f.melodic.length < 65536
  per_pos : 1 ≤ f.percussive.length
  per_lt : f.percussive.length < 65536
  mel_s : ∀ b ∈ f.melodic, b.Shape
  per_s : ∀ b ∈ f.percussive, b.Shape

def allInsts (bs : List Bank) : List Inst := bs.flatMap (·.ins)

/-- the bytes a successful WOPN_SaveBankToMem stores (format version 1 or 2) -/
def image (f : WFile) (v : Nat) : Bytes :=
  (if v > 1 then Gen.wopnMagic2 ++ putU16le v else Gen.wopnMagic1) ++
  (putU16be f.melodic.length ++ (putU16be f.percussive.length ++
  ([(f.lfoFreq % 16) + (if v ≥ 2 then (f.chipType % 2) * 16 else 0)] ++
  ((if v ≥ 2 then f.melodic.flatMap metaBytes ++ f.percussive.flatMap metaBytes else []) ++
  ((allInsts f.melodic).flatMap (writeInst v true) ++ (allInsts f.percussive).flatMap (writeInst v true))))))

def canonBank (v : Nat) (b : Bank) : Bank :=
  { name := if v ≥ 2 then strncpy 32 b.name ++ [0] else zeros 33,
    lsb := if v ≥ 2 then b.lsb else 0, msb := if v ≥ 2 then b.msb else 0,
    ins := b.ins.map (canonInst v true) }

/-- what load∘save does to a bank file -/
def canonFile (v : Nat) (f : WFile) : WFile :=
  { version := v, lfoFreq := f.lfoFreq % 16, chipType := if v ≥ 2 then f.chipType % 2 else 0, volumeModel := 0,
    melodic := f.melodic.map (canonBank v), percussive := f.percussive.map (canonBank v) }

theorem allInsts_length : ∀ (bs : List Bank), (∀ b ∈ bs, b.ins.length = 128) → (allInsts bs).length = bs.length * 128
  | [], _ => rfl
  | b :: bs, h => by
      simp only [allInsts, List.flatMap_cons, List.length_append, List.length_cons]
      have := allInsts_length bs (fun j hj => h j (by simp [hj]))
      simp only [allInsts] at this
      rw [this, h b (by simp)]; omega

theorem flat_write_length (v : Nat) : ∀ (is : List Inst), (∀ i ∈ is, i.ops.length = 28) →
    (is.flatMap (writeInst v true)).length = is.length * (if v ≥ 2 then 69 else 65)
  | [], _ => by simp
  | i :: is, h => by
      have hl : (writeInst v true i).length = if v ≥ 2 then 69 else 65 := by
        rw [writeInst_length v true i (h i (by simp))]; simp
      simp only [List.flatMap_cons, List.length_append, List.length_cons, hl,
        flat_write_length v is (fun j hj => h j (by simp [hj]))]
      rw [Nat.succ_mul]; omega

theorem flat_meta_length : ∀ (bs : List Bank), (∀ b ∈ bs, b.name.length = 33) → (bs.flatMap metaBytes).length = 34 * bs.length
  | [], _ => by simp
  | b :: bs, h => by
      have hl : (metaBytes b).length = 34 := by simp [metaBytes, List.length_take, h b (by simp)]
      simp only [List.flatMap_cons, List.length_append, hl, List.length_cons,
        flat_meta_length bs (fun j hj => h j (by simp [hj]))]
      omega

theorem applyMetas_nil : ∀ (bs : List Bank), applyMetas bs [] = bs
  | [] => rfl
  | _ :: _ => rfl

/-- rebuilding the banks from the parsed meta-data and the flat instrument list -/
theorem fill_banks (g : Inst → Inst) (nm : Bank → Bytes) (l m : Bank → Nat) :
    ∀ (bs : List Bank), (∀ b ∈ bs, b.ins.length = 128) →
    fillBanks (applyMetas (List.replicate bs.length Bank.zero) (bs.map (fun b => (nm b, l b, m b))))
      ((allInsts bs).map g) = bs.map (fun b => { name := nm b, lsb := l b, msb := m b, ins := b.ins.map g })
  | [], _ => rfl
  | b :: bs, h => by
      have hb : (b.ins.map g).length = 128 := by simp [h b (by simp)]
      simp only [List.length_cons, List.replicate_succ, List.map_cons, applyMetas, fillBanks, allInsts, List.flatMap_cons,
        List.map_append, List.take_left' hb, List.drop_left' hb]
      have ih := fill_banks g nm l m bs (fun j hj => h j (by simp [hj]))
      simp only [allInsts] at ih
      rw [ih]

theorem fill_banks_nometa (g : Inst → Inst) :
    ∀ (bs : List Bank), (∀ b ∈ bs, b.ins.length = 128) →
    fillBanks (List.replicate bs.length Bank.zero) ((allInsts bs).map g) =
      bs.map (fun b => { name := zeros 33, lsb := 0, msb := 0, ins := b.ins.map g })
  | [], _ => rfl
  | b :: bs, h => by
      have hb : (b.ins.map g).length = 128 := by simp [h b (by simp)]
      simp only [List.length_cons, List.replicate_succ, List.map_cons, fillBanks, allInsts, List.flatMap_cons,
        List.map_append, List.take_left' hb, List.drop_left' hb]
      have ih := fill_banks_nometa g bs (fun j hj => h j (by simp [hj]))
      simp only [allInsts] at ih
      rw [ih]; rfl

end Opn.Wopn
