/-
  Model of the audio path of src/opnmidi.cpp: sample conversions (opn2_cvt*, opnmidi_private.hpp), SendStereoAudio
  (which bytes of the caller's memory are stored, and what), and the period loop of opn2_generateFormat with the
  period sizes as an oracle (the float computation only decides how the work is split, DESIGN §3.2(4)).
-/
import OpnVerif.Model.Basic
import OpnVerif.Gen.Enums

namespace Opn.Audio
open Opn

/-! ## sample conversions (int32 in, int32 out) -/

def cvtS16 (x : Int) : Int := if x < -32768 then -32768 else if x > 32767 then 32767 else x
def cvtS8 (x : Int) : Int := Int.tdiv (cvtS16 x) 256
def cvtS24 (x : Int) : Int := cvtS16 x * 256
def cvtS32 (x : Int) : Int := cvtS16 x * 65536
def cvtU16 (x : Int) : Int := cvtS16 x + 32768
def cvtU8 (x : Int) : Int := cvtS8 x + 128
def cvtU24 (x : Int) : Int := cvtS24 x + 8388608
/-- `(uint32_t)opn2_cvtS32(x) - (uint32_t)INT32_MIN`, returned as int32 -/
def cvtU32 (x : Int) : Int := toSigned 32 (ofSigned 32 (cvtS32 x + 2147483648))

/-- OPNMIDI_SampleType ids -/
inductive SType | s8 | u8 | s16 | u16 | s24 | u24 | s32 | u32 | f32 | f64
  deriving Repr, DecidableEq, Inhabited

def SType.ofName : String → Option SType
  | "S8" => some .s8 | "U8" => some .u8 | "S16" => some .s16 | "U16" => some .u16 | "S24" => some .s24 | "U24" => some .u24
  | "S32" => some .s32 | "U32" => some .u32 | "F32" => some .f32 | "F64" => some .f64 | _ => none

/-- the numeric ids are those of the regenerated enumeration OPNMIDI_SampleType -/
def SType.ofId (i : Nat) : Option SType := (Gen.sampleTypeNames[i]?).bind SType.ofName

/-- little-endian two's-complement bytes of an integer in a container of `n` bytes (`static_cast<Dst>` + store) -/
def leBytes (n : Nat) (v : Int) : List Nat :=
  let u := ofSigned (8 * n) v
  (List.range n).map fun i => u / 256 ^ i % 256

/-- round a positive rational to the nearest binary floating-point number with `p` significand bits (ties to even),
    exponent range ignored (all values here are far inside the normal range) -/
def roundBin (p : Nat) (q : Rat) : Rat :=
  if q == 0 then 0 else
  let a := if q < 0 then -q else q
  -- find e with 2^e ≤ a < 2^(e+1) by scaling (|e| ≤ 64 for our values)
  let rec go (fuel : Nat) (e : Int) (x : Rat) : Int :=
    match fuel with
    | 0 => e
    | f + 1 => if x ≥ 2 then go f (e + 1) (x / 2) else if x < 1 then go f (e - 1) (x * 2) else e
  let e := go 200 0 a
  let scale : Rat := if e - (p - 1 : Nat) ≥ 0 then (2 : Rat) ^ (e - (p - 1 : Nat)).toNat else 1 / (2 : Rat) ^ (-(e - (p - 1 : Nat))).toNat
  let m := a / scale                    -- in [2^(p-1), 2^p)
  let fl := m.floor
  let r := m - fl
  let mi : Int := if r > 1 / 2 then fl + 1 else if r < 1 / 2 then fl else (if fl % 2 == 0 then fl else fl + 1)
  let res := (mi : Rat) * scale
  if q < 0 then -res else res

/-- `opn2_cvtReal<float>`: `(float)x * (1.0f / 32767.0f)`, all in single precision -/
def cvtF32 (x : Int) : Rat := roundBin 24 (roundBin 24 (x : Rat) * roundBin 24 ((1 : Rat) / 32767))
/-- `opn2_cvtReal<double>` -/
def cvtF64 (x : Int) : Rat := roundBin 53 ((x : Rat) * roundBin 53 ((1 : Rat) / 32767))

/-- what one sample becomes in the caller's memory: integer containers as bytes, float containers as the exact value -/
inductive Stored
  | bytes (bs : List Nat)
  | real (q : Rat) (size : Nat)
  deriving Repr

/-- SendStereoAudio's switch: `none` = the (type, container) pair is refused -/
def convert (t : SType) (container : Nat) (x : Int) : Option Stored :=
  match t with
  | .s8 => if container == 1 || container == 2 || container == 4 then some (.bytes (leBytes container (cvtS8 x))) else none
  | .u8 => if container == 1 || container == 2 || container == 4 then some (.bytes (leBytes container (cvtU8 x))) else none
  | .s16 => if container == 2 || container == 4 then some (.bytes (leBytes container (cvtS16 x))) else none
  | .u16 => if container == 2 || container == 4 then some (.bytes (leBytes container (cvtU16 x))) else none
  | .s24 => if container == 4 then some (.bytes (leBytes 4 (cvtS24 x))) else none
  | .u24 => if container == 4 then some (.bytes (leBytes 4 (cvtU24 x))) else none
  | .s32 => if container == 4 then some (.bytes (leBytes 4 (cvtS32 x))) else none
  | .u32 => if container == 4 then some (.bytes (leBytes 4 (cvtU32 x))) else none
  | .f32 => if container == 4 then some (.real (cvtF32 x) 4) else none
  | .f64 => if container == 8 then some (.real (cvtF64 x) 8) else none

/-! ## placement -/

/-- one store: byte offset (relative to the left / right base pointer) and the frame index it belongs to -/
structure Write where
  right : Bool
  offset : Nat
  frame : Nat
  deriving Repr, DecidableEq

/-- SendStereoAudio for one period: `inFrames` frames copied to output position `outPos` (in samples) -/
def sendStereo (samplesRequested : Nat) (inFrames : Nat) (outPos : Nat) (sampleOffset : Nat) : List Write :=
  if inFrames == 0 then [] else
  let toCopy := min (samplesRequested - outPos) (inFrames * 2)
  (List.range (toCopy / 2)).flatMap fun i =>
    [{ right := false, offset := (outPos / 2 + i) * sampleOffset, frame := outPos / 2 + i },
     { right := true, offset := (outPos / 2 + i) * sampleOffset, frame := outPos / 2 + i }]

/-- the loop of opn2_generateFormat for a given sequence of period sizes (what `(ssize_t)setup.carry` produced);
    returns the value returned and every store -/
def generateLoop (sampleCount : Nat) (sampleOffset : Nat) : List Nat → Nat → Nat → List Write → Nat × List Write
  | [], _, got, ws => (got, ws)
  | p :: ps, left, got, ws =>
    if left == 0 then (got, ws) else
    let n1 := if p > left / 2 then left / 2 else p
    let gen := if n1 > 512 then 512 else n1
    generateLoop sampleCount sampleOffset ps (left - gen * 2) (got + gen * 2)
      (ws ++ sendStereo sampleCount gen got sampleOffset)

/-- `sampleCount -= sampleCount % 2; if(sampleCount < 0) return 0;` -/
def evenCount (n : Int) : Nat := if n - Int.tmod n 2 < 0 then 0 else (n - Int.tmod n 2).toNat

end Opn.Audio
