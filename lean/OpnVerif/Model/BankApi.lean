/-
  The public bank API of src/opnmidi.cpp (opn2_reserveBanks … opn2_setInstrument, opn2_openBankData)
  on top of the bank map model.  Handles are modelled by the key of the bank they designate.
-/
import OpnVerif.Model.BankMap
import OpnVerif.Model.Wopn

namespace Opn.BankApi
open Opn Opn.BankMap

/-- the fields OPN2_Instrument and OpnInstMeta share (cvt_generic_to_FMIns / cvt_FMIns_to_generic) -/
structure AInst where
  noteOffset : Int
  velOffset : Int
  percKey : Nat
  flags : Nat
  fbalg : Nat
  lfosens : Nat
  ops : List Nat      -- 28 bytes: operators[4] × (dtfm, level, rsatk, amdecay1, decay2, susrel, ssgeg)
  delayOn : Nat
  delayOff : Nat
  deriving DecidableEq, Repr, Inhabited

def AInst.zero : AInst :=
  { noteOffset := 0, velOffset := 0, percKey := 0, flags := 0, fbalg := 0, lfosens := 0, ops := List.replicate 28 0,
    delayOn := 0, delayOff := 0 }

/-- what opn2_getBank(Create) stores: 128 entries with only Flag_NoSound set -/
def AInst.blank : AInst := { AInst.zero with flags := 2 }

abbrev ABank := List AInst   -- 128 entries

def ofWopn (i : Wopn.Inst) : AInst :=
  { noteOffset := i.noteOffset, velOffset := i.velOffset, percKey := i.percKey, flags := i.flags, fbalg := i.fbalg,
    lfosens := i.lfosens, ops := i.ops, delayOn := i.delayOn, delayOff := i.delayOff }

abbrev State := BMap ABank

def percussionTag : Nat := 32768

/-- idnumber of opn2_getBank -/
def keyOf (perc msb lsb : Nat) : Nat := msb * 256 + lsb + (if perc ≠ 0 then percussionTag else 0)

/-- opn2_getBank: returns (state, return value, handle) -/
def getBank (s : State) (perc msb lsb flags : Nat) : State × Int × Option Nat :=
  if lsb > 127 ∨ msb > 127 ∨ perc > 1 then (s, -1, none) else
  let k := keyOf perc msb lsb
  if flags % 2 = 0 then           -- !(flags & OPNMIDI_Bank_Create)
    match bfind s k with
    | none => (s, -1, none)
    | some _ => (s, 0, some k)
  else if flags % 4 = 3 then      -- CreateRt
    match binsertRt s k (List.replicate 128 AInst.blank) with
    | (s', none) => (s', -1, none)
    | (s', some _) => (s', 0, some k)
  else
    ((binsert s k (List.replicate 128 AInst.blank)).1, 0, some k)

/-- opn2_getBankId -/
def bankId (k : Nat) : Nat × Nat × Nat := ((if k / percussionTag % 2 = 1 then 1 else 0), (k / 256) % 128, k % 128)

/-- opn2_removeBank -/
def removeBank (s : State) (k : Nat) : State × Int :=
  let s' := berase s k
  (s', if s'.size ≠ s.size then 0 else -1)

def firstBank (s : State) : Option Nat := (toList s).head?.map (·.1)

def nextBank (s : State) (k : Nat) : Option Nat :=
  (((toList s).dropWhile (fun p => !(p.1 == k))).drop 1).head?.map (·.1)

def getInstrument (s : State) (k idx : Nat) : Option AInst :=
  if idx > 127 then none else (bfind s k).bind (·[idx]?)

def setInstrument (s : State) (k idx : Nat) (version : Nat) (i : AInst) : State × Int :=
  if idx > 127 ∨ version ≠ 0 then (s, -1) else (bupdate s k (fun b => b.set idx i), 0)

/-- OPNMIDIplay::LoadBank on an accepted image: bclear, then `m_insBanks[bankno]` per bank in file order -/
def loadBanks (s : State) (f : Wopn.WFile) : State :=
  let put (perc : Nat) (s : State) (b : Wopn.Bank) : State :=
    let k := keyOf perc (b.msb % 128) b.lsb     -- the MSB is reduced to its 7 bits; the LSB keeps 8 (128..255: XG SFX kits)
    let s := (binsert s k (List.replicate 128 AInst.zero)).1
    bupdate s k (fun _ => b.ins.map ofWopn)
  let s := bclear s
  let s := f.melodic.foldl (put 0) s
  f.percussive.foldl (put 1) s

end Opn.BankApi
