/-
  Model of BasicBankMap<T> (src/opnmidi_bankmap.{h,tcc}) at the level of bucket chains:
  256 buckets, each the chain of (key, value) pairs in chain order (a new slot is linked at the head),
  a count of free slots, the capacity, and the separate size counter `m_size`.
  Iteration order (begin / operator++) is bucket index order, chain order inside a bucket.
  The slot/pointer layer (next/prev links, slab allocations) is below this model: it is exercised by the
  correspondence (incl. exhaustive short sequences over a colliding key universe), not proved.
-/
import OpnVerif.Model.Basic

namespace Opn.BankMap

def hashBuckets : Nat := 256
def minimumAllocation : Nat := 4

/-- BasicBankMap::bhash: `key = (key & 127) | ((key >> 8) << 7); return key & (hash_buckets - 1);` -/
def bhash (key : Nat) : Nat := ((key % 128) + (key / 256) * 128) % 256

structure BMap (β : Type) where
  buckets : List (List (Nat × β))
  free : Nat
  capacity : Nat
  size : Nat
  deriving Repr

variable {β : Type}

def bempty : BMap β := { buckets := List.replicate 256 [], free := 0, capacity := 0, size := 0 }

def chain (m : BMap β) (i : Nat) : List (Nat × β) := (m.buckets[i]?).getD []   -- view; i = bhash k < 256 always

/-- bucket_find -/
def bfind (m : BMap β) (k : Nat) : Option β := ((chain m (bhash k)).find? (·.1 == k)).map (·.2)

/-- breserve -/
def breserve (m : BMap β) (n : Nat) : BMap β :=
  if m.capacity ≥ n then m else
  let need := max minimumAllocation (n - m.capacity)
  { m with capacity := m.capacity + need, free := m.free + need }

/-- blink a new slot at the head of its bucket (allocate_slot + bucket_add + ++m_size); caller guarantees free > 0 -/
def blink (m : BMap β) (k : Nat) (v : β) : BMap β :=
  { m with buckets := m.buckets.modify (bhash k) ((k, v) :: ·), free := m.free - 1, size := m.size + 1 }

/-- binsert(value): existing key → (unchanged, false); else allocate (growing by 4 when no slot is free) -/
def binsert (m : BMap β) (k : Nat) (v : β) : BMap β × Bool :=
  match bfind m k with
  | some _ => (m, false)
  | none =>
    let m := if m.free = 0 then breserve m (m.capacity + minimumAllocation) else m
    (blink m k v, true)

/-- binsert(value, do_not_expand_t): fails (returns end()) when no slot is free -/
def binsertRt (m : BMap β) (k : Nat) (v : β) : BMap β × Option Bool :=
  match bfind m k with
  | some _ => (m, some false)
  | none => if m.free = 0 then (m, none) else (blink m k v, some true)

/-- berase(it) for the slot holding key `k` (bucket_remove + free_slot + --m_size) -/
def berase (m : BMap β) (k : Nat) : BMap β :=
  match bfind m k with
  | none => m          -- an iterator always designates a present slot; stale handles are outside the property
  | some _ =>
    { m with buckets := m.buckets.modify (bhash k) (fun c => c.filter (fun p => !(p.1 == k))),
             free := m.free + 1, size := m.size - 1 }

def bclear (m : BMap β) : BMap β :=
  { m with buckets := List.replicate 256 [], free := m.free + m.size, size := 0 }

/-- iteration order of begin()/operator++ -/
def toList (m : BMap β) : List (Nat × β) := m.buckets.flatten

/-- overwrite the value stored under `k` (writes through `it->second`) -/
def bupdate (m : BMap β) (k : Nat) (f : β → β) : BMap β :=
  { m with buckets := m.buckets.modify (bhash k) (fun c => c.map (fun p => if p.1 == k then (p.1, f p.2) else p)) }

end Opn.BankMap
