/-
  Shared vocabulary of the hand-written models (DESIGN.md §3.1).
  Core Lean only: this file is linked into the `opnmodel` driver.
-/
namespace Opn

/-- What a modelled step can do instead of returning (DESIGN §3.1). -/
inductive Fault
  | oob (site : String)     -- index outside an array / table / buffer
  | abort (site : String)   -- assert / abort() / uncaught exception
  | ub (site : String)      -- shift >= width, division by zero, signed overflow, negative->unsigned cast
  | hang (site : String)    -- fuel exhausted where the C loop has no bound
  deriving Repr, DecidableEq, Inhabited

def Fault.toStr : Fault → String
  | .oob s => s!"fault=oob:{s}"
  | .abort s => s!"fault=abort:{s}"
  | .ub s => s!"fault=ub:{s}"
  | .hang s => s!"fault=hang:{s}"

instance : ToString Fault := ⟨Fault.toStr⟩

/-- checked table access: the only way model code reads a table -/
def tbl (site : String) (xs : List α) (i : Nat) : Except Fault α :=
  match xs[i]? with
  | some x => .ok x
  | none => .error (.oob site)

theorem tbl_ok {α} (site : String) (xs : List α) (i : Nat) (h : i < xs.length) :
    tbl site xs i = .ok xs[i] := by
  simp [tbl, List.getElem?_eq_getElem h]

def wrap8 (n : Nat) : Nat := n % 256
def wrap16 (n : Nat) : Nat := n % 65536
def wrap32 (n : Nat) : Nat := n % 4294967296

/-- two's complement reading of an n-bit pattern -/
def toSigned (bits : Nat) (n : Nat) : Int :=
  let m := n % 2 ^ bits
  if m ≥ 2 ^ (bits - 1) then (m : Int) - (2 ^ bits : Nat) else (m : Int)

/-- n-bit pattern of an integer -/
def ofSigned (bits : Nat) (i : Int) : Nat := (i % (2 ^ bits : Nat)).toNat

end Opn
