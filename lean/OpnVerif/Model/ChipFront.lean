/-
  Model of the register queue of the YMFM front-ends (src/chips/ymfm_opn2.cpp, ymfm_opna.cpp: writeReg / nativeGenerate).

  The synthesizer issues register writes in bursts; the front-end keeps them in a ring of `cap` entries
  (`m_queue`, `m_headPos`, `m_tailPos`, `m_queueCount`) and hands one of them to the emulator core per native frame.
  When the ring is full, `writeReg` first hands the oldest pending write to the core and then stores the new one.

  Two layers:
    * `Ring`  — the code as written: a buffer of `cap` cells, head / tail indices that wrap, a counter;
    * `Q`     — the specification: the list of pending writes, oldest first, and the list of writes the core received.
  `Props/C20.lean` proves that the ring refines the queue and that the queue is a FIFO that loses nothing.
-/
import OpnVerif.Model.Basic

namespace Opn.ChipFront
open Opn

/-- a register write as stored in the queue: (`addr | port << 8`, data) -/
abbrev Reg := Nat × Nat

/-! ## the specification: a FIFO with forced hand-over when full -/

structure Q where
  pend : List Reg := []      -- pending writes, oldest first
  chip : List Reg := []      -- writes handed to the emulator core so far, oldest first
  deriving Repr, DecidableEq, Inhabited

/-- writeReg -/
def Q.write (cap : Nat) (q : Q) (w : Reg) : Q :=
  if cap ≤ q.pend.length then
    match q.pend with
    | [] => { q with chip := q.chip ++ [w] }      -- (cap = 0: nothing can be kept; not a configuration of the library)
    | x :: rest => { pend := rest ++ [w], chip := q.chip ++ [x] }
  else { q with pend := q.pend ++ [w] }

/-- the dequeue step of nativeGenerate (one per native frame) -/
def Q.drain (q : Q) : Q :=
  match q.pend with
  | [] => q
  | x :: rest => { pend := rest, chip := q.chip ++ [x] }

inductive Op
  | write (w : Reg)
  | drain
  deriving Repr, DecidableEq, Inhabited

def Q.step (cap : Nat) (q : Q) : Op → Q
  | .write w => q.write cap w
  | .drain => q.drain

def Q.run (cap : Nat) (q : Q) (ops : List Op) : Q := ops.foldl (Q.step cap) q

/-- the writes issued by a history, in order -/
def issued : List Op → List Reg
  | [] => []
  | .write w :: rest => w :: issued rest
  | .drain :: rest => issued rest

/-! ## the code: a ring buffer -/

structure Ring where
  buf : List Reg            -- `m_queue`, `cap` cells
  head : Nat := 0           -- `m_headPos`: where the next write is stored
  tail : Nat := 0           -- `m_tailPos`: the oldest pending write
  count : Nat := 0          -- `m_queueCount`
  chip : List Reg := []     -- what the core received
  deriving Repr, Inhabited

def Ring.empty (cap : Nat) : Ring := { buf := List.replicate cap (0, 0) }

/-- `m_queue[m_tailPos++]; if(m_tailPos >= c_queueSize) m_tailPos = 0; --m_queueCount;` + the two chip writes -/
def Ring.pop (cap : Nat) (r : Ring) : Ring :=
  { r with tail := if r.tail + 1 ≥ cap then 0 else r.tail + 1, count := r.count - 1, chip := r.chip ++ [r.buf.getD r.tail (0, 0)] }

/-- `m_queue[m_headPos++] = w; if(m_headPos >= c_queueSize) m_headPos = 0; ++m_queueCount;` -/
def Ring.push (cap : Nat) (r : Ring) (w : Reg) : Ring :=
  { r with buf := r.buf.set r.head w, head := if r.head + 1 ≥ cap then 0 else r.head + 1, count := r.count + 1 }

/-- writeReg as repaired: a full ring hands its oldest write to the core first -/
def Ring.write (cap : Nat) (r : Ring) (w : Reg) : Ring :=
  (if r.count ≥ cap then r.pop cap else r).push cap w

/-- writeReg as it was (no guard): the head laps the tail -/
def Ring.writeUnguarded (cap : Nat) (r : Ring) (w : Reg) : Ring := r.push cap w

def Ring.drain (cap : Nat) (r : Ring) : Ring := if r.count > 0 then r.pop cap else r

def Ring.step (cap : Nat) (r : Ring) : Op → Ring
  | .write w => r.write cap w
  | .drain => r.drain cap

def Ring.run (cap : Nat) (r : Ring) (ops : List Op) : Ring := ops.foldl (Ring.step cap) r

/-- the pending writes of a ring, oldest first: `count` cells from `tail`, wrapping -/
def Ring.pending (cap : Nat) (r : Ring) : List Reg :=
  (List.range r.count).map fun i => r.buf.getD ((r.tail + i) % cap) (0, 0)

end Opn.ChipFront
