import OpnVerif.Model.Seq
namespace Opn.Mus
open Opn Opn.Seq
def convert (_ : Bytes) : Option Bytes := none
end Opn.Mus
