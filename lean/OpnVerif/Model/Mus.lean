/-
  Model of Convert_mus2midi (src/cvt_mus2mid.hpp): DMX MUS score -> one-track Standard MIDI File image.
  Every read of the score is bounded by the score end (MUS_NEED); a score that ends inside an event is rejected.
-/
import OpnVerif.Model.Seq

namespace Opn.Mus
open Opn Opn.Seq

def musDivision : Nat := 0x0101
def musTempo : Nat := 0x00068A1B

/-- mus_midimap -/
def midimap : List Nat := [0, 0, 0x01, 0x07, 0x0A, 0x0B, 0x5B, 0x5D, 0x40, 0x43, 0x78, 0x7B, 0x7E, 0x7F, 0x79]

/-- mus2mid_writevarlen for a non-negative value below 2^28 (larger deltas do not occur: see `delayBytes`) -/
def writeVarLen (v : Nat) : Bytes :=
  let rec go (fuel : Nat) (v : Nat) (acc : Bytes) : Bytes :=
    match fuel with
    | 0 => acc
    | f + 1 => if v / 128 > 0 then go f (v / 128) (((v / 128) % 128 + 128) :: acc) else acc
  go 5 v [v % 128]

structure St where
  map : List Int := (List.replicate 15 (-1)) ++ [9]      -- channelMap
  vol : List Nat := List.replicate 16 0x40               -- channel_volume
  cur : Nat := 0                                         -- currentChannel
  deriving Repr, Inhabited

/-- the delay bytes behind an event with the high bit set: `none` = the score ended inside the delay;
    `(int32_t)((delta * 128 + b) * 1.0)`; a delay of more than 28 bits is refused -/
def readDelay : Bytes → Nat → Nat → Option (Nat × Bytes)
  | [], _, _ => none
  | b :: rest, acc, n =>
    if acc ≥ 2097152 then none else           -- more than 28 bits: refused
    let acc' := acc * 128 + b % 128
    if b ≥ 128 then readDelay rest acc' (n + 1) else some (acc', rest)

/-- the main loop.  `out` is the track body written so far (reversed chunks are avoided: scores are short). -/
def scoreLoop (channels : Nat) : Nat → Bytes → St → Nat → Bytes → Option Bytes
  | 0, _, _, _, out => some out
  | fuel + 1, cur, st, delta, out =>
    match cur with
    | [] => some out
    | event :: rest =>
      let channel := event % 16
      let pre := writeVarLen delta
      -- first use of a MUS channel: volume 100 on the next free MIDI channel
      let (st, pre) :=
        if st.map.getD channel (-1) < 0 then
          let c := st.cur
          ({ st with map := st.map.set channel (c : Int), cur := if c + 1 == 9 then c + 2 else c + 1 }, pre ++ [0xB0 + c, 0x07, 100, 0x00])
        else (st, pre)
      let mch := (st.map.getD channel 0).toNat
      let kind := event / 16 % 8
      let body : Option (Bytes × Bytes × St) :=
        if kind == 0 then
          match rest with
          | a :: r => some ([mch ||| 0x80, a, 0x40], r, st)
          | _ => none
        else if kind == 1 then
          match rest with
          | a :: r =>
            if a ≥ 128 then
              match r with
              | v :: r2 => let st := { st with vol := st.vol.set mch v }; some ([mch ||| 0x90, a % 128, v], r2, st)
              | _ => none
            else some ([mch ||| 0x90, a % 128, st.vol.getD mch 0x40], r, st)
          | _ => none
        else if kind == 2 then
          match rest with
          | a :: r => some ([mch ||| 0xE0, 0, a / 2 % 128], r, st)
          | _ => none
        else if kind == 3 then
          match rest with
          | a :: b :: r =>
            if a ≥ midimap.length then none else some ([mch ||| 0xB0, midimap.getD a 0, if b == 12 then (channels + 1) % 256 else 0], r, st)
          | _ => none
        else if kind == 4 then
          match rest with
          | a :: b :: r =>
            if a == 0 then some ([mch ||| 0xC0, b], r, st)
            else if a ≥ midimap.length then none else some ([mch ||| 0xB0, midimap.getD a 0, b], r, st)
          | _ => none
        else if kind == 6 then some ([0xFF, 0x2F, 0x00], rest, st)
        else none
      match body with
      | none => none
      | some (ev, rest, st) =>
        let out := out ++ pre ++ ev
        if event ≥ 128 then
          match readDelay rest 0 0 with
          | none => none
          | some (d, rest') => scoreLoop channels fuel rest' st d out
        else scoreLoop channels fuel rest st 0 out

def le16 (bs : Bytes) (i : Nat) : Nat := bs.getD i 0 + 256 * bs.getD (i + 1) 0

/-- Convert_mus2midi: the SMF image, or `none` when the converter refuses the data -/
def convert (bs : Bytes) : Option Bytes :=
  if bs.length < 14 then none else
  if bs.take 4 != [77, 85, 83, 0x1A] then none else
  let scoreLen := le16 bs 4
  let scoreStart := le16 bs 6
  let channels := le16 bs 8
  if bs.length < scoreLen + scoreStart then none else
  if channels > 15 then none else
  let score := (bs.drop scoreStart).take scoreLen
  let pre : Bytes := [0x00, 0xFF, 0x51, 0x03, musTempo % 256, musTempo / 256 % 256, musTempo / 65536 % 256, 0x00, 0xB9, 0x07, 100]
  match scoreLoop channels (score.length + 1) score {} 0 pre with
  | none => none
  | some body =>
    let n := body.length
    some ([77, 84, 104, 100, 0, 0, 0, 6, 0, 0, 0, 1, musDivision / 256, musDivision % 256, 77, 84, 114, 107,
           n / 16777216 % 256, n / 65536 % 256, n / 256 % 256, n % 256] ++ body)

end Opn.Mus
