/-
  Model of the frequency search of OPN2::noteOn (src/opnmidi_opn2.cpp): octave / multiplier loops, F-number
  rounding, MUL register rewriting.  Frequencies are dyadic rationals `n / 2^k` — every finite non-negative double
  is one, halving is exact, and the comparisons and the rounding become integer arithmetic.
  The thresholds 1023.75 = 4095/4 and 2036.75 = 8147/4 are literals here; Props/C10.lean proves they equal the
  regenerated constants.
-/
import OpnVerif.Model.Basic
import OpnVerif.Gen.Pitch

namespace Opn.Pitch
open Opn

/-- the non-negative dyadic rational n / 2^k -/
structure Dy where
  n : Nat
  k : Nat
  deriving Repr, DecidableEq, Inhabited

/-- `h >= a/4` -/
def Dy.geQ (h : Dy) (a : Nat) : Bool := a * 2 ^ h.k ≤ h.n * 4

def Dy.half (h : Dy) : Dy := ⟨h.n, h.k + 1⟩

/-- `while((hertz >= 1023.75) && (octave < 0x3800)) { hertz /= 2.0; octave += 0x800; }` — at most 7 rounds -/
def loop1 : Nat → Dy → Nat → Dy × Nat
  | 0, h, o => (h, o)
  | f + 1, h, o => if h.geQ 4095 && o < 0x3800 then loop1 f h.half (o + 0x800) else (h, o)

/-- `while(hertz >= 2036.75) { hertz /= 2.0; mul_offset++; }` with fuel (the C loop has no bound of its own) -/
def loop2 : Nat → Dy → Nat → Except Fault (Dy × Nat)
  | 0, _, _ => .error (.hang "noteOn: while(hertz >= 2036.75)")
  | f + 1, h, m => if h.geQ 8147 then loop2 f h.half (m + 1) else .ok (h, m)

/-- the one double below 0.5 for which `hertz + 0.5` rounds up to 1.0 in IEEE arithmetic -/
def isPredHalf (h : Dy) : Bool := h.n * 2 ^ 54 == (2 ^ 53 - 1) * 2 ^ h.k

/-- `static_cast<uint32_t>(hertz + 0.5)` for hertz < 2036.75 -/
def fnumOf (h : Dy) : Nat := if isPredHalf h then 1 else (2 * h.n + 2 ^ h.k) / 2 ^ (h.k + 1)

structure SearchRes where
  ftone : Nat        -- octave + F-number: what goes to 0xA4 (high byte) and 0xA0 (low byte)
  mulOffset : Nat
  deriving Repr, DecidableEq

/-- fuel of the second loop: any finite double is below 2^1024 -/
def fuel2 : Nat := 1100

def search (h : Dy) : Except Fault SearchRes := do
  let (h1, oct) := loop1 8 h 0
  let (h2, m) ← loop2 fuel2 h1 0
  .ok { ftone := oct + fnumOf h2, mulOffset := m }

/-- the 0x30+4*op writes: `dt | (mul + mul_offset)`, and once the sum overflows 15 the offset is dropped for the
    remaining operators (the assignment `mul_offset = 0` inside the loop, exactly as written) -/
def mulBytes : Nat → List Nat → List Nat
  | _, [] => []
  | m, reg :: regs =>
    if m > 0 then
      let dt := reg / 16 % 16 * 16
      let mul := reg % 16
      if mul + m > 15 then wrap8 (dt + 15) :: mulBytes 0 regs
      else wrap8 (dt + (mul + m)) :: mulBytes m regs
    else wrap8 reg :: mulBytes m regs

/-- the exact tone handed to noteOn: key (or drum key) + instrument offset + bend·sensitivity, all dyadic -/
def toneOf (key : Int) (noteOffset : Int) (bend : Int) (bendMsb bendLsb : Int) : Rat :=
  (key : Rat) + (noteOffset : Rat) + ((bend * (bendMsb * 128 + bendLsb) : Int) : Rat) / 1048576

end Opn.Pitch
