/-
  Model of the fixed-point resampler ratio of src/chips/opn_chip_base.tcc (setupResampler / resampledGenerate without the
  HQ resampler): the chip core runs at clock/144 Hz, every output frame advances the phase by 2^10 and consumes one native
  frame per `rateratio` phase units.
-/
import OpnVerif.Model.Basic

namespace Opn.Resampler
open Opn

def rsmFrac : Nat := 10
/-- `m_rateratio = ((144 * rate) << rsm_frac) / clock` -/
def rateRatio (rate clock : Nat) : Nat := 144 * rate * 2 ^ rsmFrac / clock

/-- native frames consumed after `k` output frames (phase accumulator: starts at 0, +2^10 per output frame, −ratio per native frame) -/
def nativeFrames (ratio k : Nat) : Nat := if ratio == 0 then 0 else (k * 2 ^ rsmFrac) / ratio

def clockOPN2 : Nat := 7670454
def clockOPNA : Nat := 7987200

end Opn.Resampler
