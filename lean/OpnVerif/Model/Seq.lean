/-
  Model of the MIDI sequencer (src/midi_sequencer_impl.hpp, BW_MidiSequencer): Standard MIDI File parsing
  (parseSMF / parseRMI / parseGMF headers, buildSmfTrackData, parseEvent, MidiTrackRow::sortEvents), the tempo map
  (buildTimeLine with the real `fraction<uint64_t>` semantics and IEEE double arithmetic), and playback
  (Tick, processEvents, handleEvent, seek, rewind, loop points and loop stack).

  Conventions (DESIGN §3): a byte string is a `List Nat` of values < 256; every read past the end is an explicit branch,
  exactly where the C code has its bound check; `uint64_t` arithmetic wraps mod 2^64; doubles are the rationals they
  denote and every double operation is the exact operation followed by `rnd53` (round to nearest, ties to even).
-/
import OpnVerif.Model.Basic

namespace Opn.Seq
open Opn

abbrev Bytes := List Nat
def W : Nat := 18446744073709551616

/-! ## IEEE double arithmetic on the rationals the doubles denote (finite, normal range) -/

def rnd53 (q : Rat) : Rat :=
  if q == 0 then 0 else
  let neg := q < 0
  let n := q.num.natAbs
  let d := q.den
  let e0 : Int := (Nat.log2 n : Int) - (Nat.log2 d : Int)
  let ge (e : Int) : Bool := if e ≥ 0 then d * 2 ^ e.toNat ≤ n else d ≤ n * 2 ^ (-e).toNat
  let e := if ge e0 then (if ge (e0 + 1) then e0 + 1 else e0) else e0 - 1
  let sh := e - 52
  let mn := if sh ≥ 0 then n else n * 2 ^ (-sh).toNat
  let md := if sh ≥ 0 then d * 2 ^ sh.toNat else d
  let fl := mn / md
  let rem := mn % md
  let mi := if 2 * rem > md then fl + 1 else if 2 * rem < md then fl else (if fl % 2 == 0 then fl else fl + 1)
  let res : Rat := if sh ≥ 0 then ((mi * 2 ^ sh.toNat : Nat) : Rat) else mkRat mi (2 ^ (-sh).toNat)
  if neg then -res else res

def fadd (a b : Rat) : Rat := rnd53 (a + b)
def fsub (a b : Rat) : Rat := rnd53 (a - b)
def fmul (a b : Rat) : Rat := rnd53 (a * b)
def fdiv (a b : Rat) : Rat := rnd53 (a / b)
/-- `(double)x` for a uint64 -/
def u2d (n : Nat) : Rat := rnd53 (n : Rat)
/-- `static_cast<ssize_t>(x)` / `(int)x` for a non-negative double: truncation -/
def d2nat (q : Rat) : Nat := if q ≤ 0 then 0 else q.floor.toNat

/-! ## fraction<uint64_t> (src/fraction.hpp) -/

structure Frac where
  n : Nat
  d : Nat
  deriving Repr, BEq, Inhabited

/-- Euclid's loop of `Optim` -/
def gcdLoop : Nat → Nat → Nat → Nat
  | 0, n1, _ => n1
  | fuel + 1, n1, n2 => let t := n2 % n1; if t == 0 then n1 else gcdLoop fuel t n1

/-- fraction::Optim -/
def Frac.optim (f : Frac) : Except Fault Frac :=
  let n1 := if f.n < f.d then f.n else f.d
  let n2 := if f.n < f.d then f.d else f.n
  if f.n == 0 then .ok { n := 0, d := 1 }
  else if n1 == 0 then .error (.ub "fraction::Optim: modulo by zero")
  else
    let g := gcdLoop 200 n1 n2
    .ok { n := f.n / g, d := f.d / g }

/-- `a * b` on fractions: numerators and denominators multiply mod 2^64, then Optim -/
def Frac.mul (a b : Frac) : Except Fault Frac := Frac.optim { n := a.n * b.n % W, d := a.d * b.d % W }
/-- `k * f` for an integer k (`fraction(k) * f`) -/
def Frac.scale (k : Nat) (f : Frac) : Except Fault Frac := Frac.mul { n := k % W, d := 1 } f
/-- fraction::value(): `nom() / (double)denom()` -/
def Frac.value (f : Frac) : Rat := if f.d == 0 then 0 else fdiv (u2d f.n) (u2d f.d)

/-! ## events, rows -/

def tNoteOff : Nat := 0x08
def tNoteOn : Nat := 0x09
def tNoteTouch : Nat := 0x0A
def tCtrl : Nat := 0x0B
def tPatch : Nat := 0x0C
def tChanAT : Nat := 0x0D
def tWheel : Nat := 0x0E
def tSysEx : Nat := 0xF0
def tSysEx2 : Nat := 0xF7
def tSongPos : Nat := 0xF2
def tSongSel : Nat := 0xF3
def tSpecial : Nat := 0xFF
def stMarker : Nat := 0x06
def stDeviceSwitch : Nat := 0x09
def stEndTrack : Nat := 0x2F
def stTempo : Nat := 0x51
def stTimeSig : Nat := 0x55
def stLoopStart : Nat := 0xE1
def stLoopEnd : Nat := 0xE2
def stStackBegin : Nat := 0xE4
def stStackEnd : Nat := 0xE5
def stStackBreak : Nat := 0xE6
def stCallback : Nat := 0xE7
def stSongBegin : Nat := 0x101

structure Ev where
  type : Nat := 0
  subtype : Nat := 0
  channel : Nat := 0
  valid : Bool := true
  absPos : Nat := 0
  data : Bytes := []
  deriving Repr, DecidableEq, Inhabited

structure Row where
  time : Rat := 0
  delay : Nat := 0
  absPos : Nat := 0
  timeDelay : Rat := 0
  events : List Ev := []
  deriving Repr, Inhabited

/-- file formats that reach the SMF event parser -/
inductive Fmt | midi | xmidi
  deriving Repr, DecidableEq, Inhabited

/-- LoopFormat: 0 Default, 2 EMIDI, 3 HMI -/
structure ParseSt where
  fmt : Fmt := .midi
  loopFormat : Nat := 0
  deriving Repr, Inhabited

/-! ## parsing -/

/-- readVarLenEx: `none` = ran off the end (the cursor is then at the end) -/
def readVarLen : Bytes → Nat → Option Nat × Bytes
  | [], _ => (none, [])
  | b :: rest, acc =>
    let acc' := (acc * 128 + b % 128) % W
    if b ≥ 128 then readVarLen rest acc' else (some acc', rest)

def readBE (bs : Bytes) : Nat := bs.foldl (fun r b => (r * 256 + b) % W) 0

def lowerAZ (b : Nat) : Nat := if 65 ≤ b && b ≤ 90 then b + 32 else b

def isSpace (b : Nat) : Bool := b == 32 || (9 ≤ b && b ≤ 13)

/-- `(uint8_t)atoi(s)` for the digit strings the loop markers carry -/
def atoi8 (s : Bytes) : Nat :=
  let s := s.dropWhile isSpace
  let (neg, s) := match s with
    | 45 :: r => (true, r)
    | 43 :: r => (false, r)
    | _ => (false, s)
  let v := (s.takeWhile fun b => 48 ≤ b && b ≤ 57).foldl (fun r b => r * 10 + (b - 48)) 0
  if neg then (256 - v % 256) % 256 else v % 256

def strLoopStart : Bytes := [108, 111, 111, 112, 115, 116, 97, 114, 116]          -- "loopstart"
def strLoopEnd : Bytes := [108, 111, 111, 112, 101, 110, 100]                     -- "loopend"

def invalidEv : Ev := { valid := false }

/-- SysEx (F0 / F7): length, payload -/
def parseSysEx (byte : Nat) (rest : Bytes) (status : Int) (ps : ParseSt) : Ev × Bytes × Int × ParseSt :=
  match readVarLen rest 0 with
  | (none, r) => (invalidEv, r, status, ps)
  | (some len, r) =>
    if len > r.length then (invalidEv, r, status, ps)
    else ({ type := tSysEx, data := byte :: r.take len }, r.drop len, status, ps)

/-- what a meta event becomes once its type and payload are known (loop markers are recognised here) -/
def metaEvent (evtype : Nat) (data : Bytes) (status : Int) : Ev × Int :=
  let ev : Ev := { type := tSpecial, subtype := evtype, data := data }
  let low := data.map lowerAZ
  if evtype == stMarker && low == strLoopStart then ({ ev with subtype := stLoopStart, data := [] }, status)
  else if evtype == stMarker && low == strLoopEnd then ({ ev with subtype := stLoopEnd, data := [] }, status)
  else if evtype == stMarker && low.take 10 == strLoopStart ++ [61] then
    ({ ev with subtype := stStackBegin, data := [atoi8 (low.drop 10)] }, status)
  else if evtype == stMarker && low.take 8 == strLoopEnd ++ [61] then
    ({ ev with subtype := stStackEnd, data := [] }, status)
  else (ev, if evtype == stEndTrack then -1 else status)

/-- meta event (FF): type, length, payload -/
def parseMeta (rest : Bytes) (status : Int) (ps : ParseSt) : Ev × Bytes × Int × ParseSt :=
  match rest with
  | [] => (invalidEv, [], status, ps)
  | evtype :: r0 =>
    match readVarLen r0 0 with
    | (none, r) => (invalidEv, r, status, ps)
    | (some len, r) =>
      if len > r.length then (invalidEv, r, status, ps)
      -- the internal loop-stack / trigger (one byte) and raw-register (two bytes) events read their payload: a file must carry it
      else if ((evtype == 0xE4 || evtype == 0xE7) && len < 1) || (evtype == 0xE3 && len < 2) then (invalidEv, r, status, ps)
      else
        let (ev, status') := metaEvent evtype (r.take len) status
        (ev, r.drop len, status', ps)

/-- the controller special cases of the two formats (loop points, EMIDI volume, XMI loops and triggers) -/
def ctrlEvent (ev : Ev) (a b : Nat) (ps : ParseSt) : Ev × ParseSt :=
  match ps.fmt with
  | .midi =>
    if a == 110 then
      if ps.loopFormat == 0 then ({ ev with type := tSpecial, subtype := stLoopStart, data := [] }, { ps with loopFormat := 3 })
      else if ps.loopFormat == 3 then (ev, { ps with loopFormat := 2 })
      else (ev, ps)
    else if a == 111 then
      if ps.loopFormat == 3 then ({ ev with type := tSpecial, subtype := stLoopEnd, data := [] }, ps)
      else if ps.loopFormat != 2 then ({ ev with type := tSpecial, subtype := stLoopStart, data := [] }, ps)
      else (ev, ps)
    else if a == 113 then
      if ps.loopFormat == 2 then ({ ev with data := [7, b] }, ps) else (ev, ps)
    else (ev, ps)
  | .xmidi =>
    if a == 116 then ({ ev with type := tSpecial, subtype := stStackBegin, data := [b] }, ps)
    else if a == 117 then ({ ev with type := tSpecial, subtype := if b < 64 then stStackBreak else stStackEnd, data := [] }, ps)
    else if a == 119 then ({ ev with type := tSpecial, subtype := stCallback, data := [b] }, ps)
    else (ev, ps)

/-- channel and system-common events once the status byte is known (`rest` starts at the first data byte) -/
def parseChannel (byte : Nat) (rest : Bytes) (status : Int) (ps : ParseSt) : Ev × Bytes × Int × ParseSt :=
  if byte == tSongSel then
    match rest with
    | a :: r => ({ type := byte, data := [a] }, r, status, ps)
    | _ => (invalidEv, rest, status, ps)
  else if byte == tSongPos then
    match rest with
    | a :: b :: r => ({ type := byte, data := [a, b] }, r, status, ps)
    | _ => (invalidEv, rest, status, ps)
  else
    let midCh := byte % 16
    let evType := byte / 16 % 16
    let status' : Int := byte
    if evType == tNoteOff || evType == tNoteOn || evType == tNoteTouch || evType == tCtrl || evType == tWheel then
      match rest with
      | a :: b :: r =>
        let ev : Ev := { type := evType, channel := midCh, data := [a, b] }
        if evType == tNoteOn && b == 0 then ({ ev with type := tNoteOff }, r, status', ps)
        else if evType == tCtrl then
          let (ev', ps') := ctrlEvent ev a b ps
          (ev', r, status', ps')
        else (ev, r, status', ps)
      | _ => (invalidEv, rest, status', ps)
    else if evType == tPatch || evType == tChanAT then
      match rest with
      | a :: r => ({ type := evType, channel := midCh, data := [a] }, r, status', ps)
      | _ => (invalidEv, rest, status', ps)
    else ({ type := evType, channel := midCh }, rest, status', ps)

/-- parseEvent.  Returns the event, the rest of the track, the running status and the parser state. -/
def parseEvent (bs : Bytes) (status : Int) (ps : ParseSt) : Ev × Bytes × Int × ParseSt :=
  match bs with
  | [] => ({ type := tSpecial, subtype := stEndTrack }, [], status, ps)
  | byte :: rest =>
    if byte == tSysEx || byte == tSysEx2 then parseSysEx byte rest status ps
    else if byte == tSpecial then parseMeta rest status ps
    else if byte < 0x80 then parseChannel ((status.toNat % 256) ||| 0x80) bs status ps      -- running status: the byte is data
    else parseChannel byte rest status ps

/-! ## MidiTrackRow::sortEvents -/

def isCtlClass (e : Ev) : Bool := e.type == tCtrl || e.type == tPatch || e.type == tWheel || e.type == tChanAT
def isMetaClass (e : Ev) : Bool :=
  e.type == tSpecial && (e.subtype == stMarker || e.subtype == stDeviceSwitch || e.subtype == stSongBegin || e.subtype == stLoopStart ||
    e.subtype == stLoopEnd || e.subtype == stStackBegin || e.subtype == stStackEnd || e.subtype == stStackBreak)
def isSysExClass (e : Ev) : Bool := e.type == tSysEx || e.type == tSysEx2

def noteIdx (e : Ev) : Nat := e.channel * 255 + (e.data.headD 0) % 128

/-- the inner loop over the row's note-offs for one note-on: returns (kept note-offs, moved-down note-offs, stillMarked) -/
def siftOffs (e : Ev) (wasOn : Bool) : List Ev → Nat → Bool → List Ev × List Ev × Bool
  | [], _, marked => ([], [], marked)
  | j :: js, cnt, marked =>
    if j.channel == e.channel && j.data.headD 0 == e.data.headD 0 then
      if !wasOn || cnt != 0 then
        let (k, m, mk) := siftOffs e wasOn js cnt false
        (k, j :: m, mk)
      else
        let (k, m, mk) := siftOffs e wasOn js (cnt + 1) marked
        (j :: k, m, mk)
    else
      let (k, m, mk) := siftOffs e wasOn js cnt marked
      (j :: k, m, mk)

/-- the pass over the note-ons of the row (the events appended to `anyOther` meanwhile are note-offs and are skipped) -/
def siftAll (states : List Nat) : List Ev → List Ev → List Ev → List Nat → List Ev × List Ev × List Nat
  | [], offs, moved, marks => (offs, moved, marks)
  | e :: es, offs, moved, marks =>
    if e.type == tNoteOn then
      let i := noteIdx e
      let (k, m, mk) := siftOffs e (states.contains i) offs 0 true
      let marks' := if mk then (if marks.contains i then marks else marks ++ [i]) else marks.filter (· != i)
      siftAll states es k (moved ++ m) marks'
    else siftAll states es offs moved marks

/-- sortEvents with the note-state cache: returns the sorted row and the new cache (set of sounding note indices) -/
def sortEvents (events : List Ev) (states : List Nat) : List Ev × List Nat :=
  let noteOffs := events.filter (·.type == tNoteOff)
  let sysEx := events.filter fun e => e.type != tNoteOff && isSysExClass e
  let ctl := events.filter fun e => e.type != tNoteOff && !isSysExClass e && isCtlClass e
  let metas := events.filter fun e => e.type != tNoteOff && !isSysExClass e && !isCtlClass e && isMetaClass e
  let other := events.filter fun e => e.type != tNoteOff && !isSysExClass e && !isCtlClass e && !isMetaClass e
  let (offs, moved, marks) := siftAll states other noteOffs [] []
  let states1 := states.filter fun i => !(offs.any fun j => noteIdx j == i)
  let states2 := marks.foldl (fun s i => if s.contains i then s else s ++ [i]) states1
  (sysEx ++ offs ++ metas ++ ctl ++ other ++ moved, states2)

/-! ## buildSmfTrackData -/

structure StackEntry where
  infinity : Bool := false
  loops : Int := 0
  start : Nat := 0
  stop : Nat := 0
  startPos : Nat := 0          -- index into the saved positions of the player (only used at run time)
  deriving Repr, Inhabited

structure BuildSt where
  ps : ParseSt := {}
  invalidLoop : Bool := false
  gotStart : Bool := false
  gotEnd : Bool := false
  gotStackStart : Bool := false
  gotLoopInRow : Bool := false
  loopStartTicks : Nat := 0
  loopEndTicks : Nat := 0
  ticksSongLength : Nat := 0
  stack : List StackEntry := []
  stackLevel : Int := -1
  tempos : List Ev := []
  deriving Repr, Inhabited

/-- the bookkeeping buildSmfTrackData does for one parsed event at tick `absPos` -/
def noteSpecial (b : BuildSt) (ev : Ev) (absPos : Nat) : BuildSt :=
  if ev.type != tSpecial then b else
  if ev.subtype == stTempo then { b with tempos := b.tempos ++ [{ ev with absPos := absPos }] }
  else if !b.invalidLoop && ev.subtype == stLoopStart then
    if b.gotStart || b.gotLoopInRow then { b with invalidLoop := true, gotLoopInRow := true }
    else { b with gotStart := true, loopStartTicks := absPos, gotLoopInRow := true }
  else if !b.invalidLoop && ev.subtype == stLoopEnd then
    if b.gotEnd || b.gotLoopInRow then { b with invalidLoop := true, gotLoopInRow := true }
    else { b with gotEnd := true, loopEndTicks := absPos, gotLoopInRow := true }
  else if !b.invalidLoop && ev.subtype == stStackBegin then
    let b := if !b.gotStackStart then { b with loopStartTicks := if !b.gotStart then absPos else b.loopStartTicks, gotStackStart := true } else b
    let lvl := b.stackLevel + 1
    let b := { b with stackLevel := lvl }
    if lvl ≥ (b.stack.length : Int) then
      let x := ev.data.headD 0
      { b with stack := b.stack ++ [{ loops := x, infinity := x == 0, start := absPos, stop := absPos }] }
    else b
  else if !b.invalidLoop && (ev.subtype == stStackEnd || ev.subtype == stStackBreak) then
    if b.stackLevel ≤ -1 then { b with invalidLoop := true }
    else
      let b := if b.loopEndTicks < absPos then { b with loopEndTicks := absPos } else b
      -- getCurStack().end = abs_position
      let b :=
        if 0 ≤ b.stackLevel && b.stackLevel < (b.stack.length : Int) then
          { b with stack := b.stack.modify b.stackLevel.toNat fun (e : StackEntry) => { e with stop := absPos } }
        else if b.stack.isEmpty then { b with stack := [{ stop := absPos }] }
        else { b with stack := b.stack.modify 0 fun (e : StackEntry) => { e with stop := absPos } }
      { b with stackLevel := if b.stackLevel - 1 < -1 then -1 else b.stackLevel - 1 }
  else b

/-- clear the delay of the last row of a track (ENABLE_END_SILENCE_SKIPPING) -/
def clearLastDelay (rows : List Row) : List Row :=
  match rows.reverse with
  | [] => []
  | r :: rs => ({ r with delay := 0, timeDelay := 0 } :: rs).reverse

/-- the do-while loop over one track's events.  `cur` is the row being collected. -/
def trackLoop : Nat → Bytes → Int → BuildSt → Nat → Row → List Nat → List Row → Except String (List Row × BuildSt × Nat)
  | 0, _, _, _, _, _, _, _ => .error "fuel"
  | fuel + 1, bs, status, b, absPos, cur, states, rows =>
    let (ev, bs1, status1, ps1) := parseEvent bs status b.ps
    let b := { b with ps := ps1 }
    if !ev.valid then .error "parse" else
    let cur := { cur with events := cur.events ++ [ev] }
    let b := noteSpecial b ev absPos
    -- delta time after the event
    let (cur, bs2, evSub) :=
      if ev.subtype != stEndTrack then
        match readVarLen bs1 0 with
        | (some d, r) => ({ cur with delay := d }, r, ev.subtype)
        | (none, r) => ({ cur with delay := 2 }, r, stEndTrack)          -- readVarLenEx returns 2 with ok = false
      else (cur, bs1, ev.subtype)
    let rows := if evSub == stEndTrack && cur.events.length == 1 then clearLastDelay rows else rows
    if cur.delay > 0 || evSub == stEndTrack then
      let (sorted, states') := sortEvents cur.events states
      let row : Row := { cur with absPos := absPos, events := sorted }
      let absPos' := (absPos + cur.delay) % W
      let rows := rows ++ [row]
      let b := { b with gotLoopInRow := false }
      if evSub == stEndTrack then .ok (rows, b, absPos') else trackLoop fuel bs2 status1 b absPos' {} states' rows
    else
      if evSub == stEndTrack then .ok (rows, b, absPos) else trackLoop fuel bs2 status1 b absPos cur states rows

def buildTrack (tk : Nat) (bs : Bytes) (b : BuildSt) : Except String (List Row × BuildSt) :=
  match readVarLen bs 0 with
  | (none, _) => .error "first-delay"
  | (some d, rest) =>
    let first : Row := { delay := d, absPos := 0, events := if tk == 0 then [{ type := tSpecial, subtype := stSongBegin }] else [] }
    match trackLoop (bs.length + 2) rest 0 b (d % W) {} [] [first] with
    | .error e => .error e
    | .ok (rows, b, absEnd) =>
      .ok (rows, { b with ticksSongLength := if b.ticksSongLength < absEnd then absEnd else b.ticksSongLength })

def buildTracks : Nat → List Bytes → BuildSt → List (List Row) → Except String (List (List Row) × BuildSt)
  | _, [], b, acc => .ok (acc, b)
  | tk, t :: ts, b, acc =>
    match buildTrack tk t b with
    | .error e => .error e
    | .ok (rows, b') => buildTracks (tk + 1) ts b' (acc ++ [rows])

/-! ## buildTimeLine -/

structure TimeSt where
  time : Rat := 0
  tempo : Frac
  tci : Nat := 0
  loopStartTime : Rat := -1
  loopEndTime : Rat := -1
  deriving Repr, Inhabited

/-- collect the tempo change points with absPosition ≤ pos (the do-while: at least one) -/
def collectPoints (invDelta : Frac) (tempos : List Ev) : Nat → Nat → Nat → List (Nat × Frac) → Except Fault (List (Nat × Frac) × Nat)
  | 0, _, tci, acc => .ok (acc, tci)
  | fuel + 1, posAbs, tci, acc =>
    match tempos[tci]? with
    | none => .ok (acc, tci)
    | some tp =>
      match Frac.mul invDelta { n := readBE tp.data, d := 1 } with
      | .error f => .error f
      | .ok t =>
        let acc := acc ++ [(tp.absPos, t)]
        let tci := tci + 1
        match tempos[tci]? with
        | some nx => if nx.absPos ≤ posAbs then collectPoints invDelta tempos fuel posAbs tci acc else .ok (acc, tci)
        | none => .ok (acc, tci)

/-- the loop over consecutive point pairs: (timeDelay, currentTempo) -/
def walkPoints : List (Nat × Frac) → Frac → Rat → Except Fault (Rat × Frac)
  | (a, _) :: (b, tb) :: rest, cur, td =>
    match Frac.scale ((b + W - a) % W) cur with
    | .error f => .error f
    | .ok t => walkPoints ((b, tb) :: rest) tb (fadd td t.value)
  | _, cur, td => .ok (td, cur)

def timeTrack (invDelta : Frac) (tempos : List Ev) (invalidLoop : Bool) (lsT leT : Nat) :
    List Row → Option Row → List Row → TimeSt → Except Fault (List Row × TimeSt)
  | [], prev, done, st => .ok (done ++ prev.toList, st)
  | pos :: rest, prev, done, st =>
    -- re-time the previous row when tempo events lie at or before this row
    let step1 : Except Fault (Option Row × TimeSt) :=
      match prev with
      | none => .ok (prev, st)
      | some p =>
        match tempos[st.tci]? with
        | none => .ok (prev, st)
        | some tp =>
          if tp.absPos ≤ pos.absPos then
            match collectPoints invDelta tempos (tempos.length + 1) pos.absPos st.tci [(p.absPos, st.tempo)] with
            | .error f => .error f
            | .ok (points, tci) =>
              let time := fsub st.time p.timeDelay
              match walkPoints points st.tempo 0 with
              | .error f => .error f
              | .ok (td, cur) =>
                let tailAbs := (points.getLast?.map (·.1)).getD 0
                match Frac.scale ((pos.absPos + W - tailAbs) % W) cur with
                | .error f => .error f
                | .ok t =>
                  let td := fadd td t.value
                  -- a delay cleared by end-silence skipping stays cleared (fix: see known_findings C07)
                  let td := if p.delay == 0 then 0 else td
                  .ok (some { p with timeDelay := td, time := time }, { st with time := fadd time td, tempo := cur, tci := tci })
          else .ok (prev, st)
    match step1 with
    | .error f => .error f
    | .ok (prev, st) =>
      match Frac.scale pos.delay st.tempo with
      | .error f => .error f
      | .ok t =>
        let pos := { pos with timeDelay := t.value, time := st.time }
        let st := { st with time := fadd st.time pos.timeDelay }
        let st :=
          if !invalidLoop then
            if lsT == pos.absPos then { st with loopStartTime := pos.time }
            else if leT == pos.absPos then { st with loopEndTime := pos.time }
            else st
          else st
        timeTrack invDelta tempos invalidLoop lsT leT rest (some pos) (done ++ prev.toList) st

/-! ## player state -/

structure TrackPos where
  delay : Nat := 0           -- uint64_t
  last : Int := 0            -- lastHandledEvent
  pos : Nat := 0             -- index of the next row (rows.length = end())
  deriving Repr, BEq, Inhabited

structure Position where
  began : Bool := false
  wait : Rat := 0
  absTime : Rat := 0
  track : List TrackPos := []
  deriving Repr, Inhabited

structure RtStack where
  infinity : Bool := false
  loops : Int := 0
  startPos : Position := {}
  deriving Repr, Inhabited

structure Loop where
  caughtStart : Bool := false
  caughtEnd : Bool := false
  caughtStackStart : Bool := false
  caughtStackEnd : Bool := false
  caughtStackBreak : Bool := false
  skipStackStart : Bool := false
  invalidLoop : Bool := false
  temporaryBroken : Bool := false
  loopsCount : Int := -1
  loopsLeft : Int := 0
  stack : List RtStack := []
  stackLevel : Int := -1
  deriving Repr, Inhabited

def Loop.reset (l : Loop) : Loop :=
  { l with caughtStart := false, caughtEnd := false, caughtStackStart := false, caughtStackEnd := false, caughtStackBreak := false,
           skipStackStart := false, loopsLeft := l.loopsCount }

def Loop.isStackEnd (l : Loop) : Bool :=
  if l.caughtStackEnd && 0 ≤ l.stackLevel && l.stackLevel < (l.stack.length : Int) then
    match l.stack[l.stackLevel.toNat]? with
    | some e => e.infinity || e.loops > 0
    | none => false
  else false

/-- getCurStack: index of the current entry, creating entry 0 when the stack is empty -/
def Loop.curIdx (l : Loop) : Loop × Nat :=
  if 0 ≤ l.stackLevel && l.stackLevel < (l.stack.length : Int) then (l, l.stackLevel.toNat)
  else if l.stack.isEmpty then ({ l with stack := [{}] }, 0)
  else (l, 0)

/-- what the sequencer does to the outside world -/
inductive Out
  | event (track : Nat) (e : Ev)        -- onEvent (raw event hook), before gating by channel
  | rt (kind : Nat) (ch a b : Nat)      -- call into the synthesizer: kind = event type (8,9,A,B,C,D,E), 0xF0 SysEx (a = length)
  | sysex (data : Bytes)
  | songStart
  | loopStart
  | loopEnd
  | deviceSwitch (track : Nat) (name : Bytes)
  deriving Repr, Inhabited

structure Seq where
  fmt : Fmt := .midi
  smfFormat : Nat := 0
  tracks : List (List Row) := []
  cur : Position := {}
  beginPos : Position := {}
  loopBegin : Position := {}
  loopEnabled : Bool := false
  loopHooksOnly : Bool := false
  fullLen : Rat := 0
  postWait : Rat := 1
  loopStartTime : Rat := -1
  loopEndTime : Rat := -1
  invDelta : Frac := { n := 1, d := 1 }
  tempo : Frac := { n := 1, d := 1 }
  beginTempo : Frac := { n := 0, d := 1 }        -- m_trackBeginTempo (restored by rewind)
  loopBeginTempo : Frac := { n := 0, d := 1 }    -- m_loopBeginTempo (restored by a jump to the loop start)
  tempoMult : Rat := 1
  atEnd : Bool := false
  loopCount : Int := -1
  loop : Loop := {}
  trackDisable : List Bool := []
  solo : Option Nat := none
  chanDisable : List Bool := List.replicate 16 false
  hookLoopStart : Bool := false
  hookLoopEnd : Bool := false
  devices : List (Bytes × Nat) := []          -- OPNMIDIplay::m_midiDevices (name -> first channel)
  curDevice : List (Nat × Nat) := []          -- m_currentMidiDevice (track -> first channel)
  loaded : Bool := false
  deriving Repr, Inhabited

/-- the scan of buildTimeLine that finds the position of the row holding the loop start -/
def scanLoopBegin (tracks : List (List Row)) (loopStartTime : Rat) : Nat → Position → Option Position
  | 0, _ => none
  | fuel + 1, rowPos =>
    let rowBegin := rowPos
    -- pass over the tracks
    let (tr, caught) := (rowPos.track.zipIdx).foldl (fun (acc : List TrackPos × Bool) (tp : TrackPos × Nat) =>
        let (t, tk) := tp
        let (out, caught) := acc
        if t.last ≥ 0 && t.delay == 0 then
          match (tracks.getD tk [])[t.pos]? with
          | none => (out ++ [{ t with last := -1 }], caught)
          | some row =>
            let c := row.events.any fun e => e.type == tSpecial && e.subtype == stLoopStart
            (out ++ [{ t with delay := (t.delay + row.delay) % W, pos := t.pos + 1 }], caught || c)
        else (out ++ [t], caught)) ([], false)
    let live := tr.filter (·.last ≥ 0)
    let shortest := live.foldl (fun (m : Option Nat) t => match m with | none => some t.delay | some x => some (if t.delay < x then t.delay else x)) none
    let sd := shortest.getD 0
    let tr := tr.map fun (t : TrackPos) => { t with delay := (t.delay + W - sd) % W }
    if caught then some { rowBegin with absTime := loopStartTime }
    else if shortest.isNone then none
    else scanLoopBegin tracks loopStartTime fuel { rowPos with track := tr }

/-- everything loadMIDI does once the raw tracks are known (buildSmfTrackData + buildTimeLine) -/
def loadTracks (s : Seq) (fmt : Fmt) (smfFormat : Nat) (deltaTicks : Nat) (raw : List Bytes) : Except Fault (Option Seq) :=
  let invDelta : Frac := { n := 1, d := 1000000 * deltaTicks % W }
  let tempo0 : Frac := { n := 1, d := deltaTicks * 2 % W }
  match buildTracks 0 raw { ps := { fmt := fmt } } [] with
  | .error _ => .ok none
  | .ok (tracks, b) =>
    let implicitEnd := b.gotStart && !b.gotEnd
    let b := if implicitEnd then { b with gotEnd := true, loopEndTicks := b.ticksSongLength } else b
    let invalid := b.invalidLoop || b.loopStartTicks ≥ b.loopEndTicks
    -- per-track time lines
    let rec timeAll : List (List Row) → List (List Row) → Rat → Rat → Rat → Except Fault (List (List Row) × Rat × Rat × Rat)
      | [], acc, full, ls, le => .ok (acc, full, ls, le)
      | t :: ts, acc, full, ls, le =>
        if t.isEmpty then timeAll ts (acc ++ [t]) full ls le else
        match timeTrack invDelta b.tempos invalid b.loopStartTicks b.loopEndTicks t none [] { tempo := tempo0, loopStartTime := ls, loopEndTime := le } with
        | .error f => .error f
        | .ok (rows, st) => timeAll ts (acc ++ [rows]) (if st.time > full then st.time else full) st.loopStartTime st.loopEndTime
    match timeAll tracks [] 0 (-1) (-1) with
    | .error f => .error f
    | .ok (tracks, full, ls, le) =>
      -- an implicit loop end stands where the last track ends (m_fullSongTimeLength - m_postSongWaitDelay)
      let le := if implicitEnd && !invalid then fsub (fadd full s.postWait) s.postWait else le
      let cur : Position := { track := tracks.map fun _ => {} }
      let loopBegin :=
        if !invalid && !cur.track.isEmpty then (scanLoopBegin tracks ls ((tracks.map List.length).sum + 2) cur).getD cur else cur
      .ok (some { s with
        fmt := fmt, smfFormat := smfFormat, tracks := tracks, cur := cur, beginPos := cur, loopBegin := loopBegin,
        fullLen := fadd full s.postWait, loopStartTime := ls, loopEndTime := le, invDelta := invDelta, tempo := tempo0, beginTempo := tempo0, loopBeginTempo := tempo0,
        atEnd := false,
        loop := { caughtStart := false, invalidLoop := invalid, loopsCount := s.loopCount, loopsLeft := s.loopCount, stackLevel := -1,
                  stack := b.stack.map fun e => { infinity := e.infinity, loops := e.loops } },
        trackDisable := tracks.map fun _ => false, solo := none, chanDisable := List.replicate 16 false, loaded := true })

/-! ## headers -/

def be16 (bs : Bytes) (i : Nat) : Nat := bs.getD i 0 * 256 + bs.getD (i + 1) 0
def be32 (bs : Bytes) (i : Nat) : Nat := ((bs.getD i 0 * 256 + bs.getD (i + 1) 0) * 256 + bs.getD (i + 2) 0) * 256 + bs.getD (i + 3) 0

def magicMThd : Bytes := [77, 84, 104, 100, 0, 0, 0, 6]
def magicMTrk : Bytes := [77, 84, 114, 107]
def magicRIFF : Bytes := [82, 73, 70, 70]
def magicGMF : Bytes := [71, 77, 70, 1]

/-- the track chunks of parseSMF: `none` = rejected (bad signature, declared length beyond the file) -/
def readChunks : Nat → Bytes → List Bytes → Option (List Bytes)
  | 0, _, acc => some acc
  | n + 1, bs, acc =>
    if bs.length < 8 || bs.take 4 != magicMTrk then none else
    let len := be32 bs 4
    let body := bs.drop 8
    if len > body.length then none else readChunks n (body.drop len) (acc ++ [body.take len])

inductive LoadRes
  | ok (s : Seq)
  | rejected
  deriving Inhabited

/-- parseSMF on the bytes from the MThd header on -/
def parseSMF (s : Seq) (fmt : Fmt) (bs : Bytes) : Except Fault LoadRes :=
  if bs.length < 14 then .ok .rejected else
  if bs.take 8 != magicMThd then .ok .rejected else
  let smf := be16 bs 8
  let ntracks := be16 bs 10
  let delta := be16 bs 12
  let smf := if smf > 2 then 1 else smf
  if delta == 0 then .ok .rejected else
  match readChunks ntracks (bs.drop 14) [] with
  | none => .ok .rejected
  | some raw =>
    if (raw.map List.length).sum == 0 then .ok .rejected else
    match loadTracks s fmt smf delta raw with
    | .error f => .error f
    | .ok none => .ok .rejected
    | .ok (some s') => .ok (.ok s')

/-- loadMIDI for the container formats that carry plain SMF data (SMF, RIFF/RMID, GMF) -/
def loadMidi (s : Seq) (bs : Bytes) : Except Fault LoadRes :=
  if bs.length < 14 then .ok .rejected
  else if bs.take 8 == magicMThd then parseSMF s .midi bs
  else if bs.take 4 == magicRIFF then parseSMF s .midi (bs.drop 20)
  else if bs.take 4 == magicGMF then
    let body := bs.drop 7
    let raw := [body ++ [0xFF, 0x2F, 0x00, 0x00]]
    match loadTracks s .midi 0 192 raw with
    | .error f => .error f
    | .ok none => .ok .rejected
    | .ok (some s') => .ok (.ok s')
  else .ok .rejected

/-! ## handleEvent -/

def chooseDevice (s : Seq) (name : Bytes) : Seq × Nat :=
  match s.devices.find? (·.1 == name) with
  | some (_, n) => (s, n)
  | none => let n := s.devices.length * 16; ({ s with devices := s.devices ++ [(name, n)] }, n)

def currentDevice (s : Seq) (track : Nat) : Nat :=
  match s.curDevice.find? (·.1 == track) with
  | some (_, n) => n
  | none => 0

/-- handleEvent: new state, new lastHandledEvent of the track, outputs -/
def handleEvent (s : Seq) (track : Nat) (e : Ev) (status : Int) : Seq × Int × List Out :=
  let timing := track == 0 && s.smfFormat < 2 && e.type == tSpecial && (e.subtype == stTempo || e.subtype == stTimeSig)
  let gated := !timing && ((match s.solo with | some t => track != t | none => false) || s.trackDisable.getD track false)
  if gated then (s, status, []) else
  let o0 := [Out.event track e]
  if e.type == tSysEx || e.type == tSysEx2 then (s, status, o0 ++ [.sysex e.data]) else
  if e.type == tSpecial then
    let st := e.subtype
    if st == stEndTrack then (s, -1, o0)
    else if st == stTempo then
      match Frac.mul s.invDelta { n := readBE e.data, d := 1 } with
      | .ok t => ({ s with tempo := t }, status, o0)
      | .error _ => (s, status, o0)
    else if st == stMarker then (s, status, o0)
    else if st == stDeviceSwitch then
      let (s1, n) := chooseDevice s e.data
      ({ s1 with curDevice := (s1.curDevice.filter (·.1 != track)) ++ [(track, n)] }, status, o0 ++ [.deviceSwitch track e.data])
    else if s.loopEnabled && !s.loop.invalidLoop && st == stLoopStart then ({ s with loop := { s.loop with caughtStart := true } }, status, o0)
    else if s.loopEnabled && !s.loop.invalidLoop && st == stLoopEnd then ({ s with loop := { s.loop with caughtEnd := true } }, status, o0)
    else if s.loopEnabled && !s.loop.invalidLoop && st == stStackBegin then
      if s.loop.skipStackStart then ({ s with loop := { s.loop with skipStackStart := false } }, status, o0)
      else
        let x : Int := toSigned 8 (e.data.headD 0)
        let slevel := (s.loop.stackLevel + 1).toNat
        let stack := if slevel ≥ s.loop.stack.length then
            s.loop.stack ++ List.replicate (slevel + 1 - s.loop.stack.length) { loops := x, infinity := x == 0 } else s.loop.stack
        let stack := stack.modify slevel fun (en : RtStack) => { en with loops := x, infinity := x == 0 }
        ({ s with loop := { s.loop with stack := stack, caughtStackStart := true } }, status, o0)
    else if s.loopEnabled && !s.loop.invalidLoop && st == stStackEnd then ({ s with loop := { s.loop with caughtStackEnd := true } }, status, o0)
    else if s.loopEnabled && !s.loop.invalidLoop && st == stStackBreak then ({ s with loop := { s.loop with caughtStackBreak := true } }, status, o0)
    else if st == stSongBegin then (s, status, o0 ++ [.songStart])
    else (s, status, o0)
  else if e.type == tSongSel || e.type == tSongPos then (s, status, o0)
  else
    let midCh := e.channel + currentDevice s track
    let status' : Int := e.type
    let a := e.data.headD 0
    let b := e.data.getD 1 0
    let disabled := midCh < 16 && s.chanDisable.getD midCh false
    if e.type == tNoteOff then (s, status', if disabled then o0 else o0 ++ [.rt tNoteOff (midCh % 256) a b])
    else if e.type == tNoteOn then (s, status', if disabled then o0 else o0 ++ [.rt tNoteOn (midCh % 256) a b])
    else if e.type == tNoteTouch then (s, status', o0 ++ [.rt tNoteTouch (midCh % 256) a b])
    else if e.type == tCtrl then (s, status', o0 ++ [.rt tCtrl (midCh % 256) a b])
    else if e.type == tPatch then (s, status', o0 ++ [.rt tPatch (midCh % 256) a 0])
    else if e.type == tChanAT then (s, status', o0 ++ [.rt tChanAT (midCh % 256) a 0])
    else if e.type == tWheel then (s, status', o0 ++ [.rt tWheel (midCh % 256) b a])      -- rt_pitchBend(msb, lsb)
    else (s, status', o0)

/-! ## processEvents -/

def allNotesOff : List Out := (List.range 16).map fun i => Out.rt tCtrl i 123 0

structure RowRes where
  s : Seq
  outs : List Out := []
  doJump : Bool := false
  nStart : Nat := 0
  nStackStart : Nat := 0
  nStackEnds : Nat := 0
  stackEndsTime : Rat := 0
  nStackBreaks : Nat := 0

/-- what processEvents does for one event of a row: handleEvent, then the loop flags it raised; the `Bool` says that the
    loop end (or a counted loop's end) was caught and the row must be left -/
def eventStep (tk : Nat) (rowTime : Rat) (e : Ev) (last : Int) (r : RowRes) : RowRes × Int × Bool :=
  let (s, last', outs) := handleEvent r.s tk e last
  let r := { r with s := s, outs := r.outs ++ outs }
  let r := if r.s.loop.caughtStart then
      { r with s := { r.s with loop := { r.s.loop with caughtStart := false } }, nStart := r.nStart + 1,
               outs := r.outs ++ (if r.s.hookLoopStart then [Out.loopStart] else []) } else r
  let r := if r.s.loop.caughtStackStart then
      { r with s := { r.s with loop := { r.s.loop with caughtStackStart := false } }, nStackStart := r.nStackStart + 1,
               outs := r.outs ++ (if r.s.hookLoopStart && r.s.loopStartTime ≥ rowTime then [Out.loopStart] else []) } else r
  let r := if r.s.loop.caughtStackBreak then
      { r with s := { r.s with loop := { r.s.loop with caughtStackBreak := false } }, nStackBreaks := r.nStackBreaks + 1 } else r
  if r.s.loop.caughtEnd || r.s.loop.isStackEnd then
    let r := if r.s.loop.caughtStackEnd then
        { r with s := { r.s with loop := { r.s.loop with caughtStackEnd := false } }, nStackEnds := r.nStackEnds + 1, stackEndsTime := rowTime } else r
    ({ r with doJump := true }, last', true)
  else (r, last', false)

/-- the loop over the events of one row (a seek skips the note-ons) -/
def rowEvents (isSeek : Bool) (tk : Nat) (rowTime : Rat) : List Ev → Int → RowRes → RowRes × Int
  | [], last, r => (r, last)
  | e :: es, last, r =>
    if isSeek && e.type == tNoteOn then rowEvents isSeek tk rowTime es last r else
    match eventStep tk rowTime e last r with
    | (r', last', true) => (r', last')
    | (r', last', false) => rowEvents isSeek tk rowTime es last' r'

/-- the first loop of processEvents over the tracks -/
def tracksPass (isSeek : Bool) : Nat → Nat → RowRes → RowRes
  | 0, _, r => r
  | fuel + 1, tk, r =>
    match r.s.cur.track[tk]? with
    | none => r
    | some t =>
      if t.last ≥ 0 && t.delay == 0 then
        match (r.s.tracks.getD tk [])[t.pos]? with
        | none =>
          -- end of the row list: mark the track finished and leave the loop over the tracks
          { r with s := { r.s with cur := { r.s.cur with track := r.s.cur.track.set tk { t with last := -1 } } } }
        | some row =>
          let (r, last) := rowEvents isSeek tk row.time row.events t.last r
          let t' : TrackPos := if last ≥ 0 then { delay := (t.delay + row.delay) % W, last := last, pos := t.pos + 1 } else { t with last := last }
          let r := { r with s := { r.s with cur := { r.s.cur with track := r.s.cur.track.set tk t' } } }
          if r.doJump then r else tracksPass isSeek fuel (tk + 1) r
      else tracksPass isSeek fuel (tk + 1) r

/-- LoopState::stackDown: the level never sinks below -1 ("no loop open") -/
def stackDown (lvl : Int) : Int := if lvl - 1 < -1 then -1 else lvl - 1

def stackUpN : Nat → Loop → Position → Loop
  | 0, l, _ => l
  | n + 1, l, p =>
    let l := { l with stackLevel := l.stackLevel + 1 }
    let (l, i) := l.curIdx
    stackUpN n { l with stack := l.stack.modify i fun (e : RtStack) => { e with startPos := p } } p

def stackBreakN : Nat → Loop → Loop
  | 0, l => l
  | n + 1, l =>
    let (l, i) := l.curIdx
    stackBreakN n { l with stack := l.stack.modify i (fun (e : RtStack) => { e with loops := 0, infinity := false }), stackLevel := stackDown l.stackLevel }

/-- the `while(caughLoopStackEnds > 0)` block; returns the state and outputs (it always ends with `return true`) -/
def stackEndsN : Nat → Seq → Rat → List Out → Seq × List Out
  | 0, s, _, outs => (s, outs)
  | n + 1, s, endsTime, outs =>
    let (l, i) := s.loop.curIdx
    let s := { s with loop := l }
    let e := l.stack.getD i {}
    if e.infinity then
      let (s, outs) :=
        if s.hookLoopEnd && s.loopEndTime ≥ endsTime then
          let s := if s.loopHooksOnly then { s with atEnd := true, cur := { s.cur with wait := fadd s.cur.wait s.postWait } } else s
          (s, outs ++ [Out.loopEnd])
        else (s, outs)
      ({ s with cur := e.startPos, loop := { s.loop with skipStackStart := true } }, outs ++ allNotesOff)
    else if e.loops ≥ 0 then
      let loops := e.loops - 1
      let s := { s with loop := { s.loop with stack := s.loop.stack.modify i fun (en : RtStack) => { en with loops := loops } } }
      if loops > 0 then ({ s with cur := e.startPos, loop := { s.loop with skipStackStart := true } }, outs ++ allNotesOff)
      else stackEndsN n { s with loop := { s.loop with stackLevel := stackDown s.loop.stackLevel } } endsTime outs
    else stackEndsN n { s with loop := { s.loop with stackLevel := stackDown s.loop.stackLevel } } endsTime outs

/-- the decision taken on arrival at the loop end or at the end of the song (tail of processEvents): loop-end hook,
    All-Notes-Off on the 16 channels, then either the end of the song, or a jump to the begin / to the loop start -/
def loopTail (s : Seq) (notFound : Bool) : Seq × List Out :=
  let outs := (if s.hookLoopEnd then [Out.loopEnd] else []) ++ allNotesOff
  let s := { s with loop := { s.loop with caughtEnd := false } }
  if !s.loopEnabled || (notFound && s.loop.loopsCount ≥ 0 && s.loop.loopsLeft < 1) || s.loopHooksOnly then
    ({ s with atEnd := true, cur := { s.cur with wait := fadd s.cur.wait s.postWait } }, outs)
  else if s.loop.temporaryBroken then
    ({ s with cur := s.beginPos, tempo := s.beginTempo, loop := { s.loop with temporaryBroken := false } }, outs)
  else if s.loop.loopsCount < 0 || s.loop.loopsLeft ≥ 1 then
    ({ s with cur := s.loopBegin, tempo := s.loopBeginTempo, loop := if s.loop.loopsCount ≥ 1 then { s.loop with loopsLeft := s.loop.loopsLeft - 1 } else s.loop }, outs)
  else (s, outs)

/-- processEvents: (continue?, state, outputs) -/
def processEvents (s : Seq) (isSeek : Bool) : Bool × Seq × List Out :=
  let s := if s.cur.track.isEmpty then { s with atEnd := true } else s
  if s.atEnd then (false, s, []) else
  let s := { s with loop := { s.loop with caughtEnd := false } }
  let rowBegin := s.cur
  let rowBeginTempo := s.tempo
  let r := tracksPass isSeek (s.cur.track.length + 1) 0 { s := s }
  let s := r.s
  let live := s.cur.track.filter (·.last ≥ 0)
  let shortest := live.foldl (fun (m : Option Nat) t => match m with | none => some t.delay | some x => some (if t.delay < x then t.delay else x)) none
  let sd := shortest.getD 0
  let notFound := shortest.isNone
  let s := { s with cur := { s.cur with track := s.cur.track.map fun (t : TrackPos) => { t with delay := (t.delay + W - sd) % W } } }
  let tval : Rat := match Frac.scale sd s.tempo with | .ok t => t.value | .error _ => 0
  let s := { s with cur := { s.cur with wait := fadd s.cur.wait tval } }
  let s := if r.nStart > 0 then { s with loopBeginTempo := rowBeginTempo } else s
  let s := if r.nStart > 0 && s.loopBegin.absTime ≤ 0 then { s with loopBegin := rowBegin } else s
  if r.nStackStart > 0 then (true, { s with loop := stackUpN r.nStackStart s.loop rowBegin }, r.outs) else
  let s := if r.nStackBreaks > 0 then { s with loop := stackBreakN r.nStackBreaks s.loop } else s
  if r.nStackEnds > 0 then
    let (s, outs) := stackEndsN r.nStackEnds s r.stackEndsTime r.outs
    (true, s, outs)
  else
  if notFound || s.loop.caughtEnd then
    let (s, o) := loopTail s notFound
    (true, s, r.outs ++ o)
  else (true, s, r.outs)

/-! ## Tick, seek, rewind -/

def tickLoop (gran : Rat) : Nat → Nat → Seq → List (List Out) → Seq × List (List Out) × Nat
  | 0, af, s, outs => (s, outs, af)
  | fuel + 1, af, s, outs =>
    if s.cur.wait ≤ fmul gran (1 / 2) && af > 0 then
      let (cont, s, o) := processEvents s false
      if !cont then (s, o :: outs, af) else
      tickLoop gran fuel (if s.cur.wait ≤ fmul gran (1 / 2) then af - 1 else af) s (o :: outs)
    else (s, outs, af)

/-- BW_MidiSequencer::Tick: returns the delay until the next call (the outputs are collected newest-first and flattened once) -/
def tick (s : Seq) (sec gran : Rat) (fuel : Nat) : Seq × List Out × Rat :=
  let sec := fmul sec s.tempoMult
  let s := { s with cur := { s.cur with wait := fsub s.cur.wait sec, absTime := fadd s.cur.absTime sec } }
  let (s, outs, af) := tickLoop gran fuel 10000 s []
  let s := if af == 0 then { s with cur := { s.cur with wait := fadd s.cur.wait 1 } } else s
  (s, outs.reverse.flatten, if s.cur.wait < 0 then 0 else fdiv s.cur.wait s.tempoMult)

def rewind (s : Seq) : Seq :=
  { s with cur := s.beginPos, tempo := s.beginTempo, atEnd := false,
           loop := { ({ s.loop with loopsCount := s.loopCount } : Loop).reset with caughtStart := true, temporaryBroken := false } }

def seekInner (half : Rat) : Nat → Nat → Rat → Seq → List (List Out) → Seq × List (List Out) × Nat
  | 0, af, _, s, outs => (s, outs, af)
  | fuel + 1, af, dst, s, outs =>
    if s.cur.wait ≤ half then
      let (cont, s, o) := processEvents s true
      if !cont then (s, o :: outs, af) else
      if s.cur.wait ≤ dst then seekInner half fuel (af - 1) dst s (o :: outs)
      else seekInner half fuel 10000 (fadd s.cur.wait half) s (o :: outs)
    else (s, outs, af)

def seekOuter (seconds half : Rat) : Nat → Nat → Seq → List (List Out) → Seq × List (List Out)
  | 0, _, s, outs => (s, outs)
  | fuel + 1, inner, s, outs =>
    if s.cur.absTime < seconds && s.cur.absTime < s.fullLen then
      let s := { s with cur := { s.cur with wait := fsub s.cur.wait seconds, absTime := fadd s.cur.absTime seconds } }
      let (s, outs, af) := seekInner half inner 10000 (fadd s.cur.wait half) s outs
      let s := if af == 0 then { s with cur := { s.cur with wait := fadd s.cur.wait 1 } } else s
      seekOuter seconds half fuel inner s outs
    else (s, outs)

/-- BW_MidiSequencer::seek (seconds ≥ 0): returns the remaining wait -/
def seek (s : Seq) (seconds gran : Rat) (fuel : Nat) : Seq × List Out × Rat :=
  if seconds < 0 then (s, [], 0) else
  if seconds > s.fullLen then (rewind s, [], 0) else
  let flag := s.loopEnabled
  let s := rewind { s with loopEnabled := false }
  let s := { s with loop := { s.loop with caughtStart := false, temporaryBroken := seconds ≥ s.loopEndTime } }
  let (s, outs) := seekOuter seconds (fmul gran (1 / 2)) 4 fuel s []
  let outs := outs.reverse.flatten
  let s := if s.cur.wait < 0 then { s with cur := { s.cur with wait := 0 } } else s
  if s.atEnd then ({ rewind s with loopEnabled := flag }, outs, 0)
  else ({ s with loopEnabled := flag }, outs, fdiv s.cur.wait s.tempoMult)

end Opn.Seq
