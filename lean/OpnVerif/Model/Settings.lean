/-
  Model of the configuration layer of the C API (src/opnmidi.cpp setters/getters, OPNMIDIplay::applySetup /
  partialReset / resetMIDI, LoadBank's bank-wide overrides, hook slots): what a setter stores, what a getter reports,
  what resets, emulator switches and loads re-apply.
-/
import OpnVerif.Model.Basic

namespace Opn.Settings
open Opn

/-- OPNMIDIplay::Setup (requested values) -/
structure Setup where
  numChips : Nat := 2
  emulator : Int := 0
  runAtPcmRate : Bool := false
  lfoEnable : Int := -1
  lfoFrequency : Int := -1
  chipType : Int := -1
  scaleModulators : Int := 0
  fullRangeBrightness : Bool := false
  autoArpeggio : Bool := false
  volumeModel : Int := 0
  logVolumes : Nat := 0
  deriving Repr, DecidableEq, Inhabited

/-- values in force inside the synthesizer (class OPN2) -/
structure Live where
  numChips : Nat := 2
  lfoEnable : Bool := false
  lfoFrequency : Nat := 0
  chipFamily : Int := 0
  volumeScale : Nat := 0
  chanAlloc : Int := -1
  scaleModulators : Bool := false
  softPan : Bool := false
  deriving Repr, DecidableEq, Inhabited

/-- m_insBankSetup: the loaded bank's own values -/
structure BankSetup where
  volumeModel : Nat := 0
  lfoEnable : Bool := false
  lfoFrequency : Nat := 0
  chipType : Nat := 0
  deriving Repr, DecidableEq, Inhabited

structure SeqSet where
  loopEnabled : Bool := false
  loopCount : Int := -1          -- internal (0-based) value
  loopHooksOnly : Bool := false
  tempo : Rat := 1
  deriving Repr, DecidableEq, Inhabited

structure S where
  setup : Setup := {}
  live : Live := {}
  bank : BankSetup := {}
  seq : SeqSet := {}
  devId : Nat := 0
  hooks : Nat := 0               -- bit mask: raw 1, note 2, debug 4, loop start 8, loop end 16
  banksLoaded : Bool := false
  deriving Repr, DecidableEq, Inhabited

/-- number of compiled emulators (ids 0 .. emuCount-1), from the regenerated enumeration -/
def emuCount : Nat := 9

/-- OPN2::setVolumeScaleModel -/
def setVolumeScale (cur : Nat) (model : Int) : Nat :=
  if model == 1 then 0 else if model == 2 then 1 else if model == 3 then 2 else if model == 4 then 3 else if model == 5 then 4 else cur

/-- OPN2::getVolumeScaleModel -/
def volumeModelOf (scale : Nat) : Nat := if scale ≤ 4 then scale + 1 else 1

/-- OPNMIDIplay::applySetup -/
def applySetup (s : S) : S :=
  let vs := if s.setup.logVolumes != 0 then setVolumeScale s.live.volumeScale 2 else setVolumeScale s.live.volumeScale s.setup.volumeModel
  let vs := if s.setup.volumeModel == 0 && s.setup.logVolumes == 0 then s.bank.volumeModel else vs
  { s with live := { s.live with
      scaleModulators := s.setup.scaleModulators != 0,
      volumeScale := vs,
      numChips := s.setup.numChips,
      lfoEnable := if s.setup.lfoEnable < 0 then s.bank.lfoEnable else s.setup.lfoEnable != 0,
      lfoFrequency := if s.setup.lfoFrequency < 0 then s.bank.lfoFrequency else (s.setup.lfoFrequency % 256).toNat,
      chipFamily := if s.setup.chipType < 0 then (s.bank.chipType : Int) else s.setup.chipType } }

/-- OPNMIDIplay::partialReset: the chips are rebuilt with the values in force; nothing a getter reports changes -/
def partialReset (s : S) : S := s

/-- the calls of the configuration API -/
inductive Op
  | numChips (n : Int) | emulator (e : Int) | runAtPcm (b : Int) | devId (id : Nat) | lfo (v : Int) | lfoFreq (v : Int) | chipType (v : Int)
  | scaleMod (v : Int) | frb (v : Int) | arp (v : Int) | loop (v : Int) | loopCount (v : Int) | loopHooksOnly (v : Int) | softPan (v : Int)
  | logVol (v : Int) | volModel (v : Int) | chanAlloc (v : Int) | tempo (x : Rat) | reset | hook (bit : Nat) (on : Bool)
  | bankAccepted (volumeModel lfoFreq chipType : Nat) | bankRejected | musicAccepted | musicRejected
  deriving Repr, Inhabited

/-- one call: new state and the return value (`none` for void functions) -/
def step (s : S) : Op → S × Option Int
  | .numChips n =>
    if n < 1 || n > 100 then (s, some (-1))
    else (partialReset { s with setup := { s.setup with numChips := n.toNat }, live := { s.live with numChips := n.toNat } }, some 0)
  | .emulator e =>
    if e < 0 || e ≥ emuCount then (s, some (-1)) else (partialReset { s with setup := { s.setup with emulator := e } }, some 0)
  | .runAtPcm b => (partialReset { s with setup := { s.setup with runAtPcmRate := b != 0 } }, some 0)
  | .devId id => if id > 15 then (s, some (-1)) else ({ s with devId := id }, some 0)
  | .lfo v => ({ s with setup := { s.setup with lfoEnable := v }, live := { s.live with lfoEnable := if v < 0 then s.bank.lfoEnable else v != 0 } }, none)
  | .lfoFreq v => ({ s with setup := { s.setup with lfoFrequency := v },
                            live := { s.live with lfoFrequency := if v < 0 then s.bank.lfoFrequency else (v % 256).toNat } }, none)
  | .chipType v => (applySetup { s with setup := { s.setup with chipType := v } }, none)
  | .scaleMod v => ({ s with setup := { s.setup with scaleModulators := v }, live := { s.live with scaleModulators := v != 0 } }, none)
  | .frb v => ({ s with setup := { s.setup with fullRangeBrightness := v != 0 } }, none)
  | .arp v => ({ s with setup := { s.setup with autoArpeggio := v != 0 } }, none)
  | .loop v => ({ s with seq := { s.seq with loopEnabled := v != 0 } }, none)
  | .loopCount v => ({ s with seq := { s.seq with loopCount := if v ≥ 1 then v - 1 else v } }, none)
  | .loopHooksOnly v => ({ s with seq := { s.seq with loopHooksOnly := v != 0 } }, none)
  | .softPan v => ({ s with live := { s.live with softPan := v != 0 } }, none)
  | .logVol v =>
    let lv := (v % 4294967296).toNat
    ({ s with setup := { s.setup with logVolumes := lv },
              live := { s.live with volumeScale := if lv != 0 then setVolumeScale s.live.volumeScale 2
                                                   else if s.setup.volumeModel == 0 then s.bank.volumeModel
                                                   else setVolumeScale s.live.volumeScale s.setup.volumeModel } }, none)
  | .volModel v =>
    -- an explicitly chosen model replaces the deprecated logarithmic-volumes switch
    ({ s with setup := { s.setup with volumeModel := v, logVolumes := 0 },
              live := { s.live with volumeScale := if v == 0 then s.bank.volumeModel else setVolumeScale s.live.volumeScale v } }, none)
  | .chanAlloc v => ({ s with live := { s.live with chanAlloc := if v < -1 || v ≥ 3 then -1 else v } }, none)
  | .tempo x => (if x > 0 then { s with seq := { s.seq with tempo := x } } else s, none)
  | .reset => (partialReset s, none)
  | .hook bit on => ({ s with hooks := if on then s.hooks ||| bit else s.hooks &&& (31 - bit) }, none)
  | .bankAccepted vm lf ct =>
    (applySetup { s with bank := { volumeModel := vm, lfoEnable := lf / 8 % 2 == 1, lfoFrequency := lf % 8, chipType := ct },
                         setup := { s.setup with volumeModel := 0, lfoEnable := -1, lfoFrequency := -1, chipType := -1 }, banksLoaded := true }, some 0)
  | .bankRejected => (s, some (-1))
  | .musicAccepted => (if s.banksLoaded then applySetup s else s, some (if s.banksLoaded then 0 else -1))
  | .musicRejected => (if s.banksLoaded then applySetup s else s, some (-1))

/-- what the getters report -/
structure View where
  numChips : Nat
  numChipsObtained : Nat
  lfoEnabled : Bool
  lfoFrequency : Nat
  chipType : Int
  autoArpeggio : Bool
  volumeModel : Nat
  chanAlloc : Int
  deriving Repr, DecidableEq

def view (s : S) : View :=
  { numChips := s.setup.numChips, numChipsObtained := s.live.numChips, lfoEnabled := s.live.lfoEnable, lfoFrequency := s.live.lfoFrequency,
    chipType := s.live.chipFamily, autoArpeggio := s.setup.autoArpeggio, volumeModel := volumeModelOf s.live.volumeScale, chanAlloc := s.live.chanAlloc }

end Opn.Settings
