/-
  Model of OPNMIDIplay + OPN2 minus the emulator cores (src/opnmidi_midiplay.{hpp,cpp}, src/opnmidi_opn2.cpp):
  MIDI channel records, chip channels with their users, voice allocation, pedals, controllers, SysEx, bank
  resolution, and the chip as "last value of each register per channel" (key flag, frequency through the 0xA4 latch,
  levels, multipliers, patch).  Function-by-function transliteration; names follow the C++.

  Floating point: times are exact rationals (the correspondence drives the implementation at dyadic rates, DESIGN §3.2);
  the frequency search takes the double the implementation computed (`taps`), because exp is a kernel (C10);
  vibrato (sin) and portamento (pow) make the model's pitch `unknown` while they are active.
-/
import OpnVerif.Model.Basic
import OpnVerif.Model.Volume
import OpnVerif.Model.Pitch
import OpnVerif.Model.BankMap
import OpnVerif.Model.BankApi

namespace Opn.Synth
open Opn

/-! ## data -/

/-- OpnTimbre, compared by content like memcmp -/
structure Timbre where
  ops : List Nat        -- 28 bytes, OPS[op].data[d] at index op*7+d
  fbalg : Nat
  lfosens : Nat
  noteOffset : Int
  deriving DecidableEq, Repr, Inhabited

def Timbre.zero : Timbre := { ops := List.replicate 28 0, fbalg := 0, lfosens := 0, noteOffset := 0 }

/-- OpnInstMeta (op[1] is always a copy of op[0]: cvt_generic_to_FMIns, makeEmptyInstrument) -/
structure Ins where
  op : Timbre
  drumTone : Nat
  flags : Nat
  keyOnMs : Nat
  keyOffMs : Nat
  velOffset : Int
  deriving DecidableEq, Repr, Inhabited

def Ins.empty : Ins := { op := Timbre.zero, drumTone := 0, flags := 2, keyOnMs := 0, keyOffMs := 0, velOffset := 0 }

def Ins.ofApi (i : BankApi.AInst) : Ins :=
  { op := { ops := i.ops, fbalg := i.fbalg, lfosens := i.lfosens, noteOffset := i.noteOffset },
    drumTone := i.percKey, flags := i.flags, keyOnMs := i.delayOn, keyOffMs := i.delayOff, velOffset := i.velOffset }

structure Phys where
  chan : Nat
  timbre : Timbre
  deriving DecidableEq, Repr, Inhabited

/-- MIDIchannel::NoteInfo -/
structure Note where
  key : Nat
  vol : Nat
  vibrato : Nat
  noteTone : Int
  curTone : Option Rat      -- currentTone; none = unknown (portamento in progress)
  gliding : Bool            -- glideRate != HUGE_VAL
  midiins : Nat
  isPerc : Bool
  isBlank : Bool
  onExt : Bool
  ttl : Rat
  ins : Ins                 -- *ains at note-on (by value; banks are not edited under sounding notes)
  phys : List Phys
  deriving Repr, Inhabited

/-- OpnChannel::LocationData -/
structure User where
  midCh : Nat
  key : Nat
  sus : Nat                 -- bit0 pedal, bit1 sostenuto
  timbre : Timbre
  fixedSustain : Bool
  kon : Int                 -- kon_time_until_neglible_us
  vibdelay : Int
  deriving Repr, Inhabited

structure ChipCh where
  koff : Int
  recent : Timbre
  users : List User
  deriving Repr, Inhabited

def ChipCh.fresh : ChipCh := { koff := 0, recent := Timbre.zero, users := [] }

/-- MIDIchannel (the fields that influence behaviour) -/
structure MidiCh where
  defVolume : Nat := 100
  defBendLsb : Int := 0
  defBendMsb : Int := 2
  bankLsb : Nat := 0
  bankMsb : Nat := 0
  patch : Nat := 0
  volume : Nat := 100
  expression : Nat := 127
  panning : Nat := 64
  vibrato : Nat := 0
  aftertouch : Nat := 0
  portamento : Nat := 0
  sustain : Bool := false
  softPedal : Bool := false
  portamentoEnable : Bool := false
  portamentoSource : Int := -1
  portamentoRateSet : Bool := false     -- portamentoRate != HUGE_VAL
  noteAftertouch : List Nat := List.replicate 128 0
  noteAfterTouchInUse : Bool := false
  bend : Int := 0
  bendMsb : Int := 2
  bendLsb : Int := 0
  vibposZero : Bool := true             -- vibpos == 0 (sin(vibpos) = 0 exactly)
  vibdelayUs : Int := 0
  lastlrpn : Nat := 0
  lastmrpn : Nat := 0
  nrpn : Bool := false
  brightness : Nat := 127
  isXgPerc : Bool := false
  notes : List Note := []
  glidingCount : Nat := 0
  extCount : Nat := 0
  deriving Repr, Inhabited

/-- last register values of one chip channel, as the chip sees them -/
structure ChRegs where
  keyOn : Bool := false
  ftone : Option Nat := none       -- (0xA4 latch << 8) | 0xA0, committed by the 0xA0 write
  freqKnown : Bool := true         -- false while the model cannot predict the tone (vibrato / portamento)
  tl : List Nat := [0, 0, 0, 0]    -- 0x40 + 4*op
  mul : List Nat := [0, 0, 0, 0]   -- 0x30 + 4*op
  patch : Timbre := Timbre.zero    -- m_insCache[c]
  b4 : Nat := 0                    -- m_regLFOSens[c]
  pan : Nat := 64                  -- last writePan value
  refused : Bool := false          -- the last OPN2::noteOn refused its frequency (returned before the key-on write)
  deriving Repr, Inhabited

/-- a frequency tap of the implementation: (chip channel, tone if exactly representable, hertz·coef) -/
structure Tap where
  chan : Nat
  tone : Rat
  hertz : Pitch.Dy
  refused : Bool := false     -- the implementation refused the frequency (no register written)
  deriving Repr, Inhabited

structure Setup where
  numChips : Nat := 2
  volumeModel : Nat := 0      -- OPNMIDI_VolumeModel_AUTO
  logVolumes : Bool := false
  scaleModulators : Bool := false
  fullRangeBrightness : Bool := false
  autoArpeggio : Bool := false
  chipType : Int := -1
  lfoEnable : Int := -1
  lfoFrequency : Int := -1
  deriving Repr, Inhabited

structure S where
  midi : List MidiCh
  chip : List ChipCh
  regs : List ChRegs
  banks : BankMap.BMap (List Ins)
  bankVolumeModel : Nat := 0     -- m_insBankSetup.volumeModel (VolumesScale id)
  bankChipType : Nat := 0
  setup : Setup := {}
  numChips : Nat := 2            -- synth.m_numChips
  volumeScale : Nat := 0         -- synth.m_volumeScale (0 generic … 4 win9x)
  scaleModulators : Bool := false
  softPan : Bool := false
  chanAlloc : Int := -1
  musicMode : Nat := 0           -- MODE_MIDI
  family : Nat := 0
  master : Nat := 127
  mode : Nat := 2                -- Mode_XG
  devId : Nat := 0
  arpCounter : Nat := 0
  carry : Rat := 0
  pcmRate : Nat := 65536
  taps : List Tap := []
  tapErr : List String := []
  deriving Repr

abbrev M := StateT S (Except Fault)

def fault {α} (f : Fault) : M α := throw f

def numChannels (s : S) : Nat := s.numChips * 6
/-- OPN2::m_numChannels as the loops see it: the number of chip channels that exist (it follows m_numChips only at the next chip reset) -/
def liveChannels (s : S) : Nat := s.chip.length

/-! ## accessors (faulting like the C++ array accesses would) -/

def getMidi (ch : Nat) : M MidiCh := do
  match (← get).midi[ch]? with
  | some m => pure m
  | none => fault (.oob s!"m_midiChannels[{ch}]")

def setMidi (ch : Nat) (m : MidiCh) : M Unit := modify fun s => { s with midi := s.midi.set ch m }

def modMidi (ch : Nat) (f : MidiCh → MidiCh) : M Unit := do
  let m ← getMidi ch
  setMidi ch (f m)

def getChip (c : Nat) : M ChipCh := do
  match (← get).chip[c]? with
  | some x => pure x
  | none => fault (.oob s!"m_chipChannels[{c}]")

def setChip (c : Nat) (x : ChipCh) : M Unit := modify fun s => { s with chip := s.chip.set c x }

def getRegs (c : Nat) : M ChRegs := do
  match (← get).regs[c]? with
  | some x => pure x
  | none => fault (.oob s!"m_insCache[{c}]")

def setRegs (c : Nat) (x : ChRegs) : M Unit := modify fun s => { s with regs := s.regs.set c x }

/-! ## OPN2 (chip manager) -/

/-- OPN2::noteOff -/
def chipNoteOff (c : Nat) : M Unit := do
  let r ← getRegs c
  setRegs c { r with keyOn := false, refused := false }

/-- OPN2::noteOn: `tone` = none when the model cannot compute it exactly -/
def chipNoteOn (c : Nat) (tone : Option Rat) : M Unit := do
  let s ← get
  let r ← getRegs c
  match s.taps with
  | [] =>
    -- no tap: the implementation returned before the search (hertz out of range) — or the tie is broken
    modify fun s => { s with tapErr := s.tapErr ++ [s!"no-tap c={c}"] }
  | t :: rest =>
    set { s with taps := rest }
    if t.chan != c then modify fun s => { s with tapErr := s.tapErr ++ [s!"tap-chan {t.chan}!={c}"] }
    match tone with
    | some x => if x != t.tone then modify fun s => { s with tapErr := s.tapErr ++ [s!"tap-tone c={c} model={x.num}/{x.den} impl={t.tone.num}/{t.tone.den}"] }
    | none => pure ()
    if t.refused then
      setRegs c { r with refused := true }
    else
      match Pitch.search t.hertz with
      | .error f => fault f
      | .ok sr =>
        let dtmul := (List.range 4).map fun op => (r.patch.ops[op * 7]?).getD 0   -- OPS[op].data[0]; ops has 28 entries by construction
        setRegs c { r with keyOn := true, refused := false, ftone := some sr.ftone, freqKnown := tone.isSome,
                           mul := Pitch.mulBytes sr.mulOffset dtmul }

/-- OPN2::touchNote -/
def chipTouch (c : Nat) (vel vol expr bright : Nat) : M Unit := do
  let s ← get
  let r ← getRegs c
  let tls := (List.range 4).map fun op => (r.patch.ops[op * 7 + 1]?).getD 0     -- OPS[op].data[1]
  match Volume.touch { model := Volume.VModel.ofId s.volumeScale, alg := r.patch.fbalg, scaleMod := s.scaleModulators,
                       bright := bright, vel := vel, vol := vol, expr := expr, master := s.master, tl := tls } with
  | .error f => fault f
  | .ok out => setRegs c { r with tl := out }

/-- OPN2::setPatch -/
def chipSetPatch (c : Nat) (t : Timbre) : M Unit := do
  let r ← getRegs c
  let b4 := (r.b4 / 64 % 4) * 64 + t.lfosens % 64
  setRegs c { r with patch := t, b4 := b4,
                     tl := (List.range 4).map fun op => wrap8 ((t.ops[op * 7 + 1]?).getD 0),
                     mul := (List.range 4).map fun op => wrap8 ((t.ops[op * 7]?).getD 0) }

/-- OPN2::setPan -/
def chipSetPan (c : Nat) (value : Nat) : M Unit := do
  let s ← get
  let r ← getRegs c
  if s.softPan then
    setRegs c { r with b4 := 192 + r.patch.lfosens % 64, pan := value }
  else
    let p := (if value < 64 + 16 then 128 else 0) + (if value ≥ 64 - 16 then 64 else 0)
    setRegs c { r with b4 := p + r.patch.lfosens % 64, pan := 64 }

/-- OPN2::silenceAll / the tail of OPN2::reset: every channel keyed off, touchNote(c, 0) -/
def chipReset : M Unit := do
  let s ← get
  let n := numChannels s
  set { s with regs := List.replicate n {} }
  for c in List.range n do
    chipTouch c 0 127 127 127

/-! ## OPNMIDIplay: note/user bookkeeping -/

def updPatch : Nat := 1
def updPan : Nat := 2
def updVolume : Nat := 4
def updPitch : Nat := 8
def updAll : Nat := 14
def updOff : Nat := 32
def updMute : Nat := 64

def has (mask bit : Nat) : Bool := mask / bit % 2 == 1

def User.isLoc (u : User) (m k : Nat) : Bool := u.midCh == m && u.key == k

/-- the freshly created LocationData of find_or_create_user (fields not yet written by the caller) -/
def newUser (m k : Nat) : User :=
  { midCh := m, key := k, sus := 0, timbre := Timbre.zero, fixedSustain := false, kon := 0, vibdelay := 0 }

/-- OpnChannel::find_or_create_user; `false` when the list is full (128) and the user absent -/
def findOrCreateUser (cc : ChipCh) (m k : Nat) : ChipCh × Bool :=
  if cc.users.any (·.isLoc m k) then (cc, true)
  else if cc.users.length != 128 then ({ cc with users := cc.users ++ [newUser m k] }, true)
  else (cc, false)

def modUser (cc : ChipCh) (m k : Nat) (f : User → User) : ChipCh :=
  { cc with users := cc.users.map fun u => if u.isLoc m k then f u else u }

def eraseUser (cc : ChipCh) (m k : Nat) : ChipCh := { cc with users := cc.users.filter fun u => !(u.isLoc m k) }

def findNote (ch : MidiCh) (key : Nat) : Option Note := ch.notes.find? (·.key == key)

def modNote (midCh key : Nat) (f : Note → Note) : M Unit :=
  modMidi midCh fun ch => { ch with notes := ch.notes.map fun n => if n.key == key then f n else n }

/-- MIDIchannel::cleanupNote followed by activenotes.erase -/
def cleanupAndErase (midCh key : Nat) : M Unit := do
  let ch ← getMidi midCh
  match findNote ch key with
  | none => pure ()
  | some n =>
    let g := if n.gliding then ch.glidingCount - 1 else ch.glidingCount      -- unsigned --: see I4 for why it never wraps
    let e := if n.ttl > 0 then ch.extCount - 1 else ch.extCount
    setMidi midCh { ch with notes := ch.notes.filter (fun x => !(x.key == key)), glidingCount := g, extCount := e }

/-- the tone handed to OPN2::noteOn for one voice of a note -/
def voiceTone (ch : MidiCh) (n : Note) (ph : Phys) (u : Option User) : Option Rat :=
  let vib := max (max ch.vibrato ch.aftertouch) n.vibrato
  let vibActive := vib != 0 && (match u with | none => true | some d => decide (d.vibdelay ≥ ch.vibdelayUs))
  match n.curTone with
  | none => none
  | some t =>
    if vibActive && !ch.vibposZero then none
    else some (t + (ph.timbre.noteOffset : Rat) + ((ch.bend * (ch.bendMsb * 128 + ch.bendLsb) : Int) : Rat) / 1048576)

/-- the note-off decision for one voice of a note (noteUpdate, Upd_Off): without the pedal the user is erased unless sostenuto (flag bit 2)
    holds it; with the pedal down the user stays and is marked pedal-held (flag bit 1).  The Boolean says that the chip channel lost its last user. -/
def offVoice (sustain : Bool) (cc : ChipCh) (midCh key : Nat) : ChipCh × Bool :=
  if !sustain then
    let doErase := match cc.users.find? (·.isLoc midCh key) with
      | some u => u.sus / 2 % 2 == 0
      | none => false
    let cc' := if doErase then eraseUser cc midCh key else cc
    (cc', doErase && cc'.users.isEmpty)
  else
    let r := findOrCreateUser cc midCh key
    ((if r.2 then modUser r.1 midCh key fun d => { d with sus := d.sus ||| 1 } else r.1), false)

/-- the guard of the Upd_Pitch branch of noteUpdate: the frequency of a voice is rewritten unless its user is a released
    note that the damper pedal holds (bit 0); a sostenuto mark (bit 1) on a key that is still down does not stop it -/
def pitchApplies (d : Option User) : Bool := match d with | none => true | some u => u.sus % 2 == 0

/-- OPNMIDIplay::noteUpdate -/
def noteUpdate (midCh key : Nat) (props : Nat) (select : Option Nat := none) : M Unit := do
  let ch ← getMidi midCh
  match findNote ch key with
  | none => fault (.abort "noteUpdate on a missing note")
  | some info =>
  if info.isBlank then
    if has props updOff then
      setMidi midCh { ch with notes := ch.notes.filter (fun x => !(x.key == key)) }
    return
  let sel (c : Nat) : Bool := match select with | none => true | some x => x == c
  -- first loop: Upd_Patch
  if has props updPatch then
    for ph in info.phys do
      if sel ph.chan then
        chipSetPatch ph.chan ph.timbre
        let cc ← getChip ph.chan
        let (cc, ok) := findOrCreateUser cc midCh key
        let cc := if ok then modUser cc midCh key fun d =>
            { d with sus := 0, vibdelay := 0, fixedSustain := info.ins.keyOnMs == 40000, kon := 1000 * (info.ins.keyOnMs : Int),
                     timbre := ph.timbre } else cc
        setChip ph.chan cc
  -- second loop
  for ph in info.phys do
    let c := ph.chan
    if sel c then
      if has props updOff then
        let chNow ← getMidi midCh
        let cc0 ← getChip c
        let (cc, silent) := offVoice chNow.sustain cc0 midCh key
        setChip c cc
        if silent then
          chipNoteOff c
          if has props updMute then
            chipTouch c 0 127 127 127
            setChip c { cc with koff := 0 }
          else
            setChip c { cc with koff := 1000 * (info.ins.keyOffMs : Int) }
        modNote midCh key fun n => { n with phys := n.phys.filter fun p => !(p.chan == c) }
      else
        if has props updPan then
          let chNow ← getMidi midCh
          chipSetPan c chNow.panning
        if has props updVolume then
          let chNow ← getMidi midCh
          let s ← get
          let isPerc := midCh == 9 || chNow.isXgPerc
          let b := Volume.effectiveBrightness isPerc s.setup.fullRangeBrightness chNow.brightness
          chipTouch c info.vol chNow.volume chNow.expression b
        if has props updPitch then
          let chNow ← getMidi midCh
          let cc ← getChip c
          let d := cc.users.find? (·.isLoc midCh key)
          if pitchApplies d then
            let nNow := (findNote chNow key).getD info
            chipNoteOn c (voiceTone chNow nNow ph d)
  let chEnd ← getMidi midCh
  match findNote chEnd key with
  | some n => if n.phys.isEmpty then cleanupAndErase midCh key
  | none => pure ()

/-- OPNMIDIplay::noteUpdateAll -/
def noteUpdateAll (midCh : Nat) (props : Nat) : M Unit := do
  let ch ← getMidi midCh
  for n in ch.notes do
    -- the C++ loop saves the next iterator before each call; a call only ever erases its own note
    let chNow ← getMidi midCh
    if (findNote chNow n.key).isSome then noteUpdate midCh n.key props

/-- the bonus part of a user's contribution: same instrument (+ arpeggio candidate), percussion -/
def userBonus (mc : Option MidiCh) (ins : Timbre) (jd : User) : Int :=
  match mc.bind (findNote · jd.key) with
  | some info =>
    (if jd.timbre == ins then (if jd.vibdelay < 70000 || jd.kon > 20000000 then 310 else 300) else 0) +
    (if info.isPerc then 50 else 0)
  | none => 0

/-- what one user contributes to the score of its chip channel (calculateChipChannelGoodness, loop body) -/
def userDelta (mc : Option MidiCh) (ins : Timbre) (jd : User) : Int :=
  userBonus mc ins jd -
    (if jd.sus == 0 then 4000000 + Int.tdiv jd.kon 1000 else 500000 + Int.tdiv (Int.tdiv jd.kon 1000) 2)

/-- calculateChipChannelGoodness as a pure function of the chip channel (no array access can fail here) -/
def goodnessP (midi : List MidiCh) (chanAlloc : Int) (musicMode : Nat) (chan : ChipCh) (ins : Timbre) : Int :=
  let koffMs := Int.tdiv chan.koff 1000
  let base : Int := -koffMs
  let alloc : Int := if chanAlloc == -1 then (if musicMode == 3 then 1 else 0) else chanAlloc
  if base < 0 && chan.users.isEmpty then
    let isSame := chan.recent == ins
    let s0 := base - 40000
    if alloc == 1 then (if isSame then 0 else s0)
    else if alloc == 2 then 0
    else (if isSame then -koffMs else s0)
  else
    chan.users.foldl (fun sc jd => sc + userDelta (midi[jd.midCh]?) ins jd) base

/-- calculateChipChannelGoodness: `m_chipChannels[c]` and `m_midiChannels[jd.loc.MidCh]` must exist -/
def goodness (s : S) (c : Nat) (ins : Timbre) : Except Fault Int :=
  match s.chip[c]? with
  | none => .error (.oob s!"m_chipChannels[{c}]")
  | some chan =>
    match chan.users.find? (fun jd => decide (jd.midCh ≥ s.midi.length)) with
    | some jd => .error (.oob s!"m_midiChannels[{jd.midCh}]")
    | none => .ok (goodnessP s.midi s.chanAlloc s.musicMode chan ins)

/-- the selection loop of realTime_NoteOn over the chip channels still to visit: the running best channel and its score
    (`bs` is an `int32_t` the score is cast to) -/
def selectFrom (s : S) (ins : Timbre) : List Nat → Option Nat → Int → Except Fault (Option Nat)
  | [], best, _ => .ok best
  | a :: rest, best, bs =>
    match goodness s a ins with
    | .error f => .error f
    | .ok sc => if sc > bs then selectFrom s ins rest (some a) (toSigned 32 (ofSigned 32 sc)) else selectFrom s ins rest best bs

/-- the chip channel realTime_NoteOn gives a new note: the first one with the greatest score -/
def selectChannel (s : S) (ins : Timbre) : Except Fault (Option Nat) :=
  selectFrom s ins (List.range (liveChannels s)) none (-2147483647)

/-- killSustainingNotes, per user: does the call concern this user (its MIDI channel, one of the hold flags being released)? -/
def killApplies (midCh : Option Nat) (susType : Nat) (cur : User) : Bool :=
  (match midCh with | none => true | some m => m == cur.midCh) && (cur.sus &&& susType) != 0

/-- the hold flags a user keeps when the holds in `susType` (1 pedal, 2 sostenuto, 3 both) end: `sustained &= ~sustain_type` -/
def susAfter (susType : Nat) (cur : User) : Nat := cur.sus &&& (3 - susType % 4)

/-- markSostenutoNotes on one chip channel: the users of the MIDI channel whose key is down (no hold flag) become sostenuto-held -/
def markSost (midCh : Nat) (cc : ChipCh) : ChipCh :=
  { cc with users := cc.users.map fun u => if u.midCh == midCh && u.sus == 0 then { u with sus := u.sus ||| 2 } else u }

/-- killSustainingNotes (with the held-key handling) -/
def killSustainingNotes (midCh : Option Nat) (thisChan : Option Nat) (susType : Nat) : M Unit := do
  let s ← get
  let chans := match thisChan with | some c => [c] | none => List.range (liveChannels s)
  for c in chans do
    let cc0 ← getChip c
    if !cc0.users.isEmpty then
      for jd in cc0.users do
        let cc ← getChip c
        match cc.users.find? (·.isLoc jd.midCh jd.key) with
        | none => pure ()
        | some cur =>
          if killApplies midCh susType cur then
            let newSus := susAfter susType cur
            if newSus != 0 then
              setChip c (modUser cc cur.midCh cur.key fun d => { d with sus := newSus })
            else
              let mc ← getMidi cur.midCh
              let keyHeld := match findNote mc cur.key with
                | some n => n.phys.any (·.chan == c)
                | none => false
              if !keyHeld then
                setChip c (eraseUser cc cur.midCh cur.key)
              else if thisChan.isSome then
                setChip c (eraseUser cc cur.midCh cur.key)
                modNote cur.midCh cur.key fun n => { n with phys := n.phys.filter fun p => !(p.chan == c) }
                let mc2 ← getMidi cur.midCh
                match findNote mc2 cur.key with
                | some n => if n.phys.isEmpty then cleanupAndErase cur.midCh cur.key
                | none => pure ()
              else
                setChip c (modUser cc cur.midCh cur.key fun d => { d with sus := 0 })
      let ccEnd ← getChip c
      if ccEnd.users.isEmpty then chipNoteOff c

/-- markSostenutoNotes -/
def markSostenutoNotes (midCh : Nat) : M Unit := do
  let s ← get
  for c in List.range (liveChannels s) do
    let cc ← getChip c
    setChip c (markSost midCh cc)

/-- killOrEvacuate -/
def killOrEvacuate (fromChan : Nat) (jd : User) : M Unit := do
  let s ← get
  let mc ← getMidi jd.midCh
  match findNote mc jd.key with
  | none => fault (.abort "killOrEvacuate: missing note")
  | some _ =>
  let mut target : Option Nat := none
  if s.setup.autoArpeggio then
    for c in List.range (liveChannels s) do
      if target.isNone && c < 600 && c != fromChan then
        let adl ← getChip c
        if adl.users.length != 128 && !(adl.users.any (·.isLoc jd.midCh jd.key)) then
          if adl.users.any (fun mv => !(mv.vibdelay ≥ 200000 && mv.kon < 10000000) && mv.timbre == jd.timbre) then
            target := some c
  match target with
  | some cs =>
    modNote jd.midCh jd.key fun n =>
      let ph := n.phys.filter fun p => !(p.chan == fromChan)
      let ph := if ph.any (·.chan == cs) then ph.map (fun p => if p.chan == cs then { p with timbre := jd.timbre } else p)
                else if ph.length < 2 then ph ++ [{ chan := cs, timbre := jd.timbre }] else ph
      { n with phys := ph }
    let tc ← getChip cs
    setChip cs { tc with users := tc.users ++ [jd] }
    let fc ← getChip fromChan
    setChip fromChan (eraseUser fc jd.midCh jd.key)
  | none => noteUpdate jd.midCh jd.key updOff (some fromChan)

/-- prepareChipChannelForNewNote -/
def prepareChipChannelForNewNote (c : Nat) (ins : Timbre) : M Unit := do
  let cc0 ← getChip c
  if cc0.users.isEmpty then return
  for j in cc0.users do
    let cc ← getChip c
    match cc.users.find? (·.isLoc j.midCh j.key) with
    | none => pure ()
    | some jd =>
      if jd.sus == 0 then
        let mc ← getMidi jd.midCh
        if (findNote mc jd.key).isNone then fault (.abort "ensure_find_activenote")
        if (jd.vibdelay < 70000 || jd.kon > 20000000) && jd.timbre == ins then pure ()
        else killOrEvacuate c jd
  killSustainingNotes none (some c) 3
  let ccEnd ← getChip c
  if ccEnd.users.isEmpty then chipNoteOff c

/-- OPNMIDIplay::noteOff -/
def noteOffM (midCh note : Nat) (forceNow : Bool := false) : M Unit := do
  let ch ← getMidi midCh
  match findNote ch note with
  | none => pure ()
  | some ni =>
    if forceNow || ni.ttl ≤ 0 then noteUpdate midCh note updOff
    else modNote midCh note fun n => { n with onExt := true }

/-- OpnChannel::addAge -/
def addAge (cc : ChipCh) (us : Int) : ChipCh :=
  let neg : Int := 1000 * (-536870911)
  if cc.users.isEmpty then
    let k := max (cc.koff - us) neg
    { cc with koff := if k < 0 then 0 else k }
  else
    { cc with koff := 0, users := cc.users.map fun d =>
        { d with kon := if d.fixedSustain then d.kon else max (d.kon - us) neg, vibdelay := d.vibdelay + us } }

/-! ## bank resolution (the part of realTime_NoteOn that C12 is about) -/

def percussionTag : Nat := 32768
def flagNoSound (i : Ins) : Bool := i.flags / 2 % 2 == 1

structure Resolved where
  ins : Ins
  midiins : Nat
  bank : Nat
  isPerc : Bool
  deriving Repr

def bankIns (banks : BankMap.BMap (List Ins)) (key idx : Nat) : Option (Except Fault Ins) :=
  match BankMap.bfind banks key with
  | none => none
  | some b => match b[idx]? with
    | some i => some (.ok i)
    | none => some (.error (.oob s!"Bank::ins[{idx}]"))

/-- `b->second.ins[midiins]` for a bank that is present; `none` when the bank is absent -/
def look (banks : BankMap.BMap (List Ins)) (key idx : Nat) : Option (Except Fault Ins) := bankIns banks key idx

/-- one fallback step: when the current choice is silent, try bank `key`; an absent bank leaves the choice as it is
    (the C++ re-reads the same entry through the `bnk` pointer it still holds) -/
def tryBank (banks : BankMap.BMap (List Ins)) (cur : Ins) (key idx : Nat) : Except Fault Ins :=
  if flagNoSound cur then
    match look banks key idx with
    | some r => r
    | none => .ok cur
  else .ok cur

/-- the bank number and instrument index a note-on addresses -/
def addressOf (mode channel : Nat) (ch : MidiCh) (note : Nat) : Nat × Nat × Bool :=
  let isPerc := channel % 16 == 9 || ch.isXgPerc
  let gs := mode % 2 == 1
  let xg := mode / 2 % 2 == 1
  if isPerc then
    ((if xg then ch.patch + (if ch.bankMsb == 126 then 128 else 0) else ch.patch) + percussionTag, note, true)
  else
    ((if ch.bankMsb != 0 || ch.bankLsb != 0 then (if gs then ch.bankMsb * 256 else ch.bankMsb * 256 + ch.bankLsb) else 0), ch.patch, false)

/-- the three lookups of realTime_NoteOn: exact bank, then the bank with LSB cleared, then bank 0 -/
def resolveIns (banks : BankMap.BMap (List Ins)) (bank idx : Nat) : Except Fault Ins :=
  match (if bank % percussionTag > 0 then tryBank banks Ins.empty bank idx else .ok Ins.empty) with
  | .error f => .error f
  | .ok a1 =>
    match (if bank / 128 * 128 != bank then tryBank banks a1 (bank / 128 * 128) idx else .ok a1) with
    | .error f => .error f
    | .ok a2 => tryBank banks a2 (bank / percussionTag % 2 * percussionTag) idx

/-- instrument selection of realTime_NoteOn -/
def resolve (banks : BankMap.BMap (List Ins)) (mode : Nat) (channel : Nat) (ch : MidiCh) (note : Nat) : Except Fault Resolved :=
  match resolveIns banks (addressOf mode channel ch note).1 (addressOf mode channel ch note).2.1 with
  | .error f => .error f
  | .ok a3 =>
    -- "For non-zero banks": a blank result is reported against bank 0 / the channel's patch
    if !(addressOf mode channel ch note).2.2 && (addressOf mode channel ch note).1 > 0 && flagNoSound a3 then
      .ok { ins := a3, midiins := ch.patch, bank := 0, isPerc := (addressOf mode channel ch note).2.2 }
    else
      .ok { ins := a3, midiins := (addressOf mode channel ch note).2.1, bank := (addressOf mode channel ch note).1,
            isPerc := (addressOf mode channel ch note).2.2 }

/-! ## real-time events -/

def normChan (channel : Nat) : M Nat := do
  let s ← get
  pure (if channel ≥ s.midi.length then channel % 16 else channel)

def drumNoteMinTime : Rat := (8646911284551352 : Rat) / 288230376151711744    -- the double nearest to 0.03 (Props/C05 checks it against Gen)

/-- realTime_NoteOn -/
def realTimeNoteOn (channel0 note0 velocity0 : Nat) : M Bool := do
  let note := if note0 ≥ 127 then 127 else note0
  let channel ← normChan channel0
  -- (MODE_RSXX after-touch shortcut: only after loading an RSXX file; not part of the real-time model)
  noteOffM channel note (velocity0 != 0)
  if velocity0 == 0 then return false
  let s ← get
  let ch ← getMidi channel
  let r ← match resolve s.banks s.mode channel ch note with
    | .ok r => pure r
    | .error f => fault f
  let ains := r.ins
  let velocity := (min 127 (max 1 ((velocity0 : Int) + ains.velOffset))).toNat
  let tone : Int := if ains.drumTone != 0 then (if ains.drumTone ≥ 128 then (ains.drumTone : Int) - 128 else ains.drumTone) else note
  if flagNoSound ains then
    -- dummy note for the blank instrument
    let chNow ← getMidi channel
    let dummy : Note := { key := note, vol := 0, vibrato := 0, noteTone := 0, curTone := some 0, gliding := false, midiins := 0,
                          isPerc := r.isPerc, isBlank := true, onExt := false, ttl := 0, ins := Ins.empty, phys := [] }
    let notes := if (findNote chNow note).isSome then chNow.notes.map (fun n => if n.key == note then dummy else n) else chNow.notes ++ [dummy]
    setMidi channel { chNow with notes := notes, portamentoSource := (if note ≥ 128 then (note : Int) - 256 else note) }
    return false
  -- choose the chip channel
  let sNow ← get
  let best ← match selectChannel sNow ains.op with
    | .ok b => pure b
    | .error f => fault f
  match best with
  | none => return false
  | some c =>
  prepareChipChannelForNewNote c ains.op
  -- a chip channel lists at most 128 users: a note that cannot be listed is unplaceable (it must not refer to the channel)
  let ccNow ← getChip c
  if ccNow.users.length == 128 && !(ccNow.users.any (·.isLoc channel note)) then return false
  let chNow ← getMidi channel
  let vel := if chNow.softPedal then velocity * 4 / 5 else velocity
  let portaEnable := chNow.portamentoEnable && chNow.portamentoRateSet && !r.isPerc
  let glide := portaEnable && chNow.portamentoSource ≥ 0
  let ni : Note :=
    { key := note, vol := vel, vibrato := (chNow.noteAftertouch[note]?).getD 0, noteTone := tone,
      curTone := if glide then some (chNow.portamentoSource : Rat) else some (tone : Rat), gliding := glide,
      midiins := r.midiins, isPerc := r.isPerc, isBlank := false, onExt := false,
      ttl := if r.isPerc then drumNoteMinTime else 0, ins := ains, phys := [{ chan := c, timbre := ains.op }] }
  -- find_or_create_activenote: an existing record is cleaned up (counters) and overwritten in place
  let chNow ← do
    match findNote chNow note with
    | some old =>
      let g := if old.gliding then chNow.glidingCount - 1 else chNow.glidingCount
      let e := if old.ttl > 0 then chNow.extCount - 1 else chNow.extCount
      pure { chNow with notes := chNow.notes.map (fun n => if n.key == note then ni else n), glidingCount := g, extCount := e }
    | none => pure { chNow with notes := chNow.notes ++ [ni] }
  setMidi channel { chNow with portamentoSource := (note : Int),
                               glidingCount := chNow.glidingCount + (if glide then 1 else 0),
                               extCount := chNow.extCount + (if r.isPerc then 1 else 0) }
  noteUpdate channel note (updAll + updPatch)
  let cc ← getChip c
  setChip c (addAge { cc with recent := ains.op } 0)
  return true

/-- updatePortamento: only "is a rate set" matters for the bookkeeping -/
def updatePortamento (ch : MidiCh) : MidiCh := { ch with portamentoRateSet := ch.portamentoEnable && ch.portamento > 0 }

def isXgPercChannel (msb : Nat) : Bool := msb == 126 || msb == 127

/-- setRPN -/
def setRPN (ch : MidiCh) (mode : Nat) (value : Nat) (msb : Bool) : MidiCh :=
  let addr := ch.lastmrpn * 256 + ch.lastlrpn
  let xg := mode / 2 % 2 == 1
  if !ch.nrpn && addr == 0 then
    if msb then { ch with bendMsb := value } else { ch with bendLsb := value }
  else if ch.nrpn && msb && addr == 0x010A && xg then
    -- vibrato delay: value ? int64(209.2 * exp(0.0795 * value)) : 0  — a float kernel; only 0 is exact
    { ch with vibdelayUs := if value == 0 then 0 else -1 }
  else ch

/-- resetAllControllers121 -/
def resetControllers121 (ch : MidiCh) : MidiCh :=
  { ch with bend := 0, bendMsb := ch.defBendMsb, bendLsb := ch.defBendLsb, expression := 127, sustain := false, softPedal := false,
            vibrato := 0, aftertouch := 0, noteAftertouch := List.replicate 128 0, noteAfterTouchInUse := false, vibdelayUs := 0,
            portamento := 0, portamentoEnable := false, portamentoSource := -1, portamentoRateSet := false }

def resetAllControllers (ch : MidiCh) : MidiCh :=
  resetControllers121 { ch with volume := ch.defVolume, brightness := 127, panning := 64 }

/-- realTime_Controller -/
def realTimeController (channel0 type value : Nat) : M Unit := do
  let channel ← normChan channel0
  let s ← get
  match type with
  | 1 => modMidi channel fun ch => { ch with vibrato := value }
  | 0 => modMidi channel fun ch =>
      let ch := { ch with bankMsb := value }
      if s.mode % 2 == 0 then { ch with isXgPerc := isXgPercChannel ch.bankMsb } else ch
  | 32 => modMidi channel fun ch =>
      let ch := { ch with bankLsb := value }
      if s.mode % 2 == 0 then { ch with isXgPerc := isXgPercChannel ch.bankMsb } else ch
  | 5 => modMidi channel fun ch => updatePortamento { ch with portamento := (ch.portamento % 128 + value * 128) % 65536 }
  | 37 => modMidi channel fun ch => updatePortamento { ch with portamento := (ch.portamento / 128 % 128 * 128 + value) % 65536 }
  | 65 => modMidi channel fun ch => updatePortamento { ch with portamentoEnable := value ≥ 64 }
  | 7 => do modMidi channel (fun ch => { ch with volume := value }); noteUpdateAll channel updVolume
  | 74 => do modMidi channel (fun ch => { ch with brightness := value }); noteUpdateAll channel updVolume
  | 64 => do
      modMidi channel fun ch => { ch with sustain := value ≥ 64 }
      if value < 64 then killSustainingNotes (some channel) none 1
  | 66 => if value ≥ 64 then markSostenutoNotes channel else killSustainingNotes (some channel) none 2
  | 67 => modMidi channel fun ch => { ch with softPedal := value ≥ 64 }
  | 11 => do modMidi channel (fun ch => { ch with expression := value }); noteUpdateAll channel updVolume
  | 10 => do modMidi channel (fun ch => { ch with panning := value }); noteUpdateAll channel updPan
  | 121 => do
      modMidi channel resetControllers121
      noteUpdateAll channel (updPan + updVolume + updPitch)
      killSustainingNotes (some channel) none 3
  | 120 => noteUpdateAll channel (updOff + updMute)
  | 123 => noteUpdateAll channel updOff
  | 98 => modMidi channel fun ch => { ch with lastlrpn := value, nrpn := true }
  | 99 => modMidi channel fun ch => { ch with lastmrpn := value, nrpn := true }
  | 100 => modMidi channel fun ch => { ch with lastlrpn := value, nrpn := false }
  | 101 => modMidi channel fun ch => { ch with lastmrpn := value, nrpn := false }
  | 6 => modMidi channel fun ch => setRPN ch s.mode value true
  | 38 => modMidi channel fun ch => setRPN ch s.mode value false
  | _ => pure ()

def realTimePatchChange (channel0 patch : Nat) : M Unit := do
  let channel ← normChan channel0
  modMidi channel fun ch => { ch with patch := patch % 128 }

def realTimePitchBend (channel0 : Nat) (pitch : Nat) : M Unit := do
  let channel ← normChan channel0
  modMidi channel fun ch => { ch with bend := (pitch : Int) - 8192 }
  noteUpdateAll channel updPitch

def realTimeBankChange (channel0 : Nat) (lsb msb : Option Nat) : M Unit := do
  let channel ← normChan channel0
  modMidi channel fun ch => { ch with bankLsb := lsb.getD ch.bankLsb, bankMsb := msb.getD ch.bankMsb }

def realTimeNoteAfterTouch (channel0 note atVal : Nat) : M Unit := do
  let channel ← normChan channel0
  modNote channel note fun n => { n with vibrato := atVal }
  modMidi channel fun ch =>
    let na := ch.noteAftertouch.set (note % 128) atVal
    { ch with noteAftertouch := na, noteAfterTouchInUse := na.any (· != 0) }

def realTimeChannelAfterTouch (channel0 atVal : Nat) : M Unit := do
  let channel ← normChan channel0
  modMidi channel fun ch => { ch with aftertouch := atVal }

/-- OPNMIDIplay::panic + killSustainingNotes -/
def realTimePanic : M Unit := do
  let s ← get
  -- `for(uint8_t chan = 0; chan < m_midiChannels.size(); chan++)`: with 256 or more channels the counter wraps forever
  if s.midi.length > 255 then fault (.hang "panic(): uint8_t channel counter never reaches m_midiChannels.size()")
  for chan in List.range s.midi.length do
    for note in List.range 128 do
      noteOffM chan note
  killSustainingNotes none none 3

/-- realTime_ResetState -/
def realTimeResetState : M Unit := do
  let s ← get
  for ch in List.range s.midi.length do
    modMidi ch fun c =>
      let c := resetAllControllers c
      let c := { c with vibposZero := true, lastlrpn := 0, lastmrpn := 0, nrpn := false }
      if s.mode % 2 == 1 then { c with isXgPerc := false } else c
    noteUpdateAll ch updAll
    noteUpdateAll ch updOff
  killSustainingNotes none none 3
  modify fun s => { s with master := 127 }

/-! ## SysEx -/

def b7 (x : Nat) : Nat := x % 128

/-- what a recognised message does -/
inductive SysExEffect
  | gmOn | gmOff | masterVolume (v : Nat) | gsReset | xgOn | drumPart (ch : Nat) (on : Bool)
  deriving Repr, DecidableEq

/-- pure recogniser: realTime_SysEx + doUniversalSysEx / doRolandSysEx / doYamahaSysEx as a function of the bytes,
    the device id and the number of MIDI channels -/
def sysexParse (msg : List Nat) (devId : Nat) (nMidi : Nat) : Option SysExEffect :=
  let size := msg.length
  if size < 4 then none else
  match msg with
  | 0xF0 :: manufacturer :: dev :: rest =>
    if msg.getLast? != some 0xF7 then none else
    let data := rest.take (size - 4)
    match manufacturer with
    | 0x7E | 0x7F =>
      let realtime := manufacturer == 0x7F
      if !(dev == 0x7F || dev == devId) then none else
      match data with
      | a :: b :: payload =>
        let address := b7 a * 256 + b7 b
        if !realtime && address == 0x0901 then (if payload.isEmpty then some .gmOn else none)
        else if !realtime && address == 0x0902 then (if payload.isEmpty then some .gmOff else none)
        else if realtime && address == 0x0401 then
          match payload with
          | [lo, hi] => some (.masterVolume ((b7 lo + b7 hi * 128) / 128 % 256))
          | _ => none
        else none
      | _ => none
    | 0x41 =>
      if !(dev == 0x7F || dev % 16 == devId) then none else
      if data.length < 6 then none else
      match data with
      | model :: mode :: body0 =>
        let checksum := b7 (data.getLast?.getD 0)
        let body := body0.take (body0.length - 1)
        let cv := (128 - (body.map b7).sum % 128) % 128
        if cv != checksum then none else
        match body with
        | a0 :: a1 :: a2 :: payload =>
          let address := b7 a0 * 65536 + b7 a1 * 256 + b7 a2
          let isDrum := b7 a0 == 0x40 && b7 a1 / 16 == 1 && b7 a2 == 0x15
          let target := a1 % 16
          if b7 mode != 0x12 then none else
          if b7 model != 0x42 then none else
          if isDrum then
            match payload with
            | [v] => if dev / 16 % 16 != 1 then none else if nMidi < 16 then none else
                     some (.drumPart ((Gen.gsChannelsMap[target]?).getD 0) (b7 v == 1 || b7 v == 2))
            | _ => none
          else if address == 0x00007F || address == 0x40007F then
            match payload with
            | [_] => if dev / 16 % 16 != 1 then none else some .gsReset
            | _ => none
          else none
        | _ => none
      | _ => none
    | 0x43 =>
      if !(dev == 0x7F || dev % 16 == devId) then none else
      match data with
      | model :: a0 :: a1 :: a2 :: payload =>
        if !(b7 model == 0x4C && dev / 16 % 16 == 1) then none else
        if b7 a0 * 65536 + b7 a1 * 256 + b7 a2 == 0x00007E then
          match payload with
          | [_] => some .xgOn
          | _ => none
        else none
      | _ => none
    | _ => none
  | _ => none

/-- the documented effect of a recognised message -/
def applySysEx (eff : SysExEffect) : M Unit := do
  let s ← get
  match eff with
  | .gmOn => do modify (fun s => { s with mode := 0 }); realTimeResetState
  | .gmOff => do modify (fun s => { s with mode := 2 }); realTimeResetState
  | .gsReset => do modify (fun s => { s with mode := 1 }); realTimeResetState
  | .xgOn => do modify (fun s => { s with mode := 2 }); realTimeResetState
  | .masterVolume v => do
      modify fun s => { s with master := v }
      for ch in List.range s.midi.length do noteUpdateAll ch updVolume
  | .drumPart ch on => modMidi ch fun c => { c with isXgPerc := on }

/-- realTime_SysEx -/
def realTimeSysEx (msg : List Nat) : M Bool := do
  let s ← get
  match sysexParse msg s.devId s.midi.length with
  | none => pure false
  | some eff => do
    applySysEx eff
    pure true

/-! ## time -/

/-- updateArpeggio -/
def updateArpeggio : M Unit := do
  let s ← get
  if !s.setup.autoArpeggio then
    modify fun s => { s with arpCounter := 0 }
    return
  modify fun s => { s with arpCounter := s.arpCounter + 1 }
  let counter := s.arpCounter + 1
  for c in List.range (liveChannels s) do
    let mut fuel := 200
    let mut again := true
    while again do
      again := false
      if fuel == 0 then fault (.hang "updateArpeggio retry")
      fuel := fuel - 1
      let cc ← getChip c
      let n := cc.users.length
      if n > 1 then
        let rr := if n ≥ 4 then 1 else if n ≥ 3 then 2 else 3
        match cc.users[(counter / rr) % n]? with
        | none => pure ()
        | some d =>
          if d.sus == 0 then
            let mc ← getMidi d.midCh
            if (findNote mc d.key).isNone then fault (.abort "ensure_find_activenote (arpeggio)")
            if d.kon ≤ 0 then
              noteUpdate d.midCh d.key updOff (some c)
              again := true
            else
              noteUpdate d.midCh d.key (updPitch + updVolume + updPan) (some c)

/-- TickIterators(s) with s an exact rational number of seconds -/
def tickIterators (sec : Rat) : M Unit := do
  let s ← get
  let us : Int := (sec * 1000000).floor       -- static_cast<int64_t>(s * 1e6), s ≥ 0
  for c in List.range (liveChannels s) do
    let cc ← getChip c
    setChip c (addAge cc us)
  for c in List.range s.midi.length do
    let ch ← getMidi c
    if ch.extCount != 0 then
      for n in ch.notes do
        let chNow ← getMidi c
        match findNote chNow n.key with
        | none => pure ()
        | some ni =>
          if ni.ttl > 0 then
            let t := ni.ttl - sec
            modNote c n.key fun x => { x with ttl := t }
            if t ≤ 0 then
              modMidi c fun m => { m with extCount := m.extCount - 1 }
              if ni.onExt then
                noteUpdate c n.key updOff
                modNote c n.key fun x => { x with onExt := false }
  -- updateVibrato
  for a in List.range s.midi.length do
    let ch ← getMidi a
    let hasVib := ch.vibrato > 0 || ch.aftertouch > 0 || ch.noteAfterTouchInUse
    if hasVib && !ch.notes.isEmpty then
      noteUpdateAll a updPitch
      modMidi a fun m => { m with vibposZero := m.vibposZero && sec == 0 }
    else
      modMidi a fun m => { m with vibposZero := true }
  updateArpeggio
  -- updateGlide: pitch of gliding notes becomes a float matter; bookkeeping is untouched
  for a in List.range s.midi.length do
    let ch ← getMidi a
    if ch.glidingCount != 0 && sec > 0 then
      setMidi a { ch with notes := ch.notes.map fun n => if n.gliding then { n with curTone := none } else n }

/-- the period splitting of opn2_generateFormat at a PCM rate where all arithmetic is exact: calls TickIterators per period -/
def generate (sampleCount : Int) : M Int := do
  let sc := sampleCount - Int.tmod sampleCount 2
  if sc < 0 then return 0
  let s ← get
  let rate : Rat := s.pcmRate
  let maxdelay : Rat := 512 / rate
  let mut left : Int := sc
  let mut delay : Rat := ((Int.tdiv sc 2 : Int) : Rat) / rate
  let mut got : Int := 0
  let mut fuel := 100000
  while left > 0 do
    if fuel == 0 then fault (.hang "opn2_generateFormat")
    fuel := fuel - 1
    if delay ≤ 0 then delay := ((Int.tdiv left 2 : Int) : Rat) / rate
    let eat := if delay < maxdelay then delay else maxdelay
    delay := delay - eat
    let sNow ← get
    let carry := sNow.carry + rate * eat
    let n0 : Int := carry.floor
    modify fun st => { st with carry := carry - n0 }
    let n1 := if n0 > Int.tdiv left 2 then Int.tdiv left 2 else n0
    let gen := if n1 > 512 then 512 else n1
    left := left - gen * 2
    got := got + gen * 2
    tickIterators eat
  return got

/-! ## setup -/

def freshMidi : List MidiCh := List.replicate 16 {}

/-- resetMIDI (with resetMIDIDefaults for MODE_MIDI and no MT-32 defaults) -/
def resetMIDI : M Unit :=
  modify fun s => { s with master := 127, mode := 2, arpCounter := 0, midi := freshMidi }

/-- the part of applySetup / partialReset that rebuilds chips and chip channels -/
def rebuildChips : M Unit := do
  modify fun s => { s with chip := List.replicate (numChannels s) ChipCh.fresh,
                           midi := s.midi.map fun m => { m with notes := [], glidingCount := 0, extCount := 0 } }
  chipReset

def volumeScaleOfModel (m : Nat) (cur : Nat) : Nat :=
  match m with
  | 1 => 0 | 2 => 1 | 3 => 2 | 4 => 3 | 5 => 4 | _ => cur

/-- applySetup -/
def applySetup : M Unit := do
  modify fun s =>
    let vs := if s.setup.logVolumes then 1 else volumeScaleOfModel s.setup.volumeModel s.volumeScale
    let vs := if s.setup.volumeModel == 0 then s.bankVolumeModel else vs
    let ct : Int := if s.setup.chipType < 0 then s.bankChipType else s.setup.chipType
    { s with musicMode := 0, scaleModulators := s.setup.scaleModulators, volumeScale := vs, numChips := s.setup.numChips,
             family := if ct == 1 then 1 else 0, arpCounter := 0 }
  rebuildChips

/-- partialReset -/
def partialReset : M Unit := do
  realTimePanic
  rebuildChips

def init : S :=
  { midi := freshMidi, chip := List.replicate 12 ChipCh.fresh, regs := List.replicate 12 {}, banks := BankMap.bempty }

end Opn.Synth
