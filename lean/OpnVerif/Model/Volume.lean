/-
  Model of OPN2::touchNote (src/opnmidi_opn2.cpp, "touchNote") — volume models, carrier/modulator
  scaling, CC74 brightness re-mapping.  Tables and constants come from the regenerated
  `Gen/Tables.lean`.  Float kernels are eliminated as described in DESIGN §3.2(2):
    * floor(c1*ln v - c2)  = number of thresholds T_k <= v   (T_k regenerated from c1, c2)
    * round(127*sqrt(b/127)) = (isqrt(508 b) + 1) / 2
-/
import OpnVerif.Model.Basic
import OpnVerif.Gen.Tables

namespace Opn.Volume
open Opn

/-- volume model ids as in OPN2::VolumesScale (opnmidi_opn2.hpp) -/
inductive VModel | generic | native | dmx | apogee | w9x
  deriving Repr, DecidableEq, Inhabited

def VModel.ofId : Nat → VModel
  | 1 => .native | 2 => .dmx | 3 => .apogee | 4 => .w9x | _ => .generic

/-- Generic model: `static_cast<uint_fast32_t>(log(volume) * c1 - c2) * 2` -/
def genericLevel (v : Nat) : Nat :=
  if v > Gen.genericMinVolume then 2 * (Gen.genericThresholds.filter (· ≤ v)).length else 0

/-- `if(volume > 0) volume += 64;` -/
def plus64 (v : Nat) : Nat := if v > 0 then v + 64 else v

/-- the `volume` local before the final clamp to 127 -/
def rawVolume (m : VModel) (vel vol expr master : Nat) : Except Fault Nat :=
  match m with
  | .generic => .ok (genericLevel (vel * master * vol * expr))
  | .native => .ok (plus64 ((vel * vol * expr * master) / Gen.nativeDiv))
  | .dmx => do
      let idx := min ((vol * expr * master) / Gen.dmxDiv) Gen.dmxClamp
      let t ← tbl "s_dmx_volume_model[volume]" Gen.dmxVolumeModel idx
      let tv ← tbl "s_dmx_volume_model[velocity]" Gen.dmxVolumeModel (if vel < 128 then vel else 127)
      .ok (plus64 ((tv * ((t + 1) * 2)) / 512))
  | .apogee =>
      .ok (plus64 (((64 * (vel + 128)) * ((vol * expr * master) / Gen.apogeeDiv)) / 32768))
  | .w9x => do
      let idx := min (((vel * vol * expr * master) / Gen.w9xDiv) / 4) Gen.w9xClamp
      let t ← tbl "W9X_volume_mapping_table" Gen.w9xVolumeMapping idx
      -- `63 - table` is unsigned: a table entry > 63 would wrap; modelled as a fault
      if t > 63 then .error (.ub "63 - W9X_volume_mapping_table") else
      .ok (plus64 (63 - t))

def clamp127 (v : Nat) : Nat := if v > 127 then 127 else v

/-- `volume` after `if(volume > 127) volume = 127;` -/
def volumeOf (m : VModel) (vel vol expr master : Nat) : Except Fault Nat :=
  (rawVolume m vel vol expr master).map clamp127

/-- integer square root for arguments below 361^2 (all the model needs: 508*255 = 129540) -/
def isqrt (n : Nat) : Nat := (List.range 361).foldl (fun acc r => if r * r ≤ n then r else acc) 0

/-- round(127*sqrt(b/127)) stored into a uint8_t -/
def brightMap (b : Nat) : Nat := ((isqrt (508 * b) + 1) / 2) % 256

/-- carrier scaling `127 - volume*(127 - (x&127))/127` (uint32; no wrap since volume ≤ 127) -/
def scaleTL (volume x : Nat) : Nat := 127 - (volume * (127 - (x % 128))) / 127

/-- modulator brightness scaling with uint32 wrap-around as written -/
def brightTL (bright volRes : Nat) : Nat :=
  wrap32 (4294967296 + 127 - wrap32 (bright * (127 - (volRes % 128))) / 127)

/-- the in-loop re-mapping `if(brightness != 127) brightness = round(...)` -/
def stepB (b : Nat) : Nat := if b != 127 then brightMap b else b

/-- brightness variable at the top of loop iteration `k` (it is re-mapped inside the loop) -/
def brightSeq (b : Nat) : Nat → Nat
  | 0 => b
  | k + 1 => stepB (brightSeq b k)

/-- the byte written for one operator: `d` = do_op, `b` = brightness at the top of the iteration -/
def tlByte (volume : Nat) (d : Bool) (b x : Nat) : Nat :=
  let volRes := if d then scaleTL volume x else x
  if b != 127 then
    wrap8 (if !d then brightTL (brightMap b) volRes else volRes)
  else wrap8 volRes

/-- the loop `for(op = 0; op < 4; op++)` over (do_op, level byte) pairs -/
def opLoop (volume : Nat) : Nat → List (Bool × Nat) → List Nat
  | _, [] => []
  | b, (d, x) :: xs =>
      tlByte volume d b x :: opLoop volume (stepB b) xs

structure TouchIn where
  model : VModel
  alg : Nat            -- fbalg byte (only `& 7` is used)
  scaleMod : Bool
  bright : Nat         -- the uint8_t brightness argument
  vel : Nat
  vol : Nat
  expr : Nat
  master : Nat
  tl : List Nat        -- the four instrument level bytes (OPS[op].data[1])
  deriving Repr, Inhabited

/-- `alg_do[alg][op] || m_scaleModulators` for op = 0..3 -/
def doOps (alg : Nat) (scaleMod : Bool) : Except Fault (List Bool) := do
  let row ← tbl "alg_do" Gen.algDo (alg % 8)
  .ok (row.map (· || scaleMod))

def touch (i : TouchIn) : Except Fault (List Nat) := do
  let v ← volumeOf i.model i.vel i.vol i.expr i.master
  let ds ← doOps i.alg i.scaleMod
  .ok (opLoop v i.bright (ds.zip i.tl))

/-- brightness as computed by noteUpdate before the call (opnmidi_midiplay.cpp, Upd_Volume) -/
def effectiveBrightness (isPerc fullRange : Bool) (cc74 : Nat) : Nat :=
  let b := if isPerc then 127 else cc74
  let b := if !fullRange then (if b ≥ 64 then 127 else b * 2) else b
  b % 256

/-- velocity stored in the note by realTime_NoteOn: instrument velocity offset, clamp to 1..127,
    soft pedal (`floor(float(v) * 0.8f)` = v*4/5 for v ≤ 127) -/
def noteVelocity (vel : Nat) (off : Int) (soft : Bool) : Nat :=
  let v := (min 127 (max 1 ((vel : Int) + off))).toNat
  if soft then v * 4 / 5 else v

/-- what a note-on writes to the level registers, from the public-API quantities -/
def apiTouch (model : VModel) (alg : Nat) (scaleMod fullRange : Bool) (cc74 : Nat) (perc soft : Bool)
    (velOff : Int) (vel vol expr master : Nat) (tl : List Nat) : Except Fault (List Nat) :=
  touch { model := model, alg := alg, scaleMod := scaleMod, bright := effectiveBrightness perc fullRange cc74,
          vel := noteVelocity vel velOff soft, vol := vol, expr := expr, master := master, tl := tl }

end Opn.Volume
