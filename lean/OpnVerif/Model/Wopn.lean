/-
  Byte-exact model of src/wopn/wopn_file.c: WOPN bank and OPNI instrument load/save, size calculators.
  Bytes are `Nat`s (< 256 for everything that comes from or goes to a buffer).
  Reads go through `rd` (a read past the end of the given block is `Fault.oob`), writes through `put`
  (a write past the destination length is `Fault.oob`): "stays inside the block" is then a theorem.
  Sizes 11/34/65/69 are literals here; `Props/C15.lean` proves they equal the regenerated constants.
-/
import OpnVerif.Model.Basic
import OpnVerif.Gen.Wopn

namespace Opn.Wopn
open Opn

abbrev Bytes := List Nat

/-! ## values -/

structure Inst where
  name : Bytes          -- char inst_name[32]
  noteOffset : Int      -- int16_t
  velOffset : Int       -- int8_t midi_velocity_offset (not carried by format versions ≤ 2)
  percKey : Nat
  flags : Nat
  fbalg : Nat
  lfosens : Nat
  ops : Bytes           -- 4 × 7 operator bytes, file order
  delayOn : Nat
  delayOff : Nat
  deriving DecidableEq, Repr, Inhabited

structure Bank where
  name : Bytes          -- char bank_name[33]
  lsb : Nat
  msb : Nat
  ins : List Inst       -- 128
  deriving DecidableEq, Repr, Inhabited

structure WFile where
  version : Nat
  lfoFreq : Nat
  chipType : Nat
  volumeModel : Nat
  melodic : List Bank    -- banks_count_melodic = length
  percussive : List Bank
  deriving DecidableEq, Repr, Inhabited

structure IFile where
  version : Nat
  isDrum : Nat
  inst : Inst
  deriving DecidableEq, Repr, Inhabited

def zeros (n : Nat) : Bytes := List.replicate n 0

def Inst.zero : Inst :=
  { name := zeros 32, noteOffset := 0, velOffset := 0, percKey := 0, flags := 0, fbalg := 0, lfosens := 0,
    ops := zeros 28, delayOn := 0, delayOff := 0 }

def Bank.zero : Bank := { name := zeros 33, lsb := 0, msb := 0, ins := List.replicate 128 Inst.zero }

/-- the bank WOPN_Init creates when a count of 0 is requested: 128 blank instruments -/
def Bank.blank : Bank :=
  { Bank.zero with ins := List.replicate 128 { Inst.zero with flags := 2 } }

/-- WOPN_Init: `calloc`ed banks; a zero count yields one bank of blank instruments -/
def initBanks (n : Nat) : List Bank := if n = 0 then [Bank.blank] else List.replicate n Bank.zero

/-! ## primitives -/

/-- `strncpy(dst, src, n)`: copy up to the first NUL, pad with NULs -/
def strncpy : Nat → Bytes → Bytes
  | 0, _ => []
  | n + 1, [] => zeros (n + 1)
  | n + 1, c :: cs => if c = 0 then zeros (n + 1) else c :: strncpy n cs

def s16be (hi lo : Nat) : Int :=
  if hi ≥ 128 then ((hi : Int) - 256) * 256 + (lo : Int) else (hi : Int) * 256 + (lo : Int)

def putS16be (n : Int) : Bytes := let u := (n % 65536).toNat; [u / 256, u % 256]
def putU16be (n : Nat) : Bytes := [(n / 256) % 256, n % 256]
def putU16le (n : Nat) : Bytes := [n % 256, (n / 256) % 256]

/-- checked read of `n` bytes at the cursor -/
def rd (site : String) (n : Nat) (cur : Bytes) : Except Fault (Bytes × Bytes) :=
  if n ≤ cur.length then .ok (cur.take n, cur.drop n) else .error (.oob site)

/-! ## instrument record -/

/-- WOPN_parseInstrument on a record of `if version ≥ 2 ∧ delays then 69 else 65` bytes -/
def parseInst (version : Nat) (delays : Bool) (r : Bytes) : Except Fault Inst :=
  match r.drop 32 with
  | hi :: lo :: key :: fbalg :: lfo :: rest =>
    if rest.length < 28 then .error (.oob "parseInstrument operators") else
    let base : Inst :=
      { name := (strncpy 32 (r.take 32)).set 31 0, noteOffset := s16be hi lo, velOffset := 0, percKey := key,
        flags := 0, fbalg := fbalg, lfosens := lfo, ops := rest.take 28, delayOn := 0, delayOff := 0 }
    if version ≥ 2 && delays then
      match rest.drop 28 with
      | a :: b :: c :: d :: _ =>
        let on := 256 * a + b
        let off := 256 * c + d
        .ok { base with delayOn := on, delayOff := off,
                        flags := if version < 3 && on == 0 && off == 0 then 2 else 0 }
      | _ => .error (.oob "parseInstrument delays")
    else .ok base
  | _ => .error (.oob "parseInstrument header")

/-- WOPN_writeInstrument: the 65 or 69 bytes it stores -/
def writeInst (version : Nat) (delays : Bool) (i : Inst) : Bytes :=
  strncpy 32 i.name ++ putS16be i.noteOffset ++ [i.percKey, i.fbalg, i.lfosens] ++ i.ops ++
    (if version ≥ 2 && delays then
       (if version < 3 && i.flags % 4 / 2 == 1 then [0, 0, 0, 0] else putU16be i.delayOn ++ putU16be i.delayOff)
     else [])

def instSize (version : Nat) : Nat := if version > 1 then 69 else 65

/-! ## bank loader -/

inductive LoadRes (α : Type)
  | ok (v : α)
  | err (code : Nat)
  deriving Repr

/-- read `k` instrument records of `sz` bytes each -/
def readInsts (version sz : Nat) : Nat → Bytes → Except Fault (List Inst × Bytes)
  | 0, cur => .ok ([], cur)
  | k + 1, cur => do
    let (r, cur) ← rd "instrument record" sz cur
    let i ← parseInst version true r
    let (is, cur) ← readInsts version sz k cur
    .ok (i :: is, cur)

/-- split a flat instrument list into banks of 128, overwriting `ins` of the given (meta-filled) banks -/
def fillBanks : List Bank → List Inst → List Bank
  | [], _ => []
  | b :: bs, is => { b with ins := is.take 128 } :: fillBanks bs (is.drop 128)

/-- read the bank meta-data entries (34 bytes each) for `k` banks; `none` = UNEXPECTED_ENDING -/
def readMetas : Nat → Bytes → Except Fault (Option (List (Bytes × Nat × Nat) × Bytes))
  | 0, cur => .ok (some ([], cur))
  | k + 1, cur =>
    if cur.length < 34 then .ok none else do
    let (r, cur) ← rd "bank meta" 34 cur
    match r.drop 32 with
    | lsb :: msb :: _ =>
      match ← readMetas k cur with
      | none => .ok none
      | some (ms, cur) => .ok (some (((strncpy 32 (r.take 32)) ++ [0], lsb, msb) :: ms, cur))
    | _ => .error (.oob "bank meta lsb/msb")

def applyMetas : List Bank → List (Bytes × Nat × Nat) → List Bank
  | b :: bs, (n, l, m) :: ms => { b with name := n, lsb := l, msb := m } :: applyMetas bs ms
  | bs, _ => bs

/-- magic number and version code; returns the version and the cursor behind them -/
def readVersion (magic1 magic2 : Bytes) (b : Bytes) : Except Fault (LoadRes (Nat × Bytes)) :=
  if b.length < 11 then .ok (.err Gen.wopnErrUnexpectedEnding) else
  match rd "magic" 11 b with
  | .error e => .error e
  | .ok (magic, cur) =>
    if magic = magic1 then .ok (.ok (1, cur))
    else if magic = magic2 then
      if cur.length < 2 then .ok (.err Gen.wopnErrUnexpectedEnding) else
      match cur with
      | a :: c :: rest =>
        if a + 256 * c = 0 then .ok (.err Gen.wopnErrBadMagic)
        else if a + 256 * c > Gen.wopnLatestVersion then .ok (.err Gen.wopnErrNewerVersion)
        else .ok (.ok (a + 256 * c, rest))
      | _ => .error (.oob "version")
    else .ok (.err Gen.wopnErrBadMagic)

/-- bank names and LSB/MSB (version ≥ 2) for both sections; `none` = UNEXPECTED_ENDING -/
def readMetasBoth (version cm cp : Nat) (cur : Bytes) :
    Except Fault (Option (List (Bytes × Nat × Nat) × List (Bytes × Nat × Nat) × Bytes)) :=
  if version ≥ 2 then
    match readMetas cm cur with
    | .error e => .error e
    | .ok none => .ok none
    | .ok (some (mm, cur)) =>
      match readMetas cp cur with
      | .error e => .error e
      | .ok none => .ok none
      | .ok (some (pm, cur)) => .ok (some (mm, pm, cur))
  else .ok (some ([], [], cur))

/-- the instrument sections -/
def readSections (version cm cp : Nat) (cur : Bytes) : Except Fault (Option (List Inst × List Inst)) :=
  if cur.length < instSize version * 128 * cm then .ok none else
  match readInsts version (instSize version) (cm * 128) cur with
  | .error e => .error e
  | .ok (mi, cur) =>
    if cur.length < instSize version * 128 * cp then .ok none else
    match readInsts version (instSize version) (cp * 128) cur with
    | .error e => .error e
    | .ok (pi, _) => .ok (some (mi, pi))

def buildBanks (count : Nat) (metas : List (Bytes × Nat × Nat)) (insts : List Inst) : List Bank :=
  if count = 0 then initBanks 0 else fillBanks (applyMetas (initBanks count) metas) insts

def loadBankBody (version : Nat) (cur : Bytes) : Except Fault (LoadRes WFile) :=
  if cur.length < 5 then .ok (.err Gen.wopnErrUnexpectedEnding) else
  match cur with
  | h0 :: h1 :: h2 :: h3 :: h4 :: cur =>
    match readMetasBoth version (256 * h0 + h1) (256 * h2 + h3) cur with
    | .error e => .error e
    | .ok none => .ok (.err Gen.wopnErrUnexpectedEnding)
    | .ok (some (mm, pm, cur)) =>
      match readSections version (256 * h0 + h1) (256 * h2 + h3) cur with
      | .error e => .error e
      | .ok none => .ok (.err Gen.wopnErrUnexpectedEnding)
      | .ok (some (mi, pi)) =>
        .ok (.ok { version := version, lfoFreq := h4 % 16, chipType := if version ≥ 2 then (h4 / 16) % 2 else 0,
                   volumeModel := 0, melodic := buildBanks (256 * h0 + h1) mm mi,
                   percussive := buildBanks (256 * h2 + h3) pm pi })
  | _ => .error (.oob "header")

/-- WOPN_LoadBankFromMem (a NULL pointer is a separate case handled by the driver) -/
def loadBank (b : Bytes) : Except Fault (LoadRes WFile) :=
  match readVersion Gen.wopnMagic1 Gen.wopnMagic2 b with
  | .error e => .error e
  | .ok (.err c) => .ok (.err c)
  | .ok (.ok (version, cur)) => loadBankBody version cur

/-- WOPN_LoadInstFromMem -/
def loadInst (b : Bytes) : Except Fault (LoadRes IFile) :=
  match readVersion Gen.opniMagic1 Gen.opniMagic2 b with
  | .error e => .error e
  | .ok (.err c) => .ok (.err c)
  | .ok (.ok (version, cur)) =>
    if cur.length < 1 then .ok (.err Gen.wopnErrUnexpectedEnding) else
    match cur with
    | drum :: cur =>
      -- WOPN_INST_SIZE_V2 - 4 = WOPN_INST_SIZE_V1 = 65 for both versions
      if cur.length < 65 then .ok (.err Gen.wopnErrUnexpectedEnding) else
      match rd "instrument record" 65 cur with
      | .error e => .error e
      | .ok (r, _) =>
        match parseInst version false r with
        | .error e => .error e
        | .ok i => .ok (.ok { version := version, isDrum := drum, inst := i })
    | _ => .error (.oob "is_drum")

/-! ## size calculators -/

def calcBankSize (f : WFile) (version : Nat) : Nat :=
  let version := if version = 0 then 2 else version
  18 + (if version ≥ 2 then 34 * f.melodic.length + 34 * f.percussive.length else 0) +
    ((if version ≥ 2 then 69 else 65) * 128) * f.melodic.length +
    ((if version ≥ 2 then 69 else 65) * 128) * f.percussive.length

def calcInstSize (version : Nat) : Nat :=
  let version := if version = 0 then 2 else version
  12 + (if version > 1 then 2 else 0) + 65

/-! ## savers: a destination of `rem` bytes; every store goes through `put` -/

structure W where
  out : Bytes
  rem : Nat
  deriving Repr

def put (site : String) (w : W) (bs : Bytes) : Except Fault W :=
  if bs.length ≤ w.rem then .ok { out := w.out ++ bs, rem := w.rem - bs.length } else .error (.oob site)

structure SaveRes where
  code : Nat
  out : Bytes
  deriving Repr

def writeInsts (version : Nat) (w : W) : List Inst → Except Fault W
  | [] => .ok w
  | i :: is => do
    let w ← put "instrument record" w (writeInst version true i)
    writeInsts version w is

/-- progress of a saver: `go` = continue, `short` = it returned WOPN_ERR_UNEXPECTED_ENDING (bytes stored so far stay) -/
inductive St
  | go (w : W)
  | short (w : W)

def writeMetas (w : W) : List Bank → Except Fault St
  | [] => .ok (.go w)
  | b :: bs =>
    if w.rem < 34 then .ok (.short w) else do
    let w ← put "bank meta" w (b.name.take 32 ++ [b.lsb, b.msb])
    writeMetas w bs

/-- magic (+ version code for version > 1) -/
def writeHead (magic1 magic2 : Bytes) (version : Nat) (w : W) : Except Fault St :=
  if w.rem < 11 then .ok (.short w) else
  match put "magic" w (if version > 1 then magic2 else magic1) with
  | .error e => .error e
  | .ok w =>
    if version > 1 then
      if w.rem < 2 then .ok (.short w) else
      match put "version" w (putU16le version) with
      | .error e => .error e
      | .ok w => .ok (.go w)
    else .ok (.go w)

def writeCounts (f : WFile) (version nm np : Nat) (w : W) : Except Fault St :=
  if w.rem < 2 then .ok (.short w) else
  match put "melodic count" w (putU16be nm) with
  | .error e => .error e
  | .ok w =>
    if w.rem < 2 then .ok (.short w) else
    match put "percussive count" w (putU16be np) with
    | .error e => .error e
    | .ok w =>
      if w.rem < 1 then .ok (.short w) else
      match put "lfo/chip" w [((f.lfoFreq % 16) + (if version ≥ 2 then (f.chipType % 2) * 16 else 0))] with
      | .error e => .error e
      | .ok w => .ok (.go w)

def writeMetasBoth (version : Nat) (mel per : List Bank) (w : W) : Except Fault St :=
  if version ≥ 2 then
    match writeMetas w mel with
    | .error e => .error e
    | .ok (.short w) => .ok (.short w)
    | .ok (.go w) => writeMetas w per
  else .ok (.go w)

def writeSections (version : Nat) (mel per : List Bank) (w : W) : Except Fault St :=
  if w.rem < (if version ≥ 2 then 69 else 65) * 128 * mel.length then .ok (.short w) else
  match writeInsts version w (mel.flatMap (·.ins)) with
  | .error e => .error e
  | .ok w =>
    if w.rem < (if version ≥ 2 then 69 else 65) * 128 * per.length then .ok (.short w) else
    match writeInsts version w (per.flatMap (·.ins)) with
    | .error e => .error e
    | .ok w => .ok (.go w)

/-- sequencing of the save stages: `none` = the stage returned WOPN_ERR_UNEXPECTED_ENDING -/
def andThen (r : Except Fault St) (k : W → Except Fault St) : Except Fault St :=
  match r with
  | .error e => .error e
  | .ok (.short w) => .ok (.short w)
  | .ok (.go w) => k w

def saveStages (f : WFile) (version : Nat) (mel per : List Bank) (w : W) : Except Fault St :=
  andThen (writeHead Gen.wopnMagic1 Gen.wopnMagic2 version w) fun w =>
  andThen (writeCounts f version mel.length per.length w) fun w =>
  andThen (writeMetasBoth version mel per w) fun w =>
  writeSections version mel per w

/-- WOPN_SaveBankToMem; on an error return the bytes already stored stay in the destination, which the
    driver reports through `saveBankBuf` -/
def saveBank (f : WFile) (destLen version : Nat) (forceGm : Bool) : Except Fault SaveRes :=
  let version := if version = 0 then Gen.wopnLatestVersion else version
  let mel := if forceGm then f.melodic.take 1 else f.melodic
  let per := if forceGm then f.percussive.take 1 else f.percussive
  match saveStages f version mel per { out := [], rem := destLen } with
  | .error e => .error e
  | .ok (.short w) => .ok ⟨Gen.wopnErrUnexpectedEnding, w.out⟩
  | .ok (.go w) => .ok ⟨Gen.wopnErrOk, w.out⟩

/-- WOPN_SaveInstToMem -/
def saveInst (f : IFile) (destLen version : Nat) : Except Fault SaveRes :=
  let version := if version = 0 then Gen.wopnLatestVersion else version
  let r := andThen (writeHead Gen.opniMagic1 Gen.opniMagic2 version { out := [], rem := destLen }) fun w =>
    if w.rem < 1 then .ok (.short w) else
    match put "is_drum" w [f.isDrum] with
    | .error e => .error e
    | .ok w =>
      if w.rem < 65 then .ok (.short w) else
      match put "instrument record" w (writeInst version false f.inst) with
      | .error e => .error e
      | .ok w => .ok (.go w)
  match r with
  | .error e => .error e
  | .ok (.short w) => .ok ⟨Gen.wopnErrUnexpectedEnding, w.out⟩
  | .ok (.go w) => .ok ⟨Gen.wopnErrOk, w.out⟩

end Opn.Wopn
