import OpnVerif.Model.Seq
namespace Opn.Xmi
open Opn Opn.Seq
def convert (_ : Bytes) : Option (List Bytes) := none
end Opn.Xmi
