/-
  Model of Convert_xmi2midi_multi (src/cvt_xmi2mid.hpp, conversion type "no conversion"): AIL XMI file -> one single-track
  Standard MIDI File image per sequence.  The source is the file followed by the 20 zero bytes parseXMI appends; every read
  is bounded by the source (reads beyond it give zeros, seeks and skips are clamped), as in the repaired reader.
-/
import OpnVerif.Model.Seq

namespace Opn.Xmi
open Opn Opn.Seq

/-- the source cursor -/
structure Src where
  bs : Bytes
  pos : Nat
  deriving Inhabited

def Src.size (s : Src) : Nat := s.bs.length
def Src.left (s : Src) : Nat := s.size - s.pos

def read1 (s : Src) : Nat × Src := if s.pos < s.size then (s.bs.getD s.pos 0, { s with pos := s.pos + 1 }) else (0, s)
def read2 (s : Src) : Nat × Src := let (a, s) := read1 s; let (b, s) := read1 s; (a + b * 256, s)
def read4 (s : Src) : Nat × Src :=
  let (b3, s) := read1 s; let (b2, s) := read1 s; let (b1, s) := read1 s; let (b0, s) := read1 s
  (b0 + b1 * 256 + b2 * 65536 + b3 * 16777216, s)
def read4le (s : Src) : Nat × Src :=
  let (b3, s) := read1 s; let (b2, s) := read1 s; let (b1, s) := read1 s; let (b0, s) := read1 s
  (b3 + b2 * 256 + b1 * 65536 + b0 * 16777216, s)
/-- xmi2mid_copy: `len` bytes, zero-filled behind the end of the source -/
def copy (s : Src) (len : Nat) : Bytes × Src :=
  let have_ := if s.left < len then s.left else len
  (((s.bs.drop s.pos).take have_) ++ List.replicate (len - have_) 0, { s with pos := s.pos + have_ })
def seek (s : Src) (pos : Nat) : Src := { s with pos := if pos > s.size then s.size else pos }
def skipFwd (s : Src) (len : Nat) : Src := { s with pos := s.pos + (if len < s.left then len else s.left) }
def skipBack1 (s : Src) : Src := { s with pos := s.pos - 1 }

/-- an event of the intermediate list -/
structure XEv where
  time : Int
  status : Nat
  d0 : Nat := 0
  d1 : Nat := 0
  buffer : Bytes := []
  len : Nat := 0
  deriving Repr, Inhabited

/-- the event list with the converter's `current` pointer (an index) -/
structure EL where
  l : List XEv := []
  cur : Nat := 0
  deriving Inhabited

/-- xmi2mid_CreateNewEvent, pointer for pointer: the scan for the insertion point starts at `current` (reset to the head only
    when `current` is later than the new time) and looks at `current->next` only, so a new event is never put in front of the head -/
def insertEv (el : EL) (e : XEv) : EL :=
  match el.l with
  | [] => { l := [{ e with time := if e.time < 0 then 0 else e.time }], cur := 0 }
  | _ =>
    if e.time < 0 then { l := { e with time := 0 } :: el.l, cur := 0 } else
    let cur := if ((el.l[el.cur]?).map (·.time)).getD 0 > e.time then 0 else el.cur
    let rec go (fuel : Nat) (c : Nat) : EL :=
      match fuel with
      | 0 => { l := el.l ++ [e], cur := el.l.length }
      | f + 1 =>
        match el.l[c + 1]? with
        | none => { l := el.l ++ [e], cur := el.l.length }
        | some nx => if nx.time > e.time then { l := el.l.take (c + 1) ++ [e] ++ el.l.drop (c + 1), cur := c + 1 } else go f (c + 1)
    go (el.l.length + 1) cur

def toI32 (n : Int) : Int := toSigned 32 (ofSigned 32 n)

/-- xmi2mid_GetVLQ: at most four bytes, and never the last byte of the source -/
def getVLQ (s : Src) : Nat × Nat × Src :=
  let rec go (fuel : Nat) (i : Nat) (q : Nat) (s : Src) : Nat × Nat × Src :=
    match fuel with
    | 0 => (q, i, s)
    | f + 1 =>
      if s.pos + 1 ≥ s.size then (q, i, s) else
      let (d, s) := read1 s
      let q := (q * 128 % 4294967296) ||| (d % 128)
      if d < 128 then (q, i + 1, s) else go f (i + 1) q s
  go 4 0 0 s

/-- xmi2mid_GetVLQ2: the XMI delta — bytes below 0x80 are summed -/
def getVLQ2 (s : Src) : Nat × Src :=
  let rec go (fuel : Nat) (q : Nat) (s : Src) : Nat × Src :=
    match fuel with
    | 0 => (q, s)
    | f + 1 =>
      if s.pos == s.size then (q, s) else
      let (d, s') := read1 s
      if d ≥ 128 then (q, skipBack1 s') else go f ((q + d) % 4294967296) s'
  go (s.size + 1) 0 s

/-- xmi2mid_ConvertEvent for conversion type 0; returns the list and the cursor -/
def convertEvent (l : EL) (s : Src) (time : Int) (status : Nat) (size : Nat) : EL × Src :=
  let (data, s) := read1 s
  let data := if status / 16 == 0xB && status % 16 != 9 && data == 114 then 32 else data
  if status / 16 == 0xB && data == 0 then
    let (v, s) := read1 s
    (insertEv l { time := time, status := status, d0 := 0, d1 := if v == 127 then 0 else v }, s)
  else
    if size == 1 then (insertEv l { time := time, status := status, d0 := data }, s) else
    let (d1, s) := read1 s
    let l := insertEv l { time := time, status := status, d0 := data, d1 := d1 }
    if size == 2 then (l, s) else
    let prev := l.cur
    let (delta, _, s) := getVLQ s
    let l := insertEv l { time := toI32 (time + (delta * 3 % 4294967296 : Nat)), status := status, d0 := data, d1 := 0 }
    ({ l with cur := prev }, s)

/-- xmi2mid_ConvertSystemMessage -/
def convertSystemMessage (l : EL) (s : Src) (time : Int) (status : Nat) : EL × Src :=
  let (d0, s) := if status == 0xFF then read1 s else (0, s)
  let (len, _, s) := getVLQ s
  let len := if len > s.left then s.left else len
  if len == 0 then (insertEv l { time := time, status := status, d0 := d0 }, s) else
  let (buf, s) := copy s len
  (insertEv l { time := time, status := status, d0 := d0, buffer := buf, len := len }, s)

def hexDigit (n : Nat) : Nat := if n < 10 then 48 + n else 55 + n

/-- xmi2mid_ConvertFiletoList: (event list, PPQN as `signed short`, cursor) -/
def convertFileToList (s0 : Src) (branches : List (Nat × Nat)) : List XEv × Int × Src :=
  let begin := s0.pos
  let rec go (fuel : Nat) (l : EL) (s : Src) (time : Int) (tempo : Nat) (tempoSet : Bool) : EL × Nat × Src :=
    match fuel with
    | 0 => (l, tempo, s)
    | f + 1 =>
      if s.pos ≥ s.size then (l, tempo, s) else
      let offset := s.pos - begin
      -- branch markers that point at this offset
      let l := branches.foldl (fun l (p : Nat × Nat) =>
        if p.2 == offset then
          insertEv l { time := time, status := 0xFF, d0 := 0x06, len := 8,
                       buffer := [58, 88, 66, 82, 78, 58, hexDigit (p.1 / 16), hexDigit (p.1 % 16)] }
        else l) l
      let (d, s) := getVLQ2 s
      let time := toI32 (time + (d * 3 % 4294967296 : Nat))
      let (status, s) := read1 s
      let k := status / 16
      if k == 9 then let (l, s) := convertEvent l s time status 3; go f l s time tempo tempoSet
      else if k == 8 || k == 0xA || k == 0xB || k == 0xE then let (l, s) := convertEvent l s time status 2; go f l s time tempo tempoSet
      else if k == 0xC || k == 0xD then let (l, s) := convertEvent l s time status 1; go f l s time tempo tempoSet
      else if k == 0xF then
        if status == 0xFF then
          let pos := s.pos
          let (dat, s1) := read1 s
          if dat == 0x2F then
            let (l, s) := convertSystemMessage l (seek s1 pos) time status
            (l, tempo, s)
          else if dat == 0x51 && !tempoSet then
            let s2 := skipFwd s1 1
            let (a, s2) := read1 s2; let (b, s2) := read1 s2; let (c, _) := read1 s2
            let tempo := (a * 65536 + b * 256 + c) * 3
            let (l, s) := convertSystemMessage l (seek s1 pos) time status
            go f l s time tempo true
          else if dat == 0x51 && tempoSet then
            let (n, _, s2) := getVLQ s1
            go f l (skipFwd s2 n) time tempo tempoSet
          else
            let (l, s) := convertSystemMessage l (seek s1 pos) time status
            go f l s time tempo tempoSet
        else
          let (l, s) := convertSystemMessage l s time status
          go f l s time tempo tempoSet
      else go f l s time tempo tempoSet
  let (l, tempo, s) := go (s0.size + 2) {} s0 0 500000 false
  (l.l, toSigned 16 ((tempo * 3 / 25000) % 65536), s)

/-- xmi2mid_PutVLQ with its 32-bit accumulator -/
def putVLQ (value : Nat) : Bytes :=
  let rec build (fuel : Nat) (v : Nat) (buffer : Nat) (i : Nat) : Nat × Nat :=
    match fuel with
    | 0 => (buffer, i)
    | f + 1 =>
      let v := v / 128
      if v == 0 then (buffer, i) else build f v ((buffer * 256 % 4294967296) ||| ((v % 128) ||| 0x80)) (i + 1)
  let (buffer, i) := build 6 (value % 4294967296) (value % 128) 1
  (List.range i).map fun j => buffer / 256 ^ j % 256

/-- xmi2mid_ConvertListToMTrk: the track chunk -/
def listToMTrk (l : List XEv) : Bytes :=
  let rec go : List XEv → Int → Nat → Bytes → Bytes
    | [], _, _, acc => acc
    | e :: es, time, last, acc =>
      let delta := ofSigned 32 (e.time - time)
      let acc := acc ++ putVLQ delta
      let acc := if e.status != last || e.status ≥ 0xF0 then acc ++ [e.status % 256] else acc
      let k := e.status / 16
      if k == 8 || k == 9 || k == 0xA || k == 0xB || k == 0xE then go es e.time e.status (acc ++ [e.d0 % 256, e.d1 % 256])
      else if k == 0xC || k == 0xD then go es e.time e.status (acc ++ [e.d0 % 256])
      else if k == 0xF then
        let acc := if e.status == 0xFF then acc ++ [e.d0 % 256] else acc
        let acc := acc ++ putVLQ e.len ++ e.buffer.take e.len
        if e.status == 0xFF && e.d0 == 0x2F then acc else go es e.time e.status acc
      else go es e.time e.status acc
  let body := go l 0 0 []
  let n := body.length
  [77, 84, 114, 107, n / 16777216 % 256, n / 65536 % 256, n / 256 % 256, n % 256] ++ body

def tag (s : String) : Bytes := s.toList.map (·.toNat)

/-- xmi2mid_ParseXMI: number of sequences and the position behind "CAT <len> XMID", or `none` -/
def parseXMI (s : Src) : Option (Nat × Src) :=
  if s.pos + 8 > s.size then none else
  let (buf, s) := copy s 4
  if buf != tag "FORM" then none else
  let (len, s) := read4 s
  let start := s.pos
  if start + 4 > s.size then none else
  let (ty, s) := copy s 4
  if ty == tag "XMID" then none                      -- XDIR-less files fall out of the function with -1
  else if ty != tag "XDIR" then none
  else
    -- walk the chunks of the XDIR form looking for INFO
    let rec walk (fuel : Nat) (i : Nat) (s : Src) : Nat × Src :=
      match fuel with
      | 0 => (0, s)
      | f + 1 =>
        if i ≥ len then (0, s) else
        if s.pos + 10 > s.size then (0, s) else
        let (name, s) := copy s 4
        let (clen, s) := read4 s
        let i := i + 8
        if name != tag "INFO" then
          let adv := (clen + 1) / 2 * 2 % 4294967296
          walk f (i + adv + 1) (skipFwd s adv)
        else if clen < 2 then (0, s)
        else let (t, s) := read2 s; (t, s)
    let (tracks, s) := walk (s.size + 2) 4 s
    if tracks == 0 then none else
    let s := seek s (start + (len + 1) / 2 * 2)      -- xmi2mid_seekchunkend: a 64-bit sum, clamped to the size
    if s.pos + 12 > s.size then none else
    let (cat, s) := copy s 4
    if cat != tag "CAT " then none else
    let (_, s) := read4 s
    let (x, s) := copy s 4
    if x != tag "XMID" then none else some (tracks, s)

/-- xmi2mid_ExtractTracksFromXmi: the converted sequences (event list, PPQN) -/
def extractTracks (tracks : Nat) (s : Src) : List (List XEv × Int) :=
  let rec go (fuel : Nat) (s : Src) (branch : List (Nat × Nat)) (acc : List (List XEv × Int)) : List (List XEv × Int) :=
    match fuel with
    | 0 => acc
    | f + 1 =>
      if s.pos ≥ s.size || acc.length == tracks then acc else
      let (name, s) := copy s 4
      let (len, s) := read4 s
      let (name, len, s) :=
        if name == tag "FORM" then
          let s := skipFwd s 4
          let (name, s) := copy s 4
          let (len, s) := read4 s
          (name, len, s)
        else (name, len, s)
      let aligned := (len + 1) / 2 * 2 % 4294967296
      if name == tag "RBRN" then
        let begin := s.pos
        let (branch, _) :=
          if len < 2 then (branch, s) else
          let (count, s1) := read2 s
          if len - 2 < 6 * count then (branch, s1) else
          (List.range count).foldl (fun (acc : List (Nat × Nat) × Src) _ =>
            let (ctl, s2) := read2 acc.2
            let (off, s2) := read4le s2
            (if ctl < 128 then (acc.1.filter (·.1 != ctl)) ++ [(ctl, off)] else acc.1, s2)) (branch, s1)
        go f (seek s (begin + (len + 1) / 2 * 2)) branch acc
      else if name != tag "EVNT" then go f (skipFwd s aligned) branch acc
      else
        let begin := s.pos
        -- branches in order of their controller value
        let sorted := (List.range 128).filterMap fun i => (branch.find? (·.1 == i))
        let (l, ppqn, _) := convertFileToList s sorted
        if ppqn == 0 then acc else
        go f (seek s (begin + (len + 1) / 2 * 2)) [] (acc ++ [(l, ppqn)])
  go (s.size + 2) s [] []

/-- Convert_xmi2midi_multi on the file image (the caller appends 20 zero bytes): one SMF image per sequence, or `none` -/
def convert (file : Bytes) : Option (List Bytes) :=
  let src : Src := { bs := file ++ List.replicate 20 0, pos := 0 }
  match parseXMI src with
  | none => none
  | some (tracks, s) =>
    let seqs := extractTracks tracks s
    if seqs.length != tracks then none else
    let ty := if tracks > 1 then 2 else 0
    some (seqs.map fun (l, ppqn) =>
      let q := ofSigned 16 ppqn
      [77, 84, 104, 100, 0, 0, 0, 6, 0, ty, 0, 1, q / 256 % 256, q % 256] ++ listToMTrk l)

end Opn.Xmi
