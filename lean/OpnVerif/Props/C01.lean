/-
  C01 — Untrusted music data never crashes, corrupts memory or hangs the player (the part the sequencer model carries).
  The loaders' model reads byte lists; every read past the end is an explicit branch (no `Fault` can arise from indexing).
  Proved here: no parser step moves the cursor backwards, a delta time consumes at least one byte, and therefore the
  track loop finishes within (track length + 1) iterations for every byte string — the fuel the model passes is never
  the reason for a result, and loading takes a number of parser steps linear in the input.
-/
import OpnVerif.Model.Seq
import OpnVerif.Model.Mus
import OpnVerif.Props.C07

namespace Opn.C01
open Opn Opn.Seq

/-- readVarLenEx consumes at least one byte when it succeeds -/
theorem readVarLen_progress : ∀ (bs : Bytes) (acc v : Nat) (r : Bytes), readVarLen bs acc = (some v, r) → r.length < bs.length
  | [], _, _, _, h => by simp [readVarLen] at h
  | b :: rest, acc, v, r, h => by
    unfold readVarLen at h
    simp only at h
    split at h
    · have := readVarLen_progress rest _ v r h
      simp only [List.length_cons]; omega
    · simp only [Prod.mk.injEq, Option.some.injEq] at h
      rw [← h.2]; simp

theorem parseSysEx_le (byte : Nat) (rest : Bytes) (status : Int) (ps : ParseSt) :
    (parseSysEx byte rest status ps).2.1.length ≤ rest.length := by
  unfold parseSysEx
  have h := C07.readVarLen_le rest 0
  split
  · rename_i r heq; rw [heq] at h; exact h
  · rename_i len r heq
    rw [heq] at h
    split
    · exact h
    · simp only [List.length_drop]; simp only at h; omega

theorem parseMeta_le (rest : Bytes) (status : Int) (ps : ParseSt) :
    (parseMeta rest status ps).2.1.length ≤ rest.length := by
  unfold parseMeta
  split
  · simp
  · rename_i evtype r0
    have h := C07.readVarLen_le r0 0
    split
    · rename_i r heq; rw [heq] at h; simp only [List.length_cons]; simp only at h; omega
    · rename_i len r heq
      rw [heq] at h
      simp only at h
      split
      · simp only [List.length_cons]; omega
      · split
        · simp only [List.length_cons]; omega
        · simp only [List.length_drop, List.length_cons]; omega

theorem parseChannel_le (byte : Nat) (rest : Bytes) (status : Int) (ps : ParseSt) :
    (parseChannel byte rest status ps).2.1.length ≤ rest.length := by
  unfold parseChannel
  split
  · split <;> simp
  · split
    · split <;> simp <;> omega
    · simp only
      split
      · split
        · split
          · simp; omega
          · split <;> simp <;> omega
        · simp
      · split
        · split <;> simp
        · simp

/-- **no parser step moves the cursor backwards** (every event is read inside the remaining track bytes) -/
theorem parseEvent_le (bs : Bytes) (status : Int) (ps : ParseSt) : (parseEvent bs status ps).2.1.length ≤ bs.length := by
  unfold parseEvent
  split
  · simp
  · rename_i byte rest
    split
    · have := parseSysEx_le byte rest status ps; simp only [List.length_cons]; omega
    · split
      · have := parseMeta_le rest status ps; simp only [List.length_cons]; omega
      · split
        · exact parseChannel_le _ _ status ps
        · have := parseChannel_le byte rest status ps; simp only [List.length_cons]; omega

/-- **the track loop terminates on every byte string**: with more fuel than remaining bytes it never stops for lack of fuel
    (each round that continues has read a delta time, i.e. at least one byte) -/
theorem trackLoop_fuel : ∀ (fuel : Nat) (bs : Bytes) (status : Int) (b : BuildSt) (absPos : Nat) (cur : Row) (states : List Nat) (rows : List Row),
    bs.length < fuel → trackLoop fuel bs status b absPos cur states rows ≠ .error "fuel"
  | 0, _, _, _, _, _, _, _, h => by omega
  | fuel + 1, bs, status, b, absPos, cur, states, rows, h => by
    unfold trackLoop
    simp only
    have hle := parseEvent_le bs status b.ps
    generalize hpe : parseEvent bs status b.ps = pe at hle
    obtain ⟨ev, bs1, status1, ps1⟩ := pe
    simp only at hle ⊢
    split
    · simp
    · -- the delta time behind the event
      by_cases hend : ev.subtype != stEndTrack
      · simp only [hend, if_true]
        cases hrv : readVarLen bs1 0 with
        | mk v r =>
          cases v with
          | none =>
            simp only
            split <;> simp
          | some d =>
            have hp := readVarLen_progress bs1 0 d r hrv
            simp only
            have hsub : (ev.subtype == stEndTrack) = false := by simpa using hend
            simp only [hsub, Bool.false_and, Bool.false_eq_true, if_false, Bool.or_false]
            split
            · exact trackLoop_fuel fuel r status1 _ _ _ _ _ (by omega)
            · exact trackLoop_fuel fuel r status1 _ _ _ _ _ (by omega)
      · have hsub : (ev.subtype != stEndTrack) = false := by simpa using hend
        have hsub' : (ev.subtype == stEndTrack) = true := by simpa using hend
        simp only [hsub, Bool.false_eq_true, if_false, hsub', Bool.or_true, if_true]
        split <;> simp

/-- building a track never fails for lack of fuel: the result is a property of the bytes alone -/
theorem buildTrack_fuel (tk : Nat) (bs : Bytes) (b : BuildSt) : buildTrack tk bs b ≠ .error "fuel" := by
  unfold buildTrack
  split
  · simp
  · rename_i d rest heq
    have hp := readVarLen_progress bs 0 d rest heq
    simp only
    generalize ({ delay := d, absPos := 0, events := if tk == 0 then [{ type := tSpecial, subtype := stSongBegin }] else [] } : Row) = first
    have hf := trackLoop_fuel (bs.length + 2) rest 0 b (d % W) {} [] [first] (by omega)
    cases hr : trackLoop (bs.length + 2) rest 0 b (d % W) {} [] [first] with
    | error e =>
      simp only
      intro h
      injection h with h
      rw [h] at hr
      exact hf hr
    | ok p => simp


/-! ## the loop stack level never sinks below -1 ("no loop open")

`handleEvent` indexes the loop stack with `stackLevel + 1` (as a `size_t` in the C++): that is only meaningful while the level is at least -1.
(A level of -2 made the implementation push stack entries until memory ran out — fixed, see corpus/C01.) -/

theorem stackDown_ge (lvl : Int) : -1 ≤ stackDown lvl := by
  unfold stackDown; split <;> omega

theorem curIdx_level (l : Loop) : l.curIdx.1.stackLevel = l.stackLevel := by
  unfold Loop.curIdx; split
  · rfl
  · split <;> rfl

theorem stackBreakN_level_ge : ∀ (n : Nat) (l : Loop), -1 ≤ l.stackLevel → -1 ≤ (stackBreakN n l).stackLevel
  | 0, l, h => h
  | n + 1, l, _ => by
      unfold stackBreakN
      exact stackBreakN_level_ge n _ (stackDown_ge _)

theorem stackUpN_level_ge : ∀ (n : Nat) (l : Loop) (p : Position), -1 ≤ l.stackLevel → -1 ≤ (stackUpN n l p).stackLevel
  | 0, l, _, h => h
  | n + 1, l, p, h => by
      unfold stackUpN
      apply stackUpN_level_ge n
      show -1 ≤ (Loop.curIdx { l with stackLevel := l.stackLevel + 1 }).1.stackLevel
      rw [curIdx_level]
      show -1 ≤ l.stackLevel + 1
      omega

theorem stackEndsN_level_ge : ∀ (n : Nat) (s : Seq) (t : Rat) (outs : List Out), -1 ≤ s.loop.stackLevel →
    -1 ≤ (stackEndsN n s t outs).1.loop.stackLevel
  | 0, s, _, _, h => h
  | n + 1, s, t, outs, h => by
      have hc := curIdx_level s.loop
      unfold stackEndsN
      simp only
      repeat' split
      all_goals first
        | exact stackEndsN_level_ge n _ t outs (stackDown_ge _)
        | (show -1 ≤ (Loop.curIdx s.loop).1.stackLevel; rw [hc]; exact h)
end Opn.C01
