/-
  C01 — Untrusted music data never crashes, corrupts memory or hangs the player (the part the sequencer model carries).
-/
import OpnVerif.Model.Seq
import OpnVerif.Model.Mus
import OpnVerif.Props.C07

namespace Opn.C01
open Opn Opn.Seq

/-- readVarLenEx consumes at least one byte when it succeeds -/
theorem readVarLen_progress : ∀ (bs : Bytes) (acc v : Nat) (r : Bytes), readVarLen bs acc = (some v, r) → r.length < bs.length
  | [], _, _, _, h => by simp [readVarLen] at h
  | b :: rest, acc, v, r, h => by
    unfold readVarLen at h
    simp only at h
    split at h
    · have := readVarLen_progress rest _ v r h
      simp only [List.length_cons]; omega
    · simp only [Prod.mk.injEq, Option.some.injEq] at h
      rw [← h.2]; simp

end Opn.C01
