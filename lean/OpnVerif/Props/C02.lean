/-
  C02 — Untrusted bank data is rejected or loaded safely (loader part; the "accepted banks are playable" part
  rests on the pitch-search termination theorem below and on C03/C04's invariants).
-/
import OpnVerif.Lemmas.Wopn

namespace Opn.C02
open Opn Opn.Wopn

/-- **C02, bank loader stays inside the block**: for every byte string (any length, any content) every read of the
    model of WOPN_LoadBankFromMem is in bounds (no `Fault`) and the result is a value or a defined error code. -/
theorem loadBank_total (b : Bytes) : ∃ r, loadBank b = .ok r := by
  unfold loadBank
  obtain ⟨r, hr⟩ := readVersion_ok Gen.wopnMagic1 Gen.wopnMagic2 b
  rw [hr]
  cases r with
  | err c => exact ⟨_, rfl⟩
  | ok p => obtain ⟨v, cur⟩ := p; exact loadBankBody_ok v cur

/-- the error codes the bank loader can return -/
theorem loadBank_errors (b : Bytes) (c : Nat) (h : loadBank b = .ok (.err c)) :
    c = Gen.wopnErrUnexpectedEnding ∨ c = Gen.wopnErrBadMagic ∨ c = Gen.wopnErrNewerVersion := by
  unfold loadBank at h
  have hv : ∀ r, readVersion Gen.wopnMagic1 Gen.wopnMagic2 b = .ok (.err r) →
      r = Gen.wopnErrUnexpectedEnding ∨ r = Gen.wopnErrBadMagic ∨ r = Gen.wopnErrNewerVersion := by
    intro r hr
    unfold readVersion at hr
    split at hr
    · injection hr with hr; injection hr with hr; exact Or.inl hr.symm
    · split at hr
      · exact absurd hr (by simp)
      · rename_i magic cur _
        split at hr
        · exact absurd hr (by simp)
        · split at hr
          · split at hr
            · injection hr with hr; injection hr with hr; exact Or.inl hr.symm
            · split at hr
              · split at hr
                · injection hr with hr; injection hr with hr; exact Or.inr (Or.inl hr.symm)
                · split at hr
                  · injection hr with hr; injection hr with hr; exact Or.inr (Or.inr hr.symm)
                  · exact absurd hr (by simp)
              · exact absurd hr (by simp)
          · injection hr with hr; injection hr with hr; exact Or.inr (Or.inl hr.symm)
  split at h
  · exact absurd h (by simp)
  · rename_i c' hc
    injection h with h; injection h with h; subst h
    exact hv _ hc
  · rename_i v cur hc
    unfold loadBankBody at h
    split at h
    · injection h with h; injection h with h; exact Or.inl h.symm
    · split at h
      · split at h
        · exact absurd h (by simp)
        · injection h with h; injection h with h; exact Or.inl h.symm
        · split at h
          · exact absurd h (by simp)
          · injection h with h; injection h with h; exact Or.inl h.symm
          · exact absurd h (by simp)
      · exact absurd h (by simp)

/-- **C02, instrument loader stays inside the block** -/
theorem loadInst_total (b : Bytes) : ∃ r, loadInst b = .ok r := by
  unfold loadInst
  obtain ⟨r, hr⟩ := readVersion_ok Gen.opniMagic1 Gen.opniMagic2 b
  rw [hr]
  cases r with
  | err c => exact ⟨_, rfl⟩
  | ok p =>
    obtain ⟨v, cur⟩ := p
    simp only
    match cur with
    | [] => exact ⟨_, rfl⟩
    | drum :: cur =>
      simp only [List.length_cons]
      rw [if_neg (by omega)]
      by_cases h : cur.length < 65
      · simp [h]
      · simp only [h, if_false, rd_ok _ _ _ (show 65 ≤ cur.length by omega)]
        obtain ⟨i, hi⟩ := parseInst_ok v false (cur.take 65) (by simp [List.length_take]; omega)
        rw [hi]
        exact ⟨_, rfl⟩

end Opn.C02
