/-
  C02 — Untrusted bank data is rejected or loaded safely (loader part; the "accepted banks are playable" part
  rests on the pitch-search termination theorem below and on C03/C04's invariants).
-/
import OpnVerif.Lemmas.Wopn
import OpnVerif.Props.C10

namespace Opn.C02
open Opn Opn.Wopn

/-- **C02, bank loader stays inside the block**: for every byte string (any length, any content) every read of the
    model of WOPN_LoadBankFromMem is in bounds (no `Fault`) and the result is a value or a defined error code. -/
theorem loadBank_total (b : Bytes) : ∃ r, loadBank b = .ok r := by
  unfold loadBank
  obtain ⟨r, hr⟩ := readVersion_ok Gen.wopnMagic1 Gen.wopnMagic2 b
  rw [hr]
  cases r with
  | err c => exact ⟨_, rfl⟩
  | ok p => obtain ⟨v, cur⟩ := p; exact loadBankBody_ok v cur

/-- the error codes the bank loader can return -/
theorem loadBank_errors (b : Bytes) (c : Nat) (h : loadBank b = .ok (.err c)) :
    c = Gen.wopnErrUnexpectedEnding ∨ c = Gen.wopnErrBadMagic ∨ c = Gen.wopnErrNewerVersion := by
  unfold loadBank at h
  have hv : ∀ r, readVersion Gen.wopnMagic1 Gen.wopnMagic2 b = .ok (.err r) →
      r = Gen.wopnErrUnexpectedEnding ∨ r = Gen.wopnErrBadMagic ∨ r = Gen.wopnErrNewerVersion := by
    intro r hr
    unfold readVersion at hr
    split at hr
    · injection hr with hr; injection hr with hr; exact Or.inl hr.symm
    · split at hr
      · exact absurd hr (by simp)
      · rename_i magic cur _
        split at hr
        · exact absurd hr (by simp)
        · split at hr
          · split at hr
            · injection hr with hr; injection hr with hr; exact Or.inl hr.symm
            · split at hr
              · split at hr
                · injection hr with hr; injection hr with hr; exact Or.inr (Or.inl hr.symm)
                · split at hr
                  · injection hr with hr; injection hr with hr; exact Or.inr (Or.inr hr.symm)
                  · exact absurd hr (by simp)
              · exact absurd hr (by simp)
          · injection hr with hr; injection hr with hr; exact Or.inr (Or.inl hr.symm)
  split at h
  · exact absurd h (by simp)
  · rename_i c' hc
    injection h with h; injection h with h; subst h
    exact hv _ hc
  · rename_i v cur hc
    unfold loadBankBody at h
    split at h
    · injection h with h; injection h with h; exact Or.inl h.symm
    · split at h
      · split at h
        · exact absurd h (by simp)
        · injection h with h; injection h with h; exact Or.inl h.symm
        · split at h
          · exact absurd h (by simp)
          · injection h with h; injection h with h; exact Or.inl h.symm
          · exact absurd h (by simp)
      · exact absurd h (by simp)

/-- **C02, instrument loader stays inside the block** -/
theorem loadInst_total (b : Bytes) : ∃ r, loadInst b = .ok r := by
  unfold loadInst
  obtain ⟨r, hr⟩ := readVersion_ok Gen.opniMagic1 Gen.opniMagic2 b
  rw [hr]
  cases r with
  | err c => exact ⟨_, rfl⟩
  | ok p =>
    obtain ⟨v, cur⟩ := p
    simp only
    match cur with
    | [] => exact ⟨_, rfl⟩
    | drum :: cur =>
      simp only [List.length_cons]
      rw [if_neg (by omega)]
      by_cases h : cur.length < 65
      · simp [h]
      · simp only [h, if_false, rd_ok _ _ _ (show 65 ≤ cur.length by omega)]
        obtain ⟨i, hi⟩ := parseInst_ok v false (cur.take 65) (by simp [List.length_take]; omega)
        rw [hi]
        exact ⟨_, rfl⟩

/-! ## accepted banks are playable: the note-on frequency search terminates

`OPN2::noteOn` returns for `hertz < 0` and clamps `hertz > 131071` (also +∞) to 131071 (fixes e79c9cc, 143739b), then
runs two loops on `hertz`.  Whatever instrument fields an accepted bank or `opn2_setInstrument` supplied
(all 2^16 note offsets, any drum key), the value reaching the loops is a finite double, i.e. a dyadic rational. -/

/-- **C02, no hang at note-on**: for every frequency the guard lets through (any dyadic value up to 131071 Hz —
    in fact for every finite double) the octave/multiplier search of the model of `OPN2::noteOn` terminates with a
    result: the fuel of the multiplier loop (1100) is never exhausted. -/
theorem noteon_search_terminates (h : Pitch.Dy) (hguard : h.n ≤ 131071 * 2 ^ h.k) : ∃ r, Pitch.search h = .ok r := by
  apply C10.search_total
  have h1 : (131071 : Nat) < 2 ^ C10.maxDoubleExp := by
    unfold C10.maxDoubleExp
    calc (131071 : Nat) < 2 ^ 17 := by decide
      _ ≤ 2 ^ 1024 := Nat.pow_le_pow_right (by decide) (by decide)
  calc h.n ≤ 131071 * 2 ^ h.k := hguard
    _ < 2 ^ C10.maxDoubleExp * 2 ^ h.k := Nat.mul_lt_mul_of_pos_right h1 (Nat.pos_of_ne_zero (by exact Nat.ne_of_gt (Nat.two_pow_pos _)))

/-- within the guard the octave loop runs at most 7 times and the multiplier loop at most 7 times
    (131071 / 2^7 < 2036.75 · 2^… : seven halvings bring any admitted frequency below the threshold) -/
theorem noteon_search_short (h : Pitch.Dy) (hguard : h.n ≤ 131071 * 2 ^ h.k) :
    ∃ r, Pitch.loop2 8 (Pitch.loop1 8 h 0).1 0 = .ok r := by
  obtain ⟨b, hb, he, _⟩ := C10.loop1_real h
  rw [he]
  apply C10.loop2_terminates
  show h.n * 4 < 8147 * 2 ^ (h.k + b + 7)
  have e : 2 ^ (h.k + b + 7) = 2 ^ h.k * 2 ^ b * 128 := by rw [Nat.pow_add, Nat.pow_add]
  rw [e]
  have h1 : 1 ≤ 2 ^ b := Nat.one_le_two_pow
  calc h.n * 4 ≤ 131071 * 2 ^ h.k * 4 := Nat.mul_le_mul_right _ hguard
    _ = 2 ^ h.k * 524284 := by rw [Nat.mul_comm 131071, Nat.mul_assoc]
    _ < 2 ^ h.k * (8147 * 128) := Nat.mul_lt_mul_of_pos_left (by decide) (Nat.two_pow_pos _)
    _ = 8147 * (2 ^ h.k * 1 * 128) := by rw [Nat.mul_one, ← Nat.mul_assoc, Nat.mul_comm (2 ^ h.k) 8147, Nat.mul_assoc]
    _ ≤ 8147 * (2 ^ h.k * 2 ^ b * 128) := Nat.mul_le_mul_left _ (Nat.mul_le_mul_right _ (Nat.mul_le_mul_left _ h1))

end Opn.C02
