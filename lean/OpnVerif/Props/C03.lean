/-
  C03 — Any sequence of API calls on a live instance is memory-safe and terminates (the decision logic that is
  stated outright: argument validation for every value of the parameter types, channel normalisation, period cap).
  The voice-allocation invariants the real-time calls rely on are C04's; the loaders' bounds are C01/C02's.
-/
import OpnVerif.Model.Settings
import OpnVerif.Model.Synth
import OpnVerif.Model.Audio
import OpnVerif.Props.C18
import OpnVerif.Props.C13

namespace Opn.C03
open Opn

/-- opn2_setNumChips: for every `int` the result is 0 exactly for 1..100, otherwise -1 and nothing changes -/
theorem setNumChips_total (s : Settings.S) (n : Int) :
    (Settings.step s (.numChips n)).2 = some (if 1 ≤ n ∧ n ≤ 100 then 0 else -1) ∧
    (¬ (1 ≤ n ∧ n ≤ 100) → (Settings.step s (.numChips n)).1 = s) := by
  refine ⟨C18.numChips_result s n, ?_⟩
  intro h
  apply C18.rejected_unchanged s (.numChips n) rfl
  rw [C18.numChips_result]; simp [h]

/-- opn2_switchEmulator: for every `int` (also negative values and values ≥ 32, where a shift of the availability mask
    would be undefined) the result is -1 outside the compiled range and nothing changes -/
theorem switchEmulator_total (s : Settings.S) (e : Int) :
    (Settings.step s (.emulator e)).2 = some (if 0 ≤ e ∧ e < Settings.emuCount then 0 else -1) ∧
    (¬ (0 ≤ e ∧ e < Settings.emuCount) → (Settings.step s (.emulator e)).1 = s) := by
  refine ⟨C18.emulator_result s e, ?_⟩
  intro h
  apply C18.rejected_unchanged s (.emulator e) rfl
  rw [C18.emulator_result]; simp [h]

theorem setDeviceIdentifier_total (s : Settings.S) (id : Nat) :
    (Settings.step s (.devId id)).2 = some (if id ≤ 15 then 0 else -1) ∧ (15 < id → (Settings.step s (.devId id)).1 = s) := by
  refine ⟨C18.devId_result s id, ?_⟩
  intro h
  apply C18.rejected_unchanged s (.devId id) rfl
  rw [C18.devId_result]; simp; omega

/-- every real-time entry point maps its 8-bit channel argument to an index inside the MIDI channel table
    (16·k records, k ≥ 1): `channel % 16` whenever the argument is not a valid index -/
theorem normChan_in_range (s : Synth.S) (channel : Nat) (h16 : 16 ≤ s.midi.length) :
    ∃ c, (Synth.normChan channel).run s = .ok (c, s) ∧ c < s.midi.length := by
  refine ⟨if channel ≥ s.midi.length then channel % 16 else channel, rfl, ?_⟩
  split
  · have := Nat.mod_lt channel (show 16 > 0 by decide); omega
  · omega

/-- opn2_rt_patchChange stores a program below 128 for every 8-bit argument -/
theorem patch_masked (p : Nat) : p % 128 < 128 := Nat.mod_lt _ (by decide)


/-! ## the configuration surface as a whole (Model/Settings.lean: every setter, reset, bank and music load) -/

open Opn.Settings in
/-- **every configuration call reports one of the documented results** — nothing (void functions), 0, or -1 — for every state
    and every argument value of the parameter types (the model's `step` is total: no call of this surface can fail to return) -/
theorem config_call_result (s : Settings.S) (op : Settings.Op) :
    (Settings.step s op).2 = none ∨ (Settings.step s op).2 = some 0 ∨ (Settings.step s op).2 = some (-1) := by
  cases op <;> simp only [Settings.step] <;> (try split) <;> simp

open Opn.Settings in
/-- a configuration call that reports -1 has changed nothing (a music load re-applies the setup, which C18 shows to be the
    identity on every reachable state: `C18.music_keeps`) -/
theorem config_call_failed_frame (s : Settings.S) (op : Settings.Op) (h : (Settings.step s op).2 = some (-1))
    (hm : op ≠ .musicRejected ∧ op ≠ .musicAccepted) : (Settings.step s op).1 = s := by
  cases op <;> simp only [Settings.step] at h ⊢ <;> (try split at h) <;> simp_all

/-- … and for every sequence of configuration calls, from the fresh instance: the run is defined, every state on the way is
    consistent (C18), so in particular a refused music file changes nothing at any point of any history -/
theorem config_history_safe (ops : List Settings.Op) :
    let s := ops.foldl (fun s op => (Settings.step s op).1) ({} : Settings.S)
    (Settings.step s .musicRejected).1 = s ∧ (Settings.step s .musicAccepted).1 = s := by
  intro s
  have hc := C18.consistent_reachable ops
  have := C18.music_keeps s hc
  exact ⟨this.2, this.1⟩

end Opn.C03
