/-
  C04 — Voice-allocation bookkeeping stays consistent after every call.

  Full statement: `Inv (run init ops)` for every operation sequence, with `Inv` = `invB` of Spec/Inv.lean (I1…I6).
  Proved here (`…_partial`): the invariant holds initially, and the pure list operations every bookkeeping step of the
  model is built from (user lists: find-or-create, mark, erase; note lists: create, clean-up-and-erase) preserve the
  clauses they can affect (I3, I4).  The composition of these steps through the monadic loops of noteUpdate,
  killSustainingNotes, prepareChipChannelForNewNote etc. is NOT yet a theorem: for whole calls the invariant is
  evaluated by the model driver after every operation (any violation is printed and breaks the correspondence) and by
  the Python monitor on the implementation's snapshots.
-/
import OpnVerif.Spec.Inv

namespace Opn.C04
open Opn Opn.Synth

/-- the invariant of C04 as a proposition -/
def Inv (s : S) : Prop := invB s = true

/-- the full statement (not yet proved for composite calls; see the header) -/
def C04_full (run : List String → S) : Prop := ∀ ops, Inv (run ops)

theorem inv_init_partial : Inv Synth.init := by unfold Inv; decide +kernel

/-! ## user lists (I3: a location appears at most once per chip channel) -/

def locs (cc : ChipCh) : List (Nat × Nat) := cc.users.map fun u => (u.midCh, u.key)

theorem mem_locs_iff_any (cc : ChipCh) (m k : Nat) : (m, k) ∈ locs cc ↔ cc.users.any (·.isLoc m k) = true := by
  simp only [locs, List.mem_map, List.any_eq_true, User.isLoc, Bool.and_eq_true, beq_iff_eq, Prod.mk.injEq]

/-- find_or_create_user never introduces a duplicate location -/
theorem findOrCreateUser_nodup_partial (cc : ChipCh) (m k : Nat) (h : (locs cc).Nodup) :
    (locs (findOrCreateUser cc m k).1).Nodup := by
  unfold findOrCreateUser
  split
  · exact h
  · rename_i habs
    split
    · simp only [locs, List.map_append, List.map_cons, List.map_nil, newUser]
      rw [List.nodup_append]
      refine ⟨h, by simp, ?_⟩
      intro a ha b hb
      simp only [List.mem_singleton] at hb
      subst hb
      intro e; subst e
      exact habs ((mem_locs_iff_any cc m k).mp ha)
    · exact h

/-- marking / unmarking users (pedal, sostenuto, timers) keeps the locations, hence their uniqueness -/
theorem modUser_nodup_partial (cc : ChipCh) (m k : Nat) (f : User → User) (hf : ∀ u, (f u).midCh = u.midCh ∧ (f u).key = u.key)
    (h : (locs cc).Nodup) : (locs (modUser cc m k f)).Nodup := by
  have : locs (modUser cc m k f) = locs cc := by
    simp only [locs, modUser, List.map_map]
    apply List.map_congr_left
    intro u _
    simp only [Function.comp]
    split
    · rw [(hf u).1, (hf u).2]
    · rfl
  rw [this]; exact h

/-- erasing a user keeps uniqueness and removes exactly that location -/
theorem eraseUser_nodup_partial (cc : ChipCh) (m k : Nat) (h : (locs cc).Nodup) :
    (locs (eraseUser cc m k)).Nodup ∧ (m, k) ∉ locs (eraseUser cc m k) := by
  constructor
  · simp only [locs, eraseUser]
    exact List.Nodup.sublist (List.Sublist.map _ List.filter_sublist) h
  · intro hmem
    simp only [locs, eraseUser, List.mem_map, List.mem_filter, Prod.mk.injEq] at hmem
    obtain ⟨u, ⟨_, hne⟩, h1, h2⟩ := hmem
    simp [User.isLoc, h1, h2] at hne

/-- ageing (addAge) keeps the locations -/
theorem addAge_locs_partial (cc : ChipCh) (us : Int) : locs (addAge cc us) = locs cc := by
  unfold addAge locs
  split
  · rfl
  · simp only [List.map_map]
    apply List.map_congr_left
    intro u _; rfl

/-! ## note lists (I3: a key appears at most once per MIDI channel; I4: the two counters) -/

def countersOk (m : MidiCh) : Prop :=
  m.glidingCount = (m.notes.filter (·.gliding)).length ∧ m.extCount = (m.notes.filter (fun n => decide (n.ttl > 0))).length

/-- the filtered list is the original list without exactly the note found under `key` -/
theorem filter_without (n : Note) (key : Nat) (p : Note → Bool) : ∀ (l : List Note), (l.map (·.key)).Nodup →
    l.find? (·.key == key) = some n →
    ((l.filter (fun x => !(x.key == key))).filter p).length + (if p n then 1 else 0) = (l.filter p).length := by
  intro l
  induction l with
  | nil => intro _ h; cases h
  | cons a l ih =>
    intro hnd hf
    simp only [List.map_cons, List.nodup_cons] at hnd
    by_cases ha : a.key = key
    · have e : (a.key == key) = true := by simp [ha]
      simp only [List.find?_cons, e] at hf
      injection hf with hf; subst hf
      have hrest : l.filter (fun x => !(x.key == key)) = l := by
        apply List.filter_eq_self.mpr
        intro x hx
        have : x.key ≠ key := fun e2 => hnd.1 (by rw [ha, ← e2]; exact List.mem_map.mpr ⟨x, hx, rfl⟩)
        simp [this]
      simp only [List.filter_cons, e, Bool.not_true, Bool.false_eq_true, if_false, hrest]
      by_cases hp : p a = true
      · simp only [hp, if_true, List.length_cons]
      · simp only [hp, Bool.false_eq_true, if_false]; omega
    · have e : (a.key == key) = false := by simp [ha]
      simp only [List.find?_cons, e] at hf
      have := ih hnd.2 hf
      simp only [List.filter_cons, e, Bool.not_false, if_true]
      by_cases hp : p a = true
      · simp only [hp, if_true, List.length_cons]; omega
      · simp only [hp, Bool.false_eq_true, if_false]; exact this

/-- removing a note the way cleanupNote + erase do it keeps both counters exact -/
theorem cleanup_erase_counters_partial (m : MidiCh) (key : Nat) (n : Note) (hk : (m.notes.map (·.key)).Nodup)
    (hn : findNote m key = some n) (hc : countersOk m) :
    (if n.gliding then m.glidingCount - 1 else m.glidingCount) =
        ((m.notes.filter (fun x => !(x.key == key))).filter (·.gliding)).length ∧
    (if n.ttl > 0 then m.extCount - 1 else m.extCount) =
        ((m.notes.filter (fun x => !(x.key == key))).filter (fun x => decide (x.ttl > 0))).length := by
  unfold findNote at hn
  obtain ⟨h1, h2⟩ := hc
  have g := filter_without n key (·.gliding) m.notes hk hn
  have t := filter_without n key (fun x => decide (x.ttl > 0)) m.notes hk hn
  constructor
  · by_cases hg : n.gliding = true
    · simp only [hg, if_true] at g ⊢; omega
    · simp only [hg, Bool.false_eq_true, if_false] at g ⊢; omega
  · by_cases hg : n.ttl > 0
    · have hd : decide (n.ttl > 0) = true := by simp [hg]
      rw [hd] at t
      rw [if_pos hg]
      simp only [if_true] at t; omega
    · have hd : decide (n.ttl > 0) = false := by simp [hg]
      rw [hd] at t
      rw [if_neg hg]
      simp only [Bool.false_eq_true, if_false] at t; omega

/-- removing a note keeps key uniqueness -/
theorem erase_note_nodup_partial (m : MidiCh) (key : Nat) (hk : (m.notes.map (·.key)).Nodup) :
    ((m.notes.filter (fun x => !(x.key == key))).map (·.key)).Nodup :=
  List.Nodup.sublist (List.Sublist.map _ List.filter_sublist) hk

/-- appending a note with a fresh key (find_or_create_activenote, "create" case) keeps key uniqueness and the counters
    when they are bumped as realTime_NoteOn does -/
theorem create_note_partial (m : MidiCh) (ni : Note) (hk : (m.notes.map (·.key)).Nodup) (habs : findNote m ni.key = none)
    (hc : countersOk m) :
    ((m.notes ++ [ni]).map (·.key)).Nodup ∧
    m.glidingCount + (if ni.gliding then 1 else 0) = ((m.notes ++ [ni]).filter (·.gliding)).length ∧
    m.extCount + (if ni.ttl > 0 then 1 else 0) = ((m.notes ++ [ni]).filter (fun x => decide (x.ttl > 0))).length := by
  obtain ⟨h1, h2⟩ := hc
  refine ⟨?_, ?_, ?_⟩
  · rw [List.map_append, List.nodup_append]
    refine ⟨hk, by simp, ?_⟩
    intro a ha b hb
    simp only [List.map_cons, List.map_nil, List.mem_singleton] at hb
    subst hb
    intro e; subst e
    obtain ⟨x, hx, hxe⟩ := List.mem_map.mp ha
    unfold findNote at habs
    have := List.find?_eq_none.mp habs x hx
    simp [hxe] at this
  · rw [List.filter_append, List.length_append, h1]
    by_cases hg : ni.gliding = true <;> simp [hg]
  · rw [List.filter_append, List.length_append, h2]
    by_cases hg : ni.ttl > 0
    · have : decide (ni.ttl > 0) = true := by simp [hg]
      simp [hg, this]
    · have : decide (ni.ttl > 0) = false := by simp [hg]
      simp [hg, this]


/-! ## the decision steps of noteUpdate / killSustainingNotes / markSostenutoNotes keep I3

(these are the pure functions the executable model calls for the note-off of one voice, the release of pedals and the sostenuto mark) -/

/-- the note-off of one voice keeps the user locations of its chip channel unique, with or without the pedal -/
theorem offVoice_nodup_partial (sustain : Bool) (cc : ChipCh) (m k : Nat) (h : (locs cc).Nodup) :
    (locs (offVoice sustain cc m k).1).Nodup := by
  unfold offVoice
  cases sustain with
  | false =>
    simp only [Bool.not_false, if_true]
    repeat' split
    all_goals first | exact (eraseUser_nodup_partial cc m k h).1 | exact h
  | true =>
    simp only [Bool.not_true, Bool.false_eq_true, if_false]
    have h1 := findOrCreateUser_nodup_partial cc m k h
    split
    · exact modUser_nodup_partial _ m k _ (fun u => ⟨rfl, rfl⟩) h1
    · exact h1

/-- when the note-off reports the channel silent, it has no user left -/
theorem offVoice_silent_empty_partial (sustain : Bool) (cc : ChipCh) (m k : Nat) (h : (offVoice sustain cc m k).2 = true) :
    (offVoice sustain cc m k).1.users = [] := by
  unfold offVoice at h ⊢
  cases sustain with
  | false =>
    simp only [Bool.not_false, if_true] at h ⊢
    simp only [Bool.and_eq_true] at h
    exact List.isEmpty_iff.1 h.2
  | true => simp at h

/-- pressing sostenuto changes no location -/
theorem markSost_locs_partial (m : Nat) (cc : ChipCh) : locs (markSost m cc) = locs cc := by
  simp only [locs, markSost, List.map_map]
  apply List.map_congr_left
  intro u _
  simp only [Function.comp]
  split <;> rfl


/-- **the note-on guard is exactly the condition under which the user can be listed**: find_or_create_user fails iff the list is
    full (128) and the location absent — which is what realTime_NoteOn tests before it lets the note refer to the chip channel
    (an accepted note is therefore always listed by its chip channel: I1 at the moment of creation) -/
theorem findOrCreateUser_fails_iff (cc : ChipCh) (m k : Nat) :
    (findOrCreateUser cc m k).2 = false ↔ (cc.users.length = 128 ∧ cc.users.any (·.isLoc m k) = false) := by
  unfold findOrCreateUser
  by_cases h : cc.users.any (·.isLoc m k) = true
  · simp [h]
  · have h' : cc.users.any (·.isLoc m k) = false := by simpa using h
    by_cases hl : cc.users.length = 128
    · simp [h', hl]
    · simp [h', hl]

/-- … and when it succeeds the location is listed afterwards -/
theorem findOrCreateUser_lists_partial (cc : ChipCh) (m k : Nat) (h : (findOrCreateUser cc m k).2 = true) :
    (findOrCreateUser cc m k).1.users.any (·.isLoc m k) = true := by
  unfold findOrCreateUser at h ⊢
  by_cases h1 : cc.users.any (·.isLoc m k) = true
  · simp [h1]
  · have h' : cc.users.any (·.isLoc m k) = false := by simpa using h1
    by_cases hl : cc.users.length = 128
    · simp [h', hl] at h
    · have hne : (cc.users.length != 128) = true := by simpa using hl
      simp only [h', Bool.false_eq_true, if_false, hne, if_true, List.any_append, List.any_cons, List.any_nil, Bool.or_false]
      simp [User.isLoc, newUser]

end Opn.C04
