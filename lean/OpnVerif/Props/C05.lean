/-
  C05 — A note sounds exactly while its key, the pedal or sostenuto holds it.
  (first instalment: the constants and the pure user-list operations the pedal logic is built from)
-/
import OpnVerif.Model.Synth

namespace Opn.C05
open Opn Opn.Synth

/-- the percussion life-time extension is the double nearest to 0.03 s -/
theorem drum_min_time : (2999 : Rat) / 100000 < drumNoteMinTime ∧ drumNoteMinTime < (3001 : Rat) / 100000 := by decide +kernel

/-- erasing a user removes exactly that location -/
theorem eraseUser_spec (cc : ChipCh) (m k : Nat) (u : User) :
    u ∈ (eraseUser cc m k).users ↔ u ∈ cc.users ∧ ¬ (u.midCh = m ∧ u.key = k) := by
  simp only [eraseUser, User.isLoc, List.mem_filter, Bool.not_eq_true', Bool.and_eq_false_iff, beq_eq_false_iff_ne, ne_eq,
    Bool.and_eq_true, beq_iff_eq]
  constructor
  · rintro ⟨h1, h2⟩; exact ⟨h1, fun ⟨a, b⟩ => by rcases h2 with h | h <;> contradiction⟩
  · rintro ⟨h1, h2⟩
    refine ⟨h1, ?_⟩
    by_cases hm : u.midCh = m
    · exact Or.inr (fun hk => h2 ⟨hm, hk⟩)
    · exact Or.inl hm

/-- marking / unmarking a user never changes which locations a chip channel lists -/
theorem modUser_locs (cc : ChipCh) (m k : Nat) (f : User → User) (hf : ∀ u, (f u).midCh = u.midCh ∧ (f u).key = u.key) :
    (modUser cc m k f).users.map (fun u => (u.midCh, u.key)) = cc.users.map (fun u => (u.midCh, u.key)) := by
  simp only [modUser, List.map_map]
  apply List.map_congr_left
  intro u _
  simp only [Function.comp]
  split
  · rw [(hf u).1, (hf u).2]
  · rfl

/-- find_or_create_user adds at most the requested location, at the end, and only when it was absent -/
theorem findOrCreateUser_spec (cc : ChipCh) (m k : Nat) :
    ((findOrCreateUser cc m k).2 = true → (findOrCreateUser cc m k).1.users.any (·.isLoc m k) = true) ∧
    ((findOrCreateUser cc m k).1.users = cc.users ∨ (findOrCreateUser cc m k).1.users = cc.users ++ [newUser m k]) := by
  unfold findOrCreateUser
  split
  · rename_i h; exact ⟨fun _ => h, Or.inl rfl⟩
  · split
    · refine ⟨fun _ => ?_, Or.inr rfl⟩
      simp [User.isLoc, newUser]
    · exact ⟨fun h => by simp at h, Or.inl rfl⟩

end Opn.C05
