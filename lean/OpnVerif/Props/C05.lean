/-
  C05 — A note sounds exactly while its key, the pedal or sostenuto holds it.
  (the constants, the pure user-list operations the pedal logic is built from, and the statement's rules for one voice:
  the decisions of noteUpdate/Upd_Off, killSustainingNotes and markSostenutoNotes, which the executable model calls)
-/
import OpnVerif.Model.Synth

namespace Opn.C05
open Opn Opn.Synth

/-- the percussion life-time extension is the double nearest to 0.03 s -/
theorem drum_min_time : (2999 : Rat) / 100000 < drumNoteMinTime ∧ drumNoteMinTime < (3001 : Rat) / 100000 := by decide +kernel

/-- erasing a user removes exactly that location -/
theorem eraseUser_spec (cc : ChipCh) (m k : Nat) (u : User) :
    u ∈ (eraseUser cc m k).users ↔ u ∈ cc.users ∧ ¬ (u.midCh = m ∧ u.key = k) := by
  simp only [eraseUser, User.isLoc, List.mem_filter, Bool.not_eq_true', Bool.and_eq_false_iff, beq_eq_false_iff_ne, ne_eq,
    Bool.and_eq_true, beq_iff_eq]
  constructor
  · rintro ⟨h1, h2⟩; exact ⟨h1, fun ⟨a, b⟩ => by rcases h2 with h | h <;> contradiction⟩
  · rintro ⟨h1, h2⟩
    refine ⟨h1, ?_⟩
    by_cases hm : u.midCh = m
    · exact Or.inr (fun hk => h2 ⟨hm, hk⟩)
    · exact Or.inl hm

/-- marking / unmarking a user never changes which locations a chip channel lists -/
theorem modUser_locs (cc : ChipCh) (m k : Nat) (f : User → User) (hf : ∀ u, (f u).midCh = u.midCh ∧ (f u).key = u.key) :
    (modUser cc m k f).users.map (fun u => (u.midCh, u.key)) = cc.users.map (fun u => (u.midCh, u.key)) := by
  simp only [modUser, List.map_map]
  apply List.map_congr_left
  intro u _
  simp only [Function.comp]
  split
  · rw [(hf u).1, (hf u).2]
  · rfl

/-- find_or_create_user adds at most the requested location, at the end, and only when it was absent -/
theorem findOrCreateUser_spec (cc : ChipCh) (m k : Nat) :
    ((findOrCreateUser cc m k).2 = true → (findOrCreateUser cc m k).1.users.any (·.isLoc m k) = true) ∧
    ((findOrCreateUser cc m k).1.users = cc.users ∨ (findOrCreateUser cc m k).1.users = cc.users ++ [newUser m k]) := by
  unfold findOrCreateUser
  split
  · rename_i h; exact ⟨fun _ => h, Or.inl rfl⟩
  · split
    · refine ⟨fun _ => ?_, Or.inr rfl⟩
      simp [User.isLoc, newUser]
    · exact ⟨fun h => by simp at h, Or.inl rfl⟩


/-! ## the rules of the statement, for one voice (decision logic of noteUpdate/Upd_Off, killSustainingNotes, markSostenutoNotes)

Hold flags of a user: bit 1 = held by the sustain pedal, bit 2 = held by sostenuto; 0 = the key is down. -/

/-- **note-off, no pedal, no sostenuto: the voice ends** — no user of that (channel, key) is left on the chip channel -/
theorem key_release_ends_voice (cc : ChipCh) (m k : Nat) (u : User)
    (hf : cc.users.find? (·.isLoc m k) = some u) (hs : u.sus / 2 % 2 = 0) :
    ∀ v ∈ (offVoice false cc m k).1.users, ¬ (v.midCh = m ∧ v.key = k) := by
  intro v hv
  have : (offVoice false cc m k).1 = eraseUser cc m k := by
    simp [offVoice, hf, hs]
  rw [this] at hv
  exact ((eraseUser_spec cc m k v).1 hv).2

/-- … and the chip channel is reported silent exactly when that was its last user -/
theorem key_release_silent_iff (cc : ChipCh) (m k : Nat) (u : User)
    (hf : cc.users.find? (·.isLoc m k) = some u) (hs : u.sus / 2 % 2 = 0) :
    (offVoice false cc m k).2 = (eraseUser cc m k).users.isEmpty := by
  simp [offVoice, hf, hs]

/-- **note-off while sostenuto holds the key: nothing changes** -/
theorem key_release_sostenuto_holds (cc : ChipCh) (m k : Nat) (u : User)
    (hf : cc.users.find? (·.isLoc m k) = some u) (hs : u.sus / 2 % 2 = 1) :
    offVoice false cc m k = (cc, false) := by
  simp [offVoice, hf, hs]

theorem or_one_odd (n : Nat) : (n ||| 1) % 2 = 1 := by
  exact (Nat.or_mod_two_eq_one (a := n) (b := 1)).2 (Or.inr rfl)

/-- **note-off while the pedal is down: every user stays, the released one is marked pedal-held, the channel is not silenced** -/
theorem key_release_pedal_holds (cc : ChipCh) (m k : Nat) (hp : cc.users.any (·.isLoc m k) = true) :
    (offVoice true cc m k).2 = false ∧
    (offVoice true cc m k).1.users.map (fun u => (u.midCh, u.key)) = cc.users.map (fun u => (u.midCh, u.key)) ∧
    ∀ v ∈ (offVoice true cc m k).1.users, v.isLoc m k = true → v.sus % 2 = 1 := by
  have hfc : findOrCreateUser cc m k = (cc, true) := by simp [findOrCreateUser, hp]
  have hov : offVoice true cc m k = (modUser cc m k (fun d => { d with sus := d.sus ||| 1 }), false) := by
    simp [offVoice, hfc]
  rw [hov]
  refine ⟨rfl, modUser_locs cc m k _ (fun u => ⟨rfl, rfl⟩), ?_⟩
  intro v hv hl
  simp only [modUser, List.mem_map] at hv
  obtain ⟨u, _, rfl⟩ := hv
  by_cases hu : u.isLoc m k = true
  · simp only [hu, if_true]; exact or_one_odd _
  · simp only [hu] at hl ⊢
    simp at hl
    exact absurd hl hu

/-! ### ending the holds: killSustainingNotes per user -/

/-- a key that is down (no hold flag) is never touched by the release of a pedal, a controller reset or panic's hold clearing -/
theorem key_down_untouched (mc : Option Nat) (t : Nat) (u : User) (h : u.sus = 0) : killApplies mc t u = false := by
  simp [killApplies, h]

/-- the release of a pedal on one MIDI channel leaves the users of other MIDI channels alone -/
theorem other_channel_untouched (m t : Nat) (u : User) (h : m ≠ u.midCh) : killApplies (some m) t u = false := by
  simp [killApplies, h]

/-- the flag arithmetic, for all flag values and all release kinds (1 pedal, 2 sostenuto, 3 both):
    a release concerns a user iff it holds one of the released flags, and clears exactly those -/
theorem release_table : ∀ s < 4, ∀ t < 4,
    ((s &&& t) != 0) = (decide (s % 2 = 1 ∧ t % 2 = 1) || decide (s / 2 = 1 ∧ t / 2 = 1)) ∧
    (s &&& (3 - t % 4)) % 2 = (if t % 2 = 1 then 0 else s % 2) ∧
    (s &&& (3 - t % 4)) / 2 = (if t / 2 = 1 then 0 else s / 2) := by decide

/-- **pedal release ends a pedal-only hold** (the user is then erased unless its key is down again) -/
theorem pedal_release_ends_pedal_hold (u : User) (h : u.sus = 1) : killApplies (some u.midCh) 1 u = true ∧ susAfter 1 u = 0 := by
  simp [killApplies, susAfter, h]

/-- **pedal release keeps a note that sostenuto also holds** -/
theorem pedal_release_keeps_sostenuto (u : User) (h : u.sus = 3) : killApplies (some u.midCh) 1 u = true ∧ susAfter 1 u = 2 := by
  simp [killApplies, susAfter, h]

/-- **sostenuto release ends a sostenuto-only hold and keeps a pedal hold** -/
theorem sostenuto_release (u : User) : (u.sus = 2 → killApplies (some u.midCh) 2 u = true ∧ susAfter 2 u = 0) ∧
    (u.sus = 3 → killApplies (some u.midCh) 2 u = true ∧ susAfter 2 u = 1) ∧ (u.sus = 1 → killApplies (some u.midCh) 2 u = false) := by
  refine ⟨fun h => ?_, fun h => ?_, fun h => ?_⟩ <;> simp [killApplies, susAfter, h]

/-- **Reset-All-Controllers, a controller-state reset and panic (release kind 3) end every hold** -/
theorem reset_ends_all_holds (mc : Option Nat) (u : User) (hlt : u.sus < 4) (h : u.sus ≠ 0) (hm : mc = none ∨ mc = some u.midCh) :
    killApplies mc 3 u = true ∧ susAfter 3 u = 0 := by
  have : u.sus = 1 ∨ u.sus = 2 ∨ u.sus = 3 := by omega
  rcases hm with rfl | rfl <;> rcases this with h | h | h <;> simp [killApplies, susAfter, h]

/-- **the pedal cycle**: a key released under the pedal becomes pedal-held (flag 1), and the pedal's release then ends it -/
theorem pedal_cycle (cc : ChipCh) (m k : Nat) (u : User) (hu : u ∈ cc.users) (hl : u.isLoc m k = true) (h0 : u.sus = 0) :
    ∃ v ∈ (offVoice true cc m k).1.users, v.isLoc m k = true ∧ v.sus = 1 ∧ killApplies (some m) 1 v = true ∧ susAfter 1 v = 0 := by
  have hp : cc.users.any (·.isLoc m k) = true := List.any_eq_true.2 ⟨u, hu, hl⟩
  have hfc : findOrCreateUser cc m k = (cc, true) := by simp [findOrCreateUser, hp]
  have hov : (offVoice true cc m k).1 = modUser cc m k (fun d => { d with sus := d.sus ||| 1 }) := by
    simp [offVoice, hfc]
  rw [hov]
  refine ⟨{ u with sus := u.sus ||| 1 }, ?_, ?_, ?_, ?_, ?_⟩
  · simp only [modUser, List.mem_map]
    exact ⟨u, hu, by simp [hl]⟩
  · simpa [User.isLoc] using hl
  · simp [h0]
  · have hm : u.midCh = m := by simp [User.isLoc] at hl; exact hl.1
    simp [killApplies, h0, hm]
  · simp [susAfter, h0]

/-! ### sostenuto only catches the keys that are down when it is pressed -/

/-- pressing sostenuto marks exactly the key-down users of that MIDI channel; pedal-held ones and other channels' users are unchanged,
    and no user is added or removed (a key struck later gets a fresh user with flag 0: `noteUpdate`/Upd_Patch) -/
theorem markSost_spec (m : Nat) (cc : ChipCh) :
    (markSost m cc).users.length = cc.users.length ∧
    ∀ i (h : i < cc.users.length), ((markSost m cc).users[i]?) =
      some (if cc.users[i].midCh = m ∧ cc.users[i].sus = 0 then { cc.users[i] with sus := 2 } else cc.users[i]) := by
  refine ⟨by simp [markSost], ?_⟩
  intro i h
  simp only [markSost, List.getElem?_map, List.getElem?_eq_getElem h, Option.map_some]
  by_cases hc : cc.users[i].midCh = m ∧ cc.users[i].sus = 0
  · simp [hc.1, hc.2]
  · simp only [hc, if_false]
    by_cases h1 : cc.users[i].midCh = m
    · have : cc.users[i].sus ≠ 0 := fun h2 => hc ⟨h1, h2⟩
      simp [h1, this]
    · simp [h1]

end Opn.C05
