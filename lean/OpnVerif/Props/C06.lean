/-
  C06 — A new note never displaces a sounding note while a chip channel is idle.
  Arithmetic of calculateChipChannelGoodness (model: `goodnessP`) under the statement's 10-minute bound.
-/
import OpnVerif.Model.Synth

namespace Opn.C06
open Opn Opn.Synth

/-! ## C++ truncating division, bounded -/

theorem tdiv_eq_of_nonneg (x : Int) (c : Int) (h : 0 ≤ x) : Int.tdiv x c = x / c := Int.tdiv_eq_ediv_of_nonneg h

theorem tdiv_of_neg (x : Int) (c : Int) (h : x < 0) : Int.tdiv x c = -((-x) / c) := by
  have h1 : x = -(-x) := by omega
  rw [h1, Int.neg_tdiv, Int.tdiv_eq_ediv_of_nonneg (by omega)]
  simp

theorem tdiv1000_ge (x L : Int) (hL : L ≤ 0) (h : L * 1000 ≤ x) : L ≤ Int.tdiv x 1000 := by
  by_cases hx : 0 ≤ x
  · rw [tdiv_eq_of_nonneg x 1000 hx]; omega
  · rw [tdiv_of_neg x 1000 (by omega)]; omega

theorem tdiv1000_le (x U : Int) (hU : 0 ≤ U) (h : x ≤ U * 1000) : Int.tdiv x 1000 ≤ U := by
  by_cases hx : 0 ≤ x
  · rw [tdiv_eq_of_nonneg x 1000 hx]; omega
  · rw [tdiv_of_neg x 1000 (by omega)]; omega

theorem tdiv2_ge (x L : Int) (hL : L ≤ 0) (h : L * 2 ≤ x) : L ≤ Int.tdiv x 2 := by
  by_cases hx : 0 ≤ x
  · rw [tdiv_eq_of_nonneg x 2 hx]; omega
  · rw [tdiv_of_neg x 2 (by omega)]; omega

theorem tdiv2_le (x U : Int) (hU : 0 ≤ U) (h : x ≤ U * 2) : Int.tdiv x 2 ≤ U := by
  by_cases hx : 0 ≤ x
  · rw [tdiv_eq_of_nonneg x 2 hx]; omega
  · rw [tdiv_of_neg x 2 (by omega)]; omega

/-! ## the statement's bound: histories of at most 10 simulated minutes -/

/-- 10 minutes in milliseconds -/
def T : Int := 600000

/-- every user's key-on timer is at most 10 minutes below zero and at most the 16-bit instrument delay above it -/
def Young (chan : ChipCh) : Prop := ∀ u ∈ chan.users, -T * 1000 ≤ u.kon ∧ u.kon ≤ 65535 * 1000

def KoffOk (chan : ChipCh) : Prop := 0 ≤ chan.koff ∧ chan.koff ≤ 65535 * 1000

theorem userBonus_bounds (mc : Option MidiCh) (ins : Timbre) (u : User) : 0 ≤ userBonus mc ins u ∧ userBonus mc ins u ≤ 360 := by
  unfold userBonus
  split
  · split <;> split <;> (try split) <;> simp
  · simp

/-- a key-down user costs at least 3 399 640 points, a pedal-held one at least 199 640 and at most 532 768 -/
theorem userDelta_bounds (mc : Option MidiCh) (ins : Timbre) (u : User) (h1 : -T * 1000 ≤ u.kon) (h2 : u.kon ≤ 65535 * 1000) :
    (u.sus = 0 → userDelta mc ins u ≤ -3399640) ∧ (u.sus ≠ 0 → userDelta mc ins u ≤ -199640 ∧ -532768 ≤ userDelta mc ins u) := by
  simp only [T] at h1
  have a1 := tdiv1000_ge u.kon (-600000) (by decide) (by omega)
  have a2 := tdiv1000_le u.kon 65535 (by decide) h2
  have b1 := tdiv2_ge (Int.tdiv u.kon 1000) (-300000) (by decide) (by omega)
  have b2 := tdiv2_le (Int.tdiv u.kon 1000) 32768 (by decide) (by omega)
  obtain ⟨hb0, hb1⟩ := userBonus_bounds mc ins u
  constructor
  · intro hs
    simp only [userDelta, hs, beq_self_eq_true, if_true]
    omega
  · intro hs
    have : (u.sus == 0) = false := by simp [hs]
    simp only [userDelta, this, Bool.false_eq_true, if_false]
    omega

theorem foldl_delta_le (midi : List MidiCh) (ins : Timbre) : ∀ (us : List User) (base : Int),
    (∀ u ∈ us, -T * 1000 ≤ u.kon ∧ u.kon ≤ 65535 * 1000) →
    us.foldl (fun sc jd => sc + userDelta (midi[jd.midCh]?) ins jd) base ≤ base - 199640 * us.length
  | [], base, _ => by simp
  | u :: us, base, h => by
      have hu := h u (by simp)
      have hd := userDelta_bounds (midi[u.midCh]?) ins u hu.1 hu.2
      have hle : userDelta (midi[u.midCh]?) ins u ≤ -199640 := by
        by_cases hs : u.sus = 0
        · have := hd.1 hs; omega
        · exact (hd.2 hs).1
      have ih := foldl_delta_le midi ins us (base + userDelta (midi[u.midCh]?) ins u) (fun x hx => h x (by simp [hx]))
      simp only [List.foldl_cons, List.length_cons]
      have : ((us.length + 1 : Nat) : Int) = (us.length : Int) + 1 := by omega
      rw [this]
      omega

/-- **a chip channel without users scores at least −105 535** (whatever it released and however recently) -/
theorem idle_lower (midi : List MidiCh) (alloc : Int) (mm : Nat) (chan : ChipCh) (ins : Timbre)
    (hu : chan.users = []) (hk : KoffOk chan) : -105535 ≤ goodnessP midi alloc mm chan ins := by
  have a1 := tdiv1000_ge chan.koff 0 (by decide) (by simpa using hk.1)
  have a2 := tdiv1000_le chan.koff 65535 (by decide) hk.2
  unfold goodnessP
  simp only [hu, List.isEmpty_nil, Bool.and_true, List.foldl_nil]
  split
  · split
    · split <;> omega
    · split
      · omega
      · split <;> omega
  · omega

/-- **a chip channel with at least one user scores at most −199 640** within the 10-minute bound -/
theorem busy_upper (midi : List MidiCh) (alloc : Int) (mm : Nat) (chan : ChipCh) (ins : Timbre)
    (hu : chan.users ≠ []) (hy : Young chan) (hk : 0 ≤ chan.koff) : goodnessP midi alloc mm chan ins ≤ -199640 := by
  have a1 := tdiv1000_ge chan.koff 0 (by decide) (by simpa using hk)
  unfold goodnessP
  have he : chan.users.isEmpty = false := by
    cases hc : chan.users with
    | nil => exact absurd hc hu
    | cons _ _ => rfl
  simp only [he, Bool.and_false, Bool.false_eq_true, if_false]
  have := foldl_delta_le midi ins chan.users (-(Int.tdiv chan.koff 1000)) hy
  have hl : 1 ≤ (chan.users.length : Int) := by
    cases hc : chan.users with
    | nil => exact absurd hc hu
    | cons _ _ => simp; omega
  omega

/-- **C06: an idle chip channel always outscores a busy one**, in all four allocation modes -/
theorem idle_beats_busy (midi : List MidiCh) (alloc : Int) (mm : Nat) (a b : ChipCh) (ins : Timbre)
    (ha : a.users = []) (hka : KoffOk a) (hb : b.users ≠ []) (hyb : Young b) (hkb : 0 ≤ b.koff) :
    goodnessP midi alloc mm b ins < goodnessP midi alloc mm a ins := by
  have := idle_lower midi alloc mm a ins ha hka
  have := busy_upper midi alloc mm b ins hb hyb hkb
  omega

/-- **C06: a channel held only by one released-but-pedal-held note outscores every channel with a key-down note** -/
theorem pedal_held_first (midi : List MidiCh) (alloc : Int) (mm : Nat) (p q : ChipCh) (ins : Timbre) (u : User)
    (hp : p.users = [u]) (hus : u.sus ≠ 0) (hyp : Young p) (hkp : KoffOk p)
    (v : User) (hv : v ∈ q.users) (hvs : v.sus = 0) (hyq : Young q) (hkq : 0 ≤ q.koff) :
    goodnessP midi alloc mm q ins < goodnessP midi alloc mm p ins := by
  -- lower bound for p
  have hup := hyp u (by rw [hp]; simp)
  have dp := (userDelta_bounds (midi[u.midCh]?) ins u hup.1 hup.2).2 hus
  have a2 := tdiv1000_le p.koff 65535 (by decide) hkp.2
  have lp : -598303 ≤ goodnessP midi alloc mm p ins := by
    unfold goodnessP
    simp only [hp, List.isEmpty_cons, Bool.and_false, Bool.false_eq_true, if_false, List.foldl_cons, List.foldl_nil]
    omega
  -- upper bound for q: the key-down user alone costs 3 399 640, the others only make it worse
  have a1 := tdiv1000_ge q.koff 0 (by decide) (by simpa using hkq)
  have uq : goodnessP midi alloc mm q ins ≤ -3399640 := by
    unfold goodnessP
    have he : q.users.isEmpty = false := by
      cases hc : q.users with
      | nil => rw [hc] at hv; cases hv
      | cons _ _ => rfl
    simp only [he, Bool.and_false, Bool.false_eq_true, if_false]
    -- split the list at v
    obtain ⟨l1, l2, hl⟩ := List.append_of_mem hv
    rw [hl, List.foldl_append, List.foldl_cons]
    have hy1 : ∀ x ∈ l1, -T * 1000 ≤ x.kon ∧ x.kon ≤ 65535 * 1000 := fun x hx => hyq x (by rw [hl]; simp [hx])
    have hy2 : ∀ x ∈ l2, -T * 1000 ≤ x.kon ∧ x.kon ≤ 65535 * 1000 := fun x hx => hyq x (by rw [hl]; simp [hx])
    have f1 := foldl_delta_le midi ins l1 (-(Int.tdiv q.koff 1000)) hy1
    have hvq := hyq v hv
    have dv := (userDelta_bounds (midi[v.midCh]?) ins v hvq.1 hvq.2).1 hvs
    have f2 := foldl_delta_le midi ins l2
      (l1.foldl (fun sc jd => sc + userDelta (midi[jd.midCh]?) ins jd) (-(Int.tdiv q.koff 1000)) + userDelta (midi[v.midCh]?) ins v) hy2
    have n1 : 0 ≤ (l1.length : Int) := by omega
    have n2 : 0 ≤ (l2.length : Int) := by omega
    omega
  omega

/-- the 10-minute bound is needed: a key held for 67 minutes makes its busy channel outscore an idle one -/
theorem old_note_counterexample :
    let old : User := { midCh := 0, key := 60, sus := 0, timbre := Timbre.zero, fixedSustain := false, kon := -4000000000, vibdelay := 0 }
    let busy : ChipCh := { koff := 0, recent := Timbre.zero, users := [old] }
    let idle : ChipCh := { koff := 1000, recent := { Timbre.zero with fbalg := 1 }, users := [] }
    goodnessP [] (-1) 0 idle Timbre.zero < goodnessP [] (-1) 0 busy Timbre.zero := by decide +kernel

/-- the score always fits the `int32_t` it is truncated to in realTime_NoteOn (so the cast is the identity) -/
theorem score_fits_int32 (midi : List MidiCh) (alloc : Int) (mm : Nat) (chan : ChipCh) (ins : Timbre)
    (hy : Young chan) (hk : KoffOk chan) (hn : chan.users.length ≤ 128) :
    -2147483647 < goodnessP midi alloc mm chan ins ∧ goodnessP midi alloc mm chan ins < 2147483647 := by
  by_cases hu : chan.users = []
  · have := idle_lower midi alloc mm chan ins hu hk
    have a1 := tdiv1000_ge chan.koff 0 (by decide) (by simpa using hk.1)
    refine ⟨by omega, ?_⟩
    unfold goodnessP
    simp only [hu, List.isEmpty_nil, Bool.and_true, List.foldl_nil]
    split
    · split
      · split <;> omega
      · split
        · omega
        · split <;> omega
    · omega
  · have ub := busy_upper midi alloc mm chan ins hu hy hk.1
    refine ⟨?_, by omega⟩
    -- lower bound: every user costs at most 4 065 535
    have a2 := tdiv1000_le chan.koff 65535 (by decide) hk.2
    have lower : ∀ (us : List User) (base : Int), (∀ u ∈ us, -T * 1000 ≤ u.kon ∧ u.kon ≤ 65535 * 1000) →
        base - 4065535 * us.length ≤ us.foldl (fun sc jd => sc + userDelta (midi[jd.midCh]?) ins jd) base := by
      intro us
      induction us with
      | nil => intro base _; simp
      | cons u us ih =>
        intro base h
        have hu := h u (by simp)
        have hu1 := hu.1
        simp only [T] at hu1
        have k1 := tdiv1000_le u.kon 65535 (by decide) hu.2
        have k0 := tdiv1000_ge u.kon (-600000) (by decide) (by omega)
        have k2 := tdiv2_le (Int.tdiv u.kon 1000) 32768 (by decide) (by omega)
        have hd : -4065535 ≤ userDelta (midi[u.midCh]?) ins u := by
          have hb := (userBonus_bounds (midi[u.midCh]?) ins u).1
          unfold userDelta
          split <;> omega
        have := ih (base + userDelta (midi[u.midCh]?) ins u) (fun x hx => h x (by simp [hx]))
        simp only [List.foldl_cons, List.length_cons]
        have e : ((us.length + 1 : Nat) : Int) = (us.length : Int) + 1 := by omega
        rw [e]; omega
    unfold goodnessP
    have he : chan.users.isEmpty = false := by
      cases hc : chan.users with
      | nil => exact absurd hc hu
      | cons _ _ => rfl
    simp only [he, Bool.and_false, Bool.false_eq_true, if_false]
    have := lower chan.users (-(Int.tdiv chan.koff 1000)) hy
    have hl : (chan.users.length : Int) ≤ 128 := by omega
    omega

/-! ## from the score to the allocation: the selection loop is an argmax, and an idle channel is taken without moving anybody -/

theorem cast32_id (x : Int) (h1 : -2147483648 ≤ x) (h2 : x < 2147483648) : toSigned 32 (ofSigned 32 x) = x := by
  unfold toSigned ofSigned
  simp only [Nat.reducePow, Nat.reduceSub]
  have hm : 0 ≤ x % ((4294967296 : Nat) : Int) := Int.emod_nonneg _ (by decide)
  have hl : x % ((4294967296 : Nat) : Int) < 4294967296 := Int.emod_lt_of_pos _ (by decide)
  omega

/-- the selection loop returns the running best unless a later channel scores strictly higher, and what it returns is a maximum -/
theorem selectFrom_spec (s : S) (ins : Timbre) (g : Nat → Int) : ∀ (l : List Nat) (best : Option Nat) (bs : Int),
    (∀ a ∈ l, goodness s a ins = .ok (g a) ∧ -2147483648 ≤ g a ∧ g a < 2147483648) →
    ∃ r, selectFrom s ins l best bs = .ok r ∧
      ((r = best ∧ ∀ a ∈ l, g a ≤ bs) ∨ (∃ c ∈ l, r = some c ∧ bs < g c ∧ ∀ a ∈ l, g a ≤ g c)) := by
  intro l
  induction l with
  | nil => intro best bs _; exact ⟨best, rfl, Or.inl ⟨rfl, by simp⟩⟩
  | cons a rest ih =>
    intro best bs h
    have ha := h a (by simp)
    have hrest : ∀ x ∈ rest, goodness s x ins = .ok (g x) ∧ -2147483648 ≤ g x ∧ g x < 2147483648 := fun x hx => h x (by simp [hx])
    unfold selectFrom
    rw [ha.1]
    by_cases hgt : g a > bs
    · simp only [hgt, if_true]
      rw [cast32_id (g a) ha.2.1 ha.2.2]
      obtain ⟨r, hr, hcase⟩ := ih (some a) (g a) hrest
      refine ⟨r, hr, Or.inr ?_⟩
      rcases hcase with ⟨hre, hall⟩ | ⟨c, hc, hre, hlt, hall⟩
      · exact ⟨a, by simp, hre, hgt, by intro x hx; rcases List.mem_cons.1 hx with rfl | hx; exact Int.le_refl _; exact hall x hx⟩
      · exact ⟨c, by simp [hc], hre, by omega, by intro x hx; rcases List.mem_cons.1 hx with rfl | hx; omega; exact hall x hx⟩
    · simp only [hgt, if_false]
      obtain ⟨r, hr, hcase⟩ := ih best bs hrest
      refine ⟨r, hr, ?_⟩
      rcases hcase with ⟨hre, hall⟩ | ⟨c, hc, hre, hlt, hall⟩
      · exact Or.inl ⟨hre, by intro x hx; rcases List.mem_cons.1 hx with rfl | hx; omega; exact hall x hx⟩
      · exact Or.inr ⟨c, by simp [hc], hre, hlt, by intro x hx; rcases List.mem_cons.1 hx with rfl | hx; omega; exact hall x hx⟩

/-- the state the score theorems speak about: within the 10-minute bound, timers in range, users address existing MIDI channels -/
def Wf (s : S) : Prop := ∀ (c : Nat) (chan : ChipCh), s.chip[c]? = some chan →
  Young chan ∧ KoffOk chan ∧ chan.users.length ≤ 128 ∧ ∀ u ∈ chan.users, u.midCh < s.midi.length

def scoreOf (s : S) (ins : Timbre) (a : Nat) : Int :=
  match s.chip[a]? with
  | some chan => goodnessP s.midi s.chanAlloc s.musicMode chan ins
  | none => 0

theorem goodness_ok (s : S) (ins : Timbre) (hw : Wf s) (a : Nat) (ha : a < s.chip.length) :
    goodness s a ins = .ok (scoreOf s ins a) ∧ -2147483648 ≤ scoreOf s ins a ∧ scoreOf s ins a < 2147483648 := by
  have hget : s.chip[a]? = some s.chip[a] := List.getElem?_eq_getElem ha
  obtain ⟨hy, hk, hn, hm⟩ := hw a _ hget
  have hf : s.chip[a].users.find? (fun jd => decide (jd.midCh ≥ s.midi.length)) = none := by
    rw [List.find?_eq_none]
    intro u hu
    have := hm u hu
    simp; omega
  have hb := score_fits_int32 s.midi s.chanAlloc s.musicMode s.chip[a] ins hy hk hn
  unfold goodness scoreOf
  rw [hget]
  simp only [hf]
  exact ⟨trivial, by omega, by omega⟩

/-- **C06: the channel a new note gets is one with the greatest score** (no fault, no wrap of the 32-bit cast) -/
theorem selectChannel_argmax (s : S) (ins : Timbre) (hw : Wf s) (hne : 0 < s.chip.length) :
    ∃ c, selectChannel s ins = .ok (some c) ∧ c < s.chip.length ∧ ∀ a, a < s.chip.length → scoreOf s ins a ≤ scoreOf s ins c := by
  have hall : ∀ a ∈ List.range (liveChannels s), goodness s a ins = .ok (scoreOf s ins a) ∧ -2147483648 ≤ scoreOf s ins a ∧ scoreOf s ins a < 2147483648 :=
    fun a ha => goodness_ok s ins hw a (by simpa [liveChannels] using ha)
  obtain ⟨r, hr, hcase⟩ := selectFrom_spec s ins (scoreOf s ins) (List.range (liveChannels s)) none (-2147483647) hall
  rcases hcase with ⟨_, hle⟩ | ⟨c, hc, hre, _, hmax⟩
  · -- impossible: channel 0 scores above the initial -2147483647
    exfalso
    have h0 := hle 0 (by simpa [liveChannels] using hne)
    have hget : s.chip[0]? = some s.chip[0] := List.getElem?_eq_getElem hne
    obtain ⟨hy, hk, hn, _⟩ := hw 0 _ hget
    have hb := score_fits_int32 s.midi s.chanAlloc s.musicMode s.chip[0] ins hy hk hn
    unfold scoreOf at h0
    rw [hget] at h0
    simp only at h0
    omega
  · refine ⟨c, ?_, by simpa [liveChannels] using hc, fun a ha => hmax a (by simpa [liveChannels] using ha)⟩
    unfold selectChannel
    rw [hr, hre]

/-- **C06: while a chip channel is idle, the new note gets an idle channel** — and (`prepare_idle_noop`) taking it moves nobody -/
theorem new_note_takes_idle_channel (s : S) (ins : Timbre) (hw : Wf s) (a : Nat) (chanA : ChipCh)
    (ha : s.chip[a]? = some chanA) (hidle : chanA.users = []) :
    ∃ c chanC, selectChannel s ins = .ok (some c) ∧ s.chip[c]? = some chanC ∧ chanC.users = [] := by
  have hlen : a < s.chip.length := by
    rcases List.getElem?_eq_some_iff.1 ha with ⟨h, _⟩; exact h
  obtain ⟨c, hsel, hc, hmax⟩ := selectChannel_argmax s ins hw (by omega)
  have hgc : s.chip[c]? = some s.chip[c] := List.getElem?_eq_getElem hc
  refine ⟨c, s.chip[c], hsel, hgc, ?_⟩
  refine Classical.byContradiction fun hbusy => ?_
  obtain ⟨hyc, hkc, _, _⟩ := hw c _ hgc
  obtain ⟨_, hka, _, _⟩ := hw a _ ha
  have hlt := idle_beats_busy s.midi s.chanAlloc s.musicMode chanA s.chip[c] ins hidle hka hbusy hyc hkc.1
  have hle := hmax a hlen
  unfold scoreOf at hle
  rw [ha, hgc] at hle
  simp only at hle
  omega

/-- taking an idle channel releases, kills and evacuates nobody: prepareChipChannelForNewNote leaves the whole state as it was -/
theorem prepare_idle_noop (s : S) (c : Nat) (ins : Timbre) (chan : ChipCh) (hc : s.chip[c]? = some chan) (hu : chan.users = []) :
    (prepareChipChannelForNewNote c ins).run s = .ok ((), s) := by
  unfold prepareChipChannelForNewNote getChip
  simp [hc, hu, StateT.run, bind, StateT.bind, get, getThe, MonadStateOf.get, StateT.get, pure, StateT.pure, Except.bind, Except.pure]

/-- the hypotheses are met by a reachable state with idle channels: the fresh synthesizer (so the theorems are not vacuous) -/
theorem wf_init : Wf Synth.init := by
  intro c chan h
  have hm : chan ∈ Synth.init.chip := List.mem_of_getElem? h
  have : chan = ChipCh.fresh := by
    simp only [Synth.init] at hm
    exact List.eq_of_mem_replicate hm
  subst this
  refine ⟨?_, ?_, ?_, ?_⟩ <;> simp [Young, KoffOk, ChipCh.fresh]

example : ∃ c chanC, selectChannel Synth.init Timbre.zero = .ok (some c) ∧ Synth.init.chip[c]? = some chanC ∧ chanC.users = [] :=
  new_note_takes_idle_channel Synth.init Timbre.zero wf_init 3 ChipCh.fresh (by simp [Synth.init]) rfl

end Opn.C06
