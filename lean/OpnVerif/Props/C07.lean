/-
  C07 — The sequencer delivers every file event once, in order, at the right time.
  Theorems about the row builder of Model/Seq.lean: `sortEvents` (MidiTrackRow::sortEvents) delivers every event of a
  tick exactly once, with controllers / program changes in front of the note-ons and in file order inside each class;
  variable-length quantities never move the cursor backwards; End-of-Track alone at its tick takes the preceding row's place.
-/
import OpnVerif.Model.Seq

namespace Opn.C07
open Opn Opn.Seq

/-- reading a variable-length quantity never moves the cursor backwards -/
theorem readVarLen_le : ∀ (bs : Bytes) (acc : Nat), (readVarLen bs acc).2.length ≤ bs.length
  | [], _ => by simp [readVarLen]
  | b :: rest, acc => by
    unfold readVarLen
    simp only
    split
    · exact Nat.le_succ_of_le (readVarLen_le rest _)
    · simp

/-! ## every event of a row is delivered exactly once -/

theorem filter_split (p : α → Bool) (l : List α) : (l.filter p ++ l.filter (fun x => !p x)).Perm l :=
  List.filter_append_perm p l

/-- the inner loop only distributes the note-offs over "kept in front" and "moved behind" -/
theorem siftOffs_perm (e : Ev) (wasOn : Bool) : ∀ (offs : List Ev) (cnt : Nat) (m : Bool),
    ((siftOffs e wasOn offs cnt m).1 ++ (siftOffs e wasOn offs cnt m).2.1).Perm offs
  | [], _, _ => by simp [siftOffs]
  | j :: js, cnt, m => by
    unfold siftOffs
    split
    · split
      · have ih := siftOffs_perm e wasOn js cnt false
        simp only
        exact (List.perm_middle.trans (List.Perm.cons j ih))
      · have ih := siftOffs_perm e wasOn js (cnt + 1) m
        simp only [List.cons_append]
        exact List.Perm.cons j ih
    · have ih := siftOffs_perm e wasOn js cnt m
      simp only [List.cons_append]
      exact List.Perm.cons j ih

theorem siftAll_perm (states : List Nat) : ∀ (other offs moved : List Ev) (marks : List Nat),
    ((siftAll states other offs moved marks).1 ++ (siftAll states other offs moved marks).2.1).Perm (offs ++ moved)
  | [], offs, moved, marks => by simp [siftAll]
  | e :: es, offs, moved, marks => by
    unfold siftAll
    split
    · simp only
      refine (siftAll_perm states es _ _ _).trans ?_
      have hp := siftOffs_perm e (states.contains (noteIdx e)) offs 0 true
      have : ((siftOffs e (states.contains (noteIdx e)) offs 0 true).1 ++ (moved ++ (siftOffs e (states.contains (noteIdx e)) offs 0 true).2.1)).Perm
          (((siftOffs e (states.contains (noteIdx e)) offs 0 true).1 ++ (siftOffs e (states.contains (noteIdx e)) offs 0 true).2.1) ++ moved) := by
        rw [List.append_assoc]
        exact List.Perm.append_left _ List.perm_append_comm
      exact this.trans (List.Perm.append_right moved hp)
    · exact siftAll_perm states es offs moved marks

/-- five-way partition by a cascade of predicates -/
theorem part5 {α} (p1 p2 p3 p4 : α → Bool) (l : List α) :
    (l.filter p1 ++ (l.filter (fun x => !p1 x && p2 x) ++ (l.filter (fun x => !p1 x && !p2 x && p3 x) ++
      (l.filter (fun x => !p1 x && !p2 x && !p3 x && p4 x) ++ l.filter (fun x => !p1 x && !p2 x && !p3 x && !p4 x))))).Perm l := by
  induction l with
  | nil => simp
  | cons e es ih =>
    have m1 : ∀ (a b : List α), (a ++ (e :: b)).Perm (e :: (a ++ b)) := fun a b => List.perm_middle
    cases h1 : p1 e
    · cases h2 : p2 e
      · cases h3 : p3 e
        · cases h4 : p4 e
          · simp only [List.filter_cons, h1, h2, h3, h4, Bool.not_false, Bool.and_self, Bool.and_true, Bool.false_eq_true, if_false, if_true, Bool.and_false]
            rw [← List.append_assoc, ← List.append_assoc, ← List.append_assoc]
            refine (m1 _ _).trans (List.Perm.cons e ?_)
            rw [List.append_assoc, List.append_assoc, List.append_assoc]; exact ih
          · simp only [List.filter_cons, h1, h2, h3, h4, Bool.not_false, Bool.not_true, Bool.and_self, Bool.and_true, Bool.false_eq_true, if_false, if_true, Bool.and_false]
            rw [← List.append_assoc, ← List.append_assoc]
            refine (m1 _ _).trans (List.Perm.cons e ?_)
            rw [List.append_assoc, List.append_assoc]; exact ih
        · simp only [List.filter_cons, h1, h2, h3, Bool.not_false, Bool.not_true, Bool.and_self, Bool.and_true, Bool.false_eq_true, if_false, if_true, Bool.and_false, Bool.false_and]
          rw [← List.append_assoc]
          refine (m1 _ _).trans (List.Perm.cons e ?_)
          rw [List.append_assoc]; exact ih
      · simp only [List.filter_cons, h1, h2, Bool.not_false, Bool.not_true, Bool.and_self, Bool.and_true, Bool.false_eq_true, if_false, if_true, Bool.and_false, Bool.false_and]
        exact (m1 _ _).trans (List.Perm.cons e ih)
    · simp only [List.filter_cons, h1, Bool.not_true, Bool.false_and, Bool.false_eq_true, if_false, if_true, List.cons_append]
      exact List.Perm.cons e ih

/-- **each once**: the sorted row is a permutation of the events of the tick (nothing dropped, nothing duplicated),
    for every row and every note-state cache -/
theorem sortEvents_perm (events : List Ev) (states : List Nat) : (sortEvents events states).1.Perm events := by
  unfold sortEvents
  simp only
  have hs := siftAll_perm states
    (events.filter (fun e => e.type != tNoteOff && !isSysExClass e && !isCtlClass e && !isMetaClass e))
    (events.filter (·.type == tNoteOff)) [] []
  simp only [List.append_nil] at hs
  have hp := part5 (fun e : Ev => e.type == tNoteOff) isSysExClass isCtlClass isMetaClass events
  refine List.Perm.trans ?_ hp
  generalize (siftAll states _ (events.filter (·.type == tNoteOff)) [] []).1 = K at hs ⊢
  generalize (siftAll states _ (events.filter (·.type == tNoteOff)) [] []).2.1 = M at hs ⊢
  have h1 : ∀ (SX CT ME OT : List Ev), (SX ++ K ++ ME ++ CT ++ OT ++ M).Perm ((K ++ M) ++ (SX ++ (CT ++ (ME ++ OT)))) := by
    intro SX CT ME OT
    apply List.perm_iff_count.mpr
    intro a
    simp only [List.count_append]
    omega
  exact (h1 _ _ _ _).trans (List.Perm.append_right _ hs)

/-! ## order inside a tick -/

/-- the note-ons of a row all lie in the last block of the sorted row (behind every controller / program change / bend) -/
theorem noteOn_not_ctl (e : Ev) (h : e.type = tNoteOn) : isCtlClass e = false ∧ isSysExClass e = false ∧ (e.type == tNoteOff) = false := by
  simp [isCtlClass, isSysExClass, h, tNoteOn, tCtrl, tPatch, tWheel, tChanAT, tSysEx, tSysEx2, tNoteOff]

/-- the kept and the moved note-offs are note-offs of the row -/
theorem sift_members (events : List Ev) (states : List Nat) (e : Ev)
    (h : e ∈ (siftAll states (events.filter (fun e => e.type != tNoteOff && !isSysExClass e && !isCtlClass e && !isMetaClass e))
                (events.filter (·.type == tNoteOff)) [] []).1 ∨
         e ∈ (siftAll states (events.filter (fun e => e.type != tNoteOff && !isSysExClass e && !isCtlClass e && !isMetaClass e))
                (events.filter (·.type == tNoteOff)) [] []).2.1) : e.type = tNoteOff := by
  have hperm := siftAll_perm states
    (events.filter (fun e => e.type != tNoteOff && !isSysExClass e && !isCtlClass e && !isMetaClass e)) (events.filter (·.type == tNoteOff)) [] []
  have hmem : e ∈ (events.filter (·.type == tNoteOff)) ++ [] := hperm.subset (by
    rcases h with h | h
    · exact List.mem_append_left _ h
    · exact List.mem_append_right _ h)
  simp only [List.append_nil, List.mem_filter] at hmem
  simpa using hmem.2

/-- **controllers and program changes before note-ons**: the sorted row is `front ++ rest` where `front` (SysEx, kept
    note-offs, markers, then all controller / program / bend / channel-pressure events) holds no note-on and `rest`
    (everything else in file order, then the note-offs of zero-length notes) holds no controller-class event -/
theorem sortEvents_ctl_before_on (events : List Ev) (states : List Nat) :
    ∃ front rest, (sortEvents events states).1 = front ++ rest ∧ (∀ e ∈ front, e.type ≠ tNoteOn) ∧ (∀ e ∈ rest, isCtlClass e = false) := by
  unfold sortEvents
  simp only
  generalize hK : (siftAll states _ (events.filter (·.type == tNoteOff)) [] []) = R
  have hmem := sift_members events states
  rw [hK] at hmem
  refine ⟨events.filter (fun e => e.type != tNoteOff && isSysExClass e) ++ R.1 ++
      events.filter (fun e => e.type != tNoteOff && !isSysExClass e && !isCtlClass e && isMetaClass e) ++
      events.filter (fun e => e.type != tNoteOff && !isSysExClass e && isCtlClass e),
    events.filter (fun e => e.type != tNoteOff && !isSysExClass e && !isCtlClass e && !isMetaClass e) ++ R.2.1, ?_, ?_, ?_⟩
  · simp only [List.append_assoc]
  · intro e he hon
    obtain ⟨hc, hs, _⟩ := noteOn_not_ctl e hon
    simp only [List.mem_append, List.mem_filter] at he
    rcases he with ((h | h) | h) | h
    · simp [hs] at h
    · have := hmem e (Or.inl h); rw [hon] at this; exact absurd this (by decide)
    · have : isMetaClass e = false := by simp [isMetaClass, hon, tNoteOn, tSpecial]
      simp [this] at h
    · simp [hc] at h
  · intro e he
    simp only [List.mem_append, List.mem_filter] at he
    rcases he with h | h
    · have := h.2
      simp only [Bool.and_eq_true, Bool.not_eq_true'] at this
      exact this.1.2
    · have := hmem e (Or.inr h)
      simp [isCtlClass, this, tNoteOff, tCtrl, tPatch, tWheel, tChanAT]

/-- file order is kept inside the controller class (a filter never reorders) -/
theorem ctl_order_kept (events : List Ev) :
    (events.filter (fun e => e.type != tNoteOff && !isSysExClass e && isCtlClass e)).Sublist events := List.filter_sublist

/-- an End-of-Track standing alone at its tick takes the place of the preceding row: that row's delay is cleared, so the
    track's last real event and the End-of-Track are due at the same moment (trailing silence is skipped) -/
theorem clearLastDelay_spec (rows : List Row) (r : Row) :
    clearLastDelay (rows ++ [r]) = rows ++ [{ r with delay := 0, timeDelay := 0 }] := by
  simp [clearLastDelay]

/-! ## track and channel gating (handleEvent) -/

/-- the timing events that are never gated: tempo and time signature of track 0 in format 0/1 files -/
def isTrack0Timing (s : Seq) (track : Nat) (e : Ev) : Bool :=
  track == 0 && s.smfFormat < 2 && e.type == tSpecial && (e.subtype == stTempo || e.subtype == stTimeSig)

/-- **a disabled track contributes nothing**: its events reach neither the raw event hook nor the synthesizer and leave the
    sequencer state alone — except the tempo / time-signature events of track 0 -/
theorem disabled_track_silent (s : Seq) (track : Nat) (e : Ev) (st : Int)
    (hd : s.trackDisable.getD track false = true) (ht : isTrack0Timing s track e = false) :
    handleEvent s track e st = (s, st, []) := by
  unfold handleEvent
  unfold isTrack0Timing at ht
  simp only [ht, Bool.not_false, Bool.true_and, hd, Bool.or_true, if_true]

/-- the same for every track but the solo track -/
theorem non_solo_track_silent (s : Seq) (track solo : Nat) (e : Ev) (st : Int)
    (hs : s.solo = some solo) (hne : track ≠ solo) (ht : isTrack0Timing s track e = false) :
    handleEvent s track e st = (s, st, []) := by
  unfold handleEvent
  unfold isTrack0Timing at ht
  have : (track != solo) = true := by simpa using hne
  simp only [ht, Bool.not_false, Bool.true_and, hs, this, Bool.true_or, if_true]

/-- **tempo events of track 0 still apply** when track 0 is disabled: the tempo is taken over (and the event is shown to the
    raw event hook) -/
theorem track0_tempo_applies (s : Seq) (e : Ev) (st : Int) (hf : s.smfFormat < 2)
    (he : e.type = tSpecial) (hsub : e.subtype = stTempo) (t : Frac) (hm : Frac.mul s.invDelta { n := readBE e.data, d := 1 } = .ok t) :
    handleEvent s 0 e st = ({ s with tempo := t }, st, [Out.event 0 e]) := by
  unfold handleEvent
  have h1 : (e.type == tSysEx || e.type == tSysEx2) = false := by rw [he]; decide
  have h2 : (e.subtype == stEndTrack) = false := by rw [hsub]; decide
  simp [hf, he, hsub, hm, tSpecial, tSysEx, tSysEx2, stTempo, stEndTrack, stTimeSig]

/-- **a disabled channel receives no notes**: a note-on or note-off for a disabled MIDI channel (no device offset) is shown to
    the raw event hook but never reaches the synthesizer -/
theorem disabled_channel_no_notes (s : Seq) (track : Nat) (e : Ev) (st : Int)
    (hsolo : s.solo = none) (hd : s.trackDisable.getD track false = false)
    (hn : e.type = tNoteOn ∨ e.type = tNoteOff) (hdev : currentDevice s track = 0) (hch : e.channel < 16)
    (hc : s.chanDisable.getD e.channel false = true) :
    (handleEvent s track e st).2.2 = [Out.event track e] := by
  unfold handleEvent
  have hd' : s.trackDisable[track]?.getD false = false := by simpa [List.getD_eq_getElem?_getD] using hd
  have hc' : s.chanDisable[e.channel]?.getD false = true := by simpa [List.getD_eq_getElem?_getD] using hc
  rcases hn with hn | hn
  · simp [hn, hsolo, hd', hdev, hch, hc', tNoteOn, tNoteOff, tSpecial, tSysEx, tSysEx2, tSongSel, tSongPos]
  · simp [hn, hsolo, hd', hdev, hch, hc', tNoteOn, tNoteOff, tSpecial, tSysEx, tSysEx2, tSongSel, tSongPos]

end Opn.C07
