/-
  C07 — The sequencer delivers every file event once, in order, at the right time.
-/
import OpnVerif.Model.Seq

namespace Opn.C07
open Opn Opn.Seq

/-- reading a variable-length quantity never moves the cursor backwards -/
theorem readVarLen_le : ∀ (bs : Bytes) (acc : Nat), (readVarLen bs acc).2.length ≤ bs.length
  | [], _ => by simp [readVarLen]
  | b :: rest, acc => by
    unfold readVarLen
    simp only
    split
    · exact Nat.le_succ_of_le (readVarLen_le rest _)
    · simp

end Opn.C07
