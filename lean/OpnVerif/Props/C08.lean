/-
  C08 — Seeking equals playing up to the target, minus the sounding notes.
-/
import OpnVerif.Model.Seq

namespace Opn.C08
open Opn Opn.Seq

/-- negative targets are ignored: the sequencer state is untouched and nothing is delivered -/
theorem seek_negative (s : Seq) (t gran : Rat) (fuel : Nat) (h : t < 0) : seek s t gran fuel = (s, [], 0) := by
  unfold seek
  simp [h]

/-- seeking beyond the end rewinds to the start -/
theorem seek_beyond (s : Seq) (t gran : Rat) (fuel : Nat) (h0 : ¬ t < 0) (h : t > s.fullLen) : seek s t gran fuel = (rewind s, [], 0) := by
  unfold seek
  simp [h0, h]

/-- rewinding restores the begin position and clears the end flag -/
theorem rewind_pos (s : Seq) : (rewind s).cur = s.beginPos ∧ (rewind s).atEnd = false := by
  simp [rewind]

/-- **a seek never changes whether looping is enabled** (it switches looping off while it fast-forwards and restores the
    flag on every path, also when the fast-forward runs into the end of the song) -/
theorem seek_keeps_loop_flag (s : Seq) (t gran : Rat) (fuel : Nat) : (seek s t gran fuel).1.loopEnabled = s.loopEnabled := by
  unfold seek
  split
  · rfl
  · split
    · simp [rewind]
    · simp only
      repeat' split
      all_goals simp [rewind]

/-- during a seek the row loop skips every note-on before it reaches `handleEvent`: no note is started -/
theorem rowEvents_seek_skips_noteOn (tk : Nat) (t : Rat) (e : Ev) (es : List Ev) (last : Int) (r : RowRes) (h : e.type = tNoteOn) :
    rowEvents true tk t (e :: es) last r = rowEvents true tk t es last r := by
  rw [rowEvents]
  simp [h]

/-- **a row is replayed by a seek exactly as linear playback would play it with its note-ons taken out**: same sequencer
    state, same tempo changes, same loop bookkeeping, same controller / program / SysEx events delivered -/
theorem rowEvents_seek_eq_filtered (tk : Nat) (t : Rat) : ∀ (es : List Ev) (last : Int) (r : RowRes),
    rowEvents true tk t es last r = rowEvents false tk t (es.filter (fun e => e.type != tNoteOn)) last r
  | [], last, r => by simp [rowEvents]
  | e :: es, last, r => by
    by_cases h : e.type = tNoteOn
    · rw [rowEvents_seek_skips_noteOn tk t e es last r h]
      have : (e.type != tNoteOn) = false := by simp [h]
      simp only [List.filter_cons, this, Bool.false_eq_true, if_false]
      exact rowEvents_seek_eq_filtered tk t es last r
    · have hne : (e.type != tNoteOn) = true := by simpa using h
      have hb : (e.type == tNoteOn) = false := by simpa using h
      simp only [List.filter_cons, hne, if_true]
      rw [rowEvents, rowEvents]
      simp only [hb, Bool.and_false, Bool.false_eq_true, if_false]
      generalize eventStep tk t e last r = st
      obtain ⟨r', last', j⟩ := st
      cases j
      · exact rowEvents_seek_eq_filtered tk t es last' r'
      · rfl

end Opn.C08
