/-
  C08 — Seeking equals playing up to the target, minus the sounding notes.
-/
import OpnVerif.Model.Seq
import OpnVerif.Props.C09

namespace Opn.C08
open Opn Opn.Seq

/-- negative targets are ignored: the sequencer state is untouched and nothing is delivered -/
theorem seek_negative (s : Seq) (t gran : Rat) (fuel : Nat) (h : t < 0) : seek s t gran fuel = (s, [], 0) := by
  unfold seek
  simp [h]

/-- seeking beyond the end rewinds to the start -/
theorem seek_beyond (s : Seq) (t gran : Rat) (fuel : Nat) (h0 : ¬ t < 0) (h : t > s.fullLen) : seek s t gran fuel = (rewind s, [], 0) := by
  unfold seek
  simp [h0, h]

/-- rewinding restores the begin position and clears the end flag -/
theorem rewind_pos (s : Seq) : (rewind s).cur = s.beginPos ∧ (rewind s).atEnd = false := by
  simp [rewind]

/-- **the tempo belongs to the position**: rewinding (and therefore every seek, which rewinds first) restores the tempo of the
    begin of the song — what is replayed afterwards runs at the speed the file gives it, whatever tempo the later parts set -/
theorem rewind_restores_tempo (s : Seq) : (rewind s).tempo = s.beginTempo ∧ (rewind s).beginTempo = s.beginTempo ∧
    (rewind s).loopBeginTempo = s.loopBeginTempo := by
  simp [rewind]

/-- rewinding twice is rewinding once (position, tempo, end flag, loop bookkeeping) -/
theorem rewind_idem (s : Seq) : rewind (rewind s) = rewind s := by
  simp [rewind, Loop.reset]

/-- **a seek never changes whether looping is enabled** (it switches looping off while it fast-forwards and restores the
    flag on every path, also when the fast-forward runs into the end of the song) -/
theorem seek_keeps_loop_flag (s : Seq) (t gran : Rat) (fuel : Nat) : (seek s t gran fuel).1.loopEnabled = s.loopEnabled := by
  unfold seek
  split
  · rfl
  · split
    · simp [rewind]
    · simp only
      repeat' split
      all_goals simp [rewind]

/-- during a seek the row loop skips every note-on before it reaches `handleEvent`: no note is started -/
theorem rowEvents_seek_skips_noteOn (tk : Nat) (t : Rat) (e : Ev) (es : List Ev) (last : Int) (r : RowRes) (h : e.type = tNoteOn) :
    rowEvents true tk t (e :: es) last r = rowEvents true tk t es last r := by
  rw [rowEvents]
  simp [h]

/-- **a row is replayed by a seek exactly as linear playback would play it with its note-ons taken out**: same sequencer
    state, same tempo changes, same loop bookkeeping, same controller / program / SysEx events delivered -/
theorem rowEvents_seek_eq_filtered (tk : Nat) (t : Rat) : ∀ (es : List Ev) (last : Int) (r : RowRes),
    rowEvents true tk t es last r = rowEvents false tk t (es.filter (fun e => e.type != tNoteOn)) last r
  | [], last, r => by simp [rowEvents]
  | e :: es, last, r => by
    by_cases h : e.type = tNoteOn
    · rw [rowEvents_seek_skips_noteOn tk t e es last r h]
      have : (e.type != tNoteOn) = false := by simp [h]
      simp only [List.filter_cons, this, Bool.false_eq_true, if_false]
      exact rowEvents_seek_eq_filtered tk t es last r
    · have hne : (e.type != tNoteOn) = true := by simpa using h
      have hb : (e.type == tNoteOn) = false := by simpa using h
      simp only [List.filter_cons, hne, if_true]
      rw [rowEvents, rowEvents]
      simp only [hb, Bool.and_false, Bool.false_eq_true, if_false]
      generalize eventStep tk t e last r = st
      obtain ⟨r', last', j⟩ := st
      cases j
      · exact rowEvents_seek_eq_filtered tk t es last' r'
      · rfl

/-! ## a seek starts no note (lifted from the row to the whole seek) -/


/-- an output that is not a note-on call into the synthesizer -/
def NotOn (o : Out) : Prop := ∀ ch a b, o ≠ Out.rt tNoteOn ch a b

theorem mem_ite_iff {α} (c : Prop) [Decidable c] (x : α) (l1 l2 : List α) :
    x ∈ (if c then l1 else l2) ↔ (c ∧ x ∈ l1) ∨ (¬ c ∧ x ∈ l2) := by
  by_cases h : c <;> simp [h]

set_option maxHeartbeats 4000000 in
/-- handleEvent calls rt_noteOn only for a note-on event -/
theorem handleEvent_noteOn_only (s : Seq) (track : Nat) (e : Ev) (status : Int) (h : e.type ≠ tNoteOn) :
    ∀ o ∈ (handleEvent s track e status).2.2, NotOn o := by
  have hb : (e.type == tNoteOn) = false := by simpa using h
  intro o ho ch a b heq
  subst heq
  unfold handleEvent at ho
  simp only [hb] at ho
  cases hm : s.invDelta.mul { n := readBE e.data, d := 1 } <;>
    simp [hm, mem_ite_iff, apply_ite Prod.snd, tNoteOn, tNoteOff, tNoteTouch, tCtrl, tPatch, tChanAT, tWheel] at ho

def AllNotOn (l : List Out) : Prop := ∀ o ∈ l, NotOn o

theorem allNotOn_nil : AllNotOn [] := by intro o h; cases h

theorem allNotOn_append {l1 l2 : List Out} (h1 : AllNotOn l1) (h2 : AllNotOn l2) : AllNotOn (l1 ++ l2) := by
  intro o ho
  rcases List.mem_append.1 ho with h | h
  · exact h1 o h
  · exact h2 o h

theorem allNotOn_allNotesOff : AllNotOn allNotesOff := by
  intro o ho ch a b heq
  subst heq
  simp [allNotesOff, tCtrl, tNoteOn] at ho

theorem allNotOn_hook (c : Bool) (x : Out) (hx : NotOn x) : AllNotOn (if c then [x] else []) := by
  intro o ho
  cases c <;> simp at ho
  subst ho; exact hx

theorem notOn_loopStart : NotOn Out.loopStart := by intro ch a b h; cases h
theorem notOn_loopEnd : NotOn Out.loopEnd := by intro ch a b h; cases h

/-! eventStep in steps (each raises one of the loop flags handleEvent set) -/
def raiseStart (r : RowRes) : RowRes :=
  if r.s.loop.caughtStart then
    { r with s := { r.s with loop := { r.s.loop with caughtStart := false } }, nStart := r.nStart + 1,
             outs := r.outs ++ (if r.s.hookLoopStart then [Out.loopStart] else []) } else r
def raiseStackStart (rowTime : Rat) (r : RowRes) : RowRes :=
  if r.s.loop.caughtStackStart then
    { r with s := { r.s with loop := { r.s.loop with caughtStackStart := false } }, nStackStart := r.nStackStart + 1,
             outs := r.outs ++ (if r.s.hookLoopStart && r.s.loopStartTime ≥ rowTime then [Out.loopStart] else []) } else r
def raiseBreak (r : RowRes) : RowRes :=
  if r.s.loop.caughtStackBreak then
    { r with s := { r.s with loop := { r.s.loop with caughtStackBreak := false } }, nStackBreaks := r.nStackBreaks + 1 } else r
def raiseEnd (rowTime : Rat) (r : RowRes) : RowRes :=
  if r.s.loop.caughtStackEnd then
    { r with s := { r.s with loop := { r.s.loop with caughtStackEnd := false } }, nStackEnds := r.nStackEnds + 1, stackEndsTime := rowTime } else r

theorem eventStep_steps (tk : Nat) (t : Rat) (e : Ev) (last : Int) (r : RowRes) :
    eventStep tk t e last r =
      (let h := handleEvent r.s tk e last
       let r1 := raiseBreak (raiseStackStart t (raiseStart { r with s := h.1, outs := r.outs ++ h.2.2 }))
       if r1.s.loop.caughtEnd || r1.s.loop.isStackEnd then ({ raiseEnd t r1 with doJump := true }, h.2.1, true) else (r1, h.2.1, false)) := by
  rfl

theorem raiseStart_outs (r : RowRes) (h : AllNotOn r.outs) : AllNotOn (raiseStart r).outs := by
  unfold raiseStart; split
  · exact allNotOn_append h (allNotOn_hook _ _ notOn_loopStart)
  · exact h
theorem raiseStackStart_outs (t : Rat) (r : RowRes) (h : AllNotOn r.outs) : AllNotOn (raiseStackStart t r).outs := by
  unfold raiseStackStart; split
  · exact allNotOn_append h (allNotOn_hook _ _ notOn_loopStart)
  · exact h
theorem raiseBreak_outs (r : RowRes) : (raiseBreak r).outs = r.outs := by
  unfold raiseBreak; split <;> rfl
theorem raiseEnd_outs (t : Rat) (r : RowRes) : (raiseEnd t r).outs = r.outs := by
  unfold raiseEnd; split <;> rfl

/-- one event that is not a note-on adds no note-on to the outputs of its row -/
theorem eventStep_notOn (tk : Nat) (t : Rat) (e : Ev) (last : Int) (r : RowRes) (he : e.type ≠ tNoteOn) (hr : AllNotOn r.outs) :
    AllNotOn (eventStep tk t e last r).1.outs := by
  have hh := handleEvent_noteOn_only r.s tk e last he
  rw [eventStep_steps]
  simp only
  have h1 : AllNotOn ({ r with s := (handleEvent r.s tk e last).1, outs := r.outs ++ (handleEvent r.s tk e last).2.2 } : RowRes).outs :=
    allNotOn_append hr hh
  have h2 := raiseStackStart_outs t _ (raiseStart_outs _ h1)
  split
  · show AllNotOn (raiseEnd t _).outs
    rw [raiseEnd_outs, raiseBreak_outs]; exact h2
  · show AllNotOn (raiseBreak _).outs
    rw [raiseBreak_outs]; exact h2

/-- a row replayed by a seek adds no note-on -/
theorem rowEvents_seek_notOn (tk : Nat) (t : Rat) : ∀ (es : List Ev) (last : Int) (r : RowRes), AllNotOn r.outs →
    AllNotOn (rowEvents true tk t es last r).1.outs
  | [], _, r, h => by simpa [rowEvents] using h
  | e :: es, last, r, h => by
    by_cases he : e.type = tNoteOn
    · rw [rowEvents_seek_skips_noteOn tk t e es last r he]
      exact rowEvents_seek_notOn tk t es last r h
    · have hb : (e.type == tNoteOn) = false := by simpa using he
      have hs := eventStep_notOn tk t e last r he h
      rw [rowEvents]
      simp only [hb, Bool.and_false, Bool.false_eq_true, if_false]
      generalize eventStep tk t e last r = st at hs
      obtain ⟨r', last', j⟩ := st
      cases j
      · exact rowEvents_seek_notOn tk t es last' r' hs
      · exact hs

/-- the pass over the tracks -/
theorem tracksPass_seek_notOn : ∀ (fuel tk : Nat) (r : RowRes), AllNotOn r.outs → AllNotOn (tracksPass true fuel tk r).outs
  | 0, _, r, h => by simpa [tracksPass] using h
  | fuel + 1, tk, r, h => by
    rw [tracksPass]
    cases ht : r.s.cur.track[tk]? with
    | none => exact h
    | some t =>
      simp only
      by_cases hc : (decide (t.last ≥ 0) && t.delay == 0) = true
      · simp only [hc, if_true]
        cases hrow : (r.s.tracks.getD tk [])[t.pos]? with
        | none => exact h
        | some row =>
          simp only
          have hr := rowEvents_seek_notOn tk row.time row.events t.last r h
          split
          · exact hr
          · exact tracksPass_seek_notOn fuel (tk + 1) _ hr
      · simp only [hc, Bool.false_eq_true, if_false]
        exact tracksPass_seek_notOn fuel (tk + 1) r h

theorem stackEndsN_notOn : ∀ (n : Nat) (s : Seq) (t : Rat) (outs : List Out), AllNotOn outs → AllNotOn (stackEndsN n s t outs).2
  | 0, _, _, _, h => h
  | n + 1, s, t, outs, h => by
    have hle : AllNotOn (outs ++ [Out.loopEnd]) := allNotOn_append h (by intro o ho; simp at ho; subst ho; exact notOn_loopEnd)
    unfold stackEndsN
    simp only
    repeat' split
    all_goals first
      | exact stackEndsN_notOn n _ t outs h
      | exact allNotOn_append hle allNotOn_allNotesOff
      | exact allNotOn_append h allNotOn_allNotesOff

theorem loopTail_notOn (s : Seq) (nf : Bool) : AllNotOn (loopTail s nf).2 := by
  rw [C09.loopTail_outputs]
  exact allNotOn_append (allNotOn_hook _ _ notOn_loopEnd) allNotOn_allNotesOff

/-- the tail of processEvents: what happens once the rows of all tracks have been handled -/
def peFinish (r : RowRes) (rowBegin : Position) (s : Seq) (notFound : Bool) : Bool × Seq × List Out :=
  if r.nStackStart > 0 then (true, { s with loop := stackUpN r.nStackStart s.loop rowBegin }, r.outs) else
  let s := if r.nStackBreaks > 0 then { s with loop := stackBreakN r.nStackBreaks s.loop } else s
  if r.nStackEnds > 0 then
    let (s, outs) := stackEndsN r.nStackEnds s r.stackEndsTime r.outs
    (true, s, outs)
  else
  if notFound || s.loop.caughtEnd then
    let (s, o) := loopTail s notFound
    (true, s, r.outs ++ o)
  else (true, s, r.outs)

/-- processEvents with its tail named: the rows are handled by `tracksPass`, the rest is bookkeeping and `peFinish` -/
theorem processEvents_shape (s : Seq) (isSeek : Bool) :
    ∃ (s0 s1 s2 : Seq) (pos : Position) (nf : Bool),
      processEvents s isSeek = (if s0.atEnd then (false, s0, []) else
        peFinish (tracksPass isSeek (s1.cur.track.length + 1) 0 { s := s1 }) pos s2 nf) :=
  ⟨_, _, _, _, _, rfl⟩

theorem peFinish_notOn (r : RowRes) (pos : Position) (s : Seq) (nf : Bool) (h : AllNotOn r.outs) : AllNotOn (peFinish r pos s nf).2.2 := by
  unfold peFinish
  simp only
  repeat' split
  all_goals first
    | exact h
    | exact stackEndsN_notOn _ _ _ _ h
    | exact allNotOn_append h (loopTail_notOn _ _)

/-- **one round of the sequencer in seek mode calls no rt_noteOn** -/
theorem processEvents_seek_notOn (s : Seq) : AllNotOn (processEvents s true).2.2 := by
  obtain ⟨s0, s1, s2, pos, nf, h⟩ := processEvents_shape s true
  rw [h]
  split
  · exact allNotOn_nil
  · exact peFinish_notOn _ _ _ _ (tracksPass_seek_notOn _ 0 _ allNotOn_nil)

def AllAllNotOn (ls : List (List Out)) : Prop := ∀ l ∈ ls, AllNotOn l

theorem allAll_cons {l : List Out} {ls : List (List Out)} (h : AllNotOn l) (hs : AllAllNotOn ls) : AllAllNotOn (l :: ls) := by
  intro x hx
  rcases List.mem_cons.1 hx with rfl | hx
  · exact h
  · exact hs x hx

theorem seekInner_notOn (half : Rat) : ∀ (fuel af : Nat) (dst : Rat) (s : Seq) (outs : List (List Out)), AllAllNotOn outs →
    AllAllNotOn (seekInner half fuel af dst s outs).2.1
  | 0, _, _, _, _, h => h
  | fuel + 1, af, dst, s, outs, h => by
    rw [seekInner]
    split
    · have hp := processEvents_seek_notOn s
      generalize processEvents s true = res at hp
      obtain ⟨cont, s', o⟩ := res
      simp only at hp ⊢
      have hc := allAll_cons hp h
      split
      · exact hc
      · split
        · exact seekInner_notOn half fuel _ _ _ _ hc
        · exact seekInner_notOn half fuel _ _ _ _ hc
    · exact h

theorem seekOuter_notOn (seconds half : Rat) : ∀ (fuel inner : Nat) (s : Seq) (outs : List (List Out)), AllAllNotOn outs →
    AllAllNotOn (seekOuter seconds half fuel inner s outs).2
  | 0, _, _, _, h => h
  | fuel + 1, inner, s, outs, h => by
    rw [seekOuter]
    split
    · simp only
      have hi := seekInner_notOn half inner 10000
        (fadd ({ s with cur := { s.cur with wait := fsub s.cur.wait seconds, absTime := fadd s.cur.absTime seconds } } : Seq).cur.wait half)
        { s with cur := { s.cur with wait := fsub s.cur.wait seconds, absTime := fadd s.cur.absTime seconds } } outs h
      exact seekOuter_notOn seconds half fuel inner _ _ hi
    · exact h

theorem flat_notOn (ls : List (List Out)) (h : AllAllNotOn ls) : AllNotOn ls.reverse.flatten := by
  intro o hmem
  obtain ⟨l, hl, hol⟩ := List.mem_flatten.1 hmem
  exact h l (List.mem_reverse.1 hl) o hol

theorem allNotOn_ite {c : Prop} [Decidable c] {x y : Seq × List Out × Rat} (hx : AllNotOn x.2.1) (hy : AllNotOn y.2.1) :
    AllNotOn (if c then x else y).2.1 := by split <;> assumption

/-- **C08: a seek starts no note** — whatever the song, the target, the granularity and the state before, none of the calls a seek makes
    into the synthesizer is a note-on (the controller, program, pitch-bend, SysEx events up to the target are all replayed:
    `rowEvents_seek_eq_filtered`) -/
theorem seek_starts_no_note (s : Seq) (t gran : Rat) (fuel : Nat) :
    ∀ o ∈ (seek s t gran fuel).2.1, ∀ ch a b, o ≠ Out.rt tNoteOn ch a b := by
  have ho := fun (S0 : Seq) => flat_notOn _ (seekOuter_notOn t (fmul gran (1 / 2)) 4 fuel S0 [] (by intro l hl; cases hl))
  show AllNotOn (seek s t gran fuel).2.1
  unfold seek
  split
  · exact allNotOn_nil
  · split
    · exact allNotOn_nil
    · exact allNotOn_ite (ho _) (ho _)

end Opn.C08
