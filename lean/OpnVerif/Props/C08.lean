/-
  C08 — Seeking equals playing up to the target, minus the sounding notes.
-/
import OpnVerif.Model.Seq

namespace Opn.C08
open Opn Opn.Seq

/-- negative targets are ignored: the sequencer state is untouched and nothing is delivered -/
theorem seek_negative (s : Seq) (t gran : Rat) (fuel : Nat) (h : t < 0) : seek s t gran fuel = (s, [], 0) := by
  unfold seek
  simp [h]

/-- seeking beyond the end rewinds to the start -/
theorem seek_beyond (s : Seq) (t gran : Rat) (fuel : Nat) (h0 : ¬ t < 0) (h : t > s.fullLen) : seek s t gran fuel = (rewind s, [], 0) := by
  unfold seek
  simp [h0, h]

/-- rewinding restores the begin position and clears the end flag -/
theorem rewind_pos (s : Seq) : (rewind s).cur = s.beginPos ∧ (rewind s).atEnd = false := by
  simp [rewind]

/-- **a seek never changes whether looping is enabled** (it switches looping off while it fast-forwards and restores the
    flag on every path, also when the fast-forward runs into the end of the song) -/
theorem seek_keeps_loop_flag (s : Seq) (t gran : Rat) (fuel : Nat) : (seek s t gran fuel).1.loopEnabled = s.loopEnabled := by
  unfold seek
  split
  · rfl
  · split
    · simp [rewind]
    · simp only
      repeat' split
      all_goals simp [rewind]

/-- during a seek the row loop skips every note-on before it reaches `handleEvent`: no note is started -/
theorem rowEvents_seek_skips_noteOn (tk : Nat) (t : Rat) (e : Ev) (es : List Ev) (last : Int) (r : RowRes) (h : e.type = tNoteOn) :
    rowEvents true tk t (e :: es) last r = rowEvents true tk t es last r := by
  have hb : (true && e.type == tNoteOn) = true := by simp [h]
  conv => lhs; unfold rowEvents
  simp only [hb, if_true]

end Opn.C08
