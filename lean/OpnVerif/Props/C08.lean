/-
  C08 — Seeking equals playing up to the target, minus the sounding notes.
-/
import OpnVerif.Model.Seq

namespace Opn.C08
open Opn Opn.Seq

/-- negative targets are ignored: the sequencer state is untouched and nothing is delivered -/
theorem seek_negative (s : Seq) (t gran : Rat) (fuel : Nat) (h : t < 0) : seek s t gran fuel = (s, [], 0) := by
  unfold seek
  simp [h]

/-- seeking beyond the end rewinds to the start -/
theorem seek_beyond (s : Seq) (t gran : Rat) (fuel : Nat) (h0 : ¬ t < 0) (h : t > s.fullLen) : seek s t gran fuel = (rewind s, [], 0) := by
  unfold seek
  simp [h0, h]

/-- rewinding restores the begin position and clears the end flag -/
theorem rewind_pos (s : Seq) : (rewind s).cur = s.beginPos ∧ (rewind s).atEnd = false := by
  simp [rewind]

end Opn.C08
