/-
  C09 — Loop points: the marked section repeats exactly as often as requested.
-/
import OpnVerif.Model.Seq

namespace Opn.C09
open Opn Opn.Seq

/-- a jump back (or the end of the song) always announces All-Notes-Off on the 16 channels, in channel order -/
theorem allNotesOff_spec : allNotesOff = (List.range 16).map (fun i => Out.rt tCtrl i 123 0) ∧ allNotesOff.length = 16 := by
  constructor
  · rfl
  · simp [allNotesOff]

end Opn.C09
