/-
  C09 — Loop points: the marked section repeats exactly as often as requested.
  Theorems about `loopTail` (Model/Seq.lean), the decision the sequencer takes whenever playback arrives at the loop end
  marker or at the end of the song, and about the counting of passes it induces.
-/
import OpnVerif.Model.Seq

namespace Opn.C09
open Opn Opn.Seq

/-- a jump back (or the end of the song) always announces All-Notes-Off on the 16 channels, in channel order -/
theorem allNotesOff_spec : allNotesOff = (List.range 16).map (fun i => Out.rt tCtrl i 123 0) ∧ allNotesOff.length = 16 := by
  constructor
  · rfl
  · simp [allNotesOff]

/-- **every arrival is followed by All-Notes-Off on all 16 channels**, preceded by the loop-end callback exactly when one is registered -/
theorem loopTail_outputs (s : Seq) (nf : Bool) :
    (loopTail s nf).2 = (if s.hookLoopEnd then [Out.loopEnd] else []) ++ allNotesOff := by
  unfold loopTail
  simp only
  split
  · rfl
  · split
    · rfl
    · split <;> rfl

/-- **looping disabled: the song plays once straight through** — the first arrival ends the song -/
theorem loopTail_disabled (s : Seq) (nf : Bool) (h : s.loopEnabled = false) : (loopTail s nf).1.atEnd = true := by
  unfold loopTail
  simp [h]

/-- hooks-only mode ends the song at the first arrival as well -/
theorem loopTail_hooksOnly (s : Seq) (nf : Bool) (h : s.loopHooksOnly = true) : (loopTail s nf).1.atEnd = true := by
  unfold loopTail
  simp [h]

/-- **count -1: the section repeats without end** — an arrival never ends the song and goes back to the loop start -/
theorem loopTail_endless (s : Seq) (nf : Bool) (he : s.loopEnabled = true) (hh : s.loopHooksOnly = false) (hb : s.loop.temporaryBroken = false)
    (hc : s.loop.loopsCount < 0) :
    (loopTail s nf).1.atEnd = s.atEnd ∧ (loopTail s nf).1.cur = s.loopBegin ∧ (loopTail s nf).1.loop.loopsCount = s.loop.loopsCount := by
  unfold loopTail
  have h1 : ¬ (s.loop.loopsCount ≥ 0) := by omega
  have h2 : ¬ (s.loop.loopsCount ≥ 1) := by omega
  simp [he, hh, hb, hc, h1, h2]

/-- **a pass that is not the last one jumps back to the loop start and uses up one repetition** -/
theorem loopTail_jump (s : Seq) (nf : Bool) (he : s.loopEnabled = true) (hh : s.loopHooksOnly = false) (hb : s.loop.temporaryBroken = false)
    (hc : s.loop.loopsCount ≥ 1) (hl : s.loop.loopsLeft ≥ 1) :
    (loopTail s nf).1.atEnd = s.atEnd ∧ (loopTail s nf).1.cur = s.loopBegin ∧
    (loopTail s nf).1.loop.loopsLeft = s.loop.loopsLeft - 1 ∧ (loopTail s nf).1.loop.loopsCount = s.loop.loopsCount := by
  unfold loopTail
  have h1 : ¬ (s.loop.loopsLeft < 1) := by omega
  simp [he, hh, hb, hc, hl, h1]

/-- a jump back to the loop start restores the tempo that was in force there (a tempo change inside the loop body does not
    leak into the next pass), and a jump to the begin of the song after a broken loop restores the begin tempo -/
theorem loopTail_jump_restores_tempo (s : Seq) (nf : Bool) (he : s.loopEnabled = true) (hh : s.loopHooksOnly = false)
    (hc : s.loop.loopsCount < 0 ∨ s.loop.loopsLeft ≥ 1) (hnf : nf = false ∨ s.loop.loopsCount < 0 ∨ s.loop.loopsLeft ≥ 1) :
    (loopTail s nf).1.tempo = (if s.loop.temporaryBroken then s.beginTempo else s.loopBeginTempo) := by
  unfold loopTail
  have h1 : ¬ (nf = true ∧ s.loop.loopsCount ≥ 0 ∧ s.loop.loopsLeft < 1) := by
    rintro ⟨a, b, c⟩
    rcases hnf with h | h | h
    · simp [h] at a
    · omega
    · omega
  by_cases hb : s.loop.temporaryBroken = true
  · have h2 : ¬ ((nf = true ∧ 0 ≤ s.loop.loopsCount) ∧ s.loop.loopsLeft < 1) := fun ⟨⟨a, b⟩, c⟩ => h1 ⟨a, b, c⟩
    simp [he, hh, hb, h2]
  · have hb' : s.loop.temporaryBroken = false := by simpa using hb
    rcases hc with hc | hc
    · have : ¬ (s.loop.loopsCount ≥ 0) := by omega
      simp [he, hh, hb', hc, this]
    · have : ¬ (s.loop.loopsLeft < 1) := by omega
      simp [he, hh, hb', hc, this]

/-- **the last pass runs on to the end of the song**: with no repetition left, arriving at the end of the song ends it -/
theorem loopTail_last (s : Seq) (hc : s.loop.loopsCount ≥ 0) (hl : s.loop.loopsLeft < 1) : (loopTail s true).1.atEnd = true := by
  unfold loopTail
  simp [hc, hl]

/-- with no repetition left, arriving at the loop end *marker* (not the end of the song) neither jumps nor ends:
    everything after the loop end is still played, once -/
theorem loopTail_marker_last (s : Seq) (he : s.loopEnabled = true) (hh : s.loopHooksOnly = false) (hb : s.loop.temporaryBroken = false)
    (hc : s.loop.loopsCount ≥ 0) (hl : s.loop.loopsLeft < 1) :
    (loopTail s false).1.atEnd = s.atEnd ∧ (loopTail s false).1.cur = s.cur := by
  unfold loopTail
  have h1 : ¬ (s.loop.loopsCount < 0) := by omega
  have h2 : ¬ (s.loop.loopsLeft ≥ 1) := by omega
  simp [he, hh, hb, h1, h2]

/-! ## counting the passes

`arrivals k s` is the state after `k` arrivals at the end of the song (what happens between two arrivals does not
touch the loop counters, the enable flags or the saved positions: `Between`). -/

/-- what the playback between two arrivals may change: anything but the fields the loop decision reads -/
def SameLoopCtl (a b : Seq) : Prop :=
  a.loopEnabled = b.loopEnabled ∧ a.loopHooksOnly = b.loopHooksOnly ∧ a.loop.temporaryBroken = b.loop.temporaryBroken ∧
  a.loop.loopsCount = b.loop.loopsCount ∧ a.loop.loopsLeft = b.loop.loopsLeft ∧ a.atEnd = b.atEnd

/-- **count N ⇒ N passes**: with looping enabled, internal count `n ≥ 1` (= N − 1 repetitions after the first pass) and `n`
    repetitions left, the first `n` arrivals at the end of the song all jump back (the song is not over) and leave `n − k`
    repetitions, and the arrival after them ends the song: the section is delivered `n + 1 = N` times in total. -/
theorem passes (n : Nat) : ∀ (k : Nat) (s : Seq), k ≤ n →
    s.loopEnabled = true → s.loopHooksOnly = false → s.loop.temporaryBroken = false → s.atEnd = false →
    s.loop.loopsCount = (n : Int) → n ≥ 1 → s.loop.loopsLeft = ((n - k : Nat) : Int) →
    (k < n → (loopTail s true).1.atEnd = false ∧ (loopTail s true).1.loop.loopsLeft = ((n - (k + 1) : Nat) : Int) ∧
              (loopTail s true).1.cur = s.loopBegin) ∧
    (k = n → (loopTail s true).1.atEnd = true) := by
  intro k s hk he hh hb ha hc hn hl
  constructor
  · intro hlt
    have h1 : s.loop.loopsCount ≥ 1 := by rw [hc]; omega
    have h2 : s.loop.loopsLeft ≥ 1 := by rw [hl]; omega
    obtain ⟨a, b, c, _⟩ := loopTail_jump s true he hh hb h1 h2
    refine ⟨by rw [a, ha], ?_, b⟩
    rw [c, hl]; omega
  · intro heq
    apply loopTail_last
    · rw [hc]; omega
    · rw [hl, heq]; simp

end Opn.C09
