/-
  C10 — Programmed pitch = key + bend·range + instrument offset (exact part; core Lean only).
  The analytic bound |coef·exp(c·p) − 440·2^((p−69)/12)·144·2^21/clock| is in OpnVerifReal/C10Real.lean (Mathlib).
-/
import OpnVerif.Model.Pitch
import OpnVerif.Model.Synth

namespace Opn.C10
open Opn Opn.Pitch

/-! ## the model's literals are the regenerated constants -/

theorem thresholds : Gen.pitchT1 = (4095 : Rat) / 4 ∧ Gen.pitchT2 = (8147 : Rat) / 4 := by decide +kernel
theorem octave_consts : Gen.pitchOctMax = 0x3800 ∧ Gen.pitchOctStep = 0x800 := by decide

/-! ## the two loops -/

theorem half_iter (h : Dy) (b : Nat) : (⟨h.n, h.k + b⟩ : Dy).half = ⟨h.n, h.k + (b + 1)⟩ := rfl

/-- the octave loop halves `b ≤ fuel` times, adds `b` octave steps, and stops only because the value dropped below
    1023.75, the octave field is full, or the fuel ran out -/
theorem loop1_spec : ∀ (fuel : Nat) (h : Dy) (o : Nat),
    ∃ b, b ≤ fuel ∧ loop1 fuel h o = (⟨h.n, h.k + b⟩, o + b * 0x800) ∧
      ((⟨h.n, h.k + b⟩ : Dy).geQ 4095 = false ∨ ¬ (o + b * 0x800 < 0x3800) ∨ b = fuel)
  | 0, h, o => ⟨0, Nat.le_refl _, by simp [loop1], Or.inr (Or.inr rfl)⟩
  | fuel + 1, h, o => by
      unfold loop1
      by_cases hc : (h.geQ 4095 && decide (o < 0x3800)) = true
      · rw [if_pos hc]
        obtain ⟨b, hb, he, hx⟩ := loop1_spec fuel h.half (o + 0x800)
        refine ⟨b + 1, by omega, ?_, ?_⟩
        · rw [he]; simp only [Dy.half, Prod.mk.injEq, Dy.mk.injEq, true_and]; constructor <;> omega
        · simp only [Dy.half] at hx
          have e1 : h.k + 1 + b = h.k + (b + 1) := by omega
          have e2 : o + 0x800 + b * 0x800 = o + (b + 1) * 0x800 := by omega
          rw [e1, e2] at hx
          rcases hx with h1 | h2 | h3
          · exact Or.inl h1
          · exact Or.inr (Or.inl h2)
          · exact Or.inr (Or.inr (by omega))
      · rw [if_neg hc]
        refine ⟨0, by omega, by simp, ?_⟩
        simp only [Bool.and_eq_true, decide_eq_true_eq, not_and] at hc
        by_cases hg : h.geQ 4095 = true
        · exact Or.inr (Or.inl (by simpa using hc hg))
        · exact Or.inl (by simpa using hg)

/-- with the real start values (fuel 8, octave 0) the loop runs at most 7 times -/
theorem loop1_real (h : Dy) : ∃ b, b ≤ 7 ∧ loop1 8 h 0 = (⟨h.n, h.k + b⟩, b * 0x800) ∧
    ((⟨h.n, h.k + b⟩ : Dy).geQ 4095 = false ∨ b = 7) := by
  obtain ⟨b, hb, he, hx⟩ := loop1_spec 8 h 0
  simp only [Nat.zero_add] at he hx
  -- b = 8 is impossible: after 7 rounds the octave field is 0x3800 and the loop condition is false
  have hb7 : b ≤ 7 := by
    by_cases h8 : b = 8
    · subst h8
      -- unfold eight rounds: the eighth needs octave < 0x3800 at octave = 7*0x800
      exfalso
      have := loop1_spec 1 (⟨h.n, h.k + 7⟩ : Dy) (7 * 0x800)
      obtain ⟨b', hb', he', _⟩ := this
      have hstop : loop1 1 (⟨h.n, h.k + 7⟩ : Dy) (7 * 0x800) = (⟨h.n, h.k + 7⟩, 7 * 0x800) := by
        unfold loop1; simp
      -- loop1 8 h 0 = loop1 1 (h halved 7 times) (7*0x800) whenever the first 7 conditions held; derive contradiction
      -- from the determinism of the definition:
      have key : ∀ (f : Nat) (hh : Dy) (oo : Nat), oo ≥ 0x3800 → loop1 f hh oo = (hh, oo) := by
        intro f hh oo hoo
        cases f with
        | zero => rfl
        | succ f => unfold loop1; simp; omega
      -- generic: loop1 fuel h o with result b rounds satisfies o + b*0x800 ≤ 0x3800 when o ≤ 0x3800 and 0x800 ∣ (0x3800 - o)
      have bound : ∀ (f : Nat) (hh : Dy) (j : Nat), j ≤ 7 →
          ∀ b2, loop1 f hh (j * 0x800) = (⟨hh.n, hh.k + b2⟩, j * 0x800 + b2 * 0x800) → b2 ≤ f → j + b2 ≤ 7 ∨ b2 = 0 := by
        intro f
        induction f with
        | zero => intro hh j _ b2 _ hb2; exact Or.inr (by omega)
        | succ f ih =>
          intro hh j hj b2 hres hb2
          unfold loop1 at hres
          by_cases hc : (hh.geQ 4095 && decide (j * 0x800 < 0x3800)) = true
          · rw [if_pos hc] at hres
            simp only [Bool.and_eq_true, decide_eq_true_eq] at hc
            have hj6 : j ≤ 6 := by omega
            have e : j * 0x800 + 0x800 = (j + 1) * 0x800 := by omega
            rw [e] at hres
            -- the recursive call returns some b3 rounds
            obtain ⟨b3, hb3, he3, _⟩ := loop1_spec f hh.half ((j + 1) * 0x800)
            rw [he3] at hres
            simp only [Dy.half, Prod.mk.injEq, Dy.mk.injEq, true_and] at hres
            have hb : b2 = b3 + 1 := by omega
            have := ih hh.half (j + 1) (by omega) b3 (by rw [he3]) hb3
            rcases this with h1 | h1
            · exact Or.inl (by omega)
            · exact Or.inl (by omega)
          · rw [if_neg hc] at hres
            simp only [Prod.mk.injEq, Dy.mk.injEq, true_and] at hres
            exact Or.inr (by omega)
      have := bound 8 h 0 (by omega) 8 (by simpa using he) (by omega)
      omega
    · omega
  refine ⟨b, hb7, he, ?_⟩
  rcases hx with h1 | h2 | h3
  · exact Or.inl h1
  · exact Or.inr (by omega)
  · exact absurd h3 (by omega)

/-- the multiplier loop, when it returns, has halved `j` times, counted them, and left a value below 2036.75 -/
theorem loop2_spec : ∀ (fuel : Nat) (h : Dy) (m : Nat) (r : Dy × Nat), loop2 fuel h m = .ok r →
    ∃ j, j < fuel ∧ r = (⟨h.n, h.k + j⟩, m + j) ∧ (⟨h.n, h.k + j⟩ : Dy).geQ 8147 = false
  | 0, h, m, r, hr => by simp [loop2] at hr
  | fuel + 1, h, m, r, hr => by
      unfold loop2 at hr
      by_cases hc : h.geQ 8147 = true
      · rw [if_pos hc] at hr
        obtain ⟨j, hj, he, hx⟩ := loop2_spec fuel h.half (m + 1) r hr
        refine ⟨j + 1, by omega, ?_, ?_⟩
        · rw [he]; simp only [Dy.half, Prod.mk.injEq, Dy.mk.injEq, true_and]; constructor <;> omega
        · simp only [Dy.half] at hx
          have e1 : h.k + 1 + j = h.k + (j + 1) := by omega
          rw [e1] at hx; exact hx
      · rw [if_neg hc] at hr
        injection hr with hr
        subst hr
        exact ⟨0, by omega, by simp, by simpa using hc⟩

/-- **termination of the multiplier loop**: a value below 2036.75·2^fuel needs at most `fuel` halvings -/
theorem loop2_terminates : ∀ (fuel : Nat) (h : Dy) (m : Nat), h.n * 4 < 8147 * 2 ^ (h.k + fuel) →
    ∃ r, loop2 (fuel + 1) h m = .ok r
  | 0, h, m, hlt => by
      unfold loop2
      have : ¬ h.geQ 8147 = true := by
        simp only [Dy.geQ, decide_eq_true_eq, Nat.not_le]
        simpa using hlt
      rw [if_neg this]; exact ⟨_, rfl⟩
  | fuel + 1, h, m, hlt => by
      unfold loop2
      by_cases hc : h.geQ 8147 = true
      · rw [if_pos hc]
        apply loop2_terminates fuel h.half (m + 1)
        simp only [Dy.half]
        have e : h.k + 1 + fuel = h.k + (fuel + 1) := by omega
        rw [e]; exact hlt
      · rw [if_neg hc]; exact ⟨_, rfl⟩

/-- exponent bound of IEEE doubles: every finite double is below 2^1024 -/
def maxDoubleExp : Nat := 1024

theorem loop2_total_aux (F : Nat) (hF : maxDoubleExp + 2 ≤ F) (h : Dy) (b : Nat)
    (hfin : h.n < 2 ^ maxDoubleExp * 2 ^ h.k) : ∃ r, loop2 (F + 1) (⟨h.n, h.k + b⟩ : Dy) 0 = .ok r := by
  apply loop2_terminates
  show h.n * 4 < 8147 * 2 ^ (h.k + b + F)
  have e : 2 ^ (h.k + b + F) = 2 ^ h.k * 2 ^ b * 2 ^ F := by rw [Nat.pow_add, Nat.pow_add]
  rw [e]
  have h1 : 1 ≤ 2 ^ b := Nat.one_le_two_pow
  have h2 : (2 : Nat) ^ maxDoubleExp * 4 ≤ 2 ^ F := by
    have : (2 : Nat) ^ maxDoubleExp * 4 = 2 ^ (maxDoubleExp + 2) := by rw [Nat.pow_add]
    rw [this]
    exact Nat.pow_le_pow_right (by decide) hF
  calc h.n * 4 < 2 ^ maxDoubleExp * 2 ^ h.k * 4 := Nat.mul_lt_mul_of_pos_right hfin (by decide)
    _ = 2 ^ h.k * (2 ^ maxDoubleExp * 4) := by rw [Nat.mul_comm (2 ^ maxDoubleExp) (2 ^ h.k), Nat.mul_assoc]
    _ ≤ 2 ^ h.k * 2 ^ F := Nat.mul_le_mul_left _ h2
    _ = 2 ^ h.k * 1 * 2 ^ F := by rw [Nat.mul_one]
    _ ≤ 2 ^ h.k * 2 ^ b * 2 ^ F := Nat.mul_le_mul_right _ (Nat.mul_le_mul_left _ h1)
    _ ≤ 8147 * (2 ^ h.k * 2 ^ b * 2 ^ F) := Nat.le_mul_of_pos_left _ (by decide)

/-- **C02/C10, the frequency search terminates for every finite double** (any n/2^k below 2^1024): no hang. -/
theorem search_total (h : Dy) (hfin : h.n < 2 ^ maxDoubleExp * 2 ^ h.k) : ∃ r, search h = .ok r := by
  obtain ⟨b, hb, he, _⟩ := loop1_real h
  have hF : maxDoubleExp + 2 ≤ 1099 := by unfold maxDoubleExp; decide
  obtain ⟨r, hr⟩ := loop2_total_aux 1099 hF h b hfin
  obtain ⟨h2, m⟩ := r
  have hr' : loop2 fuel2 (⟨h.n, h.k + b⟩ : Dy) 0 = .ok (h2, m) := hr
  refine ⟨{ ftone := b * 0x800 + fnumOf h2, mulOffset := m }, ?_⟩
  simp only [search, he, hr', bind, Except.bind]

/-- rounding to the nearest F-number: `fnumOf h` is within half a step of `h` (the single IEEE corner value
    0.5 − 2^-54, where `hertz + 0.5` rounds up to 1.0, is excluded here and covered by `fnum_predHalf`) -/
theorem fnum_round (h : Dy) (hp : isPredHalf h = false) :
    fnumOf h * 2 ^ (h.k + 1) ≤ 2 * h.n + 2 ^ h.k ∧ 2 * h.n + 2 ^ h.k < (fnumOf h + 1) * 2 ^ (h.k + 1) := by
  unfold fnumOf
  rw [hp]
  simp only [Bool.false_eq_true, if_false]
  have hpos : 0 < 2 ^ (h.k + 1) := Nat.two_pow_pos _
  constructor
  · exact Nat.div_mul_le_self _ _
  · rw [Nat.add_mul, Nat.one_mul]
    exact Nat.lt_div_mul_add hpos

theorem fnum_predHalf (h : Dy) (hp : isPredHalf h = true) : fnumOf h = 1 ∧ 2 * h.n < 2 ^ h.k := by
  unfold fnumOf; rw [hp]; simp only [if_true, true_and]
  simp only [isPredHalf, beq_iff_eq] at hp
  have : (2 ^ 53 - 1) * 2 ^ h.k < 2 ^ 53 * 2 ^ h.k := by
    apply Nat.mul_lt_mul_of_pos_right (by decide) (Nat.two_pow_pos _)
  have e : h.n * 2 ^ 54 = 2 * h.n * 2 ^ 53 := by
    have : (2 : Nat) ^ 54 = 2 * 2 ^ 53 := by decide
    rw [this]; ac_rfl
  have : 2 * h.n * 2 ^ 53 < 2 ^ h.k * 2 ^ 53 := by rw [← e, hp, Nat.mul_comm (2 ^ h.k)]; exact this
  exact Nat.lt_of_mul_lt_mul_right this

/-- **C10, inside the chip's native range** (hertz·coef < 2036.75·2^7): the search uses no multiplier offset, the block is
    at most 7, the F-number fits its 11 bits, and block/F-number denote the requested frequency within half an
    F-number step: |fnum·2^block − h| ≤ 2^block / 2. -/
theorem search_spec (h : Dy) (hr : h.n * 4 < 8147 * 2 ^ (h.k + 7)) :
    ∃ b f, search h = .ok { ftone := b * 0x800 + f, mulOffset := 0 } ∧ b ≤ 7 ∧ f < 2048 ∧ f = fnumOf ⟨h.n, h.k + b⟩ ∧
      (isPredHalf ⟨h.n, h.k + b⟩ = false →
        f * 2 ^ (h.k + b + 1) ≤ 2 * h.n + 2 ^ (h.k + b) ∧ 2 * h.n + 2 ^ (h.k + b) < (f + 1) * 2 ^ (h.k + b + 1)) := by
  obtain ⟨b, hb, he, hx⟩ := loop1_real h
  -- after loop 1 the value is below 2036.75
  have hlow : (⟨h.n, h.k + b⟩ : Dy).geQ 8147 = false := by
    rcases hx with h1 | h7
    · simp only [Dy.geQ, decide_eq_false_iff_not, Nat.not_le] at h1 ⊢; omega
    · subst h7; simp only [Dy.geQ, decide_eq_false_iff_not, Nat.not_le]; omega
  have hl2 : loop2 fuel2 (⟨h.n, h.k + b⟩ : Dy) 0 = .ok (⟨h.n, h.k + b⟩, 0) := by
    unfold fuel2 loop2; rw [if_neg (by simp [hlow])]
  refine ⟨b, fnumOf ⟨h.n, h.k + b⟩, ?_, hb, ?_, rfl, ?_⟩
  · simp only [search, he, hl2, bind, Except.bind]
  · -- F-number below 2048 because the value is below 2036.75
    simp only [Dy.geQ, decide_eq_false_iff_not, Nat.not_le] at hlow
    by_cases hp : isPredHalf ⟨h.n, h.k + b⟩ = true
    · rw [(fnum_predHalf _ hp).1]; decide
    · have hp' : isPredHalf ⟨h.n, h.k + b⟩ = false := by simpa using hp
      have := (fnum_round ⟨h.n, h.k + b⟩ hp').1
      simp only at this
      have e : 2 ^ (h.k + b + 1) = 2 * 2 ^ (h.k + b) := by rw [Nat.pow_succ]; omega
      rw [e] at this
      -- f * 2 * 2^K ≤ 2n + 2^K and 4n < 8147 * 2^K  →  f ≤ 2037
      have hK : 0 < 2 ^ (h.k + b) := Nat.two_pow_pos _
      apply Nat.lt_of_mul_lt_mul_right (a := 2 * 2 ^ (h.k + b))
      calc fnumOf ⟨h.n, h.k + b⟩ * (2 * 2 ^ (h.k + b)) ≤ 2 * h.n + 2 ^ (h.k + b) := this
        _ < 2048 * (2 * 2 ^ (h.k + b)) := by omega
  · intro hp
    exact fnum_round ⟨h.n, h.k + b⟩ hp

/-- the MUL register rewriting keeps the number of operators and writes bytes -/
theorem mulBytes_length : ∀ (m : Nat) (regs : List Nat), (mulBytes m regs).length = regs.length
  | _, [] => rfl
  | m, r :: regs => by
      by_cases hm : m > 0
      · simp only [mulBytes, hm, if_true]
        split <;> simp [mulBytes_length]
      · simp [mulBytes, hm, mulBytes_length]

/-- without a multiplier offset the detune/multiple bytes of the instrument are written unchanged -/
theorem mulBytes_zero : ∀ (regs : List Nat), (∀ r ∈ regs, r < 256) → mulBytes 0 regs = regs
  | [], _ => rfl
  | r :: regs, h => by
      unfold mulBytes
      have hr := h r (by simp)
      simp only [Nat.lt_irrefl, if_false, wrap8]
      rw [mulBytes_zero regs (fun x hx => h x (by simp [hx])), Nat.mod_eq_of_lt hr]

/-! ## non-vacuity -/

-- A4 = 440 Hz on OPN2: hertz·coef = 8.1758·2^(69/12)·39.37 = 17323.3…; a dyadic close to it
example : (search ⟨17323 * 1024 + 337, 10⟩).toOption = some { ftone := 5 * 0x800 + 541, mulOffset := 0 } := by decide +kernel
example : (⟨17323 * 1024 + 337, 10⟩ : Dy).n * 4 < 8147 * 2 ^ (10 + 7) := by decide


/-! ## which voices a pitch-bend message re-pitches (the guard of noteUpdate's Upd_Pitch branch, `Synth.pitchApplies`) -/

/-- **a key that is still down is re-pitched**: its chip-channel user carries no mark (0) or only the sostenuto mark (2) -/
theorem bend_reaches_keydown (u : Synth.User) (h : u.sus = 0 ∨ u.sus = 2) : Synth.pitchApplies (some u) = true := by
  rcases h with h | h <;> simp [Synth.pitchApplies, h]

/-- a voice whose user entry does not exist yet (the note-on in progress) is pitched -/
theorem bend_reaches_fresh : Synth.pitchApplies none = true := rfl

/-- only a released note that the damper pedal holds (mark 1, or 3 together with sostenuto) is left alone -/
theorem bend_skips_pedal_held (u : Synth.User) (h : u.sus = 1 ∨ u.sus = 3) : Synth.pitchApplies (some u) = false := by
  rcases h with h | h <;> simp [Synth.pitchApplies, h]

/-- **pressing the sostenuto pedal never takes a held key out of reach of the wheel**: every user that `markSostenutoNotes`
    marks was key-down (no mark) and is still re-pitched afterwards -/
theorem sostenuto_keeps_bend (midCh : Nat) (cc : Synth.ChipCh) (u : Synth.User) (hu : u ∈ (Synth.markSost midCh cc).users)
    (hk : ∀ v ∈ cc.users, v.sus = 0 ∨ v.sus = 2) : Synth.pitchApplies (some u) = true := by
  unfold Synth.markSost at hu
  simp only [List.mem_map] at hu
  obtain ⟨v, hv, e⟩ := hu
  have hv' := hk v hv
  subst e
  split
  · rename_i hc
    simp only [Bool.and_eq_true, beq_iff_eq] at hc
    simp [Synth.pitchApplies, hc.2]
  · exact bend_reaches_keydown v hv'

end Opn.C10
