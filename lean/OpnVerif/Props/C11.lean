/-
  C11 — Loudness controls are monotone and stay within the chip's level range.
  Property theorems only (helper lemmas about tables live in Lemmas/Tables.lean; the arithmetic
  lemmas local to this property are in the first section and are not property statements).
  Every `decide` below is about the *regenerated* tables/constants of Gen/Tables.lean.
-/
import OpnVerif.Model.Volume
import OpnVerif.Lemmas.Tables

namespace Opn.C11
open Opn Opn.Volume

/-! ## facts about the regenerated tables and constants -/

theorem dmx_len : Gen.dmxVolumeModel.length = 128 := by decide +kernel
theorem dmx_nondec : isNonDec Gen.dmxVolumeModel = true := by decide +kernel
theorem dmx_le127 : allLe 127 Gen.dmxVolumeModel = true := by decide +kernel
theorem dmx_zero : Gen.dmxVolumeModel[0]? = some 0 := by decide
theorem w9x_len : Gen.w9xVolumeMapping.length = 32 := by decide
theorem w9x_noninc : isNonInc Gen.w9xVolumeMapping = true := by decide +kernel
theorem w9x_le63 : allLe 63 Gen.w9xVolumeMapping = true := by decide +kernel
theorem w9x_zero : Gen.w9xVolumeMapping[0]? = some 63 := by decide
theorem algDo_len : Gen.algDo.length = 8 := by decide
theorem algDo_rows : Gen.algDo.all (·.length == 4) = true := by decide
/-- the double→unsigned cast in the Generic model never sees a negative value -/
theorem generic_T0_ok : Gen.genericT0 ≤ Gen.genericMinVolume + 1 := by decide
theorem divs_pos : 0 < Gen.nativeDiv ∧ 0 < Gen.dmxDiv ∧ 0 < Gen.apogeeDiv ∧ 0 < Gen.w9xDiv := by decide
/-- in-range controller values never reach the table clamps (so the clamps are invisible there) -/
theorem dmxClamp_eq : Gen.dmxClamp = 127 := by decide
theorem w9xClamp_eq : Gen.w9xClamp = 31 := by decide
theorem dmx_index_in_range : (127 * 127 * 127) / Gen.dmxDiv ≤ 127 := by decide
theorem w9x_index_in_range : ((127 * 127 * 127 * 127) / Gen.w9xDiv) / 4 ≤ 31 := by decide

/-! ## local arithmetic lemmas -/

theorem plus64_mono {a b : Nat} (h : a ≤ b) : plus64 a ≤ plus64 b := by
  unfold plus64; split <;> split <;> omega

theorem clamp127_mono {a b : Nat} (h : a ≤ b) : clamp127 a ≤ clamp127 b := by
  unfold clamp127; split <;> split <;> omega

theorem clamp127_le (a : Nat) : clamp127 a ≤ 127 := by
  unfold clamp127; split <;> omega

theorem genericLevel_mono {v w : Nat} (h : v ≤ w) : genericLevel v ≤ genericLevel w := by
  unfold genericLevel
  have := filter_le_length_mono Gen.genericThresholds h
  split <;> split <;> omega

theorem mul4_mono {a b c d a' b' c' d' : Nat} (h1 : a ≤ a') (h2 : b ≤ b') (h3 : c ≤ c') (h4 : d ≤ d') :
    a * b * c * d ≤ a' * b' * c' * d' :=
  Nat.mul_le_mul (Nat.mul_le_mul (Nat.mul_le_mul h1 h2) h3) h4

theorem mul3_mono {a b c a' b' c' : Nat} (h1 : a ≤ a') (h2 : b ≤ b') (h3 : c ≤ c') :
    a * b * c ≤ a' * b' * c' :=
  Nat.mul_le_mul (Nat.mul_le_mul h1 h2) h3

theorem dmx_get_ok (i : Nat) (hi : i ≤ 127) (site : String) :
    ∃ t, tbl site Gen.dmxVolumeModel i = .ok t ∧ t ≤ 127 ∧
      Gen.dmxVolumeModel[i]? = some t := by
  have hl : i < Gen.dmxVolumeModel.length := by rw [dmx_len]; omega
  exact ⟨Gen.dmxVolumeModel[i], tbl_ok _ _ _ hl, allLe_get _ _ dmx_le127 _ hl, List.getElem?_eq_getElem hl⟩

theorem dmx_mono {i j : Nat} (hij : i ≤ j) (hj : j ≤ 127) {a b : Nat}
    (ha : Gen.dmxVolumeModel[i]? = some a) (hb : Gen.dmxVolumeModel[j]? = some b) : a ≤ b := by
  have hl : j < Gen.dmxVolumeModel.length := by rw [dmx_len]; omega
  have hli : i < Gen.dmxVolumeModel.length := by omega
  rw [List.getElem?_eq_getElem hli] at ha
  rw [List.getElem?_eq_getElem hl] at hb
  injection ha with ha; injection hb with hb
  subst ha; subst hb
  exact isNonDec_get _ dmx_nondec i j hli hl hij

theorem w9x_get_ok (i : Nat) (hi : i ≤ 31) :
    ∃ t, tbl "W9X_volume_mapping_table" Gen.w9xVolumeMapping i = .ok t ∧ t ≤ 63 ∧
      Gen.w9xVolumeMapping[i]? = some t := by
  have hl : i < Gen.w9xVolumeMapping.length := by rw [w9x_len]; omega
  exact ⟨Gen.w9xVolumeMapping[i], tbl_ok _ _ _ hl, allLe_get _ _ w9x_le63 _ hl, List.getElem?_eq_getElem hl⟩

theorem w9x_anti {i j : Nat} (hij : i ≤ j) (hj : j ≤ 31) {a b : Nat}
    (ha : Gen.w9xVolumeMapping[i]? = some a) (hb : Gen.w9xVolumeMapping[j]? = some b) : b ≤ a := by
  have hl : j < Gen.w9xVolumeMapping.length := by rw [w9x_len]; omega
  have hli : i < Gen.w9xVolumeMapping.length := by omega
  rw [List.getElem?_eq_getElem hli] at ha
  rw [List.getElem?_eq_getElem hl] at hb
  injection ha with ha; injection hb with hb
  subst ha; subst hb
  exact isNonInc_get _ w9x_noninc i j hli hl hij

/-- closed form of the DMX branch -/
theorem rawVolume_dmx (vel vol expr master : Nat) :
    ∃ t tv, Gen.dmxVolumeModel[min ((vol * expr * master) / Gen.dmxDiv) 127]? = some t ∧
      Gen.dmxVolumeModel[if vel < 128 then vel else 127]? = some tv ∧ t ≤ 127 ∧ tv ≤ 127 ∧
      rawVolume .dmx vel vol expr master = .ok (plus64 ((tv * ((t + 1) * 2)) / 512)) := by
  obtain ⟨t, h1, h2, h3⟩ := dmx_get_ok (min ((vol * expr * master) / Gen.dmxDiv) 127)
    (Nat.min_le_right _ _) "s_dmx_volume_model[volume]"
  obtain ⟨tv, g1, g2, g3⟩ := dmx_get_ok (if vel < 128 then vel else 127)
    (by split <;> omega) "s_dmx_volume_model[velocity]"
  refine ⟨t, tv, h3, g3, h2, g2, ?_⟩
  simp only [rawVolume, dmxClamp_eq, h1, g1, bind, Except.bind]

/-- closed form of the Win9x branch -/
theorem rawVolume_w9x (vel vol expr master : Nat) :
    ∃ t, Gen.w9xVolumeMapping[min (((vel * vol * expr * master) / Gen.w9xDiv) / 4) 31]? = some t ∧ t ≤ 63 ∧
      rawVolume .w9x vel vol expr master = .ok (plus64 (63 - t)) := by
  obtain ⟨t, h1, h2, h3⟩ := w9x_get_ok (min (((vel * vol * expr * master) / Gen.w9xDiv) / 4) 31)
    (Nat.min_le_right _ _)
  refine ⟨t, h3, h2, ?_⟩
  have : ¬ t > 63 := by omega
  simp only [rawVolume, w9xClamp_eq, h1, bind, Except.bind, this, if_false]

/-! ## property theorems -/

/-- **No table over-read, for every argument value** (also beyond 127): the volume computation
    never faults and the resulting level is in 0..127. -/
theorem volume_total (m : VModel) (vel vol expr master : Nat) :
    ∃ v, volumeOf m vel vol expr master = .ok v ∧ v ≤ 127 := by
  unfold volumeOf
  cases m with
  | generic => exact ⟨_, rfl, clamp127_le _⟩
  | native => exact ⟨_, rfl, clamp127_le _⟩
  | apogee => exact ⟨_, rfl, clamp127_le _⟩
  | dmx =>
      obtain ⟨t, tv, _, _, _, _, h⟩ := rawVolume_dmx vel vol expr master
      rw [h]; exact ⟨_, rfl, clamp127_le _⟩
  | w9x =>
      obtain ⟨t, _, _, h⟩ := rawVolume_w9x vel vol expr master
      rw [h]; exact ⟨_, rfl, clamp127_le _⟩

/-- **Monotonicity of the level** in velocity, channel volume, expression and master volume,
    jointly (hence in each one with the others fixed), for all five volume models. -/
theorem volume_mono (m : VModel) {vel vel' vol vol' expr expr' master master' : Nat}
    (h1 : vel ≤ vel') (h2 : vol ≤ vol') (h3 : expr ≤ expr') (h4 : master ≤ master')
    {v v' : Nat} (hv : volumeOf m vel vol expr master = .ok v)
    (hv' : volumeOf m vel' vol' expr' master' = .ok v') : v ≤ v' := by
  unfold volumeOf at hv hv'
  cases m with
  | generic =>
      simp only [rawVolume, Except.map] at hv hv'
      injection hv with hv; injection hv' with hv'; subst hv; subst hv'
      exact clamp127_mono (genericLevel_mono (mul4_mono h1 h4 h2 h3))
  | native =>
      simp only [rawVolume, Except.map] at hv hv'
      injection hv with hv; injection hv' with hv'; subst hv; subst hv'
      exact clamp127_mono (plus64_mono (Nat.div_le_div_right (mul4_mono h1 h2 h3 h4)))
  | apogee =>
      simp only [rawVolume, Except.map] at hv hv'
      injection hv with hv; injection hv' with hv'; subst hv; subst hv'
      refine clamp127_mono (plus64_mono (Nat.div_le_div_right (Nat.mul_le_mul ?_ ?_)))
      · omega
      · exact Nat.div_le_div_right (mul3_mono h2 h3 h4)
  | dmx =>
      obtain ⟨t, tv, ht, htv, _, _, h⟩ := rawVolume_dmx vel vol expr master
      obtain ⟨t', tv', ht', htv', _, _, h'⟩ := rawVolume_dmx vel' vol' expr' master'
      rw [h] at hv; rw [h'] at hv'
      simp only [Except.map] at hv hv'
      injection hv with hv; injection hv' with hv'; subst hv; subst hv'
      have hidx : min ((vol * expr * master) / Gen.dmxDiv) 127 ≤ min ((vol' * expr' * master') / Gen.dmxDiv) 127 := by
        have := Nat.div_le_div_right (c := Gen.dmxDiv) (mul3_mono h2 h3 h4)
        omega
      have htt : t ≤ t' := dmx_mono hidx (Nat.min_le_right _ _) ht ht'
      have hvel : (if vel < 128 then vel else 127) ≤ (if vel' < 128 then vel' else 127) := by
        split <;> split <;> omega
      have htvv : tv ≤ tv' := dmx_mono hvel (by split <;> omega) htv htv'
      refine clamp127_mono (plus64_mono (Nat.div_le_div_right (Nat.mul_le_mul htvv ?_)))
      omega
  | w9x =>
      obtain ⟨t, ht, _, h⟩ := rawVolume_w9x vel vol expr master
      obtain ⟨t', ht', _, h'⟩ := rawVolume_w9x vel' vol' expr' master'
      rw [h] at hv; rw [h'] at hv'
      simp only [Except.map] at hv hv'
      injection hv with hv; injection hv' with hv'; subst hv; subst hv'
      have hidx : min (((vel * vol * expr * master) / Gen.w9xDiv) / 4) 31 ≤
          min (((vel' * vol' * expr' * master') / Gen.w9xDiv) / 4) 31 := by
        have := Nat.div_le_div_right (c := 4) (Nat.div_le_div_right (c := Gen.w9xDiv) (mul4_mono h1 h2 h3 h4))
        omega
      have htt : t' ≤ t := w9x_anti hidx (Nat.min_le_right _ _) ht ht'
      exact clamp127_mono (plus64_mono (by omega))

/-- **Zero channel volume, expression or master volume gives level 0** in every model. -/
theorem volume_zero (m : VModel) (vel vol expr master : Nat)
    (hz : vol = 0 ∨ expr = 0 ∨ master = 0) : volumeOf m vel vol expr master = .ok 0 := by
  have hp3 : vol * expr * master = 0 := by
    rcases hz with h | h | h <;> subst h <;> simp
  have hp4 : vel * vol * expr * master = 0 := by
    rcases hz with h | h | h <;> subst h <;> simp
  have hp4' : vel * master * vol * expr = 0 := by
    rcases hz with h | h | h <;> subst h <;> simp
  unfold volumeOf
  cases m with
  | generic => simp [rawVolume, hp4', genericLevel, Except.map, clamp127]
  | native => simp [rawVolume, hp4, plus64, Except.map, clamp127]
  | apogee => simp [rawVolume, hp3, plus64, Except.map, clamp127]
  | dmx =>
      obtain ⟨t, tv, ht, _, _, htv, h⟩ := rawVolume_dmx vel vol expr master
      rw [hp3] at ht
      have ht0 : t = 0 := by
        have := dmx_zero
        simp only [Nat.zero_div, Nat.zero_min] at ht
        rw [ht] at this; injection this
      rw [h]; subst ht0
      have : (tv * ((0 + 1) * 2)) / 512 = 0 := by
        apply Nat.div_eq_of_lt; omega
      simp [this, plus64, Except.map, clamp127]
  | w9x =>
      obtain ⟨t, ht, _, h⟩ := rawVolume_w9x vel vol expr master
      rw [hp4] at ht
      have ht0 : t = 63 := by
        have := w9x_zero
        simp only [Nat.zero_div, Nat.zero_min] at ht
        rw [ht] at this; injection this
      rw [h]; subst ht0
      simp [plus64, Except.map, clamp127]

/-- **Carrier range**: a scaled operator's byte is in 0..127 for every volume ≤ 127, level byte and brightness. -/
theorem carrier_range (v b x : Nat) : tlByte v true b x ≤ 127 := by
  unfold tlByte scaleTL wrap8
  simp only [Bool.not_true, if_true, Bool.false_eq_true, if_false]
  split <;> omega

/-- **Carrier monotonicity**: a larger level never increases a scaled operator's attenuation. -/
theorem carrier_mono {v v' : Nat} (h : v ≤ v') (b x : Nat) : tlByte v' true b x ≤ tlByte v true b x := by
  unfold tlByte scaleTL wrap8
  simp only [Bool.not_true, if_true, Bool.false_eq_true, if_false]
  have hm : (v * (127 - x % 128)) / 127 ≤ (v' * (127 - x % 128)) / 127 :=
    Nat.div_le_div_right (Nat.mul_le_mul_right _ h)
  split <;> omega

/-- **Level 0 silences a scaled operator** (attenuation 127). -/
theorem carrier_silent (b x : Nat) : tlByte 0 true b x = 127 := by
  unfold tlByte scaleTL wrap8
  simp only [Bool.not_true, if_true, Bool.false_eq_true, if_false, Nat.zero_mul, Nat.zero_div, Nat.sub_zero]
  split <;> rfl

/-- **Modulators are untouched** unless modulator scaling or a reduced brightness is in force. -/
theorem modulator_untouched (v x : Nat) (hx : x < 256) : tlByte v false 127 x = x := by
  unfold tlByte wrap8
  simp; omega

theorem brightSeq_shift (b : Nat) : ∀ k, brightSeq (stepB b) k = brightSeq b (k + 1)
  | 0 => rfl
  | k + 1 => by simp only [brightSeq]; rw [brightSeq_shift b k]; rfl

/-- **Closed form of the operator loop**: the byte written for operator `k` is `tlByte` of the level,
    that operator's do_op flag, the k-times re-mapped brightness and its level byte. -/
theorem opLoop_get (v : Nat) : ∀ (ps : List (Bool × Nat)) (b k : Nat) (hk : k < ps.length),
    (opLoop v b ps)[k]? = some (tlByte v ps[k].1 (brightSeq b k) ps[k].2) := by
  intro ps
  induction ps with
  | nil => intro b k hk; cases hk
  | cons p ps ih =>
      intro b k hk
      obtain ⟨d, x⟩ := p
      cases k with
      | zero => simp [opLoop, brightSeq]
      | succ k =>
          have hk' : k < ps.length := by simpa using hk
          simp only [opLoop, List.getElem?_cons_succ, List.getElem_cons_succ]
          rw [ih (stepB b) k hk', brightSeq_shift]

/-! ## brightness -/

theorem brightMap_table_nondec : isNonDec ((List.range 127).map brightMap) = true := by decide +kernel
theorem brightMap_table_le126 : allLe 126 ((List.range 127).map brightMap) = true := by decide +kernel

theorem brightMap_lt {b : Nat} (hb : b < 127) : brightMap b ≤ 126 := by
  have hl : b < ((List.range 127).map brightMap).length := by simp; exact hb
  have := allLe_get 126 _ brightMap_table_le126 b hl
  simpa using this

theorem brightMap_mono {b b' : Nat} (h : b ≤ b') (hb' : b' < 127) : brightMap b ≤ brightMap b' := by
  have hl' : b' < ((List.range 127).map brightMap).length := by simp; exact hb'
  have hl : b < ((List.range 127).map brightMap).length := by omega
  have := isNonDec_get _ brightMap_table_nondec b b' hl hl' h
  simpa using this

theorem brightSeq_127 : ∀ k, brightSeq 127 k = 127
  | 0 => rfl
  | k + 1 => by simp [brightSeq, brightSeq_127 k, stepB]

theorem brightSeq_lt {b : Nat} (hb : b < 127) : ∀ k, brightSeq b k < 127
  | 0 => hb
  | k + 1 => by
      have ih := brightSeq_lt hb k
      have hne : (brightSeq b k != 127) = true := by simp; omega
      simp only [brightSeq, stepB, hne, if_true]
      have := brightMap_lt ih; omega

theorem brightSeq_mono {b b' : Nat} (h : b ≤ b') (hb' : b' < 127) : ∀ k, brightSeq b k ≤ brightSeq b' k
  | 0 => h
  | k + 1 => by
      have ih := brightSeq_mono h hb' k
      have l1 := brightSeq_lt (show b < 127 by omega) k
      have l2 := brightSeq_lt hb' k
      have hne1 : (brightSeq b k != 127) = true := by simp; omega
      have hne2 : (brightSeq b' k != 127) = true := by simp; omega
      simp only [brightSeq, stepB, hne1, hne2, if_true]
      exact brightMap_mono ih l2

/-- an unscaled operator under reduced brightness `b < 127` (no uint32 wrap-around happens) -/
theorem modulator_byte {b : Nat} (hb : b < 127) (v x : Nat) :
    tlByte v false b x = 127 - (brightMap b * (127 - x % 128)) / 127 := by
  have hne : (b != 127) = true := by simp; omega
  have hm := brightMap_lt hb
  have h1 : brightMap b * (127 - x % 128) ≤ 126 * 127 := Nat.mul_le_mul hm (by omega)
  have h2 : (brightMap b * (127 - x % 128)) / 127 ≤ 126 := by
    apply Nat.div_le_of_le_mul; omega
  simp only [tlByte, hne, if_true, Bool.not_false, brightTL, wrap32, wrap8, Bool.false_eq_true, if_false]
  omega

/-- **Lower brightness never brightens**: for an operator that is not volume-scaled, the 7 level bits the
    chip uses never decrease when CC74 brightness decreases (for every loop iteration `k`, i.e. with the
    in-loop re-mapping exactly as written). -/
theorem brightness_mono {b b' : Nat} (h : b ≤ b') (hb' : b' ≤ 127) (v k x : Nat) (hx : x < 256) :
    tlByte v false (brightSeq b' k) x % 128 ≤ tlByte v false (brightSeq b k) x % 128 := by
  by_cases h127 : b' = 127
  · subst h127
    rw [brightSeq_127, modulator_untouched v x hx]
    by_cases hb : b = 127
    · subst hb; rw [brightSeq_127, modulator_untouched v x hx]; exact Nat.le_refl _
    · have hlt := brightSeq_lt (show b < 127 by omega) k
      rw [modulator_byte hlt]
      have hm := brightMap_lt hlt
      have : (brightMap (brightSeq b k) * (127 - x % 128)) / 127 ≤ 127 - x % 128 := by
        apply Nat.div_le_of_le_mul
        exact Nat.mul_le_mul_right _ (by omega)
      omega
  · have hb'lt : b' < 127 := by omega
    have l1 := brightSeq_lt (show b < 127 by omega) k
    have l2 := brightSeq_lt hb'lt k
    rw [modulator_byte l1, modulator_byte l2]
    have hm := brightMap_mono (brightSeq_mono h hb'lt k) l2
    have : (brightMap (brightSeq b k) * (127 - x % 128)) / 127 ≤
        (brightMap (brightSeq b' k) * (127 - x % 128)) / 127 :=
      Nat.div_le_div_right (Nat.mul_le_mul_right _ hm)
    omega

/-- brightness does not influence volume-scaled operators -/
theorem brightness_carrier_indep (v b b' x : Nat) : tlByte v true b x = tlByte v true b' x := by
  unfold tlByte; simp

/-- CC74 → brightness argument is monotone and stays in 0..127 for controller values 0..127 -/
theorem effectiveBrightness_mono (isPerc fullRange : Bool) {c c' : Nat} (h : c ≤ c') (hc : c' ≤ 127) :
    effectiveBrightness isPerc fullRange c ≤ effectiveBrightness isPerc fullRange c' ∧
    effectiveBrightness isPerc fullRange c' ≤ 127 := by
  unfold effectiveBrightness
  cases isPerc <;> cases fullRange <;> simp <;> (try split) <;> (try split) <;> omega

/-! ## the statements on `touch` itself (what the correspondence compares with the 0x40.. writes) -/

theorem doOps_ok (alg : Nat) (sm : Bool) : ∃ ds, doOps alg sm = .ok ds ∧ ds.length = 4 := by
  have hl : alg % 8 < Gen.algDo.length := by rw [algDo_len]; omega
  have hrow : (Gen.algDo[alg % 8]).length = 4 := by
    have := List.all_eq_true.mp algDo_rows _ (List.getElem_mem hl)
    simpa using this
  refine ⟨(Gen.algDo[alg % 8]).map (· || sm), ?_, by simp [hrow]⟩
  simp only [doOps, tbl_ok _ _ _ hl, bind, Except.bind]

/-- **touchNote never faults and writes four bytes described by `tlByte`** — for every argument value. -/
theorem touch_spec (i : TouchIn) (hl : i.tl.length = 4) :
    ∃ v ds out, volumeOf i.model i.vel i.vol i.expr i.master = .ok v ∧ v ≤ 127 ∧
      doOps i.alg i.scaleMod = .ok ds ∧ ds.length = 4 ∧ touch i = .ok out ∧ out.length = 4 ∧
      ∀ k (_ : k < 4), ∃ d x, ds[k]? = some d ∧ i.tl[k]? = some x ∧
        out[k]? = some (tlByte v d (brightSeq i.bright k) x) := by
  obtain ⟨v, hv, hv127⟩ := volume_total i.model i.vel i.vol i.expr i.master
  obtain ⟨ds, hds, hdl⟩ := doOps_ok i.alg i.scaleMod
  refine ⟨v, ds, opLoop v i.bright (ds.zip i.tl), hv, hv127, hds, hdl, ?_, ?_, ?_⟩
  · simp only [touch, hv, hds, bind, Except.bind]
  · have : ∀ (ps : List (Bool × Nat)) b, (opLoop v b ps).length = ps.length := by
      intro ps; induction ps with
      | nil => intro b; rfl
      | cons p ps ih => intro b; obtain ⟨d, x⟩ := p; simp [opLoop, ih]
    rw [this]; simp [hdl, hl]
  · intro k hk
    have hz : k < (ds.zip i.tl).length := by simp [hdl, hl]; exact hk
    refine ⟨ds[k]'(by omega), i.tl[k]'(by omega), List.getElem?_eq_getElem _, List.getElem?_eq_getElem _, ?_⟩
    rw [opLoop_get v _ _ k hz]
    simp

/-- **C11, range**: every volume-scaled operator's byte is ≤ 127; unscaled ones equal the instrument byte
    at full brightness. -/
theorem c11_range (i : TouchIn) (hl : i.tl.length = 4) (htl : ∀ x ∈ i.tl, x < 256)
    (out : List Nat) (ho : touch i = .ok out) (ds : List Bool) (hd : doOps i.alg i.scaleMod = .ok ds)
    (k : Nat) (hk : k < 4) (y : Nat) (hy : out[k]? = some y) (d : Bool) (hdk : ds[k]? = some d) :
    (d = true → y ≤ 127) ∧ (d = false → i.bright = 127 → i.tl[k]? = some y) := by
  obtain ⟨v, ds', out', _, _, hds', hdl, ho', _, hget⟩ := touch_spec i hl
  rw [ho] at ho'; injection ho' with ho'; subst ho'
  rw [hd] at hds'; injection hds' with hds'; subst hds'
  obtain ⟨d', x, e1, e2, e3⟩ := hget k hk
  rw [hdk] at e1; injection e1 with e1; subst e1
  rw [hy] at e3; injection e3 with e3
  constructor
  · intro hdt; subst hdt; rw [e3]; exact carrier_range _ _ _
  · intro hdf hb; subst hdf
    have hx : x < 256 := htl _ (List.mem_of_getElem? e2)
    rw [e3, hb, brightSeq_127, modulator_untouched _ _ hx, e2]

/-- **C11, monotonicity**: raising velocity, CC7, CC11 or master volume (others fixed or raised too)
    never increases the attenuation of a volume-scaled operator. -/
theorem c11_mono (i i' : TouchIn) (hl : i.tl.length = 4)
    (hsame : i'.model = i.model ∧ i'.alg = i.alg ∧ i'.scaleMod = i.scaleMod ∧ i'.bright = i.bright ∧ i'.tl = i.tl)
    (h1 : i.vel ≤ i'.vel) (h2 : i.vol ≤ i'.vol) (h3 : i.expr ≤ i'.expr) (h4 : i.master ≤ i'.master)
    (out out' : List Nat) (ho : touch i = .ok out) (ho' : touch i' = .ok out')
    (ds : List Bool) (hd : doOps i.alg i.scaleMod = .ok ds)
    (k : Nat) (hk : k < 4) (hdk : ds[k]? = some true) (y y' : Nat)
    (hy : out[k]? = some y) (hy' : out'[k]? = some y') : y' ≤ y := by
  obtain ⟨hm, ha, hs, hb, ht⟩ := hsame
  have hl' : i'.tl.length = 4 := by rw [ht]; exact hl
  obtain ⟨v, ds1, o1, hv, _, hds1, hdl1, ho1, _, hget1⟩ := touch_spec i hl
  obtain ⟨v', ds2, o2, hv', _, hds2, hdl2, ho2, _, hget2⟩ := touch_spec i' hl'
  rw [ho] at ho1; injection ho1 with ho1; subst ho1
  rw [ho'] at ho2; injection ho2 with ho2; subst ho2
  rw [hd] at hds1; injection hds1 with hds1; subst hds1
  rw [ha, hs, hd] at hds2; injection hds2 with hds2; subst hds2
  obtain ⟨d1, x1, a1, a2, a3⟩ := hget1 k hk
  obtain ⟨d2, x2, b1, b2, b3⟩ := hget2 k hk
  rw [hdk] at a1 b1; injection a1 with a1; injection b1 with b1; subst a1; subst b1
  rw [ht, a2] at b2; injection b2 with b2; subst b2
  rw [hy] at a3; injection a3 with a3
  rw [hy'] at b3; injection b3 with b3
  rw [hm] at hv'
  have hvv := volume_mono i.model h1 h2 h3 h4 hv hv'
  rw [a3, b3, brightness_carrier_indep v' (brightSeq i'.bright k) (brightSeq i.bright k)]
  exact carrier_mono hvv _ _

/-- **C11, silence**: zero CC7, CC11 or master volume silences every volume-scaled operator. -/
theorem c11_zero (i : TouchIn) (hl : i.tl.length = 4) (hz : i.vol = 0 ∨ i.expr = 0 ∨ i.master = 0)
    (out : List Nat) (ho : touch i = .ok out) (ds : List Bool) (hd : doOps i.alg i.scaleMod = .ok ds)
    (k : Nat) (hk : k < 4) (hdk : ds[k]? = some true) : out[k]? = some 127 := by
  obtain ⟨v, ds1, o1, hv, _, hds1, hdl1, ho1, _, hget1⟩ := touch_spec i hl
  rw [ho] at ho1; injection ho1 with ho1; subst ho1
  rw [hd] at hds1; injection hds1 with hds1; subst hds1
  rw [volume_zero i.model i.vel i.vol i.expr i.master hz] at hv
  injection hv with hv; subst hv
  obtain ⟨d1, x1, a1, a2, a3⟩ := hget1 k hk
  rw [hdk] at a1; injection a1 with a1; subst a1
  rw [a3, carrier_silent]

/-- **C11, brightness**: with everything else fixed, a lower brightness argument never lowers the 7 level
    bits of any operator (scaled operators do not depend on it at all). -/
theorem c11_brightness (i i' : TouchIn) (hl : i.tl.length = 4) (htl : ∀ x ∈ i.tl, x < 256)
    (hsame : i'.model = i.model ∧ i'.alg = i.alg ∧ i'.scaleMod = i.scaleMod ∧ i'.tl = i.tl ∧
      i'.vel = i.vel ∧ i'.vol = i.vol ∧ i'.expr = i.expr ∧ i'.master = i.master)
    (hb : i.bright ≤ i'.bright) (hb' : i'.bright ≤ 127)
    (out out' : List Nat) (ho : touch i = .ok out) (ho' : touch i' = .ok out')
    (k : Nat) (hk : k < 4) (y y' : Nat) (hy : out[k]? = some y) (hy' : out'[k]? = some y') :
    y' % 128 ≤ y % 128 := by
  obtain ⟨hm, ha, hs, ht, e1, e2, e3, e4⟩ := hsame
  have hl' : i'.tl.length = 4 := by rw [ht]; exact hl
  obtain ⟨v, ds1, o1, hv, _, hds1, hdl1, ho1, _, hget1⟩ := touch_spec i hl
  obtain ⟨v', ds2, o2, hv', _, hds2, hdl2, ho2, _, hget2⟩ := touch_spec i' hl'
  rw [ho] at ho1; injection ho1 with ho1; subst ho1
  rw [ho'] at ho2; injection ho2 with ho2; subst ho2
  rw [ha, hs, hds1] at hds2; injection hds2 with hds2; subst hds2
  rw [hm, e1, e2, e3, e4, hv] at hv'; injection hv' with hv'; subst hv'
  obtain ⟨d1, x1, a1, a2, a3⟩ := hget1 k hk
  obtain ⟨d2, x2, b1, b2, b3⟩ := hget2 k hk
  rw [a1] at b1; injection b1 with b1; subst b1
  rw [ht, a2] at b2; injection b2 with b2; subst b2
  rw [hy] at a3; injection a3 with a3
  rw [hy'] at b3; injection b3 with b3
  rw [a3, b3]
  cases d1 with
  | true => rw [brightness_carrier_indep v (brightSeq i'.bright k) (brightSeq i.bright k)]; exact Nat.le_refl _
  | false => exact brightness_mono hb hb' v k x1 (htl _ (List.mem_of_getElem? a2))

/-- every algorithm has at least one carrier (operator 4), so the three theorems above are never vacuous -/
theorem carrier_exists (alg : Nat) (sm : Bool) : ∃ ds, doOps alg sm = .ok ds ∧ ds[3]? = some true := by
  have hl : alg % 8 < Gen.algDo.length := by rw [algDo_len]; omega
  have key : (List.range 8).all (fun a => ((Gen.algDo[a]?).bind (·[3]?)) == some true) = true := by decide
  have := List.all_eq_true.mp key (alg % 8) (by simp; omega)
  refine ⟨(Gen.algDo[alg % 8]).map (· || sm), by simp only [doOps, tbl_ok _ _ _ hl, bind, Except.bind], ?_⟩
  rw [List.getElem?_eq_getElem hl] at this
  simp only [Option.bind_some, beq_iff_eq] at this
  simp [this]

/-! ## non-vacuity: concrete inputs meeting the hypotheses, with non-trivial results -/

def exDmx : TouchIn := { model := .dmx, alg := 4, scaleMod := false, bright := 127, vel := 100, vol := 100, expr := 127, master := 127, tl := [35, 20, 40, 10] }
def exGen : TouchIn := { model := .generic, alg := 7, scaleMod := false, bright := 40, vel := 64, vol := 90, expr := 127, master := 127, tl := [0, 10, 20, 127] }
example : (touch exDmx).toOption = some [35, 20, 49, 22] := by decide +kernel
example : (touch exGen).toOption = some [25, 34, 42, 127] := by decide +kernel
example : (volumeOf .w9x 127 127 127 127).toOption = some 127 ∧ (volumeOf .w9x 1 1 1 1).toOption = some 0 := by decide +kernel

end Opn.C11
