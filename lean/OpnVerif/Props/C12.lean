/-
  C12 — Bank select + program change pick the documented instrument, with fallbacks.
-/
import OpnVerif.Spec.Resolve

namespace Opn.C12
open Opn Opn.Synth

/-- all banks hold 128 instruments (true of every map built by the bank API and the bank loader) -/
def Banks128 (banks : BankMap.BMap (List Ins)) : Prop := ∀ k b, BankMap.bfind banks k = some b → b.length = 128

theorem address_eq (mode channel : Nat) (ch : MidiCh) (note : Nat) :
    addressOf mode channel ch note =
      (bankKey (specAddress mode channel ch note) (specAddress mode channel ch note).bankNo,
       (specAddress mode channel ch note).entry, (specAddress mode channel ch note).perc) := by
  unfold addressOf specAddress bankKey
  by_cases hp : (channel % 16 == 9 || ch.isXgPerc) = true
  · simp only [hp, if_true]
    by_cases hx : (mode / 2 % 2 == 1) = true
    · simp [hx]
    · simp [hx]
  · simp only [hp, Bool.false_eq_true, if_false]
    by_cases hz : (ch.bankMsb != 0 || ch.bankLsb != 0) = true
    · simp only [hz, if_true]
      by_cases hg : (mode % 2 == 1) = true <;> simp [hg]
    · simp only [hz, Bool.false_eq_true, if_false]
      simp only [Bool.or_eq_true, bne_iff_ne, ne_eq, not_or, Decidable.not_not] at hz
      simp [hz.1, hz.2]

/-- a bank lookup with an in-range index does not fault -/
theorem look_ok (banks : BankMap.BMap (List Ins)) (h : Banks128 banks) (k idx : Nat) (hi : idx < 128) :
    look banks k idx = ((BankMap.bfind banks k).bind (·[idx]?)).map .ok := by
  unfold look bankIns
  cases hb : BankMap.bfind banks k with
  | none => rfl
  | some b =>
    have hl := h k b hb
    simp only [Option.bind_some]
    rw [List.getElem?_eq_getElem (by omega)]
    rfl

theorem soundingEntry_sounding (banks : BankMap.BMap (List Ins)) (k idx : Nat) (i : Ins)
    (h : soundingEntry banks k idx = some i) : flagNoSound i = false := by
  unfold soundingEntry at h
  rw [Option.filter_eq_some_iff] at h
  simpa using h.2

/-- "cur is the first sounding entry among the banks tried so far, or silent when there is none" -/
def Chain (banks : BankMap.BMap (List Ins)) (idx : Nat) (cur : Ins) (ks : List Nat) : Prop :=
  match ks.findSome? (fun k => soundingEntry banks k idx) with
  | some i => cur = i
  | none => flagNoSound cur = true

theorem empty_silent : flagNoSound Ins.empty = true := by decide

theorem chain_nil (banks : BankMap.BMap (List Ins)) (idx : Nat) : Chain banks idx Ins.empty [] := empty_silent

/-- one fallback step extends the chain -/
theorem chain_step (banks : BankMap.BMap (List Ins)) (h : Banks128 banks) (idx : Nat) (hi : idx < 128) (cur : Ins) (ks : List Nat) (k : Nat)
    (hc : Chain banks idx cur ks) : ∃ r, tryBank banks cur k idx = .ok r ∧ Chain banks idx r (ks ++ [k]) := by
  unfold Chain at hc ⊢
  rw [List.findSome?_append]
  unfold tryBank
  cases hf : ks.findSome? (fun k => soundingEntry banks k idx) with
  | some i =>
    rw [hf] at hc
    have hs := List.exists_of_findSome?_eq_some hf
    obtain ⟨k0, _, hk0⟩ := hs
    have hsnd := soundingEntry_sounding banks k0 idx i hk0
    subst hc
    simp only [hsnd, Bool.false_eq_true, if_false, Option.some_or]
    exact ⟨cur, rfl, rfl⟩
  | none =>
    rw [hf] at hc
    simp only [hc, if_true, Option.none_or, List.findSome?_cons, List.findSome?_nil, look_ok banks h k idx hi]
    cases hb : (BankMap.bfind banks k).bind (·[idx]?) with
    | none =>
      refine ⟨cur, rfl, ?_⟩
      simp only [soundingEntry, hb, Option.filter_none]; exact hc
    | some i =>
      refine ⟨i, rfl, ?_⟩
      simp only [soundingEntry, hb, Option.filter_some]
      by_cases hs : flagNoSound i = true
      · simp [hs]
      · simp [hs]

/-- trying a bank again changes nothing -/
theorem chain_dup (banks : BankMap.BMap (List Ins)) (idx : Nat) (cur : Ins) (ks : List Nat) (k : Nat) (hk : k ∈ ks)
    (hc : Chain banks idx cur ks) : Chain banks idx cur (ks ++ [k]) := by
  unfold Chain at hc ⊢
  rw [List.findSome?_append]
  cases hf : ks.findSome? (fun k => soundingEntry banks k idx) with
  | some i => rw [hf] at hc; simpa using hc
  | none =>
    rw [hf] at hc
    have := List.findSome?_eq_none_iff.mp hf k hk
    simp [this]; exact hc

/-- **C12: the instrument a note-on uses is the documented one** — the exact (bank, program/key) entry when it exists
    and is not blank, otherwise the same entry of the bank with the LSB cleared, otherwise of bank 0; when all three
    are missing or blank the selected instrument is blank (the note is rejected).  Hypotheses: 7-bit program, key and
    bank-select MSB (valid MIDI data bytes; an MSB of 128 or more would reach the percussion tag bit). -/
theorem resolve_eq_spec (banks : BankMap.BMap (List Ins)) (h : Banks128 banks) (mode channel : Nat) (ch : MidiCh) (note : Nat)
    (hp : ch.patch < 128) (hn : note < 128) (hm : ch.bankMsb < 128) (hl : ch.bankLsb < 256) :
    ∃ r, resolve banks mode channel ch note = .ok r ∧ r.isPerc = (specAddress mode channel ch note).perc ∧
      (match specResolve banks (specAddress mode channel ch note) with
       | some i => r.ins = i
       | none => flagNoSound r.ins = true) := by
  have hidx : (specAddress mode channel ch note).entry < 128 := by
    unfold specAddress; split <;> assumption
  have hno : (specAddress mode channel ch note).bankNo < percussionTag := by
    unfold specAddress percussionTag; split
    · simp only; split <;> omega
    · simp only; split <;> omega
  generalize ha : specAddress mode channel ch note = a at hidx hno
  have goal : ∃ a3, resolveIns banks (bankKey a a.bankNo) a.entry = .ok a3 ∧
      Chain banks a.entry a3 [bankKey a a.bankNo, bankKey a a.bankNo / 128 * 128, bankKey a 0] := by
    have hk3 : bankKey a a.bankNo / percussionTag % 2 * percussionTag = bankKey a 0 := by
      unfold bankKey percussionTag at *; split <;> omega
    unfold resolveIns
    rw [hk3]
    by_cases c1 : bankKey a a.bankNo % percussionTag > 0
    · rw [if_pos c1]
      obtain ⟨a1, e1, ch1⟩ := chain_step banks h a.entry hidx Ins.empty [] (bankKey a a.bankNo) (chain_nil banks a.entry)
      rw [e1]
      simp only
      by_cases c2 : (bankKey a a.bankNo / 128 * 128 != bankKey a a.bankNo) = true
      · rw [if_pos c2]
        obtain ⟨a2, e2, ch2⟩ := chain_step banks h a.entry hidx a1 _ (bankKey a a.bankNo / 128 * 128) ch1
        rw [e2]
        simp only
        obtain ⟨a3, e3, ch3⟩ := chain_step banks h a.entry hidx a2 _ (bankKey a 0) ch2
        exact ⟨a3, e3, by simpa using ch3⟩
      · rw [if_neg c2]
        simp only
        have heq : bankKey a a.bankNo / 128 * 128 = bankKey a a.bankNo := by simpa using c2
        have ch2 := chain_dup banks a.entry a1 _ (bankKey a a.bankNo / 128 * 128) (by rw [heq]; simp) ch1
        obtain ⟨a3, e3, ch3⟩ := chain_step banks h a.entry hidx a1 _ (bankKey a 0) ch2
        exact ⟨a3, e3, by simpa using ch3⟩
    · rw [if_neg c1]
      simp only
      have hb0 : a.bankNo = 0 := by unfold bankKey percussionTag at *; split at c1 <;> omega
      have hk1 : bankKey a a.bankNo = bankKey a 0 := by rw [hb0]
      have hk2 : bankKey a a.bankNo / 128 * 128 = bankKey a 0 := by
        rw [hk1]; unfold bankKey percussionTag; split <;> omega
      have c2 : ¬ (bankKey a a.bankNo / 128 * 128 != bankKey a a.bankNo) = true := by rw [hk2, hk1]; simp
      rw [if_neg c2]
      simp only
      obtain ⟨a3, e3, ch3⟩ := chain_step banks h a.entry hidx Ins.empty [] (bankKey a 0) (chain_nil banks a.entry)
      refine ⟨a3, e3, ?_⟩
      rw [hk2, hk1]
      have d1 := chain_dup banks a.entry a3 _ (bankKey a 0) (by simp) ch3
      have d2 := chain_dup banks a.entry a3 _ (bankKey a 0) (by simp) d1
      simpa using d2
  obtain ⟨a3, e3, ch3⟩ := goal
  have hspec : (match specResolve banks a with | some i => a3 = i | none => flagNoSound a3 = true) := ch3
  unfold resolve
  rw [address_eq, ha]
  simp only [e3]
  split
  · exact ⟨_, rfl, rfl, hspec⟩
  · exact ⟨_, rfl, rfl, hspec⟩

end Opn.C12
