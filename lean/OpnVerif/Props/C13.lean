/-
  C13 — Audio calls fill exactly what they report, in the requested sample format.
-/
import OpnVerif.Model.Audio

namespace Opn.C13
open Opn Opn.Audio

/-! ## return value -/

theorem sub_tmod2 (n : Int) : n - Int.tmod n 2 = 2 * Int.tdiv n 2 := by
  have := Int.tmod_def n 2
  omega

theorem tdiv2_of_neg (x : Int) (h : x < 0) : Int.tdiv x 2 = -((-x) / 2) := by
  have h1 : x = -(-x) := by omega
  rw [h1, Int.neg_tdiv, Int.tdiv_eq_ediv_of_nonneg (by omega)]
  simp

/-- **generate returns the request rounded down to even, and 0 for negative requests** -/
theorem evenCount_spec (n : Int) : (n < 0 → evenCount n = 0) ∧ (0 ≤ n → (evenCount n : Int) = n - n % 2) := by
  constructor
  · intro h
    unfold evenCount
    rw [sub_tmod2, tdiv2_of_neg n h]
    split
    · rfl
    · rename_i h2
      have : 2 * -(-n / 2) = 0 := by omega
      rw [this]; rfl
  · intro h
    unfold evenCount
    rw [Int.tmod_eq_emod_of_nonneg h]
    have : ¬ (n - n % 2 < 0) := by omega
    simp only [this, if_false]
    omega

/-! ## conversions: the stored value is the documented conversion of the saturated sample -/

theorem cvtS16_range (x : Int) : -32768 ≤ cvtS16 x ∧ cvtS16 x ≤ 32767 := by
  unfold cvtS16; split <;> (try split) <;> omega

theorem cvtS16_id (x : Int) (h1 : -32768 ≤ x) (h2 : x ≤ 32767) : cvtS16 x = x := by
  unfold cvtS16; split <;> (try split) <;> omega

/-- U16 = S16 + 32768, in 0..65535 -/
theorem cvtU16_spec (x : Int) : cvtU16 x = cvtS16 x + 32768 ∧ 0 ≤ cvtU16 x ∧ cvtU16 x ≤ 65535 := by
  have := cvtS16_range x
  unfold cvtU16; omega

theorem tdiv256_range (y : Int) (h1 : -32768 ≤ y) (h2 : y ≤ 32767) : -128 ≤ Int.tdiv y 256 ∧ Int.tdiv y 256 ≤ 127 := by
  by_cases hy : 0 ≤ y
  · rw [Int.tdiv_eq_ediv_of_nonneg hy]; omega
  · have h1' : y = -(-y) := by omega
    rw [h1', Int.neg_tdiv, Int.tdiv_eq_ediv_of_nonneg (by omega)]
    omega

/-- S8 is the saturated sample scaled by 1/256 (C truncation), U8 = S8 + 128 -/
theorem cvt8_spec (x : Int) : -128 ≤ cvtS8 x ∧ cvtS8 x ≤ 127 ∧ cvtU8 x = cvtS8 x + 128 ∧ 0 ≤ cvtU8 x ∧ cvtU8 x ≤ 255 := by
  have r := cvtS16_range x
  have := tdiv256_range (cvtS16 x) r.1 r.2
  unfold cvtU8 cvtS8; omega

/-- S24/U24 and S32 are the saturated sample scaled by 2^8 / 2^16, U24 offset by 2^23 -/
theorem cvt24_32_spec (x : Int) :
    cvtS24 x = cvtS16 x * 256 ∧ cvtU24 x = cvtS16 x * 256 + 8388608 ∧ 0 ≤ cvtU24 x ∧ cvtU24 x < 16777216 ∧
    cvtS32 x = cvtS16 x * 65536 ∧ -2147483648 ≤ cvtS32 x ∧ cvtS32 x ≤ 2147483647 := by
  have r := cvtS16_range x
  unfold cvtU24 cvtS24 cvtS32; omega

/-- U32 is S32 with the sign bit flipped: as a 32-bit pattern it is S32 + 2^31 -/
theorem cvtU32_spec (x : Int) : ofSigned 32 (cvtU32 x) = (cvtS32 x + 2147483648).toNat := by
  have r := cvt24_32_spec x
  unfold cvtU32 toSigned ofSigned
  simp only
  split <;> omega

/-- **unsupported (type, container) pairs are refused** and supported ones are accepted -/
theorem convert_supported (t : SType) (c : Nat) (x : Int) :
    (convert t c x).isSome = (match t with
      | .s8 | .u8 => c == 1 || c == 2 || c == 4
      | .s16 | .u16 => c == 2 || c == 4
      | .s24 | .u24 | .s32 | .u32 | .f32 => c == 4
      | .f64 => c == 8) := by
  cases t <;> simp only [convert] <;> split <;> simp_all

/-- an integer container receives exactly `container` bytes -/
theorem convert_size (t : SType) (c : Nat) (x : Int) (bs : List Nat) (h : convert t c x = some (.bytes bs)) : bs.length = c := by
  have hl : ∀ n v, (leBytes n v).length = n := by intro n v; simp [leBytes]
  cases t <;> simp only [convert] at h <;> split at h <;> (try cases h) <;> (try simp only [hl]) <;> simp_all

/-! ## placement: exactly the reported frames, each once, at left/right + i*sampleOffset -/

/-- the stores of one period -/
theorem sendStereo_frames (req inFrames outPos off : Nat) (hfit : outPos + inFrames * 2 ≤ req) (heven : outPos % 2 = 0) :
    sendStereo req inFrames outPos off =
      (List.range inFrames).flatMap fun i =>
        [{ right := false, offset := (outPos / 2 + i) * off, frame := outPos / 2 + i },
         { right := true, offset := (outPos / 2 + i) * off, frame := outPos / 2 + i }] := by
  unfold sendStereo
  by_cases h0 : inFrames = 0
  · subst h0; simp
  · have : (inFrames == 0) = false := by simp [h0]
    simp only [this, Bool.false_eq_true, if_false]
    have hm : min (req - outPos) (inFrames * 2) = inFrames * 2 := by omega
    rw [hm]
    have : inFrames * 2 / 2 = inFrames := by omega
    rw [this]

/-- frames touched by a list of stores, in order -/
def framesOf (ws : List Write) : List Nat := (ws.filter (fun w => !w.right)).map (·.frame)

theorem framesOf_sendStereo (req n outPos off : Nat) (hfit : outPos + n * 2 ≤ req) (heven : outPos % 2 = 0) :
    framesOf (sendStereo req n outPos off) = (List.range n).map (fun i => outPos / 2 + i) := by
  rw [sendStereo_frames req n outPos off hfit heven]
  unfold framesOf
  induction n with
  | zero => simp
  | succ n ih =>
    have hfit' : outPos + n * 2 ≤ req := by omega
    rw [List.range_succ, List.flatMap_append, List.filter_append, List.map_append, ih hfit', List.map_append]
    simp

/-- **generateFormat, for every way the periods are split**: the value returned and the number of frames stored agree,
    the frames stored are 0, 1, 2, … in order, each once — whatever period sizes the float arithmetic produced. -/
theorem generateLoop_frames (req off : Nat) : ∀ (ps : List Nat) (left got : Nat) (ws : List Write),
    got % 2 = 0 → left % 2 = 0 → got + left = req → framesOf ws = List.range (got / 2) →
    let r := generateLoop req off ps left got ws
    r.1 % 2 = 0 ∧ r.1 ≤ req ∧ framesOf r.2 = List.range (r.1 / 2)
  | [], left, got, ws, hg, _, hsum, hw => by
      simp only [generateLoop]; exact ⟨hg, by omega, hw⟩
  | p :: ps, left, got, ws, hg, hl, hsum, hw => by
      simp only [generateLoop]
      by_cases h0 : left = 0
      · simp only [h0, beq_self_eq_true, if_true]; exact ⟨hg, by omega, hw⟩
      · have : (left == 0) = false := by simp [h0]
        simp only [this, Bool.false_eq_true, if_false]
        -- the clamped period size
        generalize hgen : (if (if p > left / 2 then left / 2 else p) > 512 then 512 else (if p > left / 2 then left / 2 else p)) = gen
        have hgen_le : gen * 2 ≤ left := by
          subst hgen; split <;> split <;> omega
        apply generateLoop_frames req off ps (left - gen * 2) (got + gen * 2) _ (by omega) (by omega) (by omega)
        unfold framesOf at hw ⊢
        rw [List.filter_append, List.map_append, hw]
        have hs := framesOf_sendStereo req gen got off (by omega) hg
        unfold framesOf at hs
        rw [hs]
        have e : (got + gen * 2) / 2 = got / 2 + gen := by omega
        rw [e, List.range_add]

/-- every store of a period goes to `base + frame * sampleOffset` -/
theorem sendStereo_offsets (req n outPos off : Nat) : ∀ w ∈ sendStereo req n outPos off, w.offset = w.frame * off := by
  intro w hw
  unfold sendStereo at hw
  split at hw
  · cases hw
  · simp only [List.mem_flatMap, List.mem_range, List.mem_cons, List.mem_nil_iff, or_false] at hw
    obtain ⟨i, _, h | h⟩ := hw <;> subst h <;> rfl

/-! ## non-vacuity -/

example : (generateLoop 10 4 [2, 0, 1, 7] 10 0 []).1 = 10 := by decide
example : framesOf (generateLoop 10 4 [2, 0, 1, 7] 10 0 []).2 = [0, 1, 2, 3, 4] := by decide
example : cvtS16 40000 = 32767 ∧ cvtU16 (-40000) = 0 ∧ cvtS8 (-1) = 0 ∧ cvtU8 32767 = 255 ∧ cvtU24 0 = 8388608 := by decide

end Opn.C13
