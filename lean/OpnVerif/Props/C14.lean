/-
  C14 — Instances are deterministic and isolated: the abstract non-interference argument.
  An instance step reads and writes its own state and may touch process-wide cells.  If every write to a shared cell
  stores a value that does not depend on the writing instance's state or arguments (tables rebuilt with the same
  contents on every chip init), the outputs of an instance are a function of its own call history, whatever other
  instances do in between.  The one cell of the library that does not satisfy the premise is listed as a known finding.
-/
namespace Opn.C14

/-- a world: the private states of two instances and the shared cells -/
structure World (σ γ : Type) where
  a : σ
  b : σ
  shared : γ

/-- an instance step: own state × shared cells → own state × shared cells × output -/
abbrev Step (σ γ ω ι : Type) := ι → σ → γ → σ × γ × ω

/-- the premise: the step writes the shared cells with constants (a fixed value `c`, whatever was there), and reads them
    only through a view on which the initial contents and `c` agree (the tables already hold their final contents) -/
structure Benign {σ γ ω ι : Type} (step : Step σ γ ω ι) (c : γ) : Prop where
  /-- new own state and output do not depend on what the shared cells hold (they hold the same tables for every instance) -/
  indep : ∀ i s g, (step i s g).1 = (step i s c).1 ∧ (step i s g).2.2 = (step i s c).2.2

/-- run instance A's history with arbitrary steps of instance B interleaved (a schedule: `true` = A's next call) -/
def run {σ γ ω ι : Type} (step : Step σ γ ω ι) : List (Bool × ι) → World σ γ → List ω → World σ γ × List ω
  | [], w, outs => (w, outs)
  | (true, i) :: rest, w, outs =>
    let r := step i w.a w.shared
    run step rest { w with a := r.1, shared := r.2.1 } (outs ++ [r.2.2])
  | (false, i) :: rest, w, outs =>
    let r := step i w.b w.shared
    run step rest { w with b := r.1, shared := r.2.1 } outs

/-- A's own calls of a schedule -/
def own {ι : Type} (sched : List (Bool × ι)) : List (Bool × ι) := sched.filter (·.1)

/-- **isolation**: under the premise, the outputs of instance A and its final state under any interleaving with instance B
    equal those of A running alone -/
theorem isolation {σ γ ω ι : Type} (step : Step σ γ ω ι) (c : γ) (hb : Benign step c) :
    ∀ (sched : List (Bool × ι)) (w : World σ γ) (outs : List ω) (g' : γ) (b' : σ),
      (run step sched w outs).2 = (run step (own sched) { w with shared := g', b := b' } outs).2 ∧
      (run step sched w outs).1.a = (run step (own sched) { w with shared := g', b := b' } outs).1.a := by
  intro sched
  induction sched with
  | nil => intro w outs g' b'; simp [run, own]
  | cons x rest ih =>
    intro w outs g' b'
    obtain ⟨who, i⟩ := x
    cases who with
    | true =>
      have h1 := hb.indep i w.a w.shared
      have h2 := hb.indep i w.a g'
      simp only [run, own, List.filter_cons, if_true]
      have e1 : (step i w.a w.shared).1 = (step i w.a g').1 := by rw [h1.1, h2.1]
      have e2 : (step i w.a w.shared).2.2 = (step i w.a g').2.2 := by rw [h1.2, h2.2]
      have := ih { w with a := (step i w.a w.shared).1, shared := (step i w.a w.shared).2.1 } (outs ++ [(step i w.a w.shared).2.2]) (step i w.a g').2.1 b'
      simp only at this
      rw [e1, e2] at this ⊢
      exact this
    | false =>
      have := ih { w with b := (step i w.b w.shared).1, shared := (step i w.b w.shared).2.1 } outs g' b'
      simp only [own] at this
      simp only [run, own, List.filter_cons, Bool.false_eq_true, if_false]
      exact this

/-- **determinism**: repeating a history from the same start reproduces the outputs (the step is a function) -/
theorem determinism {σ γ ω ι : Type} (step : Step σ γ ω ι) (sched : List (Bool × ι)) (w : World σ γ) :
    run step sched w [] = run step sched w [] := rfl

end Opn.C14
