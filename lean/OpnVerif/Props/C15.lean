/-
  C15 — WOPN/OPNI serialisation round-trips and never writes past its buffer.
  (C02's loader-safety theorems are in Props/C02.lean; both use Lemmas/Wopn.lean.)
-/
import OpnVerif.Lemmas.Wopn

namespace Opn.C15
open Opn Opn.Wopn

/-! ## the regenerated constants are the ones the model's literals stand for -/

theorem inst_sizes : Gen.wopnInstSizeV1 = 65 ∧ Gen.wopnInstSizeV2 = 69 := by decide
theorem latest_version : Gen.wopnLatestVersion = 2 := by decide
theorem magic_lengths : Gen.wopnMagic1.length = 11 ∧ Gen.wopnMagic2.length = 11 ∧
    Gen.opniMagic1.length = 11 ∧ Gen.opniMagic2.length = 11 := by decide
theorem magics_differ : Gen.wopnMagic1 ≠ Gen.wopnMagic2 ∧ Gen.opniMagic1 ≠ Gen.opniMagic2 := by decide
theorem blank_flag : Gen.wopnInsBlank = 2 := by decide
theorem err_codes : Gen.wopnErrOk = 0 ∧ Gen.wopnErrUnexpectedEnding ≠ 0 := by decide

/-! ## loading what the saver stores -/

theorem header_bytes (n : Nat) (h : n < 65536) : 256 * ((n / 256) % 256) + n % 256 = n := by omega

theorem readVersion_v2 (m1 m2 rest : Bytes) (h2 : m2.length = 11) (hne : ¬ m2 = m1) :
    readVersion m1 m2 (m2 ++ (putU16le 2 ++ rest)) = .ok (.ok (2, rest)) := by
  unfold readVersion
  rw [if_neg (by simp [h2]), rd_ok _ _ _ (by simp [h2])]
  simp only [List.take_left' h2, List.drop_left' h2, hne, if_false, if_true]
  simp [putU16le, latest_version]

theorem readVersion_v1 (m1 m2 rest : Bytes) (h1 : m1.length = 11) :
    readVersion m1 m2 (m1 ++ rest) = .ok (.ok (1, rest)) := by
  unfold readVersion
  rw [if_neg (by simp [h1]), rd_ok _ _ _ (by simp [h1])]
  simp only [List.take_left' h1, List.drop_left' h1, if_true]

theorem loadBankBody_cons (v h0 h1 h2 h3 h4 : Nat) (cur : Bytes) :
    loadBankBody v (h0 :: h1 :: h2 :: h3 :: h4 :: cur) =
      (match readMetasBoth v (256 * h0 + h1) (256 * h2 + h3) cur with
      | .error e => .error e
      | .ok none => .ok (.err Gen.wopnErrUnexpectedEnding)
      | .ok (some (mm, pm, cur)) =>
        match readSections v (256 * h0 + h1) (256 * h2 + h3) cur with
        | .error e => .error e
        | .ok none => .ok (.err Gen.wopnErrUnexpectedEnding)
        | .ok (some (mi, pi)) =>
          .ok (.ok { version := v, lfoFreq := h4 % 16, chipType := if v ≥ 2 then (h4 / 16) % 2 else 0,
                     volumeModel := 0, melodic := buildBanks (256 * h0 + h1) mm mi,
                     percussive := buildBanks (256 * h2 + h3) pm pi })) := by
  unfold loadBankBody
  rw [if_neg (by simp)]
  rfl

/-- everything behind magic and version code -/
def body (f : WFile) (v : Nat) (extra : Bytes) : Bytes :=
  putU16be f.melodic.length ++ (putU16be f.percussive.length ++
  ([(f.lfoFreq % 16) + (if v ≥ 2 then (f.chipType % 2) * 16 else 0)] ++
  ((if v ≥ 2 then f.melodic.flatMap metaBytes ++ f.percussive.flatMap metaBytes else []) ++
  ((allInsts f.melodic).flatMap (writeInst v true) ++ ((allInsts f.percussive).flatMap (writeInst v true) ++ extra)))))

theorem image_v2 (f : WFile) (extra : Bytes) :
    image f 2 ++ extra = Gen.wopnMagic2 ++ (putU16le 2 ++ body f 2 extra) := by
  simp [image, body, List.append_assoc]

theorem image_v1 (f : WFile) (extra : Bytes) :
    image f 1 ++ extra = Gen.wopnMagic1 ++ body f 1 extra := by
  simp [image, body, List.append_assoc]

/-- the instrument sections of a stored image are read back as the canonical instruments -/
theorem sections_image (f : WFile) (hs : f.Shape) (v : Nat) (hv : v = 1 ∨ v = 2) (extra : Bytes) :
    readSections v f.melodic.length f.percussive.length
      ((allInsts f.melodic).flatMap (writeInst v true) ++ ((allInsts f.percussive).flatMap (writeInst v true) ++ extra)) =
      .ok (some ((allInsts f.melodic).map (canonInst v true), (allInsts f.percussive).map (canonInst v true))) := by
  have hmel128 : ∀ b ∈ f.melodic, b.ins.length = 128 := fun b hb => (hs.mel_s b hb).ins_len
  have hper128 : ∀ b ∈ f.percussive, b.ins.length = 128 := fun b hb => (hs.per_s b hb).ins_len
  have hmelS : ∀ i ∈ allInsts f.melodic, i.Shape := by
    intro i hi; simp only [allInsts, List.mem_flatMap] at hi
    obtain ⟨b, hb, hib⟩ := hi; exact (hs.mel_s b hb).ins_s i hib
  have hperS : ∀ i ∈ allInsts f.percussive, i.Shape := by
    intro i hi; simp only [allInsts, List.mem_flatMap] at hi
    obtain ⟨b, hb, hib⟩ := hi; exact (hs.per_s b hb).ins_s i hib
  have hv3 : v < 3 := by omega
  have hsz : instSize v = if v ≥ 2 then 69 else 65 := by
    rcases hv with h | h <;> subst h <;> decide
  have hl1 := flat_write_length v (allInsts f.melodic) (fun i hi => (hmelS i hi).ops_len)
  have hl2 := flat_write_length v (allInsts f.percussive) (fun i hi => (hperS i hi).ops_len)
  have ha1 := allInsts_length f.melodic hmel128
  have ha2 := allInsts_length f.percussive hper128
  have e1 : f.melodic.length * 128 = (allInsts f.melodic).length := ha1.symm
  have e2 : f.percussive.length * 128 = (allInsts f.percussive).length := ha2.symm
  unfold readSections
  have c1 : ¬ ((allInsts f.melodic).flatMap (writeInst v true) ++ ((allInsts f.percussive).flatMap (writeInst v true) ++ extra)).length <
      instSize v * 128 * f.melodic.length := by
    simp only [List.length_append, hl1, ha1, hsz]
    have : f.melodic.length * 128 * (if v ≥ 2 then 69 else 65) = (if v ≥ 2 then 69 else 65) * 128 * f.melodic.length := by ac_rfl
    omega
  rw [if_neg c1, e1, readInsts_write v hv3 _ _ hmelS]
  simp only
  have c2 : ¬ ((allInsts f.percussive).flatMap (writeInst v true) ++ extra).length < instSize v * 128 * f.percussive.length := by
    simp only [List.length_append, hl2, ha2, hsz]
    have : f.percussive.length * 128 * (if v ≥ 2 then 69 else 65) = (if v ≥ 2 then 69 else 65) * 128 * f.percussive.length := by ac_rfl
    omega
  rw [if_neg c2, e2, readInsts_write v hv3 _ _ hperS]

/-- **version 2**: loading the stored image (followed by any bytes) yields `canonFile 2 f` -/
theorem load_image_v2 (f : WFile) (hs : f.Shape) (extra : Bytes) :
    loadBank (image f 2 ++ extra) = .ok (.ok (canonFile 2 f)) := by
  have hne : ¬ Gen.wopnMagic2 = Gen.wopnMagic1 := fun h => magics_differ.1 h.symm
  have hmel128 : ∀ b ∈ f.melodic, b.ins.length = 128 := fun b hb => (hs.mel_s b hb).ins_len
  have hper128 : ∀ b ∈ f.percussive, b.ins.length = 128 := fun b hb => (hs.per_s b hb).ins_len
  unfold loadBank
  rw [image_v2, readVersion_v2 _ _ _ magic_lengths.2.1 hne]
  simp only [body, putU16be, List.cons_append, List.nil_append, loadBankBody_cons]
  simp only [header_bytes _ hs.mel_lt, header_bytes _ hs.per_lt]
  have hmeta : ∀ rest, readMetasBoth 2 f.melodic.length f.percussive.length
      (f.melodic.flatMap metaBytes ++ (f.percussive.flatMap metaBytes ++ rest)) =
      .ok (some (f.melodic.map (fun b => (strncpy 32 b.name ++ [0], b.lsb, b.msb)),
                 f.percussive.map (fun b => (strncpy 32 b.name ++ [0], b.lsb, b.msb)), rest)) := by
    intro rest
    unfold readMetasBoth
    simp only [show (2 : Nat) ≥ 2 from by decide, if_true]
    rw [readMetas_write f.melodic _ hs.mel_s]
    simp only
    rw [readMetas_write f.percussive _ hs.per_s]
  simp only [show (2 : Nat) ≥ 2 from by decide, if_true, List.append_assoc]
  rw [hmeta]
  simp only
  rw [sections_image f hs 2 (Or.inr rfl)]
  simp only
  have hm0 : ¬ f.melodic.length = 0 := by have := hs.mel_pos; omega
  have hp0 : ¬ f.percussive.length = 0 := by have := hs.per_pos; omega
  have hb1 := fill_banks (canonInst 2 true) (fun b => strncpy 32 b.name ++ [0]) (·.lsb) (·.msb) f.melodic hmel128
  have hb2 := fill_banks (canonInst 2 true) (fun b => strncpy 32 b.name ++ [0]) (·.lsb) (·.msb) f.percussive hper128
  simp only [buildBanks, hm0, hp0, if_false, initBanks, hb1, hb2]
  have hc : canonBank 2 = fun b => { name := strncpy 32 b.name ++ [0], lsb := b.lsb, msb := b.msb, ins := b.ins.map (canonInst 2 true) } := by funext b; simp [canonBank]
  simp only [canonFile, hc, show (2 : Nat) ≥ 2 from by decide, if_true]
  have e3 : (f.lfoFreq % 16 + f.chipType % 2 * 16) % 16 = f.lfoFreq % 16 := by omega
  have e4 : (f.lfoFreq % 16 + f.chipType % 2 * 16) / 16 % 2 = f.chipType % 2 := by omega
  rw [e3, e4]

/-- **version 1**: loading the stored image yields `canonFile 1 f` (bank names/numbers, delays, blank flags, chip type dropped) -/
theorem load_image_v1 (f : WFile) (hs : f.Shape) (extra : Bytes) :
    loadBank (image f 1 ++ extra) = .ok (.ok (canonFile 1 f)) := by
  have hmel128 : ∀ b ∈ f.melodic, b.ins.length = 128 := fun b hb => (hs.mel_s b hb).ins_len
  have hper128 : ∀ b ∈ f.percussive, b.ins.length = 128 := fun b hb => (hs.per_s b hb).ins_len
  unfold loadBank
  rw [image_v1, readVersion_v1 _ _ _ magic_lengths.1]
  simp only [body, putU16be, List.cons_append, List.nil_append, loadBankBody_cons]
  simp only [header_bytes _ hs.mel_lt, header_bytes _ hs.per_lt]
  simp only [show ¬ (1 : Nat) ≥ 2 from by decide, if_false, List.nil_append, readMetasBoth]
  rw [sections_image f hs 1 (Or.inl rfl)]
  simp only
  have hm0 : ¬ f.melodic.length = 0 := by have := hs.mel_pos; omega
  have hp0 : ¬ f.percussive.length = 0 := by have := hs.per_pos; omega
  have hb1 := fill_banks_nometa (canonInst 1 true) f.melodic hmel128
  have hb2 := fill_banks_nometa (canonInst 1 true) f.percussive hper128
  simp only [buildBanks, hm0, hp0, if_false, initBanks, applyMetas_nil, hb1, hb2]
  have hc : canonBank 1 = fun b => { name := zeros 33, lsb := 0, msb := 0, ins := b.ins.map (canonInst 1 true) } := by funext b; simp [canonBank]
  simp only [canonFile, hc, show ¬ (1 : Nat) ≥ 2 from by decide, if_false]
  have e3 : (f.lfoFreq % 16 + 0) % 16 = f.lfoFreq % 16 := by omega
  rw [e3]

/-! ## the saver -/

theorem shape_names (bs : List Bank) (h : ∀ b ∈ bs, b.Shape) : ∀ b ∈ bs, b.name.length = 33 :=
  fun b hb => (h b hb).name_len

theorem shape_ops (bs : List Bank) (h : ∀ b ∈ bs, b.Shape) : ∀ i ∈ allInsts bs, i.ops.length = 28 := by
  intro i hi; simp only [allInsts, List.mem_flatMap] at hi
  obtain ⟨b, hb, hib⟩ := hi; exact ((h b hb).ins_s i hib).ops_len

theorem shape_128 (bs : List Bank) (h : ∀ b ∈ bs, b.Shape) : ∀ b ∈ bs, b.ins.length = 128 :=
  fun b hb => (h b hb).ins_len

theorem take1_shape (bs : List Bank) (h : ∀ b ∈ bs, b.Shape) : ∀ b ∈ bs.take 1, b.Shape :=
  fun b hb => h b (List.mem_of_mem_take hb)

/-- every stage of the saver keeps `stored + remaining = destination length` and never faults -/
theorem saveStages_good (f : WFile) (v : Nat) (mel per : List Bank) (hm : ∀ b ∈ mel, b.Shape) (hp : ∀ b ∈ per, b.Shape)
    (n : Nat) (w : W) (hw : w.out.length + w.rem = n) : Good n (saveStages f v mel per w) := by
  unfold saveStages
  apply good_andThen
  · -- magic and version
    unfold writeHead
    by_cases h11 : w.rem < 11
    · simp only [h11, if_true]; exact good_short n w hw
    · have hml : (if v > 1 then Gen.wopnMagic2 else Gen.wopnMagic1).length = 11 := by
        split <;> simp [magic_lengths]
      simp only [h11, if_false, put_ok _ _ _ (show (if v > 1 then Gen.wopnMagic2 else Gen.wopnMagic1).length ≤ w.rem by omega)]
      by_cases hv : v > 1
      · simp only [hv, if_true]
        by_cases h2 : w.rem - Gen.wopnMagic2.length < 2
        · simp only [h2, if_true]
          apply good_short; simp only [List.length_append]; have := magic_lengths.2.1; omega
        · simp only [h2, if_false]
          rw [put_ok _ _ _ (by simp [putU16le]; omega)]
          apply good_go; simp only [List.length_append, putU16le, List.length_cons, List.length_nil]
          have := magic_lengths.2.1; omega
      · simp only [hv, if_false]
        apply good_go; simp only [List.length_append]; have := magic_lengths.1; omega
  · intro w hw
    apply good_andThen
    · -- counts and chip flags
      unfold writeCounts
      by_cases h2 : w.rem < 2
      · simp only [h2, if_true]; exact good_short n w hw
      · simp only [h2, if_false]
        rw [put_ok _ _ _ (by simp [putU16be]; omega)]
        simp only [putU16be, List.length_cons, List.length_nil]
        by_cases h3 : w.rem - 2 < 2
        · simp only [h3, if_true]; apply good_short; simp only [List.length_append, List.length_cons, List.length_nil]; omega
        · simp only [h3, if_false]
          rw [put_ok _ _ _ (by simp; omega)]
          simp only [List.length_cons, List.length_nil]
          by_cases h4 : w.rem - 2 - 2 < 1
          · simp only [h4, if_true]; apply good_short; simp only [List.length_append, List.length_cons, List.length_nil]; omega
          · simp only [h4, if_false]
            rw [put_ok _ _ _ (by simp; omega)]
            apply good_go; simp only [List.length_append, List.length_cons, List.length_nil]; omega
    · intro w hw
      apply good_andThen
      · -- bank meta-data
        unfold writeMetasBoth
        split
        · have g1 := writeMetas_good n mel w (shape_names mel hm) hw
          obtain ⟨st, e, hst⟩ := g1
          rw [e]
          cases st with
          | short w' => exact ⟨_, rfl, hst⟩
          | go w' => exact writeMetas_good n per w' (shape_names per hp) hst
        · exact good_go n w hw
      · -- instrument sections
        intro w hw
        unfold writeSections
        by_cases c1 : w.rem < (if v ≥ 2 then 69 else 65) * 128 * mel.length
        · simp only [c1, if_true]; exact good_short n w hw
        · simp only [c1, if_false]
          have ha1 := allInsts_length mel (shape_128 mel hm)
          have hfit1 : (allInsts mel).length * (if v ≥ 2 then 69 else 65) ≤ w.rem := by
            rw [ha1]
            have : mel.length * 128 * (if v ≥ 2 then 69 else 65) = (if v ≥ 2 then 69 else 65) * 128 * mel.length := by ac_rfl
            omega
          have e1 := writeInsts_ok v (allInsts mel) w (shape_ops mel hm) hfit1
          simp only [allInsts] at e1 hfit1 ha1
          rw [e1]
          simp only
          have hl1 := flat_write_length v (allInsts mel) (shape_ops mel hm)
          simp only [allInsts] at hl1
          by_cases c2 : w.rem - (mel.flatMap (·.ins)).length * (if v ≥ 2 then 69 else 65) <
              (if v ≥ 2 then 69 else 65) * 128 * per.length
          · simp only [c2, if_true]
            apply good_short; simp only [List.length_append, hl1]; omega
          · simp only [c2, if_false]
            have ha2 := allInsts_length per (shape_128 per hp)
            have hfit2 : (allInsts per).length * (if v ≥ 2 then 69 else 65) ≤
                w.rem - (mel.flatMap (·.ins)).length * (if v ≥ 2 then 69 else 65) := by
              rw [ha2]
              have : per.length * 128 * (if v ≥ 2 then 69 else 65) = (if v ≥ 2 then 69 else 65) * 128 * per.length := by ac_rfl
              omega
            have e2 := writeInsts_ok v (allInsts per)
              { out := w.out ++ (mel.flatMap (·.ins)).flatMap (writeInst v true),
                rem := w.rem - (mel.flatMap (·.ins)).length * (if v ≥ 2 then 69 else 65) } (shape_ops per hp) hfit2
            simp only [allInsts] at e2 hfit2
            rw [e2]
            have hl2 := flat_write_length v (allInsts per) (shape_ops per hp)
            simp only [allInsts] at hl2
            apply good_go; simp only [List.length_append, hl1, hl2]; omega

/-- **C15, no overrun**: for every destination length, format version and force-GM flag the saver never stores
    outside the destination (no `Fault`), and the bytes it did store fit. -/
theorem save_within (f : WFile) (hs : f.Shape) (n v : Nat) (gm : Bool) :
    ∃ r, saveBank f n v gm = .ok r ∧ r.out.length ≤ n := by
  unfold saveBank
  have hm : ∀ b ∈ (if gm then f.melodic.take 1 else f.melodic), b.Shape := by
    split
    · exact take1_shape _ hs.mel_s
    · exact hs.mel_s
  have hp : ∀ b ∈ (if gm then f.percussive.take 1 else f.percussive), b.Shape := by
    split
    · exact take1_shape _ hs.per_s
    · exact hs.per_s
  obtain ⟨st, e, hst⟩ := saveStages_good f (if v = 0 then Gen.wopnLatestVersion else v) _ _ hm hp n
    { out := [], rem := n } (by simp)
  simp only [e]
  cases st with
  | go w => exact ⟨_, rfl, by simp only [St.w] at hst; show w.out.length ≤ n; omega⟩
  | short w => exact ⟨_, rfl, by simp only [St.w] at hst; show w.out.length ≤ n; omega⟩

theorem andThen_go (w : W) (k : W → Except Fault St) : andThen (.ok (.go w)) k = k w := rfl

theorem image_length (f : WFile) (hs : f.Shape) (v : Nat) (hv : v = 1 ∨ v = 2) :
    (image f v).length = (if v > 1 then 13 else 11) + 5 + (if v ≥ 2 then 34 * f.melodic.length + 34 * f.percussive.length else 0) +
      f.melodic.length * 128 * (if v ≥ 2 then 69 else 65) + f.percussive.length * 128 * (if v ≥ 2 then 69 else 65) := by
  have hl1 := flat_write_length v (allInsts f.melodic) (shape_ops _ hs.mel_s)
  have hl2 := flat_write_length v (allInsts f.percussive) (shape_ops _ hs.per_s)
  have ha1 := allInsts_length f.melodic (shape_128 _ hs.mel_s)
  have ha2 := allInsts_length f.percussive (shape_128 _ hs.per_s)
  have hm1 := flat_meta_length f.melodic (shape_names _ hs.mel_s)
  have hm2 := flat_meta_length f.percussive (shape_names _ hs.per_s)
  have := magic_lengths
  rcases hv with h | h <;> subst h <;>
    simp [image, putU16be, putU16le, hl1, hl2, ha1, ha2, hm1, hm2, this.1, this.2.1] <;> omega

/-- **C15, size calculator**: the reported size is enough (exact for version 2, two bytes generous for version 1) -/
theorem calc_ge_image (f : WFile) (hs : f.Shape) (v : Nat) (hv : v = 1 ∨ v = 2) :
    (image f v).length ≤ calcBankSize f v ∧ (v = 2 → (image f v).length = calcBankSize f v) := by
  rw [image_length f hs v hv]
  have e1 : f.melodic.length * 128 * 69 = 69 * 128 * f.melodic.length := by ac_rfl
  have e2 : f.percussive.length * 128 * 69 = 69 * 128 * f.percussive.length := by ac_rfl
  have e3 : f.melodic.length * 128 * 65 = 65 * 128 * f.melodic.length := by ac_rfl
  have e4 : f.percussive.length * 128 * 65 = 65 * 128 * f.percussive.length := by ac_rfl
  rcases hv with h | h <;> subst h <;> simp [calcBankSize] <;> omega

theorem writeCounts_exact (f : WFile) (v nm np : Nat) (o : Bytes) (r : Nat) (hr : 5 ≤ r) :
    writeCounts f v nm np { out := o, rem := r } =
      .ok (.go { out := o ++ (putU16be nm ++ (putU16be np ++
        [(f.lfoFreq % 16) + (if v ≥ 2 then (f.chipType % 2) * 16 else 0)])), rem := r - 5 }) := by
  have h1 : ¬ r < 2 := by omega
  have h2 : 2 ≤ r := by omega
  have h3 : ¬ r - 2 < 2 := by omega
  have h4 : 2 ≤ r - 2 := by omega
  have h5 : ¬ r - 2 - 2 < 1 := by omega
  have h6 : 1 ≤ r - 2 - 2 := by omega
  simp [writeCounts, put, putU16be, h1, h2, h3, h4, h5, h6]
  omega

theorem writeSections_exact (f : WFile) (hs : f.Shape) (v : Nat) (sz : Nat) (hsz : sz = if v ≥ 2 then 69 else 65) (o : Bytes) (r : Nat)
    (hr : f.melodic.length * 128 * sz + f.percussive.length * 128 * sz ≤ r) :
    writeSections v f.melodic f.percussive { out := o, rem := r } =
      .ok (.go { out := o ++ ((allInsts f.melodic).flatMap (writeInst v true) ++ (allInsts f.percussive).flatMap (writeInst v true)),
                 rem := r - (f.melodic.length * 128 * sz + f.percussive.length * 128 * sz) }) := by
  subst hsz
  have hl1 := flat_write_length v (allInsts f.melodic) (shape_ops _ hs.mel_s)
  have ha1 := allInsts_length f.melodic (shape_128 _ hs.mel_s)
  have ha2 := allInsts_length f.percussive (shape_128 _ hs.per_s)
  have a1 : f.melodic.length * 128 * (if v ≥ 2 then 69 else 65) = (if v ≥ 2 then 69 else 65) * 128 * f.melodic.length := by ac_rfl
  have a2 : f.percussive.length * 128 * (if v ≥ 2 then 69 else 65) = (if v ≥ 2 then 69 else 65) * 128 * f.percussive.length := by ac_rfl
  unfold writeSections
  simp only
  rw [if_neg (by omega)]
  have e1 := writeInsts_ok v (allInsts f.melodic) { out := o, rem := r } (shape_ops _ hs.mel_s) (by rw [ha1]; simp only; omega)
  simp only [allInsts] at e1 ha1 ha2 hl1
  rw [e1]
  simp only
  rw [if_neg (by rw [ha1]; omega)]
  have e2 := writeInsts_ok v (allInsts f.percussive)
    { out := o ++ (f.melodic.flatMap (·.ins)).flatMap (writeInst v true),
      rem := r - (f.melodic.flatMap (·.ins)).length * (if v ≥ 2 then 69 else 65) }
    (shape_ops _ hs.per_s) (by simp only [allInsts]; rw [ha1, ha2]; omega)
  simp only [allInsts] at e2
  rw [e2]
  simp only [allInsts, List.append_assoc, Except.ok.injEq, St.go.injEq, W.mk.injEq, true_and]
  rw [ha1, ha2]; omega

theorem save_exact_v2 (f : WFile) (hs : f.Shape) (n : Nat) (hn : (image f 2).length ≤ n) :
    saveBank f n 2 false = .ok ⟨Gen.wopnErrOk, image f 2⟩ := by
  have hlen := image_length f hs 2 (Or.inr rfl)
  simp only [show (2 : Nat) > 1 from by decide, show (2 : Nat) ≥ 2 from by decide, if_true] at hlen
  have hml := magic_lengths
  unfold saveBank
  simp only [show ¬ (2 : Nat) = 0 from by decide, if_false, Bool.false_eq_true]
  have s1 : writeHead Gen.wopnMagic1 Gen.wopnMagic2 2 { out := [], rem := n } =
      .ok (.go { out := Gen.wopnMagic2 ++ putU16le 2, rem := n - 13 }) := by
    unfold writeHead
    rw [if_neg (by simp only; omega)]
    simp only [show (2 : Nat) > 1 from by decide, if_true]
    rw [put_ok _ _ _ (by simp only [hml.2.1]; omega)]
    simp only [hml.2.1]
    rw [if_neg (by omega), put_ok _ _ _ (by simp [putU16le]; omega)]
    simp only [List.nil_append, putU16le, List.length_cons, List.length_nil, Except.ok.injEq, St.go.injEq, W.mk.injEq, true_and]
    omega
  unfold saveStages
  rw [s1, andThen_go, writeCounts_exact _ _ _ _ _ _ (by omega), andThen_go]
  have s3 : ∀ (o : Bytes) (r : Nat), 34 * f.melodic.length + 34 * f.percussive.length ≤ r →
      writeMetasBoth 2 f.melodic f.percussive { out := o, rem := r } =
      .ok (.go { out := o ++ (f.melodic.flatMap metaBytes ++ f.percussive.flatMap metaBytes),
                 rem := r - (34 * f.melodic.length + 34 * f.percussive.length) }) := by
    intro o r hr
    unfold writeMetasBoth
    simp only [show (2 : Nat) ≥ 2 from by decide, if_true]
    rw [writeMetas_ok f.melodic _ (shape_names _ hs.mel_s) (by simp only; omega)]
    simp only
    rw [writeMetas_ok f.percussive _ (shape_names _ hs.per_s) (by simp only; omega)]
    simp only [List.append_assoc, Except.ok.injEq, St.go.injEq, W.mk.injEq, true_and]
    omega
  rw [s3 _ _ (by omega), andThen_go, writeSections_exact f hs 2 69 (by decide) _ _ (by omega)]
  simp only [image, show (2 : Nat) > 1 from by decide, show (2 : Nat) ≥ 2 from by decide, if_true, List.append_assoc]

theorem save_exact_v1 (f : WFile) (hs : f.Shape) (n : Nat) (hn : (image f 1).length ≤ n) :
    saveBank f n 1 false = .ok ⟨Gen.wopnErrOk, image f 1⟩ := by
  have hlen := image_length f hs 1 (Or.inl rfl)
  simp only [show ¬ (1 : Nat) > 1 from by decide, show ¬ (1 : Nat) ≥ 2 from by decide, if_false] at hlen
  have hml := magic_lengths
  unfold saveBank
  simp only [show ¬ (1 : Nat) = 0 from by decide, if_false, Bool.false_eq_true]
  have s1 : writeHead Gen.wopnMagic1 Gen.wopnMagic2 1 { out := [], rem := n } =
      .ok (.go { out := Gen.wopnMagic1, rem := n - 11 }) := by
    unfold writeHead
    rw [if_neg (by simp only; omega)]
    simp only [show ¬ (1 : Nat) > 1 from by decide, if_false]
    rw [put_ok _ _ _ (by simp only [hml.1]; omega)]
    simp only [hml.1, List.nil_append]
  unfold saveStages
  rw [s1, andThen_go, writeCounts_exact _ _ _ _ _ _ (by omega), andThen_go]
  have s3 : ∀ (w : W), writeMetasBoth 1 f.melodic f.percussive w = .ok (.go w) := by
    intro w; unfold writeMetasBoth; simp
  rw [s3, andThen_go, writeSections_exact f hs 1 65 (by decide) _ _ (by omega)]
  simp only [image, show ¬ (1 : Nat) > 1 from by decide, show ¬ (1 : Nat) ≥ 2 from by decide, if_false, List.append_assoc,
    List.nil_append]

/-- **C15, saving succeeds**: with a destination of at least the image size the saver returns OK and has stored
    exactly `image f v` -/
theorem save_exact (f : WFile) (hs : f.Shape) (v : Nat) (hv : v = 1 ∨ v = 2) (n : Nat)
    (hn : (image f v).length ≤ n) : saveBank f n v false = .ok ⟨Gen.wopnErrOk, image f v⟩ := by
  rcases hv with h | h <;> subst h
  · exact save_exact_v1 f hs n hn
  · exact save_exact_v2 f hs n hn

/-! ## the round-trip laws -/

/-- **C15, round trip (general form)**: saving into a buffer of the calculated size succeeds, stays within that size,
    and loading the result yields `canonFile v f` — for every value of the C struct types. -/
theorem roundtrip (f : WFile) (hs : f.Shape) (v : Nat) (hv : v = 1 ∨ v = 2) (n : Nat) (hn : calcBankSize f v ≤ n) :
    ∃ r, saveBank f n v false = .ok r ∧ r.code = Gen.wopnErrOk ∧ r.out.length ≤ calcBankSize f v ∧
      loadBank r.out = .ok (.ok (canonFile v f)) := by
  have hc := calc_ge_image f hs v hv
  refine ⟨⟨Gen.wopnErrOk, image f v⟩, save_exact f hs v hv n (by omega), rfl, hc.1, ?_⟩
  have h1 := load_image_v1 f hs []
  have h2 := load_image_v2 f hs []
  simp only [List.append_nil] at h1 h2
  rcases hv with h | h <;> subst h
  · exact h1
  · exact h2

/-- explicit well-formedness of an instrument for format version 2: NUL-terminated zero-padded name, no velocity
    offset (the format does not carry it), flags ⊆ {blank}, blank ⇔ both delays zero -/
structure InstWF2 (i : Inst) : Prop where
  shape : i.Shape
  name_padded : strncpy 32 i.name = i.name
  name_term : i.name[31]? = some 0
  vel : i.velOffset = 0
  flags_delay : (i.flags = 2 ∧ i.delayOn = 0 ∧ i.delayOff = 0) ∨ (i.flags = 0 ∧ ¬ (i.delayOn = 0 ∧ i.delayOff = 0))

structure BankWF2 (b : Bank) : Prop where
  shape : b.Shape
  name_padded : strncpy 32 b.name ++ [0] = b.name
  ins_wf : ∀ i ∈ b.ins, InstWF2 i

structure FileWF2 (f : WFile) : Prop where
  shape : f.Shape
  version : f.version = 2
  lfo : f.lfoFreq < 16
  chip : f.chipType < 2
  vm : f.volumeModel = 0
  mel_wf : ∀ b ∈ f.melodic, BankWF2 b
  per_wf : ∀ b ∈ f.percussive, BankWF2 b

theorem canonInst_wf2 (i : Inst) (h : InstWF2 i) : canonInst 2 true i = i := by
  have hset : (strncpy 32 i.name).set 31 0 = i.name := by
    rw [h.name_padded]
    apply List.ext_getElem?
    intro k
    by_cases hk : k = 31
    · subst hk; rw [List.getElem?_set_self (by rw [h.shape.name_len]; decide), h.name_term]
    · rw [List.getElem?_set_ne (by omega)]
  rcases h.flags_delay with ⟨hf, ho, hd⟩ | ⟨hf, hnd⟩
  · have hvel := h.vel
    cases i
    simp only [canonInst] at *
    simp [hset, hvel, hf, ho, hd]
  · have hvel := h.vel
    cases i
    simp only [canonInst] at *
    simp only [hset, hvel, hf]
    simp at hnd ⊢
    intro h1 h2; exact absurd h2 (hnd h1)

theorem canonFile_wf2 (f : WFile) (h : FileWF2 f) : canonFile 2 f = f := by
  have hb : ∀ bs : List Bank, (∀ b ∈ bs, BankWF2 b) → bs.map (canonBank 2) = bs := by
    intro bs hbs
    conv => rhs; rw [← List.map_id bs]
    apply List.map_congr_left
    intro b hb
    have hw := hbs b hb
    have hi : b.ins.map (canonInst 2 true) = b.ins := by
      conv => rhs; rw [← List.map_id b.ins]
      apply List.map_congr_left
      intro i hi; exact canonInst_wf2 i (hw.ins_wf i hi)
    cases b
    simp only [canonBank, show (2 : Nat) ≥ 2 from by decide, if_true, id] at *
    rw [hw.name_padded, hi]
  have hv := h.version
  have hl := h.lfo
  have hc := h.chip
  have hm := h.vm
  cases f
  simp only [canonFile, show (2 : Nat) ≥ 2 from by decide, if_true] at *
  rw [hb _ h.mel_wf, hb _ h.per_wf, hv, hm]
  congr <;> omega

/-- **C15, version 2 round trip**: for every well-formed value, save into the calculated size, load: the same value. -/
theorem roundtrip_v2 (f : WFile) (h : FileWF2 f) (n : Nat) (hn : calcBankSize f 2 ≤ n) :
    ∃ r, saveBank f n 2 false = .ok r ∧ r.code = Gen.wopnErrOk ∧ r.out.length ≤ calcBankSize f 2 ∧
      loadBank r.out = .ok (.ok f) := by
  have := roundtrip f h.shape 2 (Or.inr rfl) n hn
  rw [canonFile_wf2 f h] at this
  exact this

def dropInst (i : Inst) : Inst := { i with delayOn := 0, delayOff := 0, flags := 0 }
def dropBank (b : Bank) : Bank := { name := zeros 33, lsb := 0, msb := 0, ins := b.ins.map dropInst }

/-- what format version 1 cannot carry: bank names and numbers, delays and blank flags, chip type -/
def dropV1 (f : WFile) : WFile :=
  { f with version := 1, chipType := 0, melodic := f.melodic.map dropBank, percussive := f.percussive.map dropBank }

/-- **C15, version 1 round trip**: exactly the fields of `dropV1` are lost. -/
theorem roundtrip_v1 (f : WFile) (h : FileWF2 f) (n : Nat) (hn : calcBankSize f 1 ≤ n) :
    ∃ r, saveBank f n 1 false = .ok r ∧ r.code = Gen.wopnErrOk ∧ r.out.length ≤ calcBankSize f 1 ∧
      loadBank r.out = .ok (.ok (dropV1 f)) := by
  have key : canonFile 1 f = dropV1 f := by
    have hi : ∀ i, InstWF2 i → canonInst 1 true i = dropInst i := by
      intro i hw
      have hset : (strncpy 32 i.name).set 31 0 = i.name := by
        rw [hw.name_padded]
        apply List.ext_getElem?
        intro k
        by_cases hk : k = 31
        · subst hk; rw [List.getElem?_set_self (by rw [hw.shape.name_len]; decide), hw.name_term]
        · rw [List.getElem?_set_ne (by omega)]
      have hvel := hw.vel
      cases i
      simp only [canonInst, dropInst] at *
      simp [hset, hvel]
    have hb : ∀ bs : List Bank, (∀ b ∈ bs, BankWF2 b) → bs.map (canonBank 1) = bs.map dropBank := by
      intro bs hbs
      apply List.map_congr_left
      intro b hb
      have hw := hbs b hb
      simp only [canonBank, dropBank, show ¬ (1 : Nat) ≥ 2 from by decide, if_false]
      congr 1
      apply List.map_congr_left
      intro i hii; exact hi i (hw.ins_wf i hii)
    have hl := h.lfo
    have hm := h.vm
    cases f
    simp only [canonFile, dropV1, show ¬ (1 : Nat) ≥ 2 from by decide, if_false] at *
    rw [hb _ h.mel_wf, hb _ h.per_wf, hm]
    congr; omega
  have := roundtrip f h.shape 1 (Or.inl rfl) n hn
  rw [key] at this
  exact this

/-! ## a destination that is too small is reported -/

/-- the stage does not fault, keeps `stored + remaining = destination length`, and when it reports success it has stored exactly `L` bytes in all -/
def GoodL (n L : Nat) (r : Except Fault St) : Prop :=
  ∃ st, r = .ok st ∧ st.w.out.length + st.w.rem = n ∧ (∀ w, st = .go w → w.out.length = L)

theorem goodL_short (n L : Nat) (w : W) (h : w.out.length + w.rem = n) : GoodL n L (.ok (.short w)) :=
  ⟨_, rfl, h, fun _ e => by cases e⟩
theorem goodL_go (n L : Nat) (w : W) (h : w.out.length + w.rem = n) (hl : w.out.length = L) : GoodL n L (.ok (.go w)) :=
  ⟨_, rfl, h, fun _ e => by cases e; exact hl⟩

theorem goodL_andThen (n L1 L2 : Nat) (r : Except Fault St) (k : W → Except Fault St) (hr : GoodL n L1 r)
    (hk : ∀ w, w.out.length + w.rem = n → w.out.length = L1 → GoodL n L2 (k w)) : GoodL n L2 (andThen r k) := by
  obtain ⟨st, e, h, hl⟩ := hr
  subst e
  cases st with
  | go w => exact hk w h (hl w rfl)
  | short w => exact ⟨_, rfl, h, fun _ e => by cases e⟩

theorem writeMetas_goodL (n : Nat) : ∀ (bs : List Bank) (w : W), (∀ b ∈ bs, b.name.length = 33) →
    w.out.length + w.rem = n → GoodL n (w.out.length + 34 * bs.length) (writeMetas w bs)
  | [], w, _, h => goodL_go n _ w h (by simp)
  | b :: bs, w, hs, h => by
      unfold writeMetas
      by_cases h34 : w.rem < 34
      · simp only [h34, if_true]; exact goodL_short n _ w h
      · have hl : (b.name.take 32 ++ [b.lsb, b.msb]).length = 34 := by
          simp [List.length_take, hs b (by simp)]
        simp only [h34, if_false, put_ok _ _ _ (show (b.name.take 32 ++ [b.lsb, b.msb]).length ≤ w.rem by omega), bind, Except.bind]
        have ih := writeMetas_goodL n bs { out := w.out ++ (b.name.take 32 ++ [b.lsb, b.msb]), rem := w.rem - (b.name.take 32 ++ [b.lsb, b.msb]).length }
          (fun j hj => hs j (by simp [hj])) (by
            show (w.out ++ (b.name.take 32 ++ [b.lsb, b.msb])).length + (w.rem - (b.name.take 32 ++ [b.lsb, b.msb]).length) = n
            rw [List.length_append, hl]; omega)
        have e : (w.out ++ (b.name.take 32 ++ [b.lsb, b.msb])).length + 34 * bs.length = w.out.length + 34 * (b :: bs).length := by
          rw [List.length_append, hl, List.length_cons]; omega
        simp only at ih
        rw [e] at ih
        exact ih

/-- the number of bytes a successful save stores -/
def imageLen (v nm np : Nat) : Nat :=
  (if v > 1 then 13 else 11) + 5 + (if v ≥ 2 then 34 * nm + 34 * np else 0) +
    (if v ≥ 2 then 69 else 65) * 128 * nm + (if v ≥ 2 then 69 else 65) * 128 * np

/-- every run of the save stages that reports success has stored exactly `imageLen` bytes -/
theorem saveStages_len (f : WFile) (v : Nat) (mel per : List Bank) (hm : ∀ b ∈ mel, b.Shape) (hp : ∀ b ∈ per, b.Shape)
    (n : Nat) : GoodL n (imageLen v mel.length per.length) (saveStages f v mel per { out := [], rem := n }) := by
  unfold saveStages
  apply goodL_andThen n (if v > 1 then 13 else 11)
  · -- magic and version
    unfold writeHead
    by_cases h11 : n < 11
    · simp only [h11, if_true]; exact goodL_short n _ _ (by simp)
    · have hml : (if v > 1 then Gen.wopnMagic2 else Gen.wopnMagic1).length = 11 := by
        split <;> simp [magic_lengths]
      simp only [h11, if_false, put_ok _ { out := [], rem := n } _ (show (if v > 1 then Gen.wopnMagic2 else Gen.wopnMagic1).length ≤ n by omega)]
      by_cases hv : v > 1
      · simp only [hv, if_true]
        by_cases h2 : n - Gen.wopnMagic2.length < 2
        · simp only [h2, if_true]
          apply goodL_short; simp only [List.length_append, List.length_nil]; have := magic_lengths.2.1; omega
        · simp only [h2, if_false]
          rw [put_ok _ _ _ (by simp [putU16le]; omega)]
          apply goodL_go <;> simp only [List.length_append, putU16le, List.length_cons, List.length_nil] <;>
            (have := magic_lengths.2.1; omega)
      · simp only [hv, if_false]
        apply goodL_go <;> simp only [List.length_append, List.length_nil] <;> (have := magic_lengths.1; omega)
  · intro w hw hl0
    apply goodL_andThen n ((if v > 1 then 13 else 11) + 5)
    · -- counts and chip flags
      unfold writeCounts
      by_cases h2 : w.rem < 2
      · simp only [h2, if_true]; exact goodL_short n _ w hw
      · simp only [h2, if_false]
        rw [put_ok _ _ _ (by simp [putU16be]; omega)]
        simp only [putU16be, List.length_cons, List.length_nil]
        by_cases h3 : w.rem - 2 < 2
        · simp only [h3, if_true]; apply goodL_short; simp only [List.length_append, List.length_cons, List.length_nil]; omega
        · simp only [h3, if_false]
          rw [put_ok _ _ _ (by simp; omega)]
          simp only [List.length_cons, List.length_nil]
          by_cases h4 : w.rem - 2 - 2 < 1
          · simp only [h4, if_true]; apply goodL_short; simp only [List.length_append, List.length_cons, List.length_nil]; omega
          · simp only [h4, if_false]
            rw [put_ok _ _ _ (by simp; omega)]
            apply goodL_go <;> simp only [List.length_append, List.length_cons, List.length_nil] <;> omega
    · intro w hw hl1
      apply goodL_andThen n ((if v > 1 then 13 else 11) + 5 + (if v ≥ 2 then 34 * mel.length + 34 * per.length else 0))
      · -- bank meta-data
        unfold writeMetasBoth
        by_cases hv2 : v ≥ 2
        · simp only [hv2, if_true]
          have g1 := writeMetas_goodL n mel w (shape_names mel hm) hw
          obtain ⟨st, e, hst, hlen⟩ := g1
          rw [e]
          cases st with
          | short w' => exact ⟨_, rfl, hst, fun _ e => by cases e⟩
          | go w' =>
            have hw' := hlen w' rfl
            have g2 := writeMetas_goodL n per w' (shape_names per hp) hst
            have : w'.out.length + 34 * per.length = (if v > 1 then 13 else 11) + 5 + (34 * mel.length + 34 * per.length) := by omega
            rw [this] at g2
            exact g2
        · simp only [hv2, if_false]
          exact goodL_go n _ w hw (by omega)
      · -- instrument sections
        intro w hw hl2
        unfold writeSections
        by_cases c1 : w.rem < (if v ≥ 2 then 69 else 65) * 128 * mel.length
        · simp only [c1, if_true]; exact goodL_short n _ w hw
        · simp only [c1, if_false]
          have ha1 := allInsts_length mel (shape_128 mel hm)
          have hfit1 : (allInsts mel).length * (if v ≥ 2 then 69 else 65) ≤ w.rem := by
            rw [ha1]
            have : mel.length * 128 * (if v ≥ 2 then 69 else 65) = (if v ≥ 2 then 69 else 65) * 128 * mel.length := by ac_rfl
            omega
          have e1 := writeInsts_ok v (allInsts mel) w (shape_ops mel hm) hfit1
          simp only [allInsts] at e1 hfit1 ha1
          rw [e1]
          simp only
          have hl1' := flat_write_length v (allInsts mel) (shape_ops mel hm)
          simp only [allInsts] at hl1'
          have em : mel.length * 128 * (if v ≥ 2 then 69 else 65) = (if v ≥ 2 then 69 else 65) * 128 * mel.length := by ac_rfl
          by_cases c2 : w.rem - (mel.flatMap (·.ins)).length * (if v ≥ 2 then 69 else 65) <
              (if v ≥ 2 then 69 else 65) * 128 * per.length
          · simp only [c2, if_true]
            apply goodL_short; simp only [List.length_append, hl1']; omega
          · simp only [c2, if_false]
            have ha2 := allInsts_length per (shape_128 per hp)
            have hfit2 : (allInsts per).length * (if v ≥ 2 then 69 else 65) ≤
                w.rem - (mel.flatMap (·.ins)).length * (if v ≥ 2 then 69 else 65) := by
              rw [ha2]
              have : per.length * 128 * (if v ≥ 2 then 69 else 65) = (if v ≥ 2 then 69 else 65) * 128 * per.length := by ac_rfl
              omega
            have e2 := writeInsts_ok v (allInsts per)
              { out := w.out ++ (mel.flatMap (·.ins)).flatMap (writeInst v true),
                rem := w.rem - (mel.flatMap (·.ins)).length * (if v ≥ 2 then 69 else 65) } (shape_ops per hp) hfit2
            simp only [allInsts] at e2 hfit2 ha2
            rw [e2]
            have hl2' := flat_write_length v (allInsts per) (shape_ops per hp)
            simp only [allInsts] at hl2'
            have ep : per.length * 128 * (if v ≥ 2 then 69 else 65) = (if v ≥ 2 then 69 else 65) * 128 * per.length := by ac_rfl
            apply goodL_go
            · simp only [List.length_append, hl1', hl2']; omega
            · simp only [List.length_append, hl1', hl2', imageLen, ha1, ha2]; omega

/-- **C15, too small a destination is reported**: whenever the destination is shorter than what a successful save stores, the saver
    returns WOPN_ERR_UNEXPECTED_ENDING (and, by `save_within`, has stored nothing outside the destination) -/
theorem save_too_small (f : WFile) (hs : f.Shape) (v : Nat) (hv : v = 1 ∨ v = 2) (n : Nat)
    (hn : n < imageLen v f.melodic.length f.percussive.length) :
    ∃ r, saveBank f n v false = .ok r ∧ r.code = Gen.wopnErrUnexpectedEnding ∧ r.out.length ≤ n := by
  have hv0 : (if v = 0 then Gen.wopnLatestVersion else v) = v := by rcases hv with h | h <;> subst h <;> rfl
  obtain ⟨st, e, hst, hlen⟩ := saveStages_len f v f.melodic f.percussive hs.mel_s hs.per_s n
  unfold saveBank
  simp only [hv0, Bool.false_eq_true, if_false, e]
  cases st with
  | go w =>
    exfalso
    have := hlen w rfl
    simp only [St.w] at hst
    omega
  | short w => exact ⟨_, rfl, rfl, by simp only [St.w] at hst; show w.out.length ≤ n; omega⟩

/-- `imageLen` is the length of the image (so "too small" means: smaller than the bytes `save_exact` stores) -/
theorem imageLen_eq (f : WFile) (hs : f.Shape) (v : Nat) (hv : v = 1 ∨ v = 2) :
    imageLen v f.melodic.length f.percussive.length = (image f v).length := by
  rw [image_length f hs v hv]
  unfold imageLen
  have e1 : f.melodic.length * 128 * (if v ≥ 2 then 69 else 65) = (if v ≥ 2 then 69 else 65) * 128 * f.melodic.length := by ac_rfl
  have e2 : f.percussive.length * 128 * (if v ≥ 2 then 69 else 65) = (if v ≥ 2 then 69 else 65) * 128 * f.percussive.length := by ac_rfl
  omega

end Opn.C15
