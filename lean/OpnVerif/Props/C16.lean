/-
  C16 — The bank API behaves as a map (percussive, MSB, LSB) → 128 instruments.
  Theorems are about the bucket-chain model (Model/BankMap.lean) and the API layer (Model/BankApi.lean).
-/
import OpnVerif.Model.BankApi

namespace Opn.C16
open Opn Opn.BankMap Opn.BankApi

variable {β : Type}

/-! ## well-formedness of the map -/

structure Wf (m : BMap β) : Prop where
  len : m.buckets.length = 256
  hashed : ∀ i, ∀ p ∈ chain m i, bhash p.1 = i
  nodup : ∀ i, ((chain m i).map (·.1)).Nodup
  size_eq : m.size = (m.buckets.map List.length).sum
  cap_eq : m.size + m.free = m.capacity

theorem hash_lt (k : Nat) : bhash k < 256 := by unfold bhash; omega

theorem chain_modify (m : BMap β) (j : Nat) (f : List (Nat × β) → List (Nat × β)) (hf : f [] = []) (i : Nat) (bs' : BMap β)
    (hb : bs'.buckets = m.buckets.modify j f) : chain bs' i = if i = j then f (chain m i) else chain m i := by
  unfold chain; rw [hb, List.getElem?_modify]
  by_cases h : j = i
  · subst h; cases m.buckets[j]? <;> simp [hf]
  · have h' : ¬ i = j := fun e => h e.symm
    simp [h, h']

theorem chain_modify' (m : BMap β) (j : Nat) (hj : j < m.buckets.length) (f : List (Nat × β) → List (Nat × β)) (i : Nat) (bs' : BMap β)
    (hb : bs'.buckets = m.buckets.modify j f) : chain bs' i = if i = j then f (chain m i) else chain m i := by
  unfold chain; rw [hb, List.getElem?_modify]
  by_cases h : j = i
  · subst h; simp [List.getElem?_eq_getElem hj]
  · have h' : ¬ i = j := fun e => h e.symm
    simp [h, h']

theorem sum_modify (L : List (List (Nat × β))) (j : Nat) (hj : j < L.length) (f : List (Nat × β) → List (Nat × β)) :
    ((L.modify j f).map List.length).sum + (L[j]).length = (L.map List.length).sum + (f L[j]).length := by
  induction L generalizing j with
  | nil => cases hj
  | cons a L ih =>
    cases j with
    | zero => simp [List.modify]; omega
    | succ j =>
      have := ih j (by simpa using hj)
      simp only [List.modify_succ_cons, List.map_cons, List.sum_cons, List.getElem_cons_succ]
      omega

theorem mem_le_sum : ∀ (xs : List Nat) (x : Nat), x ∈ xs → x ≤ xs.sum
  | [], _, h => by cases h
  | a :: xs, x, h => by
      simp only [List.sum_cons]
      cases h with
      | head => omega
      | tail _ h' => have := mem_le_sum xs x h'; omega

theorem find?_congr' {α} (f g : α → Bool) : ∀ (l : List α), (∀ p ∈ l, f p = g p) → l.find? f = l.find? g
  | [], _ => rfl
  | a :: l, h => by
      simp only [List.find?_cons, h a (by simp)]
      rw [find?_congr' f g l (fun p hp => h p (by simp [hp]))]

theorem wf_empty : Wf (bempty : BMap β) := by
  refine ⟨List.length_replicate, ?_, ?_, ?_, rfl⟩
  · intro i p hp
    have : chain (bempty : BMap β) i = [] := by
      unfold chain bempty; simp only [List.getElem?_replicate]; split <;> rfl
    rw [this] at hp; cases hp
  · intro i
    have : chain (bempty : BMap β) i = [] := by
      unfold chain bempty; simp only [List.getElem?_replicate]; split <;> rfl
    rw [this]; exact List.nodup_nil
  · show 0 = ((List.replicate 256 ([] : List (Nat × β))).map List.length).sum
    rw [List.map_replicate, List.sum_replicate_nat]; rfl

/-! ## lookup -/

theorem find_eq (m : BMap β) (k : Nat) : bfind m k = ((chain m (bhash k)).find? (·.1 == k)).map (·.2) := rfl

theorem find_none_iff (m : BMap β) (k : Nat) : bfind m k = none ↔ ∀ p ∈ chain m (bhash k), p.1 ≠ k := by
  rw [find_eq, Option.map_eq_none_iff, List.find?_eq_none]
  constructor
  · intro h p hp e; exact h p hp (by simp [e])
  · intro h p hp e; exact h p hp (by simpa using e)

theorem find_some_mem (m : BMap β) (k : Nat) (v : β) (h : bfind m k = some v) : (k, v) ∈ chain m (bhash k) := by
  rw [find_eq, Option.map_eq_some_iff] at h
  obtain ⟨p, hp, hv⟩ := h
  have hm := List.mem_of_find?_eq_some hp
  have hk := List.find?_some hp
  simp only [beq_iff_eq] at hk
  obtain ⟨a, b⟩ := p
  simp only at hk hv; subst hk; subst hv; exact hm

/-- in a well-formed map a key occurs in its chain with exactly the value `bfind` returns -/
theorem mem_chain_find (m : BMap β) (hw : Wf m) (k : Nat) (v : β) (h : (k, v) ∈ chain m (bhash k)) : bfind m k = some v := by
  rw [find_eq]
  have hnd := hw.nodup (bhash k)
  generalize chain m (bhash k) = c at h hnd
  induction c with
  | nil => cases h
  | cons p c ih =>
    simp only [List.map_cons, List.nodup_cons] at hnd
    by_cases hp : p.1 = k
    · simp only [List.find?_cons, hp, beq_self_eq_true, Option.map_some]
      cases h with
      | head => rfl
      | tail _ h' =>
        exact absurd (List.mem_map.mpr ⟨(k, v), h', rfl⟩) (by rw [← hp] at *; exact hnd.1)
    · have : (p.1 == k) = false := by simp [hp]
      simp only [List.find?_cons, this]
      cases h with
      | head => exact absurd rfl hp
      | tail _ h' => exact ih h' hnd.2

/-! ## the operations preserve well-formedness and act as a map -/

theorem wf_reserve (m : BMap β) (hw : Wf m) (n : Nat) : Wf (breserve m n) ∧ n ≤ (breserve m n).capacity ∧
    (∀ k, bfind (breserve m n) k = bfind m k) ∧ (breserve m n).size = m.size := by
  unfold breserve
  split
  · exact ⟨hw, by omega, fun _ => rfl, rfl⟩
  · refine ⟨⟨hw.len, hw.hashed, hw.nodup, hw.size_eq, ?_⟩, ?_, fun _ => rfl, rfl⟩
    · have := hw.cap_eq; simp only; omega
    · simp only [minimumAllocation]; omega

theorem wf_link (m : BMap β) (hw : Wf m) (k : Nat) (v : β) (habs : bfind m k = none) (hfree : 0 < m.free) :
    Wf (blink m k v) ∧ bfind (blink m k v) k = some v ∧ (∀ k', k' ≠ k → bfind (blink m k v) k' = bfind m k') ∧
    (blink m k v).size = m.size + 1 ∧ (blink m k v).capacity = m.capacity := by
  have hlt : bhash k < m.buckets.length := by rw [hw.len]; exact hash_lt k
  have hc := fun i => chain_modify' m (bhash k) hlt ((k, v) :: ·) i (blink m k v) rfl
  have habs' := (find_none_iff m k).mp habs
  refine ⟨⟨?_, ?_, ?_, ?_, ?_⟩, ?_, ?_, rfl, rfl⟩
  · simp [blink, hw.len]
  · intro i p hp
    rw [hc] at hp
    split at hp
    · rename_i hi
      cases hp with
      | head => exact hi.symm
      | tail _ hp' => exact hw.hashed i p hp'
    · exact hw.hashed i p hp
  · intro i
    rw [hc]
    split
    · rename_i hi; subst hi
      simp only [List.map_cons, List.nodup_cons]
      refine ⟨?_, hw.nodup _⟩
      intro hmem
      obtain ⟨p, hp, hpk⟩ := List.mem_map.mp hmem
      exact habs' p hp hpk
    · exact hw.nodup i
  · have hs := sum_modify m.buckets (bhash k) hlt ((k, v) :: ·)
    simp only [blink, List.length_cons] at hs ⊢
    have := hw.size_eq; omega
  · have := hw.cap_eq; simp only [blink]; omega
  · rw [find_eq, hc]; simp
  · intro k' hne
    rw [find_eq, find_eq, hc]
    split
    · rename_i hi
      have : ((k, v).1 == k') = false := by simp; exact fun e => hne e.symm
      rw [List.find?_cons, this]
    · rfl

/-- **binsert (growing)**: well-formedness is kept, the key is present afterwards with the old value if it was present
    and the new one otherwise, every other key is untouched, and the flag tells which case happened. -/
theorem insert_spec (m : BMap β) (hw : Wf m) (k : Nat) (v : β) :
    Wf (binsert m k v).1 ∧ bfind (binsert m k v).1 k = some ((bfind m k).getD v) ∧
    (∀ k', k' ≠ k → bfind (binsert m k v).1 k' = bfind m k') ∧
    ((binsert m k v).2 = true ↔ bfind m k = none) ∧
    (binsert m k v).1.size = m.size + (if bfind m k = none then 1 else 0) := by
  unfold binsert
  cases hf : bfind m k with
  | some x => simp [hw, hf]
  | none =>
    simp only
    have hr := wf_reserve m hw (m.capacity + minimumAllocation)
    by_cases h0 : m.free = 0
    · simp only [h0, if_true]
      have hfree : 0 < (breserve m (m.capacity + minimumAllocation)).free := by
        have a1 := hr.1.cap_eq
        have a2 := hr.2.1
        have a3 := hr.2.2.2
        have a4 := hw.cap_eq
        have hm : minimumAllocation = 4 := rfl
        omega
      have hl := wf_link _ hr.1 k v (by rw [hr.2.2.1]; exact hf) hfree
      refine ⟨hl.1, by simpa using hl.2.1, ?_, by simp, ?_⟩
      · intro k' hne; rw [hl.2.2.1 k' hne, hr.2.2.1]
      · rw [hl.2.2.2.1, hr.2.2.2]
    · simp only [h0, if_false]
      have hl := wf_link m hw k v hf (by omega)
      exact ⟨hl.1, by simpa using hl.2.1, hl.2.2.1, by simp, by rw [hl.2.2.2.1]; simp⟩

/-- **real-time binsert**: never changes the capacity (no allocation) and fails exactly when the key is absent and
    no reserved slot is free; otherwise it behaves like `binsert`. -/
theorem insertRt_spec (m : BMap β) (hw : Wf m) (k : Nat) (v : β) :
    Wf (binsertRt m k v).1 ∧ (binsertRt m k v).1.capacity = m.capacity ∧
    ((binsertRt m k v).2 = none ↔ (bfind m k = none ∧ m.size = m.capacity)) ∧
    ((binsertRt m k v).2 = none → (binsertRt m k v).1 = m) ∧
    ((binsertRt m k v).2 ≠ none → bfind (binsertRt m k v).1 k = some ((bfind m k).getD v) ∧
      ∀ k', k' ≠ k → bfind (binsertRt m k v).1 k' = bfind m k') := by
  have hcap := hw.cap_eq
  unfold binsertRt
  cases hf : bfind m k with
  | some x => simp [hw, hf]
  | none =>
    simp only
    by_cases h0 : m.free = 0
    · rw [if_pos h0]
      refine ⟨hw, rfl, ?_, fun _ => rfl, fun h => absurd rfl h⟩
      simp; omega
    · rw [if_neg h0]
      have hl := wf_link m hw k v hf (by omega)
      refine ⟨hl.1, hl.2.2.2.2, ?_, ?_, fun _ => ⟨by simpa using hl.2.1, hl.2.2.1⟩⟩
      · simp; omega
      · intro h; cases h

/-- **berase**: the key is gone, every other key is untouched, the slot returns to the free list. -/
theorem erase_spec (m : BMap β) (hw : Wf m) (k : Nat) :
    Wf (berase m k) ∧ bfind (berase m k) k = none ∧ (∀ k', k' ≠ k → bfind (berase m k) k' = bfind m k') ∧
    (berase m k).capacity = m.capacity ∧ (berase m k).size + (if bfind m k = none then 0 else 1) = m.size := by
  unfold berase
  cases hf : bfind m k with
  | none => exact ⟨hw, hf, fun _ _ => rfl, rfl, by simp⟩
  | some x =>
    simp only
    have hlt : bhash k < m.buckets.length := by rw [hw.len]; exact hash_lt k
    have hc := fun i => chain_modify' m (bhash k) hlt (fun c => c.filter (fun p => !(p.1 == k))) i
      { m with buckets := m.buckets.modify (bhash k) (fun c => c.filter (fun p => !(p.1 == k))), free := m.free + 1, size := m.size - 1 } rfl
    have hmem := find_some_mem m k x hf
    -- exactly one element leaves the chain
    have hlen : ((chain m (bhash k)).filter (fun p => !(p.1 == k))).length + 1 = (chain m (bhash k)).length := by
      have hnd := hw.nodup (bhash k)
      generalize chain m (bhash k) = c at hmem hnd
      induction c with
      | nil => cases hmem
      | cons p c ih =>
        simp only [List.map_cons, List.nodup_cons] at hnd
        by_cases hp : p.1 = k
        · have hnot : ∀ q ∈ c, (!(q.1 == k)) = true := by
            intro q hq
            have : q.1 ≠ k := fun e => hnd.1 (by rw [hp, ← e]; exact List.mem_map.mpr ⟨q, hq, rfl⟩)
            simp [this]
          simp [List.filter_cons, hp, List.filter_eq_self.mpr hnot]
        · have hin : (k, x) ∈ c := by
            cases hmem with
            | head => exact absurd rfl hp
            | tail _ h => exact h
          have := ih hin hnd.2
          simp [List.filter_cons, hp]; omega
    have hpos : 0 < m.size := by
      have hs := hw.size_eq
      have hch : chain m (bhash k) = m.buckets[bhash k] := by unfold chain; simp [List.getElem?_eq_getElem hlt]
      have : 0 < (m.buckets[bhash k]).length := by rw [← hch]; exact List.length_pos_of_mem hmem
      have hle : (m.buckets[bhash k]).length ≤ (m.buckets.map List.length).sum :=
        mem_le_sum _ _ (List.mem_map.mpr ⟨_, List.getElem_mem hlt, rfl⟩)
      omega
    refine ⟨⟨?_, ?_, ?_, ?_, ?_⟩, ?_, ?_, ?_, ?_⟩
    rotate_left 7
    · trivial
    · simp; omega
    · simp [hw.len]
    · intro i p hp
      rw [hc] at hp
      split at hp
      · exact hw.hashed i p (List.mem_filter.mp hp).1
      · exact hw.hashed i p hp
    · intro i
      rw [hc]
      split
      · exact List.Nodup.sublist (List.Sublist.map _ List.filter_sublist) (hw.nodup i)
      · exact hw.nodup i
    · have hs := sum_modify m.buckets (bhash k) hlt (fun c => c.filter (fun p => !(p.1 == k)))
      have hch : chain m (bhash k) = m.buckets[bhash k] := by unfold chain; simp [List.getElem?_eq_getElem hlt]
      rw [hch] at hlen
      have := hw.size_eq
      simp only at hs ⊢
      omega
    · have := hw.cap_eq
      simp only; omega
    · rw [find_eq, hc]; simp
    · intro k' hne
      rw [find_eq, find_eq, hc]
      split
      · rw [List.find?_filter]
        congr 1
        apply find?_congr'
        intro p _
        by_cases e : p.1 = k'
        · have : ¬ p.1 = k := fun e2 => hne (e ▸ e2)
          simp [e, hne]
        · simp [e]
      · rfl

theorem clear_spec (m : BMap β) (hw : Wf m) :
    Wf (bclear m) ∧ (∀ k, bfind (bclear m) k = none) ∧ (bclear m).size = 0 ∧ (bclear m).capacity = m.capacity := by
  have hch : ∀ i, chain (bclear m) i = [] := by
    intro i; unfold chain bclear; simp only [List.getElem?_replicate]; split <;> rfl
  refine ⟨⟨List.length_replicate, ?_, ?_, ?_, ?_⟩, ?_, rfl, rfl⟩
  · intro i p hp; rw [hch] at hp; cases hp
  · intro i; rw [hch]; exact List.nodup_nil
  · show 0 = ((List.replicate 256 ([] : List (Nat × β))).map List.length).sum
    rw [List.map_replicate, List.sum_replicate_nat]; rfl
  · have := hw.cap_eq; simp only [bclear]; omega
  · intro k; rw [find_eq, hch]; rfl

/-- size never exceeds the reserved capacity -/
theorem size_le_capacity (m : BMap β) (hw : Wf m) : m.size ≤ m.capacity := by have := hw.cap_eq; omega

/-! ## iteration -/

theorem chain_mem_buckets (m : BMap β) (i : Nat) (hi : i < m.buckets.length) : chain m i = m.buckets[i] := by
  unfold chain; simp [List.getElem?_eq_getElem hi]

/-- **iteration visits exactly the present keys**: a pair is produced by begin()/++ iff lookup finds it -/
theorem mem_toList_iff (m : BMap β) (hw : Wf m) (k : Nat) (v : β) : (k, v) ∈ toList m ↔ bfind m k = some v := by
  constructor
  · intro h
    simp only [toList, List.mem_flatten] at h
    obtain ⟨c, hc, hk⟩ := h
    obtain ⟨i, hi, hci⟩ := List.getElem_of_mem hc
    have hch := chain_mem_buckets m i hi
    have hh := hw.hashed i (k, v) (by rw [hch, hci]; exact hk)
    simp only at hh
    apply mem_chain_find m hw
    rw [hh, hch, hci]; exact hk
  · intro h
    have hmem := find_some_mem m k v h
    have hlt : bhash k < m.buckets.length := by rw [hw.len]; exact hash_lt k
    rw [chain_mem_buckets m _ hlt] at hmem
    simp only [toList, List.mem_flatten]
    exact ⟨_, List.getElem_mem hlt, hmem⟩

/-- **iteration visits every present bank exactly once** -/
theorem toList_keys_nodup (m : BMap β) (hw : Wf m) : ((toList m).map (·.1)).Nodup := by
  unfold toList
  rw [List.map_flatten]
  unfold List.Nodup
  rw [List.pairwise_flatten]
  constructor
  · intro l hl
    obtain ⟨c, hc, rfl⟩ := List.mem_map.mp hl
    obtain ⟨i, hi, hci⟩ := List.getElem_of_mem hc
    have := hw.nodup i
    rw [chain_mem_buckets m i hi, hci] at this
    exact this
  · rw [List.pairwise_map, List.pairwise_iff_getElem]
    intro i j hi hj hij x hx y hy hxy
    obtain ⟨p, hp, rfl⟩ := List.mem_map.mp hx
    obtain ⟨q, hq, rfl⟩ := List.mem_map.mp hy
    have h1 := hw.hashed i p (by rw [chain_mem_buckets m i hi]; exact hp)
    have h2 := hw.hashed j q (by rw [chain_mem_buckets m j hj]; exact hq)
    rw [hxy] at h1
    omega

/-! ## the API layer -/

/-- **identifiers read back equal those used at creation** -/
theorem bankId_keyOf (perc msb lsb : Nat) (hp : perc ≤ 1) (hm : msb ≤ 127) (hl : lsb ≤ 127) :
    bankId (keyOf perc msb lsb) = (perc, msb, lsb) := by
  unfold bankId keyOf percussionTag
  have : perc = 0 ∨ perc = 1 := by omega
  rcases this with h | h <;> subst h <;> simp <;> omega

/-- distinct identifiers designate distinct banks -/
theorem keyOf_inj (p m l p' m' l' : Nat) (hp : p ≤ 1) (hm : m ≤ 127) (hl : l ≤ 127) (hp' : p' ≤ 1) (hm' : m' ≤ 127) (hl' : l' ≤ 127)
    (h : keyOf p m l = keyOf p' m' l') : p = p' ∧ m = m' ∧ l = l' := by
  have a := bankId_keyOf p m l hp hm hl
  have b := bankId_keyOf p' m' l' hp' hm' hl'
  rw [h, b] at a
  injection a with a1 a2; injection a2 with a2 a3
  exact ⟨a1.symm, a2.symm, a3.symm⟩

/-- **a bank created through the API reads as 128 blank instruments**, and lookup finds it afterwards -/
theorem getBank_create (s : State) (hw : Wf s) (perc msb lsb flags : Nat) (hp : perc ≤ 1) (hm : msb ≤ 127) (hl : lsb ≤ 127)
    (hflags : flags % 4 = 1) (habs : bfind s (keyOf perc msb lsb) = none) :
    let r := getBank s perc msb lsb flags
    Wf r.1 ∧ r.2.1 = 0 ∧ r.2.2 = some (keyOf perc msb lsb) ∧
      bfind r.1 (keyOf perc msb lsb) = some (List.replicate 128 AInst.blank) ∧
      ∀ idx, idx ≤ 127 → getInstrument r.1 (keyOf perc msb lsb) idx = some AInst.blank := by
  have h1 : ¬ (lsb > 127 ∨ msb > 127 ∨ perc > 1) := by omega
  have h2 : ¬ flags % 2 = 0 := by omega
  have h3 : ¬ flags % 4 = 3 := by omega
  have hi := insert_spec s hw (keyOf perc msb lsb) (List.replicate 128 AInst.blank)
  simp only [getBank, h1, h2, h3, if_false]
  refine ⟨hi.1, by first | rfl | trivial, by first | rfl | trivial, by rw [hi.2.1, habs]; rfl, ?_⟩
  intro idx hidx
  have : ¬ idx > 127 := by omega
  simp only [getInstrument, this, if_false, hi.2.1, habs, Option.getD_none, Option.bind_some]
  rw [List.getElem?_replicate]; simp; omega

theorem find?_map_keyed (g : Nat × β → Nat × β) (hg : ∀ p, (g p).1 = p.1) (k' : Nat) :
    ∀ c : List (Nat × β), (c.map g).find? (·.1 == k') = (c.find? (·.1 == k')).map g
  | [] => rfl
  | p :: c => by
      simp only [List.map_cons, List.find?_cons, hg]
      cases (p.1 == k') with
      | true => rfl
      | false => exact find?_map_keyed g hg k' c

/-- writing through a handle changes exactly that entry of that bank -/
theorem update_spec (m : BMap β) (hw : Wf m) (k : Nat) (f : β → β) :
    Wf (bupdate m k f) ∧ bfind (bupdate m k f) k = (bfind m k).map f ∧
    (∀ k', k' ≠ k → bfind (bupdate m k f) k' = bfind m k') ∧ (bupdate m k f).size = m.size ∧
    (bupdate m k f).capacity = m.capacity := by
  have hlt : bhash k < m.buckets.length := by rw [hw.len]; exact hash_lt k
  have hc := fun i => chain_modify' m (bhash k) hlt (fun c => c.map (fun p => if p.1 == k then (p.1, f p.2) else p)) i (bupdate m k f) rfl
  have hkeys : ∀ c : List (Nat × β), (c.map (fun p => if p.1 == k then (p.1, f p.2) else p)).map (·.1) = c.map (·.1) := by
    intro c; rw [List.map_map]; apply List.map_congr_left; intro p _; simp only [Function.comp]; split <;> rfl
  refine ⟨⟨?_, ?_, ?_, ?_, ?_⟩, ?_, ?_, rfl, rfl⟩
  · simp [bupdate, hw.len]
  · intro i p hp
    rw [hc] at hp
    split at hp
    · obtain ⟨q, hq, rfl⟩ := List.mem_map.mp hp
      have := hw.hashed i q hq
      split <;> exact this
    · exact hw.hashed i p hp
  · intro i; rw [hc]; split
    · rw [hkeys]; exact hw.nodup i
    · exact hw.nodup i
  · have hs := sum_modify m.buckets (bhash k) hlt (fun c => c.map (fun p => if p.1 == k then (p.1, f p.2) else p))
    simp only [bupdate, List.length_map] at hs ⊢
    have := hw.size_eq; omega
  · exact hw.cap_eq
  · have hg : ∀ p : Nat × β, ((fun p => if p.1 == k then (p.1, f p.2) else p) p).1 = p.1 := by
      intro p; simp only; split <;> rfl
    rw [find_eq, find_eq, hc, if_pos rfl, find?_map_keyed _ hg]
    cases hfd : (chain m (bhash k)).find? (·.1 == k) with
    | none => rfl
    | some p =>
      have hk := List.find?_some hfd
      simp only [Option.map_some, hk, if_true]
  · intro k' hne
    have hg : ∀ p : Nat × β, ((fun p => if p.1 == k then (p.1, f p.2) else p) p).1 = p.1 := by
      intro p; simp only; split <;> rfl
    rw [find_eq, find_eq, hc]
    split
    · rw [find?_map_keyed _ hg]
      cases hfd : (chain m (bhash k')).find? (·.1 == k') with
      | none => rfl
      | some p =>
        have hk := List.find?_some hfd
        simp only [beq_iff_eq] at hk
        have : (p.1 == k) = false := by simp [hk, hne]
        simp only [Option.map_some, this, Bool.false_eq_true, if_false]
    · rfl

/-- **an instrument read back equals the instrument last written to that slot** (other slots and banks untouched) -/
theorem set_get_instrument (s : State) (hw : Wf s) (k idx : Nat) (i : AInst) (b : ABank) (hb : bfind s k = some b)
    (hlen : b.length = 128) (hidx : idx ≤ 127) :
    let r := setInstrument s k idx 0 i
    r.2 = 0 ∧ Wf r.1 ∧ getInstrument r.1 k idx = some i ∧
      (∀ j, j ≠ idx → getInstrument r.1 k j = getInstrument s k j) ∧
      (∀ k' j, k' ≠ k → getInstrument r.1 k' j = getInstrument s k' j) := by
  have h1 : ¬ (idx > 127 ∨ (0 : Nat) ≠ 0) := by omega
  have hu := update_spec s hw k (fun b => b.set idx i)
  simp only [setInstrument, h1, if_false]
  refine ⟨by first | rfl | trivial, hu.1, ?_, ?_, ?_⟩
  · have : ¬ idx > 127 := by omega
    simp only [getInstrument, this, if_false, hu.2.1, hb, Option.map_some, Option.bind_some]
    rw [List.getElem?_set_self (by omega)]
  · intro j hj
    simp only [getInstrument, hu.2.1, hb, Option.map_some, Option.bind_some]
    split
    · rfl
    · rw [List.getElem?_set_ne (fun e => hj e.symm)]
  · intro k' j hk
    simp only [getInstrument, hu.2.2.1 k' hk]

/-! ## every reachable map is well-formed -/

inductive MapOp (β : Type)
  | reserve (n : Nat)
  | insert (k : Nat) (v : β)
  | insertRt (k : Nat) (v : β)
  | erase (k : Nat)
  | clear
  | update (k : Nat) (f : β → β)

def applyOp (m : BMap β) : MapOp β → BMap β
  | .reserve n => breserve m n
  | .insert k v => (binsert m k v).1
  | .insertRt k v => (binsertRt m k v).1
  | .erase k => berase m k
  | .clear => bclear m
  | .update k f => bupdate m k f

theorem wf_step (m : BMap β) (hw : Wf m) (op : MapOp β) : Wf (applyOp m op) := by
  cases op with
  | reserve n => exact (wf_reserve m hw n).1
  | insert k v => exact (insert_spec m hw k v).1
  | insertRt k v => exact (insertRt_spec m hw k v).1
  | erase k => exact (erase_spec m hw k).1
  | clear => exact (clear_spec m hw).1
  | update k f => exact (update_spec m hw k f).1

/-- **invariant for every operation sequence**: through any sequence of reserve / create / real-time create / remove /
    clear / write operations the map stays well-formed (so all the map laws above apply in every reachable state). -/
theorem wf_run (ops : List (MapOp β)) : ∀ (m : BMap β), Wf m → Wf (ops.foldl applyOp m) := by
  induction ops with
  | nil => intro m h; exact h
  | cons op ops ih => intro m h; exact ih _ (wf_step m h op)

theorem wf_reachable (ops : List (MapOp β)) : Wf (ops.foldl applyOp (bempty : BMap β)) := wf_run ops _ wf_empty

/-! ## non-vacuity: a reachable state with two colliding keys, a removed key and a reused slot -/

def exOps : List (MapOp Nat) :=
  [.reserve 2, .insertRt 0 10, .insertRt 512 20, .insertRt 5 30, .insert 32768 40, .erase 512, .insertRt 1024 50, .update 0 (· + 1)]

example : bhash 0 = bhash 512 ∧ bhash 0 = bhash 1024 ∧ bhash 0 = bhash 32768 := by decide
example : (toList (exOps.foldl applyOp bempty)).map (·.1) = [1024, 32768, 0, 5] := by decide +kernel
example : bfind (exOps.foldl applyOp bempty) 0 = some 11 ∧ bfind (exOps.foldl applyOp bempty) 512 = none ∧
    (exOps.foldl applyOp (bempty : BMap Nat)).capacity = 4 ∧ (exOps.foldl applyOp (bempty : BMap Nat)).size = 4 := by decide +kernel

/-- **bank-file loads keep the sections apart**: whatever the two bank-number bytes of a file hold (0..255 each), the key under
    which `LoadBank` stores the bank carries the percussion tag exactly for the percussive section — a melodic bank can never
    replace a percussion bank (with the unreduced MSB, 0x80 did exactly that: `unmasked_msb_collides`) -/
theorem loaded_key_section (perc msb lsb : Nat) (hp : perc ≤ 1) (hl : lsb < 256) :
    keyOf perc (msb % 128) lsb / percussionTag % 2 = perc := by
  unfold keyOf percussionTag
  have hm : msb % 128 < 128 := Nat.mod_lt _ (by decide)
  by_cases h : perc = 0
  · subst h; simp; omega
  · have : perc = 1 := by omega
    subst this; simp; omega

theorem unmasked_msb_collides : keyOf 0 128 0 = keyOf 1 0 0 := by decide

/-- … and for bank numbers inside the API's key space (7 bits each) the identifier read back is the one in the file -/
theorem loaded_key_id (perc msb lsb : Nat) (hp : perc ≤ 1) (hm : msb < 128) (hl : lsb < 128) :
    bankId (keyOf perc (msb % 128) lsb) = (perc, msb, lsb) := by
  unfold bankId keyOf percussionTag
  rw [Nat.mod_eq_of_lt hm]
  by_cases h : perc = 0
  · subst h
    simp only [ne_eq, not_true_eq_false, if_false, Nat.add_zero, Prod.mk.injEq]
    refine ⟨?_, ?_, ?_⟩
    · have : (msb * 256 + lsb) / 32768 % 2 = 0 := by omega
      simp [this]
    · omega
    · omega
  · have : perc = 1 := by omega
    subst this
    simp only [ne_eq, Nat.succ_ne_zero, not_false_eq_true, if_true, Prod.mk.injEq]
    refine ⟨?_, ?_, ?_⟩
    · have : (msb * 256 + lsb + 32768) / 32768 % 2 = 1 := by omega
      simp; omega
    · omega
    · omega

end Opn.C16
