/-
  C17 — Container/converter front-ends preserve the music (RMI, GMF, MUS, XMI).
-/
import OpnVerif.Model.Seq
import OpnVerif.Model.Mus
import OpnVerif.Model.Xmi

namespace Opn.C17
open Opn Opn.Seq

/-- **RMI = bare SMF**: a RIFF/RMID container is loaded exactly as the SMF that starts behind its 20-byte header
    (for every byte string: same acceptance, same sequencer state). -/
theorem rmi_is_smf (s : Seq) (pre : Bytes) (smf : Bytes) (hp : pre.length = 20) (hm : pre.take 4 = magicRIFF)
    (hlen : 14 ≤ (pre ++ smf).length) (hnot : (pre ++ smf).take 8 ≠ magicMThd) :
    loadMidi s (pre ++ smf) = parseSMF s .midi smf := by
  unfold loadMidi
  have h4 : (pre ++ smf).take 4 = magicRIFF := by
    rw [List.take_append_of_le_length (by omega)]; exact hm
  have hd : (pre ++ smf).drop 20 = smf := by
    rw [← hp]; exact List.drop_left
  rw [if_neg (show ¬ (pre ++ smf).length < 14 by omega), if_neg (by simpa using hnot), if_pos (by simpa using h4), hd]

/-- MUS channel 15 is the percussion channel from the start; every other channel is unassigned -/
theorem mus_initial_map : (({} : Mus.St).map.getD 15 0 = 9) ∧ ∀ c, c < 15 → ({} : Mus.St).map.getD c 0 = -1 := by
  constructor
  · decide
  · intro c hc
    have : c = 0 ∨ c = 1 ∨ c = 2 ∨ c = 3 ∨ c = 4 ∨ c = 5 ∨ c = 6 ∨ c = 7 ∨ c = 8 ∨ c = 9 ∨ c = 10 ∨ c = 11 ∨ c = 12 ∨ c = 13 ∨ c = 14 := by omega
    rcases this with h | h | h | h | h | h | h | h | h | h | h | h | h | h | h <;> subst h <;> decide

/-- the controller table of the MUS converter has the 15 documented entries -/
theorem mus_controller_table : Mus.midimap.length = 15 ∧ Mus.midimap.getD 3 0 = 7 ∧ Mus.midimap.getD 4 0 = 10 ∧ Mus.midimap.getD 8 0 = 64 := by decide

/-! ## XMI: a note with a duration becomes a note-on and a note-off -/

open Opn.Xmi in
/-- inserting an event adds exactly one event to the list -/
theorem insertEv_length (el : EL) (e : XEv) : (insertEv el e).l.length = el.l.length + 1 := by
  unfold insertEv
  split
  · rename_i h; simp [h]
  · split
    · simp
    · simp only
      generalize (if ((el.l[el.cur]?).map (·.time)).getD 0 > e.time then 0 else el.cur) = c0
      suffices H : ∀ fuel c, (insertEv.go el e fuel c).l.length = el.l.length + 1 from H _ _
      intro fuel
      induction fuel with
      | zero => intro c; simp [insertEv.go]
      | succ f ih =>
        intro c
        unfold insertEv.go
        split
        · simp
        · split
          · rename_i nx hnx _
            have hc : c + 1 < el.l.length := by
              have := List.getElem?_eq_some_iff.mp hnx
              exact this.1
            simp only [List.length_append, List.length_take, List.length_drop, List.length_cons, List.length_nil]
            omega
          · exact ih (c + 1)

open Opn.Xmi in
/-- the inserted event is in the list (with a negative time clamped to 0) -/
theorem insertEv_mem (el : EL) (e : XEv) : { e with time := if e.time < 0 then 0 else e.time } ∈ (insertEv el e).l := by
  unfold insertEv
  split
  · simp
  · split
    · rename_i h; simp [h]
    · rename_i h
      have he : ({ e with time := e.time } : XEv) = e := rfl
      rw [he]
      simp only
      generalize (if ((el.l[el.cur]?).map (·.time)).getD 0 > e.time then 0 else el.cur) = c0
      suffices H : ∀ fuel c, e ∈ (insertEv.go el e fuel c).l from H _ _
      intro fuel
      induction fuel with
      | zero => intro c; simp [insertEv.go]
      | succ f ih =>
        intro c
        unfold insertEv.go
        split
        · simp
        · split
          · simp
          · exact ih (c + 1)

open Opn.Xmi in
/-- nothing is lost by an insertion -/
theorem insertEv_subset (el : EL) (e x : XEv) (hx : x ∈ el.l) : x ∈ (insertEv el e).l := by
  unfold insertEv
  split
  · rename_i h; rw [h] at hx; cases hx
  · split
    · simp [hx]
    · simp only
      generalize (if ((el.l[el.cur]?).map (·.time)).getD 0 > e.time then 0 else el.cur) = c0
      suffices H : ∀ fuel c, x ∈ (insertEv.go el e fuel c).l from H _ _
      intro fuel
      induction fuel with
      | zero => intro c; simp [insertEv.go, hx]
      | succ f ih =>
        intro c
        unfold insertEv.go
        split
        · simp [hx]
        · split
          · have : x ∈ el.l.take (c + 1) ++ el.l.drop (c + 1) := by rw [List.take_append_drop]; exact hx
            simp only [List.mem_append, List.mem_cons, List.not_mem_nil, or_false] at this ⊢
            rcases this with h | h
            · exact Or.inl (Or.inl h)
            · exact Or.inr h
          · exact ih (c + 1)

open Opn.Xmi in
/-- **XMI note durations become note-offs**: converting a note event (status 9n, a key, a velocity, a duration) at
    time `t ≥ 0` leaves in the list a note-on `(9n, key, velocity)` at `t` and a note-off in the MIDI spelling
    `(9n, key, 0)` at `t + 3·duration` (32-bit), whatever the list held before -/
theorem note_gets_noteoff (l : EL) (s : Src) (t : Int) (status : Nat) (ht : 0 ≤ t)
    (hs : ¬ (status / 16 == 0xB)) :
    let key := (read1 s).1
    let vel := (read1 (read1 s).2).1
    let dur := (getVLQ (read1 (read1 s).2).2).1
    ({ time := t, status := status, d0 := key, d1 := vel } : XEv) ∈ (convertEvent l s t status 3).1.l ∧
    ∃ off ∈ (convertEvent l s t status 3).1.l, off.status = status ∧ off.d0 = key ∧ off.d1 = 0 ∧
      (0 ≤ toI32 (t + (dur * 3 % 4294967296 : Nat)) → off.time = toI32 (t + (dur * 3 % 4294967296 : Nat))) := by
  intro key vel dur
  have hb : (status / 16 == 0xB) = false := by simpa using hs
  unfold convertEvent
  simp only [hb, Bool.false_and, Bool.false_eq_true, if_false, show ((3 : Nat) == 1) = false by decide, show ((3 : Nat) == 2) = false by decide]
  constructor
  · apply insertEv_subset
    have := insertEv_mem l { time := t, status := status, d0 := key, d1 := vel }
    have e : (if t < 0 then (0 : Int) else t) = t := by simp; omega
    simpa [e] using this
  · refine ⟨_, insertEv_mem _ _, rfl, rfl, rfl, ?_⟩
    intro h
    have h' : ¬ toI32 (t + (((getVLQ (read1 (read1 s).2).2).1 * 3 % 4294967296 : Nat) : Int)) < 0 := by
      have : dur = (getVLQ (read1 (read1 s).2).2).1 := rfl
      rw [← this]; omega
    simp only
    rw [if_neg h']


open Opn.Xmi

/-! ## the delta times the XMI converter writes are read back by the sequencer's parser -/

theorem or80 (x : Nat) (h : x < 128) : x ||| 0x80 = x + 128 := by
  have := Nat.two_pow_add_eq_or_of_lt (i := 7) (b := x) (by simpa using h) 1
  simp only [Nat.reducePow, Nat.mul_one] at this
  rw [Nat.or_comm]; omega

theorem shl_or (a b : Nat) (h : b < 256) : (a * 256) ||| b = a * 256 + b := by
  have := Nat.two_pow_add_eq_or_of_lt (i := 8) (b := b) (by simpa using h) a
  simp only [Nat.reducePow] at this
  rw [Nat.mul_comm a 256]; omega

theorem mod_id (x m : Nat) (h : x < m) : x % m = x := Nat.mod_eq_of_lt h

/-- one step of the converter's accumulator: shift the 32-bit buffer by a byte and add the next group with its continuation bit -/
theorem pack_step (buf g : Nat) (hb : buf < 16777216) (hg : g < 128) :
    (buf * 256 % 4294967296) ||| (g ||| 0x80) = buf * 256 + (g + 128) := by
  rw [or80 g hg, mod_id _ _ (by omega), shl_or _ _ (by omega)]

theorem rv_cont (g acc : Nat) (rest : Bytes) (hg : g < 128) :
    readVarLen ((g + 128) :: rest) acc = readVarLen rest ((acc * 128 + g) % W) := by
  have e : (g + 128) % 128 = g := by omega
  simp [readVarLen, e]

theorem rv_last (g acc : Nat) (rest : Bytes) (hg : g < 128) :
    readVarLen (g :: rest) acc = (some ((acc * 128 + g) % W), rest) := by
  have e : g % 128 = g := by omega
  have e2 : ¬ 128 ≤ g := by omega
  simp [readVarLen, e, e2]

/-- reading back the bytes of a packed buffer, most significant group first -/
theorem read2 (a b : Nat) (ha : a < 128) (hb : b < 128) (rest : Bytes) :
    readVarLen ((b * 256 + (a + 128)) % 256 :: (b * 256 + (a + 128)) / 256 % 256 :: rest) 0 = (some (a * 128 + b), rest) := by
  have b0 : (b * 256 + (a + 128)) % 256 = a + 128 := by omega
  have b1 : (b * 256 + (a + 128)) / 256 % 256 = b := by omega
  rw [b0, b1, rv_cont _ 0 _ ha, rv_last _ _ rest hb]
  simp only [W, Prod.mk.injEq, Option.some.injEq, and_true]; omega

theorem read3 (a b c : Nat) (ha : a < 128) (hb : b < 128) (hc : c < 128) (rest : Bytes) :
    readVarLen (((b * 256 + (a + 128)) * 256 + (c + 128)) % 256 :: ((b * 256 + (a + 128)) * 256 + (c + 128)) / 256 % 256 ::
      ((b * 256 + (a + 128)) * 256 + (c + 128)) / 65536 % 256 :: rest) 0 = (some ((c * 128 + a) * 128 + b), rest) := by
  have b0 : ((b * 256 + (a + 128)) * 256 + (c + 128)) % 256 = c + 128 := by omega
  have b1 : ((b * 256 + (a + 128)) * 256 + (c + 128)) / 256 % 256 = a + 128 := by omega
  have b2 : ((b * 256 + (a + 128)) * 256 + (c + 128)) / 65536 % 256 = b := by omega
  rw [b0, b1, b2, rv_cont _ 0 _ hc, rv_cont _ _ _ ha, rv_last _ _ rest hb]
  simp only [W, Prod.mk.injEq, Option.some.injEq, and_true]; omega

theorem read4 (a b c d : Nat) (ha : a < 128) (hb : b < 128) (hc : c < 128) (hd : d < 128) (rest : Bytes) :
    readVarLen ((((b * 256 + (a + 128)) * 256 + (c + 128)) * 256 + (d + 128)) % 256 ::
      (((b * 256 + (a + 128)) * 256 + (c + 128)) * 256 + (d + 128)) / 256 % 256 ::
      (((b * 256 + (a + 128)) * 256 + (c + 128)) * 256 + (d + 128)) / 65536 % 256 ::
      (((b * 256 + (a + 128)) * 256 + (c + 128)) * 256 + (d + 128)) / 16777216 % 256 :: rest) 0 =
      (some (((d * 128 + c) * 128 + a) * 128 + b), rest) := by
  have b0 : (((b * 256 + (a + 128)) * 256 + (c + 128)) * 256 + (d + 128)) % 256 = d + 128 := by omega
  have b1 : (((b * 256 + (a + 128)) * 256 + (c + 128)) * 256 + (d + 128)) / 256 % 256 = c + 128 := by omega
  have b2 : (((b * 256 + (a + 128)) * 256 + (c + 128)) * 256 + (d + 128)) / 65536 % 256 = a + 128 := by omega
  have b3 : (((b * 256 + (a + 128)) * 256 + (c + 128)) * 256 + (d + 128)) / 16777216 % 256 = b := by omega
  rw [b0, b1, b2, b3, rv_cont _ 0 _ hd, rv_cont _ _ _ hc, rv_cont _ _ _ ha, rv_last _ _ rest hb]
  simp only [W, Prod.mk.injEq, Option.some.injEq, and_true]; omega

theorem vlq1 (n : Nat) (h : n < 128) (rest : Bytes) : readVarLen (putVLQ n ++ rest) 0 = (some n, rest) := by
  have h0 : n / 128 = 0 := by omega
  have hm : n % 4294967296 = n := by omega
  have r1 : List.range 1 = [0] := by decide
  have b0 : n % 128 % 256 = n := by omega
  simp only [putVLQ, putVLQ.build, hm, h0, beq_self_eq_true, if_true, r1, List.map_cons, List.map_nil, Nat.pow_zero, Nat.div_one,
    List.cons_append, List.nil_append, b0]
  rw [rv_last n 0 rest h]
  simp only [W, Prod.mk.injEq, Option.some.injEq, and_true]; omega

set_option maxRecDepth 4000 in
theorem vlq2 (n : Nat) (h1 : 128 ≤ n) (h : n < 16384) (rest : Bytes) : readVarLen (putVLQ n ++ rest) 0 = (some n, rest) := by
  have h0 : ¬ n / 128 = 0 := by omega
  have h00 : n / 128 / 128 = 0 := by omega
  have hm : n % 4294967296 = n := by omega
  have hn : (n / 128 % 128) * 128 + n % 128 = n := by omega
  have hA : n / 128 % 128 < 128 := by omega
  have hB : n % 128 < 128 := by omega
  have r2 : List.range 2 = [0, 1] := by decide
  simp only [putVLQ, putVLQ.build, hm, h0, h00, beq_iff_eq, if_false, if_true, r2, List.map_cons, List.map_nil,
    Nat.pow_zero, Nat.pow_one, Nat.div_one, List.cons_append, List.nil_append, Nat.reduceAdd]
  rw [pack_step _ _ (by omega) hA, read2 _ _ hA hB, hn]

set_option maxRecDepth 8000 in
theorem vlq3 (n : Nat) (h1 : 16384 ≤ n) (h : n < 2097152) (rest : Bytes) : readVarLen (putVLQ n ++ rest) 0 = (some n, rest) := by
  have h0 : ¬ n / 128 = 0 := by omega
  have h00 : ¬ n / 128 / 128 = 0 := by omega
  have h000 : n / 128 / 128 / 128 = 0 := by omega
  have hm : n % 4294967296 = n := by omega
  have hn : ((n / 128 / 128 % 128) * 128 + n / 128 % 128) * 128 + n % 128 = n := by omega
  have hC : n / 128 / 128 % 128 < 128 := by omega
  have hA : n / 128 % 128 < 128 := by omega
  have hB : n % 128 < 128 := by omega
  have r3 : List.range 3 = [0, 1, 2] := by decide
  simp only [putVLQ, putVLQ.build, hm, h0, h00, h000, beq_iff_eq, if_false, if_true, r3, List.map_cons, List.map_nil,
    Nat.pow_zero, Nat.pow_one, Nat.div_one, List.cons_append, List.nil_append, Nat.reduceAdd, Nat.reducePow]
  rw [pack_step _ _ (by omega) hA, pack_step _ _ (by omega) hC, read3 _ _ _ hA hB hC, hn]

set_option maxRecDepth 8000 in
theorem vlq4 (n : Nat) (h1 : 2097152 ≤ n) (h : n < 268435456) (rest : Bytes) : readVarLen (putVLQ n ++ rest) 0 = (some n, rest) := by
  have h0 : ¬ n / 128 = 0 := by omega
  have h00 : ¬ n / 128 / 128 = 0 := by omega
  have h000 : ¬ n / 128 / 128 / 128 = 0 := by omega
  have h0000 : n / 128 / 128 / 128 / 128 = 0 := by omega
  have hm : n % 4294967296 = n := by omega
  have hn : (((n / 128 / 128 / 128 % 128) * 128 + n / 128 / 128 % 128) * 128 + n / 128 % 128) * 128 + n % 128 = n := by omega
  have hD : n / 128 / 128 / 128 % 128 < 128 := by omega
  have hC : n / 128 / 128 % 128 < 128 := by omega
  have hA : n / 128 % 128 < 128 := by omega
  have hB : n % 128 < 128 := by omega
  have r4 : List.range 4 = [0, 1, 2, 3] := by decide
  simp only [putVLQ, putVLQ.build, hm, h0, h00, h000, h0000, beq_iff_eq, if_false, if_true, r4, List.map_cons, List.map_nil,
    Nat.pow_zero, Nat.pow_one, Nat.div_one, List.cons_append, List.nil_append, Nat.reduceAdd, Nat.reducePow]
  rw [pack_step _ _ (by omega) hA, pack_step _ _ (by omega) hC, pack_step _ _ (by omega) hD, read4 _ _ _ _ hA hB hC hD, hn]

/-- **C17: every delta time below 2^28 that the XMI converter writes (`xmi2mid_PutVLQ`) is read back exactly by the sequencer's
    `readVarLenEx`, and the parser continues right behind it** — the two halves of the conversion agree on the time axis.
    (2^28 is the range of a four-byte quantity; the converter's 32-bit accumulator cannot hold a fifth byte.) -/
theorem putVLQ_readVarLen (n : Nat) (h : n < 268435456) (rest : Bytes) : readVarLen (putVLQ n ++ rest) 0 = (some n, rest) := by
  by_cases c1 : n < 128
  · exact vlq1 n c1 rest
  · by_cases c2 : n < 16384
    · exact vlq2 n (by omega) c2 rest
    · by_cases c3 : n < 2097152
      · exact vlq3 n (by omega) c3 rest
      · exact vlq4 n (by omega) h rest

/-- the bound is needed: 2^28 + 1 takes five bytes and the 32-bit accumulator loses the last one -/
theorem putVLQ_limit : (readVarLen (putVLQ 268435457) 0).1 ≠ some 268435457 := by decide +kernel


/-! ## the delays the MUS converter writes are read back by the sequencer's parser -/

set_option maxRecDepth 4000 in
/-- **C17: every delay the MUS converter can write (it refuses more than 28 bits) is read back exactly by the sequencer's parser** -/
theorem mus_writeVarLen_readVarLen (v : Nat) (h : v < 268435456) (rest : Bytes) :
    readVarLen (Mus.writeVarLen v ++ rest) 0 = (some v, rest) := by
  have hB : v % 128 < 128 := by omega
  have hA : v / 128 % 128 < 128 := by omega
  have hC : v / 128 / 128 % 128 < 128 := by omega
  have hD : v / 128 / 128 / 128 % 128 < 128 := by omega
  by_cases c1 : v < 128
  · have z1 : ¬ v / 128 > 0 := by omega
    simp only [Mus.writeVarLen, Mus.writeVarLen.go, z1, if_false, List.cons_append, List.nil_append]
    rw [rv_last _ 0 rest hB]
    simp only [W, Prod.mk.injEq, Option.some.injEq, and_true]; omega
  · have p1 : v / 128 > 0 := by omega
    by_cases c2 : v < 16384
    · have z2 : ¬ v / 128 / 128 > 0 := by omega
      simp only [Mus.writeVarLen, Mus.writeVarLen.go, p1, z2, if_true, if_false, List.cons_append, List.nil_append]
      rw [rv_cont _ 0 _ hA, rv_last _ _ rest hB]
      simp only [W, Prod.mk.injEq, Option.some.injEq, and_true]; omega
    · have p2 : v / 128 / 128 > 0 := by omega
      by_cases c3 : v < 2097152
      · have z3 : ¬ v / 128 / 128 / 128 > 0 := by omega
        simp only [Mus.writeVarLen, Mus.writeVarLen.go, p1, p2, z3, if_true, if_false, List.cons_append, List.nil_append]
        rw [rv_cont _ 0 _ hC, rv_cont _ _ _ hA, rv_last _ _ rest hB]
        simp only [W, Prod.mk.injEq, Option.some.injEq, and_true]; omega
      · have p3 : v / 128 / 128 / 128 > 0 := by omega
        have z4 : ¬ v / 128 / 128 / 128 / 128 > 0 := by omega
        simp only [Mus.writeVarLen, Mus.writeVarLen.go, p1, p2, p3, z4, if_true, if_false, List.cons_append, List.nil_append]
        rw [rv_cont _ 0 _ hD, rv_cont _ _ _ hC, rv_cont _ _ _ hA, rv_last _ _ rest hB]
        simp only [W, Prod.mk.injEq, Option.some.injEq, and_true]; omega

end Opn.C17
