/-
  C17 — Container/converter front-ends preserve the music (RMI, GMF, MUS, XMI).
-/
import OpnVerif.Model.Seq
import OpnVerif.Model.Mus

namespace Opn.C17
open Opn Opn.Seq

/-- **RMI = bare SMF**: a RIFF/RMID container is loaded exactly as the SMF that starts behind its 20-byte header
    (for every byte string: same acceptance, same sequencer state). -/
theorem rmi_is_smf (s : Seq) (pre : Bytes) (smf : Bytes) (hp : pre.length = 20) (hm : pre.take 4 = magicRIFF)
    (hlen : 14 ≤ (pre ++ smf).length) (hnot : (pre ++ smf).take 8 ≠ magicMThd) :
    loadMidi s (pre ++ smf) = parseSMF s .midi smf := by
  unfold loadMidi
  have h4 : (pre ++ smf).take 4 = magicRIFF := by
    rw [List.take_append_of_le_length (by omega)]; exact hm
  have hd : (pre ++ smf).drop 20 = smf := by
    rw [← hp]; exact List.drop_left
  rw [if_neg (show ¬ (pre ++ smf).length < 14 by omega), if_neg (by simpa using hnot), if_pos (by simpa using h4), hd]

/-- MUS channel 15 is the percussion channel from the start; every other channel is unassigned -/
theorem mus_initial_map : (({} : Mus.St).map.getD 15 0 = 9) ∧ ∀ c, c < 15 → ({} : Mus.St).map.getD c 0 = -1 := by
  constructor
  · decide
  · intro c hc
    have : c = 0 ∨ c = 1 ∨ c = 2 ∨ c = 3 ∨ c = 4 ∨ c = 5 ∨ c = 6 ∨ c = 7 ∨ c = 8 ∨ c = 9 ∨ c = 10 ∨ c = 11 ∨ c = 12 ∨ c = 13 ∨ c = 14 := by omega
    rcases this with h | h | h | h | h | h | h | h | h | h | h | h | h | h | h <;> subst h <;> decide

/-- the controller table of the MUS converter has the 15 documented entries -/
theorem mus_controller_table : Mus.midimap.length = 15 ∧ Mus.midimap.getD 3 0 = 7 ∧ Mus.midimap.getD 4 0 = 10 ∧ Mus.midimap.getD 8 0 = 64 := by decide

end Opn.C17
