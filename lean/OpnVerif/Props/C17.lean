/-
  C17 — Container/converter front-ends preserve the music (RMI, GMF, MUS, XMI).
-/
import OpnVerif.Model.Seq
import OpnVerif.Model.Mus
import OpnVerif.Model.Xmi

namespace Opn.C17
open Opn Opn.Seq

/-- **RMI = bare SMF**: a RIFF/RMID container is loaded exactly as the SMF that starts behind its 20-byte header
    (for every byte string: same acceptance, same sequencer state). -/
theorem rmi_is_smf (s : Seq) (pre : Bytes) (smf : Bytes) (hp : pre.length = 20) (hm : pre.take 4 = magicRIFF)
    (hlen : 14 ≤ (pre ++ smf).length) (hnot : (pre ++ smf).take 8 ≠ magicMThd) :
    loadMidi s (pre ++ smf) = parseSMF s .midi smf := by
  unfold loadMidi
  have h4 : (pre ++ smf).take 4 = magicRIFF := by
    rw [List.take_append_of_le_length (by omega)]; exact hm
  have hd : (pre ++ smf).drop 20 = smf := by
    rw [← hp]; exact List.drop_left
  rw [if_neg (show ¬ (pre ++ smf).length < 14 by omega), if_neg (by simpa using hnot), if_pos (by simpa using h4), hd]

/-- MUS channel 15 is the percussion channel from the start; every other channel is unassigned -/
theorem mus_initial_map : (({} : Mus.St).map.getD 15 0 = 9) ∧ ∀ c, c < 15 → ({} : Mus.St).map.getD c 0 = -1 := by
  constructor
  · decide
  · intro c hc
    have : c = 0 ∨ c = 1 ∨ c = 2 ∨ c = 3 ∨ c = 4 ∨ c = 5 ∨ c = 6 ∨ c = 7 ∨ c = 8 ∨ c = 9 ∨ c = 10 ∨ c = 11 ∨ c = 12 ∨ c = 13 ∨ c = 14 := by omega
    rcases this with h | h | h | h | h | h | h | h | h | h | h | h | h | h | h <;> subst h <;> decide

/-- the controller table of the MUS converter has the 15 documented entries -/
theorem mus_controller_table : Mus.midimap.length = 15 ∧ Mus.midimap.getD 3 0 = 7 ∧ Mus.midimap.getD 4 0 = 10 ∧ Mus.midimap.getD 8 0 = 64 := by decide

/-! ## XMI: a note with a duration becomes a note-on and a note-off -/

open Opn.Xmi in
/-- inserting an event adds exactly one event to the list -/
theorem insertEv_length (el : EL) (e : XEv) : (insertEv el e).l.length = el.l.length + 1 := by
  unfold insertEv
  split
  · rename_i h; simp [h]
  · split
    · simp
    · simp only
      generalize (if ((el.l[el.cur]?).map (·.time)).getD 0 > e.time then 0 else el.cur) = c0
      suffices H : ∀ fuel c, (insertEv.go el e fuel c).l.length = el.l.length + 1 from H _ _
      intro fuel
      induction fuel with
      | zero => intro c; simp [insertEv.go]
      | succ f ih =>
        intro c
        unfold insertEv.go
        split
        · simp
        · split
          · rename_i nx hnx _
            have hc : c + 1 < el.l.length := by
              have := List.getElem?_eq_some_iff.mp hnx
              exact this.1
            simp only [List.length_append, List.length_take, List.length_drop, List.length_cons, List.length_nil]
            omega
          · exact ih (c + 1)

open Opn.Xmi in
/-- the inserted event is in the list (with a negative time clamped to 0) -/
theorem insertEv_mem (el : EL) (e : XEv) : { e with time := if e.time < 0 then 0 else e.time } ∈ (insertEv el e).l := by
  unfold insertEv
  split
  · simp
  · split
    · rename_i h; simp [h]
    · rename_i h
      have he : ({ e with time := e.time } : XEv) = e := rfl
      rw [he]
      simp only
      generalize (if ((el.l[el.cur]?).map (·.time)).getD 0 > e.time then 0 else el.cur) = c0
      suffices H : ∀ fuel c, e ∈ (insertEv.go el e fuel c).l from H _ _
      intro fuel
      induction fuel with
      | zero => intro c; simp [insertEv.go]
      | succ f ih =>
        intro c
        unfold insertEv.go
        split
        · simp
        · split
          · simp
          · exact ih (c + 1)

open Opn.Xmi in
/-- nothing is lost by an insertion -/
theorem insertEv_subset (el : EL) (e x : XEv) (hx : x ∈ el.l) : x ∈ (insertEv el e).l := by
  unfold insertEv
  split
  · rename_i h; rw [h] at hx; cases hx
  · split
    · simp [hx]
    · simp only
      generalize (if ((el.l[el.cur]?).map (·.time)).getD 0 > e.time then 0 else el.cur) = c0
      suffices H : ∀ fuel c, x ∈ (insertEv.go el e fuel c).l from H _ _
      intro fuel
      induction fuel with
      | zero => intro c; simp [insertEv.go, hx]
      | succ f ih =>
        intro c
        unfold insertEv.go
        split
        · simp [hx]
        · split
          · have : x ∈ el.l.take (c + 1) ++ el.l.drop (c + 1) := by rw [List.take_append_drop]; exact hx
            simp only [List.mem_append, List.mem_cons, List.not_mem_nil, or_false] at this ⊢
            rcases this with h | h
            · exact Or.inl (Or.inl h)
            · exact Or.inr h
          · exact ih (c + 1)

open Opn.Xmi in
/-- **XMI note durations become note-offs**: converting a note event (status 9n, a key, a velocity, a duration) at
    time `t ≥ 0` leaves in the list a note-on `(9n, key, velocity)` at `t` and a note-off in the MIDI spelling
    `(9n, key, 0)` at `t + 3·duration` (32-bit), whatever the list held before -/
theorem note_gets_noteoff (l : EL) (s : Src) (t : Int) (status : Nat) (ht : 0 ≤ t)
    (hs : ¬ (status / 16 == 0xB)) :
    let key := (read1 s).1
    let vel := (read1 (read1 s).2).1
    let dur := (getVLQ (read1 (read1 s).2).2).1
    ({ time := t, status := status, d0 := key, d1 := vel } : XEv) ∈ (convertEvent l s t status 3).1.l ∧
    ∃ off ∈ (convertEvent l s t status 3).1.l, off.status = status ∧ off.d0 = key ∧ off.d1 = 0 ∧
      (0 ≤ toI32 (t + (dur * 3 % 4294967296 : Nat)) → off.time = toI32 (t + (dur * 3 % 4294967296 : Nat))) := by
  intro key vel dur
  have hb : (status / 16 == 0xB) = false := by simpa using hs
  unfold convertEvent
  simp only [hb, Bool.false_and, Bool.false_eq_true, if_false, show ((3 : Nat) == 1) = false by decide, show ((3 : Nat) == 2) = false by decide]
  constructor
  · apply insertEv_subset
    have := insertEv_mem l { time := t, status := status, d0 := key, d1 := vel }
    have e : (if t < 0 then (0 : Int) else t) = t := by simp; omega
    simpa [e] using this
  · refine ⟨_, insertEv_mem _ _, rfl, rfl, rfl, ?_⟩
    intro h
    have h' : ¬ toI32 (t + (((getVLQ (read1 (read1 s).2).2).1 * 3 % 4294967296 : Nat) : Int)) < 0 := by
      have : dur = (getVLQ (read1 (read1 s).2).2).1 := rfl
      rw [← this]; omega
    simp only
    rw [if_neg h']

end Opn.C17
