/-
  C18 — Settings are transactional: accepted values stick, rejected change nothing.
  Theorems about Model/Settings.lean (setters, getters, applySetup, bank/music loads).
-/
import OpnVerif.Model.Settings

namespace Opn.C18
open Opn Opn.Settings

/-- the setters that can report failure -/
def canFail : Op → Bool
  | .numChips _ | .emulator _ | .devId _ | .bankRejected => true
  | _ => false

/-- **rejected ⇒ nothing changes**: a setter (or a bank load) that reports failure leaves the whole configuration state as it was -/
theorem rejected_unchanged (s : S) (op : Op) (hf : canFail op = true) (hr : (step s op).2 = some (-1)) : (step s op).1 = s := by
  cases op <;> simp [canFail] at hf
  case numChips n =>
    simp only [step] at hr ⊢
    split at hr
    · rename_i h; simp [h]
    · simp at hr
  case emulator e =>
    simp only [step] at hr ⊢
    split at hr
    · rename_i h; simp [h]
    · simp at hr
  case devId id =>
    simp only [step] at hr ⊢
    split at hr
    · rename_i h; simp [h]
    · simp at hr
  case bankRejected => rfl

/-- failure is reported exactly for the documented argument ranges (every `Int`, also the values the C code would shift by) -/
theorem numChips_result (s : S) (n : Int) : (step s (.numChips n)).2 = some (if 1 ≤ n ∧ n ≤ 100 then 0 else -1) := by
  simp only [step]
  split <;> split <;> simp_all <;> omega

theorem emulator_result (s : S) (e : Int) : (step s (.emulator e)).2 = some (if 0 ≤ e ∧ e < emuCount then 0 else -1) := by
  simp only [step]
  split <;> split <;> simp_all <;> omega

theorem devId_result (s : S) (id : Nat) : (step s (.devId id)).2 = some (if id ≤ 15 then 0 else -1) := by
  simp only [step]
  split <;> split <;> simp_all <;> omega

/-! ## accepted ⇒ the getter reports the value -/

theorem numChips_sticks (s : S) (n : Int) (h : 1 ≤ n ∧ n ≤ 100) :
    (view (step s (.numChips n)).1).numChips = n.toNat ∧ (view (step s (.numChips n)).1).numChipsObtained = n.toNat := by
  simp only [step]
  rw [if_neg (by simp; omega)]
  simp [view, partialReset]

theorem devId_sticks (s : S) (id : Nat) (h : id ≤ 15) : (step s (.devId id)).1.devId = id := by
  simp only [step]; rw [if_neg (by omega)]

theorem lfo_sticks (s : S) (v : Int) :
    (view (step s (.lfo v)).1).lfoEnabled = (if v < 0 then s.bank.lfoEnable else v != 0) := by
  simp [step, view]

theorem lfoFreq_sticks (s : S) (v : Int) (h : 0 ≤ v ∧ v < 256) : (view (step s (.lfoFreq v)).1).lfoFrequency = v.toNat := by
  simp only [step, view]
  rw [if_neg (by omega)]
  congr 1; omega

theorem lfoFreq_auto (s : S) (v : Int) (h : v < 0) : (view (step s (.lfoFreq v)).1).lfoFrequency = s.bank.lfoFrequency := by
  simp [step, view, h]

theorem arp_sticks (s : S) (v : Int) : (view (step s (.arp v)).1).autoArpeggio = (v != 0) := by simp [step, view]

theorem chanAlloc_sticks (s : S) (v : Int) (h : -1 ≤ v ∧ v < 3) : (view (step s (.chanAlloc v)).1).chanAlloc = v := by
  simp only [step, view]
  rw [if_neg (by simp; omega)]

theorem chanAlloc_invalid_is_auto (s : S) (v : Int) (h : v < -1 ∨ v ≥ 3) : (view (step s (.chanAlloc v)).1).chanAlloc = -1 := by
  simp only [step, view]
  rw [if_pos (by simpa using h)]

theorem volModel_sticks (s : S) (v : Int) (h : 1 ≤ v ∧ v ≤ 5) : (view (step s (.volModel v)).1).volumeModel = v.toNat := by
  have : v = 1 ∨ v = 2 ∨ v = 3 ∨ v = 4 ∨ v = 5 := by omega
  rcases this with h | h | h | h | h <;> subst h <;> simp [step, view, setVolumeScale, volumeModelOf]

theorem chipType_sticks (s : S) (v : Int) (h : 0 ≤ v) : (view (step s (.chipType v)).1).chipType = v := by
  simp only [step, view, applySetup]
  rw [if_neg (by omega)]

theorem chipType_auto (s : S) (v : Int) (h : v < 0) : (view (step s (.chipType v)).1).chipType = s.bank.chipType := by
  simp [step, view, applySetup, h]

/-! ## the values stay in force across resets, emulator switches and music loads -/

/-- the volume scale in force is a function of the requests: the deprecated logarithmic-volume switch selects the native
    OPN2 scale, otherwise AUTO selects the bank's scale and a model id 1..5 its scale (an id outside 0..5 keeps what was
    in force) -/
def Consistent (s : S) : Prop :=
  s.live.numChips = s.setup.numChips ∧
  s.live.lfoEnable = (if s.setup.lfoEnable < 0 then s.bank.lfoEnable else s.setup.lfoEnable != 0) ∧
  s.live.lfoFrequency = (if s.setup.lfoFrequency < 0 then s.bank.lfoFrequency else (s.setup.lfoFrequency % 256).toNat) ∧
  s.live.chipFamily = (if s.setup.chipType < 0 then (s.bank.chipType : Int) else s.setup.chipType) ∧
  (s.setup.logVolumes = 0 → s.setup.volumeModel = 0 → s.live.volumeScale = s.bank.volumeModel) ∧
  (s.setup.logVolumes = 0 → 1 ≤ s.setup.volumeModel → s.setup.volumeModel ≤ 5 → (s.live.volumeScale : Int) = s.setup.volumeModel - 1) ∧
  (s.setup.logVolumes ≠ 0 → s.live.volumeScale = 1) ∧
  s.live.scaleModulators = (s.setup.scaleModulators != 0)

theorem setVolumeScale_spec (cur : Nat) (m : Int) :
    (1 ≤ m → m ≤ 5 → (setVolumeScale cur m : Int) = m - 1) ∧ ((m < 1 ∨ 5 < m) → setVolumeScale cur m = cur) := by
  unfold setVolumeScale
  constructor
  · intro h1 h5
    have : m = 1 ∨ m = 2 ∨ m = 3 ∨ m = 4 ∨ m = 5 := by omega
    rcases this with h | h | h | h | h <;> subst h <;> simp
  · intro h
    have h1 : ¬ m = 1 := by omega
    have h2 : ¬ m = 2 := by omega
    have h3 : ¬ m = 3 := by omega
    have h4 : ¬ m = 4 := by omega
    have h5 : ¬ m = 5 := by omega
    simp [h1, h2, h3, h4, h5]

theorem setVolumeScale_native (cur : Nat) : setVolumeScale cur 2 = 1 := by simp [setVolumeScale]

/-- the volume scale applySetup puts in force -/
def appliedScale (s : S) : Nat :=
  if s.setup.volumeModel == 0 && s.setup.logVolumes == 0 then s.bank.volumeModel
  else if s.setup.logVolumes != 0 then setVolumeScale s.live.volumeScale 2 else setVolumeScale s.live.volumeScale s.setup.volumeModel

theorem appliedScale_fix (s : S) (h : Consistent s) : appliedScale s = s.live.volumeScale := by
  obtain ⟨_, _, _, _, h5, h5', h5l, _⟩ := h
  unfold appliedScale
  by_cases hl : s.setup.logVolumes = 0
  · by_cases h0 : s.setup.volumeModel = 0
    · simp [h0, hl, h5 hl h0]
    · have e0 : (s.setup.volumeModel == 0) = false := by simpa using h0
      simp only [e0, hl, Bool.false_and, Bool.false_eq_true, if_false, bne_self_eq_false]
      by_cases hr : 1 ≤ s.setup.volumeModel ∧ s.setup.volumeModel ≤ 5
      · have a := (setVolumeScale_spec s.live.volumeScale s.setup.volumeModel).1 hr.1 hr.2
        have b := h5' hl hr.1 hr.2
        omega
      · exact (setVolumeScale_spec s.live.volumeScale s.setup.volumeModel).2 (by omega)
  · have e1 : (s.setup.logVolumes == 0) = false := by simpa using hl
    have e2 : (s.setup.logVolumes != 0) = true := by simpa using hl
    simp only [e1, e2, Bool.and_false, Bool.false_eq_true, if_false, if_true, setVolumeScale_native]
    exact (h5l hl).symm

theorem applySetup_scale (s : S) : (applySetup s).live.volumeScale = appliedScale s := by
  unfold applySetup appliedScale
  by_cases c : (s.setup.volumeModel == 0 && s.setup.logVolumes == 0) = true <;> simp [c]

/-- on a consistent state re-applying the setup changes nothing -/
theorem applySetup_fix (s : S) (h : Consistent s) : applySetup s = s := by
  have hv := appliedScale_fix s h
  have hs := applySetup_scale s
  obtain ⟨h1, h2, h3, h4, _, _, _, h6⟩ := h
  obtain ⟨setup, live, bank, seq, devId, hooks, bl⟩ := s
  obtain ⟨nc, le, lf, cf, vs, ca, sm, sp⟩ := live
  simp only at *
  have e : (applySetup ⟨setup, ⟨nc, le, lf, cf, vs, ca, sm, sp⟩, bank, seq, devId, hooks, bl⟩).live.volumeScale = vs := by rw [hs, hv]
  unfold applySetup at e ⊢
  simp only at e ⊢
  congr 1
  simp only [Live.mk.injEq]
  exact ⟨h1.symm, h2.symm, h3.symm, h4.symm, e, trivial, h6.symm, trivial⟩

theorem reset_keeps (s : S) : (step s .reset).1 = s := rfl

theorem emulator_keeps_view (s : S) (e : Int) : view (step s (.emulator e)).1 = view s := by
  simp only [step]
  split <;> simp [view, partialReset]

theorem runAtPcm_keeps_view (s : S) (b : Int) : view (step s (.runAtPcm b)).1 = view s := by simp [step, view, partialReset]

theorem music_keeps (s : S) (h : Consistent s) : (step s .musicAccepted).1 = s ∧ (step s .musicRejected).1 = s := by
  have := applySetup_fix s h
  simp only [step]
  constructor <;> split <;> simp [this]

/-- hooks and the device id are untouched by everything but their own setters -/
theorem hooks_devid_persist (s : S) (op : Op) (h1 : ∀ b o, op ≠ .hook b o) (h2 : ∀ i, op ≠ .devId i) :
    (step s op).1.hooks = s.hooks ∧ (step s op).1.devId = s.devId := by
  cases op <;> simp only [step, applySetup, partialReset] <;> (try split) <;> simp_all

/-- loop settings and tempo persist across every other call -/
theorem seq_settings_persist (s : S) (op : Op) (h : match op with | .loop _ | .loopCount _ | .loopHooksOnly _ | .tempo _ => False | _ => True) :
    (step s op).1.seq = s.seq := by
  cases op <;> simp only [step, applySetup, partialReset] at * <;> (try split) <;> simp_all

/-! ## a bank load resets exactly the per-bank overrides -/

theorem bank_resets_overrides (s : S) (vm lf ct : Nat) :
    let s' := (step s (.bankAccepted vm lf ct)).1
    s'.setup.volumeModel = 0 ∧ s'.setup.lfoEnable = -1 ∧ s'.setup.lfoFrequency = -1 ∧ s'.setup.chipType = -1 ∧
    s'.setup.numChips = s.setup.numChips ∧ s'.setup.emulator = s.setup.emulator ∧ s'.setup.autoArpeggio = s.setup.autoArpeggio ∧
    s'.devId = s.devId ∧ s'.hooks = s.hooks ∧ s'.seq = s.seq ∧ s'.live.chanAlloc = s.live.chanAlloc ∧
    (view s').lfoEnabled = (lf / 8 % 2 == 1) ∧ (view s').lfoFrequency = lf % 8 ∧ (view s').chipType = ct := by
  simp [step, applySetup, view]

/-! ## Consistent is established by every call -/

theorem consistent_init : Consistent ({} : S) := by unfold Consistent; decide

/-- applySetup establishes consistency whatever the live values were -/
theorem consistent_applySetup (s : S) : Consistent (applySetup s) := by
  have hs := applySetup_scale s
  refine ⟨rfl, rfl, rfl, rfl, ?_, ?_, ?_, rfl⟩
  · intro hl h0
    have hl' : s.setup.logVolumes = 0 := hl
    have h0' : s.setup.volumeModel = 0 := h0
    rw [hs]; simp [appliedScale, hl', h0']; rfl
  · intro hl a b
    have hl' : s.setup.logVolumes = 0 := hl
    have a' : 1 ≤ s.setup.volumeModel := a
    have b' : s.setup.volumeModel ≤ 5 := b
    have e0 : (s.setup.volumeModel == 0) = false := by
      have : s.setup.volumeModel ≠ 0 := by omega
      simpa using this
    rw [hs]
    show ((appliedScale s : Nat) : Int) = s.setup.volumeModel - 1
    simp only [appliedScale, e0, hl', Bool.false_and, Bool.false_eq_true, if_false, bne_self_eq_false]
    exact (setVolumeScale_spec _ _).1 a' b'
  · intro hl
    have hl' : s.setup.logVolumes ≠ 0 := hl
    have e1 : (s.setup.logVolumes == 0) = false := by simpa using hl'
    have e2 : (s.setup.logVolumes != 0) = true := by simpa using hl'
    rw [hs]
    simp only [appliedScale, e1, e2, Bool.and_false, Bool.false_eq_true, if_false, if_true, setVolumeScale_native]

theorem consistent_step (s : S) (op : Op) (h : Consistent s) : Consistent (step s op).1 := by
  have hc := h
  obtain ⟨h1, h2, h3, h4, h5, h5', h5l, h6⟩ := h
  cases op with
  | numChips n =>
    simp only [step, partialReset]; split
    · exact hc
    · exact ⟨rfl, h2, h3, h4, h5, h5', h5l, h6⟩
  | emulator e => simp only [step, partialReset]; split <;> exact hc
  | runAtPcm b => exact hc
  | devId id => simp only [step]; split <;> exact hc
  | lfo v => exact ⟨h1, rfl, h3, h4, h5, h5', h5l, h6⟩
  | lfoFreq v => exact ⟨h1, h2, rfl, h4, h5, h5', h5l, h6⟩
  | chipType v => exact consistent_applySetup _
  | scaleMod v => exact ⟨h1, h2, h3, h4, h5, h5', h5l, rfl⟩
  | frb v => exact hc
  | arp v => exact hc
  | loop v => exact hc
  | loopCount v => exact hc
  | loopHooksOnly v => exact hc
  | softPan v => exact hc
  | logVol v =>
    refine ⟨h1, h2, h3, h4, ?_, ?_, ?_, h6⟩
    · intro hl h0
      have hl' : (v % 4294967296).toNat = 0 := hl
      have h0' : s.setup.volumeModel = 0 := h0
      show (if ((v % 4294967296).toNat != 0) = true then setVolumeScale s.live.volumeScale 2
            else if (s.setup.volumeModel == 0) = true then s.bank.volumeModel else setVolumeScale s.live.volumeScale s.setup.volumeModel) = s.bank.volumeModel
      simp [hl', h0']
    · intro hl a b
      have hl' : (v % 4294967296).toNat = 0 := hl
      have a' : 1 ≤ s.setup.volumeModel := a
      have b' : s.setup.volumeModel ≤ 5 := b
      have e0 : (s.setup.volumeModel == 0) = false := by
        have : s.setup.volumeModel ≠ 0 := by omega
        simpa using this
      show ((if ((v % 4294967296).toNat != 0) = true then setVolumeScale s.live.volumeScale 2
            else if (s.setup.volumeModel == 0) = true then s.bank.volumeModel else setVolumeScale s.live.volumeScale s.setup.volumeModel : Nat) : Int) = s.setup.volumeModel - 1
      simp only [hl', bne_self_eq_false, Bool.false_eq_true, if_false, e0]
      exact (setVolumeScale_spec _ _).1 a' b'
    · intro hl
      have hl' : (v % 4294967296).toNat ≠ 0 := hl
      have e2 : ((v % 4294967296).toNat != 0) = true := by simpa using hl'
      show (if ((v % 4294967296).toNat != 0) = true then setVolumeScale s.live.volumeScale 2
            else if (s.setup.volumeModel == 0) = true then s.bank.volumeModel else setVolumeScale s.live.volumeScale s.setup.volumeModel) = 1
      simp only [e2, if_true, setVolumeScale_native]
  | volModel v =>
    refine ⟨h1, h2, h3, h4, ?_, ?_, ?_, h6⟩
    · intro _ h0
      have : v = 0 := h0
      subst this; simp [step]
    · intro _ a b
      have a' : 1 ≤ v := a
      have b' : v ≤ 5 := b
      have h0 : (v == 0) = false := by
        have : v ≠ 0 := by omega
        simpa using this
      show ((if (v == 0) = true then s.bank.volumeModel else setVolumeScale s.live.volumeScale v : Nat) : Int) = v - 1
      rw [h0]
      simp only [Bool.false_eq_true, if_false]
      exact (setVolumeScale_spec _ _).1 a' b'
    · intro hl; exact absurd rfl hl
  | chanAlloc v => exact hc
  | tempo x => simp only [step]; split <;> exact hc
  | reset => exact hc
  | hook b o => exact hc
  | bankAccepted vm lf ct => exact consistent_applySetup _
  | bankRejected => exact hc
  | musicAccepted => simp only [step]; split; exact consistent_applySetup _; exact hc
  | musicRejected => simp only [step]; split; exact consistent_applySetup _; exact hc

/-- **every reachable state is consistent** — for every sequence of configuration calls, bank loads, music loads (accepted or
    rejected) and resets, including the deprecated logarithmic-volume switch: what is in force is a function of what was
    requested, hence (`music_keeps`) loading a music file changes no setting and re-applying the setup at any later reset is
    the identity (`applySetup_fix`) -/
theorem consistent_reachable (ops : List Op) : Consistent (ops.foldl (fun s op => (step s op).1) {}) := by
  suffices H : ∀ (s : S), Consistent s → Consistent (ops.foldl (fun s op => (step s op).1) s) from H {} consistent_init
  induction ops with
  | nil => intro s h; exact h
  | cons op rest ih => intro s h; exact ih _ (consistent_step s op h)

/-- the explicit volume model wins over an earlier logarithmic-volume switch, now and after every later reset or load -/
theorem volModel_after_logVol (s : S) (l m : Int) (h1 : 1 ≤ m) (h5 : m ≤ 5) :
    let s' := (step (step s (.logVol l)).1 (.volModel m)).1
    (s'.live.volumeScale : Int) = m - 1 ∧ ((applySetup s').live.volumeScale : Int) = m - 1 := by
  have e0 : (m == 0) = false := by
    have : m ≠ 0 := by omega
    simpa using this
  constructor
  · show ((if (m == 0) = true then _ else setVolumeScale _ m : Nat) : Int) = m - 1
    rw [e0]; simp only [Bool.false_eq_true, if_false]
    exact (setVolumeScale_spec _ _).1 h1 h5
  · rw [applySetup_scale]
    show ((appliedScale _ : Nat) : Int) = m - 1
    simp only [appliedScale, step, e0, Bool.false_and, Bool.false_eq_true, if_false, bne_self_eq_false]
    exact (setVolumeScale_spec _ _).1 h1 h5

end Opn.C18
