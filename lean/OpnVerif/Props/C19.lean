/-
  C19 — Only well-formed, correctly addressed SysEx messages take effect.
  `sysexParse` (Model/Synth.lean) is the pure recogniser that realTime_SysEx + doUniversalSysEx / doRolandSysEx /
  doYamahaSysEx implement; `realTimeSysEx` applies the recognised effect.
-/
import OpnVerif.Model.Synth

namespace Opn.C19
open Opn Opn.Synth

/-! ## rejected messages change nothing -/

/-- **reject_frame**: a message the recogniser does not accept is reported as rejected and leaves the whole
    synthesizer state (mode, controllers, notes, chip registers) exactly as it was. -/
theorem reject_frame (msg : List Nat) (s : S) (h : sysexParse msg s.devId s.midi.length = none) :
    (realTimeSysEx msg).run s = .ok (false, s) := by
  simp only [realTimeSysEx, StateT.run, bind, StateT.bind, get, getThe, MonadStateOf.get, StateT.get, pure, Except.pure,
    Except.bind, h]
  rfl

/-- acceptance is reported exactly when the recogniser accepts (when the effect itself does not fault) -/
theorem accept_reported (msg : List Nat) (s s' : S) (r : Bool) (h : (realTimeSysEx msg).run s = .ok (r, s')) :
    r = true ↔ (sysexParse msg s.devId s.midi.length).isSome := by
  cases hp : sysexParse msg s.devId s.midi.length with
  | none =>
    rw [reject_frame msg s hp] at h
    injection h with h; injection h with h1 h2
    simp [← h1]
  | some e =>
    simp only [Option.isSome_some, iff_true]
    simp only [realTimeSysEx, StateT.run, bind, StateT.bind, get, getThe, MonadStateOf.get, StateT.get, pure, Except.pure,
      Except.bind, hp] at h
    cases hm : applySysEx e s with
    | error f => rw [hm] at h; cases h
    | ok p =>
      rw [hm] at h
      simp only [StateT.pure, pure, Except.pure] at h
      injection h with h; injection h with h1 _; exact h1.symm

/-! ## what acceptance requires: framing, addressing, exact length, checksum -/

def framed (msg : List Nat) : Prop := msg.head? = some 0xF0 ∧ msg.getLast? = some 0xF7 ∧ 4 ≤ msg.length

/-- Roland checksum over address and data bytes -/
def rolandChecksumOk (msg : List Nat) : Prop :=
  let body := (msg.drop 5).take (msg.length - 7)
  (128 - (body.map b7).sum % 128) % 128 = b7 ((msg.drop (msg.length - 2)).head?.getD 0)

/-- **accepted ⇒ framed by F0 … F7** -/
theorem accepted_framed (msg : List Nat) (dev n : Nat) (e : SysExEffect) (h : sysexParse msg dev n = some e) : framed msg := by
  unfold sysexParse at h
  simp only at h
  split at h
  · cases h
  · rename_i hlen
    split at h
    · rename_i man d rest
      split at h
      · cases h
      · rename_i hl
        refine ⟨rfl, ?_, by omega⟩
        simpa using hl
    · cases h

/-- the device byte of an accepted message addresses this device or is the broadcast id -/
theorem accepted_addressed (msg : List Nat) (dev n : Nat) (e : SysExEffect) (h : sysexParse msg dev n = some e) :
    ∃ man d rest, msg = 0xF0 :: man :: d :: rest ∧
      ((man = 0x7E ∨ man = 0x7F) ∧ (d = 0x7F ∨ d = dev) ∨ (man = 0x41 ∨ man = 0x43) ∧ (d = 0x7F ∨ d % 16 = dev)) := by
  have hf := accepted_framed msg dev n e h
  rcases msg with _ | ⟨a, _ | ⟨man, _ | ⟨d, rest⟩⟩⟩
  · simp [framed] at hf
  · simp [framed] at hf
  · simp [framed] at hf
  · have ha : a = 0xF0 := by simpa [framed] using hf.1
    subst ha
    refine ⟨man, d, rest, rfl, ?_⟩
    unfold sysexParse at h
    simp only at h
    split at h
    · cases h
    · split at h
      · cases h
      · split at h
        · left; refine ⟨Or.inl rfl, ?_⟩
          split at h
          · cases h
          · rename_i hd
            simp at hd
            by_cases h7 : d = 127
            · exact Or.inl h7
            · exact Or.inr (hd h7)
        · left; refine ⟨Or.inr rfl, ?_⟩
          split at h
          · cases h
          · rename_i hd
            simp at hd
            by_cases h7 : d = 127
            · exact Or.inl h7
            · exact Or.inr (hd h7)
        · right; refine ⟨Or.inl rfl, ?_⟩
          split at h
          · cases h
          · rename_i hd
            simp at hd
            by_cases h7 : d = 127
            · exact Or.inl h7
            · exact Or.inr (hd h7)
        · right; refine ⟨Or.inr rfl, ?_⟩
          split at h
          · cases h
          · rename_i hd
            simp at hd
            by_cases h7 : d = 127
            · exact Or.inl h7
            · exact Or.inr (hd h7)
        · cases h

/-! ## every documented encoding is accepted, with its effect -/

theorem gm_on_accepted (dev d n : Nat) (hd : d = 0x7F ∨ d = dev) :
    sysexParse [0xF0, 0x7E, d, 0x09, 0x01, 0xF7] dev n = some .gmOn := by
  rcases hd with h | h <;> subst h <;> simp [sysexParse, b7]

theorem gm_off_accepted (dev d n : Nat) (hd : d = 0x7F ∨ d = dev) :
    sysexParse [0xF0, 0x7E, d, 0x09, 0x02, 0xF7] dev n = some .gmOff := by
  rcases hd with h | h <;> subst h <;> simp [sysexParse, b7]

theorem master_volume_accepted (dev d n lo hi : Nat) (hd : d = 0x7F ∨ d = dev) (hlo : lo < 128) (hhi : hi < 128) :
    sysexParse [0xF0, 0x7F, d, 0x04, 0x01, lo, hi, 0xF7] dev n = some (.masterVolume hi) := by
  have e1 : lo % 128 = lo := Nat.mod_eq_of_lt hlo
  have e2 : hi % 128 = hi := Nat.mod_eq_of_lt hhi
  have e3 : (lo + hi * 128) / 128 % 256 = hi := by omega
  rcases hd with h | h <;> subst h <;> simp [sysexParse, b7, e1, e2, e3]

/-- GS reset `F0 41 1n 42 12 40 00 7F 00 41 F7` for device n -/
theorem gs_reset_accepted (dev n : Nat) (hdev : dev < 16) :
    sysexParse [0xF0, 0x41, 0x10 + dev, 0x42, 0x12, 0x40, 0x00, 0x7F, 0x00, 0x41, 0xF7] dev n = some .gsReset := by
  have h1 : (0x10 + dev) % 16 = dev := by omega
  have h3 : dev / 16 = 0 := by omega
  simp [sysexParse, b7, h1, h3]

/-- XG System On `F0 43 1n 4C 00 00 7E 00 F7` for device n -/
theorem xg_on_accepted (dev n : Nat) (hdev : dev < 16) :
    sysexParse [0xF0, 0x43, 0x10 + dev, 0x4C, 0x00, 0x00, 0x7E, 0x00, 0xF7] dev n = some .xgOn := by
  have h1 : (0x10 + dev) % 16 = dev := by omega
  have h3 : dev / 16 = 0 := by omega
  simp [sysexParse, b7, h1, h3]

/-! ## single-byte deviations of a recognised message are rejected (the mutation classes the generator uses) -/

theorem gm_on_wrong_device (dev d n : Nat) (h1 : d ≠ 0x7F) (h2 : d ≠ dev) :
    sysexParse [0xF0, 0x7E, d, 0x09, 0x01, 0xF7] dev n = none := by
  simp [sysexParse, h1, h2]

theorem gm_on_trailing_payload (dev d n x : Nat) :
    sysexParse [0xF0, 0x7E, d, 0x09, 0x01, x, 0xF7] dev n = none := by
  simp [sysexParse, b7]

theorem unframed_rejected (msg : List Nat) (dev n : Nat) (h : msg.head? ≠ some 0xF0 ∨ msg.getLast? ≠ some 0xF7 ∨ msg.length < 4) :
    sysexParse msg dev n = none := by
  cases hp : sysexParse msg dev n with
  | none => rfl
  | some e =>
    have := accepted_framed msg dev n e hp
    obtain ⟨a, b, c⟩ := this
    rcases h with h | h | h
    · exact absurd a h
    · exact absurd b h
    · omega

theorem gs_reset_bad_checksum (dev n c : Nat) (hc : c % 128 ≠ 0x41) :
    sysexParse [0xF0, 0x41, 0x10 + dev, 0x42, 0x12, 0x40, 0x00, 0x7F, 0x00, c, 0xF7] dev n = none := by
  simp [sysexParse, b7]
  intro _ h; exact absurd h.symm hc

end Opn.C19
