/-
  C20 — Every emulator core sounds the programmed pitch and goes silent on release: the part that is arithmetic.
  The integer resampling ratio makes the rendered pitch `x / ⌊x⌋` times the chip's pitch, x = 144·rate·2^10 / clock:
  sharp by less than 1/⌊x⌋.  The bounds of the property (0.5 %, 1 % below 22.05 kHz) follow for both chip clocks.
-/
import OpnVerif.Model.Resampler

namespace Opn.C20
open Opn Opn.Resampler

/-- the ratio is the floor of the exact quotient -/
theorem rateRatio_floor (rate clock : Nat) (hc : 0 < clock) :
    rateRatio rate clock * clock ≤ 144 * rate * 1024 ∧ 144 * rate * 1024 < (rateRatio rate clock + 1) * clock := by
  unfold rateRatio rsmFrac
  constructor
  · exact Nat.div_mul_le_self _ _
  · have e : (2 : Nat) ^ 10 = 1024 := by decide
    rw [e]
    have := Nat.lt_mul_div_succ (144 * rate * 1024) hc
    rw [Nat.mul_comm clock] at this
    exact this

/-- **pitch error of the OPN2 family at output rates from 22.05 kHz: below 0.5 %** (the excess of the exact quotient over the
    integer ratio, relative to the ratio) -/
theorem pitch_error_opn2_hi (rate : Nat) (h : 22050 ≤ rate) :
    200 * (144 * rate * 1024 - rateRatio rate clockOPN2 * clockOPN2) < rateRatio rate clockOPN2 * clockOPN2 := by
  unfold rateRatio rsmFrac clockOPN2
  have e : (2 : Nat) ^ 10 = 1024 := by decide
  rw [e]
  omega

theorem pitch_error_opna_hi (rate : Nat) (h : 22050 ≤ rate) :
    200 * (144 * rate * 1024 - rateRatio rate clockOPNA * clockOPNA) < rateRatio rate clockOPNA * clockOPNA := by
  unfold rateRatio rsmFrac clockOPNA
  have e : (2 : Nat) ^ 10 = 1024 := by decide
  rw [e]
  omega

/-- **below 22.05 kHz (from 8 kHz): below 1 %** -/
theorem pitch_error_opn2_lo (rate : Nat) (h : 8000 ≤ rate) :
    100 * (144 * rate * 1024 - rateRatio rate clockOPN2 * clockOPN2) < rateRatio rate clockOPN2 * clockOPN2 := by
  unfold rateRatio rsmFrac clockOPN2
  have e : (2 : Nat) ^ 10 = 1024 := by decide
  rw [e]
  omega

theorem pitch_error_opna_lo (rate : Nat) (h : 8000 ≤ rate) :
    100 * (144 * rate * 1024 - rateRatio rate clockOPNA * clockOPNA) < rateRatio rate clockOPNA * clockOPNA := by
  unfold rateRatio rsmFrac clockOPNA
  have e : (2 : Nat) ^ 10 = 1024 := by decide
  rw [e]
  omega

/-- the ratio never vanishes for rates a sound device can have (a zero ratio would make the resampling loop spin forever) -/
theorem rateRatio_pos (rate : Nat) (h : 55 ≤ rate) : 0 < rateRatio rate clockOPN2 ∧ 0 < rateRatio rate clockOPNA := by
  unfold rateRatio rsmFrac clockOPN2 clockOPNA
  have e : (2 : Nat) ^ 10 = 1024 := by decide
  rw [e]
  constructor <;> omega

end Opn.C20
