/-
  C20 — Every emulator core sounds the programmed pitch and goes silent on release: the part that is arithmetic.
  The integer resampling ratio makes the rendered pitch `x / ⌊x⌋` times the chip's pitch, x = 144·rate·2^10 / clock:
  sharp by less than 1/⌊x⌋.  The bounds of the property (0.5 %, 1 % below 22.05 kHz) follow for both chip clocks.
-/
import OpnVerif.Model.Resampler
import OpnVerif.Model.ChipFront
import OpnVerif.Gen.Pitch

namespace Opn.C20
open Opn Opn.Resampler

/-- the ratio is the floor of the exact quotient -/
theorem rateRatio_floor (rate clock : Nat) (hc : 0 < clock) :
    rateRatio rate clock * clock ≤ 144 * rate * 1024 ∧ 144 * rate * 1024 < (rateRatio rate clock + 1) * clock := by
  unfold rateRatio rsmFrac
  constructor
  · exact Nat.div_mul_le_self _ _
  · have e : (2 : Nat) ^ 10 = 1024 := by decide
    rw [e]
    have := Nat.lt_mul_div_succ (144 * rate * 1024) hc
    rw [Nat.mul_comm clock] at this
    exact this

/-- **pitch error of the OPN2 family at output rates from 22.05 kHz: below 0.5 %** (the excess of the exact quotient over the
    integer ratio, relative to the ratio) -/
theorem pitch_error_opn2_hi (rate : Nat) (h : 22050 ≤ rate) :
    200 * (144 * rate * 1024 - rateRatio rate clockOPN2 * clockOPN2) < rateRatio rate clockOPN2 * clockOPN2 := by
  unfold rateRatio rsmFrac clockOPN2
  have e : (2 : Nat) ^ 10 = 1024 := by decide
  rw [e]
  omega

theorem pitch_error_opna_hi (rate : Nat) (h : 22050 ≤ rate) :
    200 * (144 * rate * 1024 - rateRatio rate clockOPNA * clockOPNA) < rateRatio rate clockOPNA * clockOPNA := by
  unfold rateRatio rsmFrac clockOPNA
  have e : (2 : Nat) ^ 10 = 1024 := by decide
  rw [e]
  omega

/-- **below 22.05 kHz (from 8 kHz): below 1 %** -/
theorem pitch_error_opn2_lo (rate : Nat) (h : 8000 ≤ rate) :
    100 * (144 * rate * 1024 - rateRatio rate clockOPN2 * clockOPN2) < rateRatio rate clockOPN2 * clockOPN2 := by
  unfold rateRatio rsmFrac clockOPN2
  have e : (2 : Nat) ^ 10 = 1024 := by decide
  rw [e]
  omega

theorem pitch_error_opna_lo (rate : Nat) (h : 8000 ≤ rate) :
    100 * (144 * rate * 1024 - rateRatio rate clockOPNA * clockOPNA) < rateRatio rate clockOPNA * clockOPNA := by
  unfold rateRatio rsmFrac clockOPNA
  have e : (2 : Nat) ^ 10 = 1024 := by decide
  rw [e]
  omega

/-- the ratio never vanishes for rates a sound device can have (a zero ratio would make the resampling loop spin forever) -/
theorem rateRatio_pos (rate : Nat) (h : 55 ≤ rate) : 0 < rateRatio rate clockOPN2 ∧ 0 < rateRatio rate clockOPNA := by
  unfold rateRatio rsmFrac clockOPN2 clockOPNA
  have e : (2 : Nat) ^ 10 = 1024 := by decide
  rw [e]
  constructor <;> omega


/-- the constants of the model are those of the source (regenerated on every run) -/
theorem consts_tied : clockOPN2 = Gen.clockOPN2 ∧ clockOPNA = Gen.clockOPNA ∧ rsmFrac = Gen.rsmFrac := by decide

/-! ## the register queue of the YMFM front-ends: a FIFO that loses nothing, also in dense bursts -/

open Opn.ChipFront

/-- one call: what the core has received followed by what is pending is what was there before, plus the new write -/
theorem queue_step (cap : Nat) (q : Q) (op : Op) :
    (q.step cap op).chip ++ (q.step cap op).pend = q.chip ++ q.pend ++ (match op with | .write w => [w] | .drain => []) := by
  cases op with
  | write w =>
    simp only [Q.step, Q.write]
    split
    · cases h : q.pend with
      | nil => simp
      | cons x rest => simp
    · simp
  | drain =>
    simp only [Q.step, Q.drain]
    cases h : q.pend with
    | nil => simp [h]
    | cons x rest => simp

/-- **C20, dense bursts: every register write reaches the emulator core, in the order it was issued** — for every history
    of writes and rendered native frames (of any length, any burst size, any ring capacity) the writes the core has
    received followed by the writes still pending are exactly the writes issued: none lost, none duplicated, none reordered. -/
theorem queue_fifo (cap : Nat) (ops : List Op) (q : Q) :
    (q.run cap ops).chip ++ (q.run cap ops).pend = q.chip ++ q.pend ++ issued ops := by
  induction ops generalizing q with
  | nil => simp [Q.run, issued]
  | cons op rest ih =>
    have h := ih (q.step cap op)
    simp only [Q.run, List.foldl_cons] at h ⊢
    rw [h, queue_step]
    cases op <;> simp [issued]

/-- from the empty queue: received ++ pending = issued -/
theorem queue_fifo_init (cap : Nat) (ops : List Op) :
    (Q.run cap {} ops).chip ++ (Q.run cap {} ops).pend = issued ops := by
  have := queue_fifo cap ops {}
  simpa using this

/-- what the core has received is always a prefix of what was issued (it never sees a write early or out of order) -/
theorem received_prefix (cap : Nat) (ops : List Op) : (Q.run cap {} ops).chip <+: issued ops := by
  refine ⟨(Q.run cap {} ops).pend, ?_⟩
  exact queue_fifo_init cap ops

/-- the ring never holds more than its capacity -/
theorem pending_bounded_step (cap : Nat) (hc : 0 < cap) (q : Q) (op : Op) (h : q.pend.length ≤ cap) :
    (q.step cap op).pend.length ≤ cap := by
  cases op with
  | write w =>
    simp only [Q.step, Q.write]
    split
    · cases hq : q.pend with
      | nil => simp
      | cons x rest => rw [hq] at h; simp at h ⊢; omega
    · simp; omega
  | drain =>
    simp only [Q.step, Q.drain]
    cases hq : q.pend with
    | nil => simp [hq]
    | cons x rest => rw [hq] at h; simp at h ⊢; omega

theorem pending_bounded (cap : Nat) (hc : 0 < cap) (ops : List Op) : (Q.run cap {} ops).pend.length ≤ cap := by
  suffices H : ∀ q : Q, q.pend.length ≤ cap → (q.run cap ops).pend.length ≤ cap from H {} (by simp)
  induction ops with
  | nil => intro q h; exact h
  | cons op rest ih => intro q h; exact ih _ (pending_bounded_step cap hc q op h)

/-- rendering `n` native frames hands over the `n` oldest pending writes -/
theorem drain_n (cap : Nat) (n : Nat) (q : Q) :
    (q.run cap (List.replicate n .drain)).chip = q.chip ++ q.pend.take n ∧
    (q.run cap (List.replicate n .drain)).pend = q.pend.drop n := by
  induction n generalizing q with
  | zero => simp [Q.run]
  | succ k ih =>
    simp only [List.replicate_succ, Q.run, List.foldl_cons]
    have := ih (q.step cap .drain)
    simp only [Q.run] at this
    rw [this.1, this.2]
    simp only [Q.step, Q.drain]
    cases hq : q.pend with
    | nil => simp [hq]
    | cons x rest => simp

/-- **onset / release bound**: after at most `cap` rendered native frames (500 frames = 9.4 ms at the native rate of 53267 Hz)
    every write issued so far has reached the core — in particular the key-on of a new note and the key-off of a
    released one, however dense the burst around them was -/
theorem all_delivered (cap : Nat) (hc : 0 < cap) (ops : List Op) :
    ((Q.run cap {} ops).run cap (List.replicate cap .drain)).pend = [] ∧
    ((Q.run cap {} ops).run cap (List.replicate cap .drain)).chip = issued ops := by
  have hb := pending_bounded cap hc ops
  have hd := drain_n cap cap (Q.run cap {} ops)
  have hf := queue_fifo_init cap ops
  constructor
  · rw [hd.2]; exact List.drop_eq_nil_of_le hb
  · rw [hd.1, List.take_of_length_le hb]; exact hf

/-- 500 native frames of the OPN2 family last less than 10 ms (the bound of the property) -/
theorem queue_latency_ms : Gen.ymfmQueueSizeOPN2 * 1000 < 10 * Gen.nativeRateOPN2 ∧ Gen.ymfmQueueSizeOPNA * 1000 < 10 * Gen.nativeRateOPNA := by decide

/-- the guard is needed: without it (the ring as it was) three writes into a ring of two cells, then three rendered frames,
    give the core the third write first and the second write twice — the first write is lost -/
theorem unguarded_ring_loses :
    let r := ((((Ring.empty 2).writeUnguarded 2 (1, 1)).writeUnguarded 2 (2, 2)).writeUnguarded 2 (3, 3))
    (((r.drain 2).drain 2).drain 2).chip = [(3, 3), (2, 2), (3, 3)] := by decide

/-- … and with the guard the same history delivers all three, in order -/
theorem guarded_ring_keeps :
    let r := ((((Ring.empty 2).write 2 (1, 1)).write 2 (2, 2)).write 2 (3, 3))
    (((r.drain 2).drain 2).drain 2).chip = [(1, 1), (2, 2), (3, 3)] := by decide

/-! ## the ring buffer as the code writes it refines the queue -/

structure RInv (cap : Nat) (r : Ring) : Prop where
  len : r.buf.length = cap
  cnt : r.count ≤ cap
  tl : r.tail < cap
  hd : r.head = (r.tail + r.count) % cap

def abs (cap : Nat) (r : Ring) : Q := { pend := r.pending cap, chip := r.chip }

theorem wrap_succ (cap t : Nat) (ht : t < cap) : (if t + 1 ≥ cap then 0 else t + 1) = (t + 1) % cap := by
  by_cases h : t + 1 ≥ cap
  · have : t + 1 = cap := by omega
    simp [this]
  · simp [h]; exact (Nat.mod_eq_of_lt (by omega)).symm

theorem pending_pop (cap : Nat) (r : Ring) (h : RInv cap r) (hc : 0 < r.count) :
    r.pending cap = r.buf.getD r.tail (0, 0) :: (r.pop cap).pending cap := by
  obtain ⟨c, hcc⟩ : ∃ c, r.count = c + 1 := ⟨r.count - 1, by omega⟩
  unfold Ring.pending Ring.pop
  simp only [hcc, Nat.add_sub_cancel]
  rw [List.range_succ_eq_map, List.map_cons, List.map_map]
  congr 1
  · simp [Nat.mod_eq_of_lt h.tl]
  · apply List.map_congr_left
    intro i _
    simp only [Function.comp]
    rw [wrap_succ cap r.tail h.tl]
    congr 1
    rw [Nat.mod_add_mod]
    congr 1; omega


theorem mod_ne (cap t i c : Nat) (hi : i < c) (hc : c < cap) : (t + i) % cap ≠ (t + c) % cap := by
  intro e
  have := Nat.sub_mod_eq_zero_of_mod_eq e.symm
  have e2 : t + c - (t + i) = c - i := by omega
  rw [e2, Nat.mod_eq_of_lt (by omega)] at this
  omega

theorem getD_set_ne (l : List Reg) (i j : Nat) (a : Reg) (h : i ≠ j) : (l.set i a).getD j (0, 0) = l.getD j (0, 0) := by
  simp [List.getD_eq_getElem?_getD, h]

theorem getD_set_eq (l : List Reg) (i : Nat) (a : Reg) (h : i < l.length) : (l.set i a).getD i (0, 0) = a := by
  simp [List.getD_eq_getElem?_getD, h]

theorem pending_push (cap : Nat) (r : Ring) (w : Reg) (h : RInv cap r) (hc : r.count < cap) :
    (r.push cap w).pending cap = r.pending cap ++ [w] := by
  have hcap : 0 < cap := by omega
  have hhd : r.head < r.buf.length := by rw [h.len, h.hd]; exact Nat.mod_lt _ hcap
  unfold Ring.pending Ring.push
  simp only
  rw [List.range_succ, List.map_append]
  congr 1
  · apply List.map_congr_left
    intro i hi
    have hi' : i < r.count := List.mem_range.mp hi
    apply getD_set_ne
    rw [h.hd]
    exact (mod_ne cap r.tail i r.count hi' hc).symm
  · simp only [List.map_cons, List.map_nil]
    rw [← h.hd, getD_set_eq _ _ _ hhd]

theorem inv_pop (cap : Nat) (r : Ring) (h : RInv cap r) (hc : 0 < r.count) : RInv cap (r.pop cap) := by
  have hcap : 0 < cap := by have := h.tl; omega
  refine ⟨h.len, ?_, ?_, ?_⟩
  · show r.count - 1 ≤ cap
    have := h.cnt; omega
  · show (if r.tail + 1 ≥ cap then 0 else r.tail + 1) < cap
    split <;> omega
  · show r.head = ((if r.tail + 1 ≥ cap then 0 else r.tail + 1) + (r.count - 1)) % cap
    rw [wrap_succ cap r.tail h.tl, Nat.mod_add_mod, h.hd]
    congr 1; omega

theorem inv_push (cap : Nat) (r : Ring) (w : Reg) (h : RInv cap r) (hc : r.count < cap) : RInv cap (r.push cap w) := by
  have hcap : 0 < cap := by omega
  have hhd : r.head < cap := by rw [h.hd]; exact Nat.mod_lt _ hcap
  refine ⟨?_, ?_, h.tl, ?_⟩
  · show (r.buf.set r.head w).length = cap
    simp [h.len]
  · show r.count + 1 ≤ cap
    omega
  · show (if r.head + 1 ≥ cap then 0 else r.head + 1) = (r.tail + (r.count + 1)) % cap
    rw [wrap_succ cap r.head hhd, h.hd, Nat.mod_add_mod]
    congr 1

theorem inv_empty (cap : Nat) (hc : 0 < cap) : RInv cap (Ring.empty cap) := by
  refine ⟨by simp [Ring.empty], by simp [Ring.empty], by simpa [Ring.empty] using hc, by simp [Ring.empty]⟩

/-- **the ring refines the queue**: one call of writeReg / one dequeue step on a ring that satisfies the invariant gives a ring
    that satisfies it, and its pending list and received list are those of the specification's step -/
theorem ring_refines_step (cap : Nat) (r : Ring) (op : Op) (h : RInv cap r) :
    RInv cap (r.step cap op) ∧ abs cap (r.step cap op) = (abs cap r).step cap op := by
  have hcap : 0 < cap := by have := h.tl; omega
  have hlen : (r.pending cap).length = r.count := by simp [Ring.pending]
  cases op with
  | write w =>
    simp only [Ring.step, Ring.write, Q.step, Q.write, abs, hlen]
    by_cases hf : r.count ≥ cap
    · have hc0 : 0 < r.count := by omega
      have hi := inv_pop cap r h hc0
      have hcnt : (r.pop cap).count < cap := by show r.count - 1 < cap; have := h.cnt; omega
      simp only [hf, if_true]
      refine ⟨inv_push cap _ w hi hcnt, ?_⟩
      rw [pending_push cap _ w hi hcnt]
      have hp := pending_pop cap r h hc0
      rw [hp]
      rfl
    · have hlt : r.count < cap := by omega
      have hle : ¬ cap ≤ r.count := by omega
      simp only [hf, hle, if_false]
      exact ⟨inv_push cap r w h hlt, by rw [pending_push cap r w h hlt]; rfl⟩
  | drain =>
    simp only [Ring.step, Ring.drain, Q.step, Q.drain, abs]
    by_cases hc0 : r.count > 0
    · simp only [hc0, if_true]
      refine ⟨inv_pop cap r h hc0, ?_⟩
      rw [pending_pop cap r h hc0]
      rfl
    · have : r.count = 0 := by omega
      simp only [hc0, if_false]
      refine ⟨h, ?_⟩
      have : r.pending cap = [] := by simp [Ring.pending, this]
      rw [this]

/-- … for every history: the ring started empty behaves as the queue, so (`queue_fifo`) the emulator core receives every
    write of every burst, in order -/
theorem ring_refines (cap : Nat) (hc : 0 < cap) (ops : List Op) :
    RInv cap ((Ring.empty cap).run cap ops) ∧ abs cap ((Ring.empty cap).run cap ops) = Q.run cap {} ops := by
  suffices H : ∀ (r : Ring) (q : Q), RInv cap r → abs cap r = q → RInv cap (r.run cap ops) ∧ abs cap (r.run cap ops) = q.run cap ops from
    H _ _ (inv_empty cap hc) (by simp [abs, Ring.empty, Ring.pending])
  induction ops with
  | nil => intro r q h e; exact ⟨h, e⟩
  | cons op rest ih =>
    intro r q h e
    have hs := ring_refines_step cap r op h
    simp only [Ring.run, Q.run, List.foldl_cons]
    exact ih _ _ hs.1 (by rw [hs.2, e])


/-- **C20 for the ring itself**: whatever the burst sizes, the ring of `writeReg` / `nativeGenerate` hands the emulator core
    exactly the issued writes in their order: received ++ pending = issued, at every moment of every history -/
theorem ring_fifo (cap : Nat) (hc : 0 < cap) (ops : List Op) :
    ((Ring.empty cap).run cap ops).chip ++ ((Ring.empty cap).run cap ops).pending cap = issued ops := by
  have h := (ring_refines cap hc ops).2
  have hf := queue_fifo_init cap ops
  rw [← h] at hf
  exact hf

/-- the counter of the ring never exceeds its capacity (the index arithmetic of the C++ stays inside `m_queue`) -/
theorem ring_count_le (cap : Nat) (hc : 0 < cap) (ops : List Op) :
    ((Ring.empty cap).run cap ops).count ≤ cap ∧ ((Ring.empty cap).run cap ops).tail < cap ∧
    ((Ring.empty cap).run cap ops).head < cap ∧ ((Ring.empty cap).run cap ops).buf.length = cap := by
  have h := (ring_refines cap hc ops).1
  refine ⟨h.cnt, h.tl, ?_, h.len⟩
  rw [h.hd]; exact Nat.mod_lt _ hc

end Opn.C20
