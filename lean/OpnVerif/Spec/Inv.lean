/-
  C04's invariant as a decidable function on the synth model state (evaluated by the driver after every call) —
  the same clauses are evaluated on the implementation's snapshots by tools/synth_monitor.py.
-/
import OpnVerif.Model.Synth

namespace Opn.Synth

def nodupB {α} [BEq α] : List α → Bool
  | [] => true
  | x :: xs => !(xs.contains x) && nodupB xs

/-- I1: every voice of a sounding note refers to an existing chip channel that lists the note as a user -/
def i1 (s : S) : Bool :=
  s.midi.zipIdx.all fun (m, ch) => m.notes.all fun n => n.phys.all fun p =>
    match s.chip[p.chan]? with
    | some c => c.users.any (·.isLoc ch n.key)
    | none => false

/-- I2: every non-sustained user corresponds to a sounding note of the named MIDI channel that uses this chip channel -/
def i2 (s : S) : Bool :=
  s.chip.zipIdx.all fun (c, ci) => c.users.all fun u =>
    u.sus != 0 || (match s.midi[u.midCh]? with
      | some m => m.notes.any fun n => n.key == u.key && n.phys.any (·.chan == ci)
      | none => false)

/-- I3: a note or user appears at most once per list -/
def i3 (s : S) : Bool :=
  (s.midi.all fun m => nodupB (m.notes.map (·.key)) && m.notes.all fun n => nodupB (n.phys.map (·.chan))) &&
  (s.chip.all fun c => nodupB (c.users.map fun u => (u.midCh, u.key)))

/-- I4: the two counters equal the number of gliding / extended-lifetime notes -/
def i4 (s : S) : Bool :=
  s.midi.all fun m => m.glidingCount == (m.notes.filter (·.gliding)).length && m.extCount == (m.notes.filter (fun n => decide (n.ttl > 0))).length

/-- I5: each note's instrument is one of the 128 entries of a loaded bank (or the note is the blank dummy) -/
def i5 (s : S) : Bool :=
  s.midi.all fun m => m.notes.all fun n => n.isBlank ||
    (BankMap.toList s.banks).any fun (_, b) => b.length == 128 && b.contains n.ins

/-- I6: a chip channel is keyed on exactly when it has a user (a refused out-of-range frequency leaves it off) -/
def i6 (s : S) : Bool :=
  (s.chip.zip s.regs).all fun (c, r) => if c.users.isEmpty then !r.keyOn else (r.keyOn || r.refused)

def invB (s : S) : Bool := i1 s && i2 s && i3 s && i4 s && i5 s && i6 s

def invReport (s : S) : String :=
  String.join ([("I1", i1 s), ("I2", i2 s), ("I3", i3 s), ("I4", i4 s), ("I5", i5 s), ("I6", i6 s)].map fun (n, b) => if b then "" else " " ++ n)

end Opn.Synth
