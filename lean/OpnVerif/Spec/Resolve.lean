/-
  C12's statement as a specification: which instrument a note-on addresses and which fallbacks apply.
-/
import OpnVerif.Model.Synth

namespace Opn.Synth

structure Address where
  perc : Bool
  bankNo : Nat      -- melodic: MSB*256+LSB (LSB ignored in GS mode); percussion: the kit number (SFX kits +128 in XG mode)
  entry : Nat       -- melodic: the program; percussion: the key
  deriving Repr, DecidableEq

/-- the documented addressing rule -/
def specAddress (mode channel : Nat) (ch : MidiCh) (note : Nat) : Address :=
  let gs := mode % 2 == 1
  let xg := mode / 2 % 2 == 1
  if channel % 16 == 9 || ch.isXgPerc then
    { perc := true, bankNo := ch.patch + (if xg && ch.bankMsb == 126 then 128 else 0), entry := note }
  else
    { perc := false, bankNo := ch.bankMsb * 256 + (if gs then 0 else ch.bankLsb), entry := ch.patch }

def bankKey (a : Address) (bankNo : Nat) : Nat := bankNo + (if a.perc then percussionTag else 0)

/-- the entry of a bank, when the bank is present and the entry is not blank -/
def soundingEntry (banks : BankMap.BMap (List Ins)) (key idx : Nat) : Option Ins :=
  ((BankMap.bfind banks key).bind (·[idx]?)).filter (fun i => !flagNoSound i)

/-- exact entry, else the bank with the LSB cleared, else bank 0 -/
def specResolve (banks : BankMap.BMap (List Ins)) (a : Address) : Option Ins :=
  [bankKey a a.bankNo, bankKey a a.bankNo / 128 * 128, bankKey a 0].findSome? fun k => soundingEntry banks k a.entry

end Opn.Synth
