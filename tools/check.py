#!/usr/bin/env python3
"""check.py <Cxx> [--tier quick|thorough] [--replay FILE]   (cwd: /verif; honours VERIF_SEED, VERIF_TIER)"""
import sys, os, argparse, importlib, traceback
HERE = os.path.dirname(os.path.abspath(__file__))
sys.path.insert(0, HERE)
import common


def main():
    ap = argparse.ArgumentParser()
    ap.add_argument("prop")
    ap.add_argument("--tier", default=os.environ.get("VERIF_TIER", "quick"), choices=["quick", "thorough"])
    ap.add_argument("--replay", default=None)
    a = ap.parse_args()
    mod = importlib.import_module("checks." + a.prop.lower())
    try:
        rc = mod.run(a.tier, a.replay)
    except Exception:
        traceback.print_exc()
        # a check that cannot run is reported as a broken tie, never silently passed
        p = common.write_replay(a.prop, "internal", "# check machinery failed:\n# " + traceback.format_exc().replace("\n", "\n# ") + "\n")
        common.violation(a.prop, p, "no-failing-input-found")
        rc = 1
    sys.exit(rc)


if __name__ == "__main__":
    main()
