"""Common flow of every property check (DESIGN.md section 2.1-2.3).

  1. translator   (source -> Gen/*.lean)          a broken anchor is a broken tie
  2. proof        (lake build Props/Cxx + audit)   a theorem that no longer checks is a broken obligation
  3. tie          (model vs implementation on generated operations)
  4. monitors     (property clauses evaluated directly on the implementation's observations)
  5. known findings replayed
Result: exit 0, or exit 1 with VIOLATION lines (with a failing input as replay when one is found, otherwise
naming the theorem / correspondence that no longer checks and ending in no-failing-input-found).
"""
import os, sys, time, json, hashlib, random, traceback

sys.path.insert(0, os.path.dirname(os.path.dirname(os.path.abspath(__file__))))
import common
import translate

TRUSTED_COMMON = [
    "Lean 4.33 kernel (thorough tier: re-checked by leanchecker); axioms limited to propext, Classical.choice, Quot.sound",
    "tools/translate.py (regex/AST extraction of tables and constants from /repo) and its anchor list",
    "hand-written Lean models under lean/OpnVerif/Model, tied to the code by the correspondence run only",
    "opnharness (C++), the OPNMIDI_VERIF hooks, g++ 12.2, ASan/UBSan verdicts, the Python generators and comparators",
]


class Ctx:
    def __init__(self, prop, tier):
        self.prop = prop
        self.tier = tier
        self.seed = common.seed()
        self.rng = random.Random(self.seed * 1000003 + int(hashlib.sha256(prop.encode()).hexdigest()[:6], 16))
        self.t0 = time.time()
        self.violations = []        # (replay_path, tail)
        self.known_seen = []
        self.notes = []
        self.cov = {}
        self.broken = []            # names of theorems / correspondences that no longer check
        self.proof = None

    # ---- stage 1+2
    def translate(self):
        try:
            a = translate.translate()
            self.cov["translator_anchors"] = len(a)
            return True
        except translate.AnchorError as e:
            self.broken.append("translator anchor %s (%s)" % (e.anchor, e.why))
            self.cov["translator_anchors"] = 0
            return False

    def prove(self, module, thorough_leanchecker=True):
        ok, out = common.lake_build([module])
        names = common.theorems_in(os.path.join(common.LEAN, *module.split(".")) + ".lean")
        res = {"module": module, "theorems": names, "build_ok": ok, "audit": []}
        if not ok:
            # which declarations failed?
            import re
            errs = re.findall(r"error: ([^\n]+)", out)
            res["errors"] = errs[:20]
            self.broken.append("lake build %s failed: %s" % (module, "; ".join(errs[:3])[:400]))
        bad = common.audit_sources()
        if bad:
            res["audit"].extend(bad)
            self.broken.append("forbidden construct in Lean sources: " + "; ".join(bad[:3]))
        if ok:
            names2, viol, raw = common.audit_axioms(module)
            if viol:
                res["audit"].extend(viol)
                self.broken.append("axiom audit: " + "; ".join(viol[:3]))
            if self.tier == "thorough" and thorough_leanchecker:
                lok, lout = common.leanchecker(module)
                res["leanchecker"] = lok
                if not lok:
                    self.broken.append("leanchecker %s failed: %s" % (module, lout[-300:]))
        self.proof = res
        n_ob = len(names) + 2   # + source audit + axiom audit
        n_ok = (len(names) if ok else 0) + (0 if bad else 1) + (1 if ok and not [x for x in res["audit"] if x not in bad] else 0)
        self.cov["obligations"] = n_ob
        self.cov["discharged"] = n_ok
        self.cov["theorems"] = names
        self.cov["checker_cmd"] = "cd lean && lake build %s && lake env lean .lake/axioms_%s.lean%s" % (
            module, module.replace(".", "_"), " && lake env leanchecker " + module if self.tier == "thorough" else "")
        return ok and not res["audit"]

    # ---- violations
    def violate(self, name, text, tail=""):
        p = common.write_replay(self.prop, name, text)
        self.violations.append((p, tail))
        common.violation(self.prop, p, tail)

    def known(self, what):
        self.known_seen.append(what)
        print("KNOWN-FINDING: property=%s %s" % (self.prop, what), flush=True)

    def finish(self, trusted_extra=(), assumptions=(), level="proof"):
        # anything broken without a concrete failing input found -> still a violation
        if self.broken and not self.violations:
            txt = "# the property is no longer shown to hold: the following obligations / ties do not check\n" + \
                  "\n".join("# " + b for b in self.broken) + "\n"
            p = common.write_replay(self.prop, "broken", txt)
            self.violations.append((p, "no-failing-input-found"))
            common.violation(self.prop, p, "no-failing-input-found")
        cov = dict(self.cov)
        cov.setdefault("obligations", 1)
        cov.setdefault("discharged", 0)
        cov.setdefault("checker_cmd", "lake build")
        if "samples" not in cov:
            cov["samples"] = list(getattr(self, "samples", []))[:6] or [{"note": "no case was run (replay or broken build)"}]
        cov["trusted_base"] = TRUSTED_COMMON + list(trusted_extra)
        cov["broken"] = self.broken
        cov["known_findings_seen"] = self.known_seen
        cov["notes"] = self.notes
        common.write_evidence(self.prop, self.tier, level, cov, time.time() - self.t0, len(self.violations), list(assumptions))
        return 1 if self.violations else 0


def digest(lines):
    return hashlib.sha256("\n".join(lines).encode()).hexdigest()[:16]
