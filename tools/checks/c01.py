"""C01 — Untrusted music data never crashes, corrupts memory or hangs the player."""
import os, re, collections, struct
from fractions import Fraction
from .base import Ctx
import common, gen_smf, gen_mus
from . import seq_common as sq
from . import c07

PROP = "C01"
MODULE = "OpnVerif.Props.C01"
GRAN = "1:-10"
FOLLOW = ["total", "tell", "tracks", "songs", "meta", "tickall 300 " + GRAN, "atend", "seek 1:-1", "tickall 200 " + GRAN, "selectsong -1", "selectsong 1", "selectsong 100",
          "rewind", "playlog 20000 1024", "seek 5:0", "rewind", "loop 1", "loopcount 2", "tickall 30 " + GRAN, "seek 1:-2", "tickall 60 " + GRAN, "seek 3:-1", "tickall 60 " + GRAN,
          "rewind", "loop 0", "meta", "total"]


def rng_pick(ctx):
    return ctx.rng.choice([0, 1, 2, 3])


def images(ctx):
    rng = ctx.rng
    quick = ctx.tier == "quick"
    out = []          # (kind, bytes)
    for img in gen_smf.tail_cases():
        out.append(("smf-tail", img))
    sp = gen_smf.special_cases()
    for img in (rng.sample(sp, 40) if quick else sp):
        out.append(("smf-special", img))
    for i in range(18 if quick else 60):
        song = gen_smf.gen_song(rng, loops="stack" if i % 3 == 2 else None, ntracks=rng.choice([2, 3]) if i % 3 == 2 else None)
        img = song.encode(running_status=rng.random() < 0.5, drop_eot=(0,) if rng.random() < 0.2 else ())
        out.append(("smf-valid", img))
        for m in gen_smf.mutate(rng, img, 4 if quick else 12):
            out.append(("smf-mutated", m))
        out.append(("rmi", gen_smf.rmi(img)))
        for m in gen_smf.mutate(rng, gen_smf.rmi(img), 2):
            out.append(("rmi-mutated", m))
        if i % 4 == 0:
            body = img[22:]
            out.append(("gmf", b"GMF\x01" + bytes([rng.randrange(256) for _ in range(3)]) + body))
            out.append(("gmf-short", (b"GMF\x01" + body)[:rng.choice([4, 7, 13, 14, 15, 20])]))
    for i in range(15 if quick else 50):
        mus = gen_mus.gen_mus(rng)
        out.append(("mus-valid", mus))
        for m in gen_mus.mutate(rng, mus, 4 if quick else 10):
            out.append(("mus-mutated", m))
        xmi = gen_mus.gen_xmi(rng)
        out.append(("xmi-valid", xmi))
        for m in gen_mus.mutate(rng, xmi, 4 if quick else 10):
            out.append(("xmi-mutated", m))
        xl = gen_mus.gen_xmi(rng, loops=True)
        out.append(("xmi-loops", xl))
        for m in gen_mus.mutate(rng, xl, 1 if quick else 4):
            out.append(("xmi-loops-mutated", m))
    # detectors of the formats the synthesizer refuses (CMF / IMF / EA-MUS) and noise
    for i in range(24 if quick else 100):
        n = rng.choice([14, 15, 16, 40, 100, 400])
        head = rng.choice([b"CTMF", b"CTMF\x01\x01", b"\x00\x00", b"RSXX", b"}u\x7f", b"MThd", b"MUS\x1a", b"FORM\0\0\0\x10XDIR", b"RIFF", b"GMF\x01", b""])
        body = bytes(rng.choice([0, 0, 1, 0x7F, 0xFF, rng.randrange(256)]) for _ in range(n))
        out.append(("detectors", (head + body)[:max(n, 14)]))
        if i % 4 == 0:
            out.append(("short", (head + body)[:rng.randrange(0, 14)]))
    # CMF and RSXX headers with readable tables and a music offset inside, at and beyond the end of the file
    for i in range(6 if quick else 30):
        n = rng.choice([40, 71, 200])
        for off in (rng.randrange(20, n), n, n + 1, 0x0400, 0xFFFF):
            ins_off = rng.choice([40, 36, n - 16, n + 5])
            hdr = b"CTMF" + struct.pack("<HHHHH", 0x0101, ins_off, off, rng.choice([0, 1, 96, 0xFFFF]), rng.choice([0, 1, 96])) + bytes(6)
            hdr = hdr[:20] + bytes(16) + struct.pack("<HH", rng.choice([0, 1, 2]), rng.choice([0, 120]))
            out.append(("cmf-offsets", (hdr + bytes(rng.choice([0, 0x90, 0x3c, 0x7F, 0xFF, 0x2F]) for _ in range(n)))[:n]))
        k = rng.choice([4, 0x10, 0x50, 0x7D])
        out.append(("rsxx-offsets", bytes([k]) + bytes(rng.randrange(256) for _ in range(rng.choice([20, 100, 300])))))
    return out


def run(tier, replay=None):
    ctx = Ctx(PROP, tier)
    if ctx.translate():
        ctx.prove(MODULE)
    if replay:
        lines = [l for l in open(replay).read().split("\n") if l.strip() and not l.startswith("#")]
        hs = [(lines, "replay", 0)]
    else:
        hs = []
        import glob
        for f in sorted(glob.glob(os.path.join(common.VERIF, "corpus", PROP, "*.ops"))):
            hs.append(([l for l in open(f).read().split("\n") if l.strip() and not l.startswith("#")], "corpus", 0))
        imgs = images(ctx)
        # several files per instance: a rejected file must leave the instance able to load the next one
        group = []
        for k, (kind, img) in enumerate(imgs):
            if not img:
                continue
            group.append((kind, img))
            if len(group) == 4 or k == len(imgs) - 1:
                h = list(sq.PREFIX) + ["hook debug 1", "usage"]     # a debug hook that formats its messages, as a real one does
                for (kd, im) in group:
                    # a third of the files goes through opn2_openFile (FILE-based reader) instead of opn2_openData
                    h += [("openfiledata " if ctx.rng.random() < 0.33 else "opendata ") + im.hex()] + FOLLOW + ["selectsong %d" % rng_pick(ctx)] + ["usage"]
                hs.append((h, "+".join(sorted(set(kd for kd, _ in group))), sum(len(im) for _, im in group)))
                group = []
    res = sq.run([h for h, _, _ in hs], timeout=2400, batch=8)
    nfail = 0
    kinds = collections.Counter()
    accepted = collections.Counter()
    worst_ms = worst_kb = 0
    for (h, kind, size), (io, mo) in zip(hs, res):
        fails = []
        for k, r in enumerate(io):
            if r.startswith("fault=") or r.startswith("skipped"):
                # the file that was being processed
                j = max((x for x in range(k + 1) if h[x].startswith(("opendata", "openfiledata"))), default=None)
                fails.append(("crash, memory error, abort or hang during %r after loading: %s" % (h[k][:40], r[:160]), j, k)); break
        usage = [(k, re.search(r"cpu_ms=(\d+) rss_kb=(\d+)", r)) for k, r in enumerate(io) if h[k] == "usage" and k < len(io)]
        usage = [(k, int(m.group(1)), int(m.group(2))) for k, m in usage if m]
        for (k0, ms0, kb0), (k1, ms1, kb1) in zip(usage, usage[1:]):
            j = next((x for x in range(k0, k1) if h[x].startswith(("opendata", "openfiledata"))), None)
            if j is None:
                continue
            n = len(h[j].split()[1]) // 2
            kinds[kind] += 1
            if sq.core(io[j]).startswith("ret=0"):
                accepted[kind] += 1
            worst_ms = max(worst_ms, ms1 - ms0); worst_kb = max(worst_kb, kb1 - kb0)
            # time and memory proportional to the input: generous linear envelopes (sanitizer build)
            # (every tick call is bounded by the anti-freeze counter: 10000 rounds, about 10 ms in this build; about 530 tick calls follow each load)
            if ms1 - ms0 > 15000 + 40 * n:
                fails.append(("loading and exercising a %d-byte file took %d ms of CPU" % (n, ms1 - ms0), j, k1))
            if kb1 - kb0 > 65536 + 64 * n:
                fails.append(("loading and exercising a %d-byte file raised the peak memory by %d KiB" % (n, kb1 - kb0), j, k1))
        for (why, j, k) in fails[:1]:
            nfail += 1
            if nfail <= 3:
                ctx.violate("monitor", "# %s\n%s\n" % (why, "\n".join(h[:k + 1])))
    ndiff = sq.compare(ctx, PROP, [h for h, _, _ in hs], res)
    ctx.cov.update({"evaluations": sum(len(h) for h, _, _ in hs), "files": sum(kinds.values()), "accepted": dict(accepted), "input_distribution": dict(kinds),
                    "disagreements": ndiff, "monitor_failures": nfail, "worst_cpu_ms_per_file": worst_ms, "worst_rss_growth_kb": worst_kb, "exhaustive": False,
                    "traces_validated_against_impl": sum(1 for (io, mo) in res for m in mo if m is not None) - ndiff,
                    "distinct_nontrivial": len(set(sq.core(r)[:200] for (io, mo) in res for r in io)),
                    "rule": "valid, mutated and truncated SMF/RMI/GMF/MUS/XMI images, every class of track ending inside an event, detector inputs for CMF/IMF/EA-MUS and noise, each "
                            "handed to opn2_openData in an exact-size heap block under ASan/UBSan, followed by metadata queries, ticking, seeking, song switching (-1, 1, 100), rewinding, "
                            "rendering and looping; CPU time and peak RSS growth per file are compared with linear envelopes; for the formats the Lean model covers the result "
                            "(accepted/rejected) and everything delivered afterwards are compared with the model"})
    return ctx.finish(trusted_extra=["sanitizer verdicts and getrusage() figures of the harness process"],
                      assumptions=["linear envelopes: 15 s + 40 ms/byte CPU and 64 MiB + 64 KiB/byte memory per file in the sanitizer build"])
