"""C02 — Untrusted bank data is rejected or loaded safely; loaded banks are playable."""
import os, re, struct
from .base import Ctx
import common, gen_wopn, synth_gen
from . import synth_common

PROP = "C02"
MODULE = "OpnVerif.Props.C02"
ERRS = None


def err_codes():
    """documented error codes, regenerated from wopn_file.h by the translator"""
    txt = open(os.path.join(common.LEAN, "OpnVerif", "Gen", "Wopn.lean")).read()
    out = {}
    for n in ("wopnErrBadMagic", "wopnErrUnexpectedEnding", "wopnErrNewerVersion"):
        m = re.search(r"def %s : Nat := (\d+)" % n, txt)
        if m:
            out[int(m.group(1))] = n
    return out


def loader_ops(ctx):
    rng = ctx.rng
    quick = ctx.tier == "quick"
    ops = []
    kinds = {}
    def add(op, kind):
        if len(op.split()) < 2:
            return                     # the empty block has no hex spelling in the line protocol (covered by the theorems)
        ops.append(op); kinds[kind] = kinds.get(kind, 0) + 1
    for k in range(10 if quick else 120):
        ver = rng.choice([1, 2, 2])
        img = gen_wopn.bank_image(rng, ver, rng.choice([0, 1, 1, 2]), rng.choice([0, 1, 1, 2]))
        add("load " + img.hex(), "bank-valid")
        for m in gen_wopn.mutations(rng, img, 14 if quick else 40):
            add("load " + m.hex(), "bank-mutated")
        # every truncation of the header region and a sample of the rest
        cuts = list(range(0, min(len(img), 100))) if k < 2 else []
        cuts += [rng.randrange(len(img)) for _ in range(4)]
        for c in cuts:
            add("load " + img[:c].hex(), "bank-truncated")
        # declared counts far beyond what the block holds
        b = bytearray(img)
        off = 13 if ver >= 2 else 11
        struct.pack_into(">HH", b, off, rng.choice([65535, 512, 300]), rng.choice([65535, 0, 2]))
        add("load " + bytes(b[:rng.choice([len(b), 2000, 20000])]).hex(), "bank-huge-counts")
    for k in range(30 if quick else 400):
        ver = rng.choice([1, 2, 2])
        img = gen_wopn.inst_image(rng, ver)
        add("loadinst " + img.hex(), "inst-valid")
        for m in gen_wopn.mutations(rng, img, 3):
            add("loadinst " + m.hex(), "inst-mutated")
        if k < 3:
            for c in range(len(img)):
                add("loadinst " + img[:c].hex(), "inst-truncated")
    for _ in range(40 if quick else 600):
        n = rng.choice([0, 1, 5, 11, 12, 13, 40, 100, 300])
        raw = bytes(rng.randrange(256) for _ in range(n))
        if rng.random() < 0.5:
            raw = (rng.choice([gen_wopn.M1, gen_wopn.M2, gen_wopn.I1, gen_wopn.I2]) + raw)[:max(n, rng.randrange(30))]
        add(rng.choice(["load ", "loadinst "]) + raw.hex(), "random-bytes")
    return ops, kinds


CCS = [1, 7, 10, 11, 64, 66, 67, 74, 91, 93, 120, 121, 123]


def play_histories(ctx, portamento=False):
    """accepted banks with extreme instrument fields, and instruments written through the instrument API, are played with any controller state.
    Portamento (CC5/65/84) runs in separate histories that are checked on the implementation only: the synth model does not
    reproduce the floating-point end condition of a glide bit for bit."""
    global CCS
    rng = ctx.rng
    CCS = [1, 7, 10, 11, 64, 66, 67, 74, 91, 93, 120, 121, 123] + ([5, 65, 65, 84] if portamento else [])
    quick = ctx.tier == "quick"
    hs = []
    for i in range(6 if quick else 60):
        ver = rng.choice([1, 2, 2, 2])
        img = gen_wopn.bank_image(rng, ver, rng.choice([1, 1, 2]), rng.choice([1, 1, 2]))
        if ver >= 2 and i % 2 == 0:
            # (every other bank set keeps its random ids: the default banks 0:0 may then be missing altogether)
            # make the first melodic and percussion bank addressable as 0:0 so that notes actually use the random instruments
            b = bytearray(img)
            cm, cp = struct.unpack_from(">HH", b, 13)
            b[18 + 32] = 0; b[18 + 33] = 0
            b[18 + 34 * cm + 32] = 0; b[18 + 34 * cm + 33] = 0
            img = bytes(b)
        h = ["new %d %d" % (65536, rng.choice([1, 2])), "bank " + img.hex()]
        for _ in range(40 if quick else 120):
            c = rng.random()
            ch = rng.choice([0, 1, 9, 15])
            if c < 0.40:
                h.append("on %d %d %d" % (ch, rng.choice([0, 1, 59, 60, 61, 126, 127, rng.randrange(128)]), rng.choice([1, 64, 127])))
            elif c < 0.50:
                h.append("off %d %d" % (ch, rng.randrange(128)))
            elif c < 0.60:
                h.append("pc %d %d" % (ch, rng.randrange(128)))
            elif c < 0.70:
                h.append("pb %d %d" % (ch, rng.choice([0, 8192, 16383, rng.randrange(16384)])))
            elif c < 0.78:
                h.append("cc %d 101 0" % ch); h.append("cc %d 100 0" % ch); h.append("cc %d 6 %d" % (ch, rng.choice([0, 2, 24, 127]))); h.append("cc %d 38 %d" % (ch, rng.choice([0, 64, 127])))
            elif c < 0.88:
                h.append("cc %d %d %d" % (ch, rng.choice(CCS), rng.choice([0, 1, 64, 127])))
            elif c < 0.94:
                h.append("gen %d" % rng.choice([64, 1024, 4096, 65536]))
            else:
                ops28 = bytes(rng.choice([0, 0x7f, 0xff, rng.randrange(256)]) for _ in range(28)).hex()
                h.append("setins %d 0 0 %d %d %d %d %d %d %d %s %d %d" % (
                    rng.choice([0, 1]), rng.randrange(128), rng.choice([32767, -32768, 12200, -12200, 0, rng.randrange(-32768, 32768)]), rng.choice([-128, 0, 127]),
                    rng.choice([0, 60, 127, 128, 255]), rng.choice([0, 1, 2, 3, 255]), rng.randrange(256), rng.randrange(256), ops28, rng.choice([0, 1, 65535]), rng.choice([0, 65535])))
        h.append("gen 4096")
        hs.append(h)
    return hs


def run(tier, replay=None):
    ctx = Ctx(PROP, tier)
    if ctx.translate():
        ctx.prove(MODULE)
    errs = err_codes()
    if len(errs) != 3:
        ctx.broken.append("translator: the three documented WOPN error codes were not regenerated")
    if replay:
        lines = [l for l in open(replay).read().split("\n") if l.strip() and not l.startswith("#")]
        if lines and lines[0].startswith("new "):
            lops, kinds, hs = [], {}, [lines]
        else:
            lops, kinds, hs = lines, {"replay": len(lines)}, []
    else:
        lops, kinds = loader_ops(ctx)
        hs = synth_common.corpus(PROP) + play_histories(ctx)
    # ---- part 1: the loaders on arbitrary blocks (exact-size heap blocks under ASan)
    ndiff = 0
    nfail = 0
    if lops:
        text = "\n".join(lops) + "\n"
        model = None
        try:
            model = common.run_model("wopn", text)
        except Exception as e:
            ctx.broken.append("model driver failed: %s" % str(e)[:300])
        impl, _ = common.run_impl("wopn", text, stateless=True)
        first = None
        for i, o in enumerate(lops):
            r = impl[i] if i < len(impl) else "<missing>"
            bad = None
            if r.startswith("fault="):
                bad = "the loader touched memory outside the %d-byte block or did not return: %s" % (len(o.split()[1]) // 2 if len(o.split()) > 1 else 0, r)
            elif r.startswith("err "):
                if int(r.split()[1]) not in errs:
                    bad = "undocumented error code %s" % r
            elif not (r.startswith("ok") or r.startswith("v=") or r.startswith("file")):
                if not re.match(r"\S+=", r):
                    bad = "unparsable observation %r" % r[:80]
            if bad:
                nfail += 1
                if nfail <= 3:
                    ctx.violate("loader", "# %s\n%s\n" % (bad, o))
            if model is not None and (model[i] if i < len(model) else "<missing>") != r:
                ndiff += 1
                if first is None:
                    first = i
        if first is not None:
            i = first
            ctx.broken.append("correspondence wopn: %d differing observations, first at op %d (%s...): model %r, implementation %r" % (
                ndiff, i, lops[i][:60], model[i][:160] if i < len(model) else "<missing>", impl[i][:160]))
            if not nfail:
                common.write_replay(PROP, "divergence", "# model: %s\n# implementation: %s\n%s\n" % (model[i][:400] if i < len(model) else "-", impl[i][:400], lops[i]))
        accepted = sum(1 for r in impl if not r.startswith("err") and not r.startswith("fault"))
        ctx.cov.update({"loader_calls": len(lops), "loader_accepted": accepted, "loader_disagreements": ndiff, "loader_input_distribution": kinds,
                        "loader_error_kinds": {errs.get(int(r.split()[1]), r): sum(1 for x in impl if x == r) for r in set(impl) if r.startswith("err ")}})
    # ---- part 2b: the same with portamento, implementation only (sanitizers + watchdog)
    if not replay:
        ph = play_histories(ctx, portamento=True)[: (3 if tier == "quick" else 30)]
        pops = [o for h in ph for o in h]
        pimpl, _ = common.run_impl("synth", "\n".join(pops) + "\n", stateless=True, timeout=1800)
        bad = next((k for k, r in enumerate(pimpl) if r.startswith("fault=") or r.startswith("skipped")), None)
        ctx.cov["portamento_calls_impl_only"] = len(pops)
        if bad is not None:
            nfail += 1
            start = max(i for i in range(bad + 1) if pops[i].startswith("new "))
            ctx.violate("monitor", "# call did not return normally with portamento in use: %s\n%s\n" % (pimpl[bad][:160], "\n".join(x if len(x) < 200 else x[:60] + "..." for x in pops[start:bad + 1])))
            common.write_replay(PROP, "monitor-full", "\n".join(pops[start:bad + 1]) + "\n")
        play_histories.__globals__["CCS"] = [1, 7, 10, 11, 64, 66, 67, 74, 91, 93, 120, 121, 123]
    # ---- part 2: accepted banks / written instruments are playable
    if hs:
        def monitor(h, io):
            out = []
            for k, r in enumerate(io):
                if r.startswith("fault=") or r.startswith("skipped"):
                    out.append(("call did not return normally: %s" % r, k)); break
                sn = synth_gen.parse_snapshot(r) if r.startswith("ret=") else None
                if sn is not None:
                    f = [x for x in synth_gen.inv_failures(sn) if not x.startswith("I6")]      # a refused frequency leaves the key flag off
                    if f:
                        out.append(("bookkeeping broken while playing an accepted bank: " + f[0], k)); break
            return out
        synth_common.run_histories(ctx, hs, monitor, PROP, tag="synth(playable)")
    ctx.cov["rule"] = ("part 1: WOPN_LoadBankFromMem / WOPN_LoadInstFromMem on valid, mutated, truncated (every prefix of the header region), huge-count and random blocks, each in an "
                       "exact-size heap block under ASan: result must be a value or one of the three documented error codes and equal to the Lean loader's result field by field; "
                       "part 2: accepted banks with extreme fields (all 16-bit note offsets, drum keys 0..255, any operator bytes) and instruments written by opn2_setInstrument are played "
                       "with notes 0..127, bends, RPN ranges up to 127 semitones and controller changes; every call must return (2 s watchdog) without sanitizer report, snapshots equal the model's")
    ctx.cov["disagreements"] = ctx.cov.get("disagreements", 0) + ndiff
    ctx.cov["monitor_failures"] = ctx.cov.get("monitor_failures", 0) + nfail
    ctx.cov["evaluations"] = ctx.cov.get("evaluations", 0) + len(lops)
    return ctx.finish(trusted_extra=["the frequency reaching OPN2::noteOn is taken from the implementation (tap) and checked against the exact tone; std::exp is not modelled"],
                      assumptions=["calloc/new succeed for the bank counts the block can actually hold", "the emulator cores (register writes' consumers) are exercised under ASan but not modelled"])
