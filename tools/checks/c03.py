"""C03 — Any sequence of API calls on a live instance is memory-safe and terminates."""
import os, re, collections
from .base import Ctx
import common, gen_wopn, gen_smf, gen_mus, synth_gen
from . import seq_common as sq
from . import c07, c18

PROP = "C03"
MODULE = "OpnVerif.Props.C03"

# which exported functions each harness op calls (the settings line after most ops calls the getters)
OP_CALLS = {
    "new": ["opn2_init", "opn2_close"], "close": ["opn2_close"], "numchips": ["opn2_setNumChips"], "emu": ["opn2_switchEmulator"], "runatpcm": ["opn2_setRunAtPcmRate"],
    "devid": ["opn2_setDeviceIdentifier"], "lfo": ["opn2_setLfoEnabled"], "lfofreq": ["opn2_setLfoFrequency"], "chiptype": ["opn2_setChipType"],
    "scalemod": ["opn2_setScaleModulators"], "frb": ["opn2_setFullRangeBrightness"], "arp": ["opn2_setAutoArpeggio"], "loop": ["opn2_setLoopEnabled"],
    "loopcount": ["opn2_setLoopCount"], "loophooksonly": ["opn2_setLoopHooksOnly"], "softpan": ["opn2_setSoftPanEnabled"], "logvol": ["opn2_setLogarithmicVolumes"],
    "vm": ["opn2_setVolumeRangeModel"], "alloc": ["opn2_setChannelAllocMode"], "reservebanks": ["opn2_reserveBanks"], "reset": ["opn2_reset"],
    "hook": ["opn2_setRawEventHook", "opn2_setNoteHook", "opn2_setDebugMessageHook", "opn2_setLoopStartHook", "opn2_setLoopEndHook"],
    "bankdata": ["opn2_openBankData"], "opendata": ["opn2_openData"], "openfile": ["opn2_openFile"], "openbankfile": ["opn2_openBankFile"],
    "getbank": ["opn2_getBank"], "rmbank": ["opn2_removeBank"], "getins": ["opn2_getInstrument"], "setins": ["opn2_setInstrument"],
    "selectsong": ["opn2_selectSongNum"], "songs": ["opn2_getSongsCount"], "tracks": ["opn2_trackCount"], "trackopt": ["opn2_setTrackOptions"], "chanen": ["opn2_setChannelEnabled"],
    "tempo": ["opn2_setTempo"], "total": ["opn2_totalTimeLength"], "loopstart": ["opn2_loopStartTime"], "loopend": ["opn2_loopEndTime"], "tell": ["opn2_positionTell"],
    "atend": ["opn2_atEnd"], "seek": ["opn2_positionSeek"], "rewind": ["opn2_positionRewind"],
    "meta": ["opn2_metaMusicTitle", "opn2_metaMusicCopyright", "opn2_metaTrackTitleCount", "opn2_metaTrackTitle", "opn2_metaMarkerCount", "opn2_metaMarker"],
    "tick": ["opn2_tickEvents"], "tickall": ["opn2_tickEvents", "opn2_atEnd"], "playlog": ["opn2_play"], "gen": ["opn2_generate"], "play": ["opn2_play"],
    "genfmt": ["opn2_generateFormat"], "playfmt": ["opn2_playFormat"], "describe": ["opn2_describeChannels"],
    "on": ["opn2_rt_noteOn"], "off": ["opn2_rt_noteOff"], "cc": ["opn2_rt_controllerChange"], "pc": ["opn2_rt_patchChange"], "pb": ["opn2_rt_pitchBend"],
    "pbml": ["opn2_rt_pitchBendML"], "bank": ["opn2_rt_bankChange"], "bankmsb": ["opn2_rt_bankChangeMSB"], "banklsb": ["opn2_rt_bankChangeLSB"],
    "nat": ["opn2_rt_noteAfterTouch"], "cat": ["opn2_rt_channelAfterTouch"], "sysex": ["opn2_rt_systemExclusive"], "panic": ["opn2_panic"], "rs": ["opn2_rt_resetState"],
    "errinfo": ["opn2_errorInfo"], "misc": ["opn2_linkedLibraryVersion", "opn2_linkedVersion", "opn2_errorString", "opn2_emulatorName"],
    "<settings>": ["opn2_getNumChips", "opn2_getNumChipsObtained", "opn2_getLfoEnabled", "opn2_getLfoFrequency", "opn2_getChipType", "opn2_getAutoArpeggio",
                   "opn2_getVolumeRangeModel", "opn2_getChannelAllocMode", "opn2_chipEmulatorName", "opn2_getSongsCount", "opn2_trackCount", "opn2_errorInfo",
                   "opn2_getFirstBank", "opn2_getNextBank", "opn2_getBankId", "opn2_getInstrument"],
}
U8 = [0, 1, 9, 15, 16, 17, 64, 127, 128, 200, 255]


def api_surface():
    txt = open(os.path.join(common.LEAN, "OpnVerif", "Gen", "Enums.lean")).read()
    m = re.search(r"def apiSurface : List String := \[(.*?)\]", txt)
    return re.findall(r'"([^"]+)"', m.group(1)) if m else []


def gen_history(rng, n, files):
    h = ["new %d" % rng.choice([44100, 8000, 48000, 65536, 192000, 4000])]
    for _ in range(n):
        c = rng.random()
        if c < 0.30:
            h += c18.gen_history(rng, 1)[1:]
        elif c < 0.55:
            ch, a, b = rng.choice(U8), rng.choice(U8), rng.choice(U8)
            h.append(rng.choice(["on %d %d %d" % (ch, a, b), "off %d %d" % (ch, a), "cc %d %d %d" % (ch, rng.choice([0, 1, 6, 7, 10, 11, 32, 38, 64, 66, 74, 98, 99, 100, 101, 120, 121, 123, a]), b),
                                 "pc %d %d" % (ch, a), "pb %d %d" % (ch, rng.choice([0, 8192, 16383, 65535])), "pbml %d %d %d" % (ch, a, b), "bank %d %d" % (ch, rng.choice([0, 127, -1, -32768, 32767])),
                                 "bankmsb %d %d" % (ch, a), "banklsb %d %d" % (ch, a), "nat %d %d %d" % (ch, a, b), "cat %d %d" % (ch, a), "panic", "rs",
                                 "sysex " + rng.choice(["f07e7f0901f7", "f04110421240007f0041f7", "f043104c00007e00f7", "f0", "f7", "-", "f041f7", "f043f7", "f07ef7", "f07ff7", "f04110f7", "f0431007f7", "f041f7f7", "f07f7f0401007ff7", "f041104212401115024af7",
                                                        "f0411042124000" + "7f" * rng.choice([0, 1, 5, 40]) + "f7"])]))
        elif c < 0.70:
            h.append(rng.choice(["gen %d" % rng.choice([0, 1, 2, 3, 64, 1024, 1025, 4096, -1, -2, -2147483648]), "play %d" % rng.choice([0, 2, 64, 1024, 4096, -1, -7]),
                                 "genfmt %d %d %d %d %d" % (rng.choice([-1, 0, 1, 2, 5, 8, 9, 10, 99]), rng.choice([1, 2, 4, 8, 3, 0]), rng.choice([2, 4, 8, 16]), rng.choice([0, 1]), rng.choice([0, 2, 1024, 2050])),
                                 "playfmt %d %d %d %d %d" % (rng.choice([0, 2, 8, 9]), rng.choice([2, 4, 8]), rng.choice([4, 8, 16]), rng.choice([0, 1]), rng.choice([0, 2, 1024, 2050])),
                                 "describe %d" % rng.choice([0, 1, 2, 6, 7, 13, 100, 700]), "tick 1:-4 1:-10", "tickall 50 1:-10", "playlog 4000 512"]))
        elif c < 0.82:
            h.append(rng.choice(["seek 1:-1", "seek 0:0", "seek -1:0", "seek 1:10", "rewind", "tell", "total", "loopstart", "loopend", "atend", "meta", "songs", "tracks",
                                 "selectsong %d" % rng.choice([-1, 0, 1, 5, 2147483647, -2147483648]), "errinfo", "misc", "reservebanks %d" % rng.choice([0, 1, 10, 1000]),
                                 "openfile /nonexistent/file.mid", "openbankfile /nonexistent/bank.wopn"]))
        elif c < 0.92:
            h.append(rng.choice(["getbank %d %d %d %d" % (rng.choice([0, 1, 2, 255]), rng.choice([0, 127, 128, 255]), rng.choice([0, 127, 128]), rng.choice([0, 1, 3, 2, 7])),
                                 "rmbank %d %d %d" % (rng.choice([0, 1]), rng.choice([0, 5, 127]), rng.choice([0, 3])), "getins 0 0 0 %d" % rng.choice([0, 127, 128, 4294967295]),
                                 "setins %d %d %d %d %d" % (rng.choice([0, 1]), rng.choice([0, 5]), rng.choice([0, 3]), rng.choice([0, 127, 128, 1000]), rng.choice([0, 0, 1, 2]))]))
        elif c < 0.97:
            h.append("opendata " + rng.choice(files).hex())
        elif c < 0.985:
            h.append("devid %d" % rng.choice([7, 7, 1, 15]))
        else:
            h += ["close"] + [rng.choice(["numchips 2", "emu 0", "devid 1", "gen 4", "play 4", "bankdata 00", "opendata 00", "errinfo", "on 0 60 100"]) for _ in range(3)] + ["new 44100"]
    h.append("close")
    return h


def expected_failure(op, prev_settings):
    """calls documented to fail: returns the error value they must report, or None"""
    w = op.split()
    a = [int(x) for x in w[1:] if re.fullmatch(r"-?\d+", x)]
    if w[0] == "numchips" and not (1 <= a[0] <= 100):
        return "-1"
    if w[0] == "emu" and not (0 <= a[0] <= 8):
        return "-1"
    if w[0] == "devid" and a[0] > 15:
        return "-1"
    if w[0] == "getbank" and (a[0] > 1 or a[1] > 127 or a[2] > 127):
        return "-1"
    if w[0] == "getins" and a[3] > 127:
        return "-1"
    if w[0] == "setins" and (a[3] > 127 or a[4] != 0):
        return "-1"
    if w[0] == "chanen" and a[0] >= 16:
        return "-1"
    if w[0] in ("openfile", "openbankfile") and "nonexistent" in op:
        return "-1"
    return None


def run(tier, replay=None):
    ctx = Ctx(PROP, tier)
    if ctx.translate():
        ctx.prove(MODULE)
    rng = ctx.rng
    surface = api_surface()
    covered = set(f for fs in OP_CALLS.values() for f in fs)
    missing = [f for f in surface if f not in covered]
    if not surface:
        ctx.broken.append("translator: the list of exported functions was not regenerated")
    if missing:
        ctx.broken.append("exported functions without a harness operation (the call grammar no longer covers the header): %s" % ", ".join(missing[:6]))
    if replay:
        hs = [[l for l in open(replay).read().split("\n") if l.strip() and not l.startswith("#")]]
    else:
        import glob
        hs = [[l for l in open(f).read().split("\n") if l.strip() and not l.startswith("#")] for f in sorted(glob.glob(os.path.join(common.VERIF, "corpus", PROP, "*.api")))]
        files = []
        for _ in range(4):
            song = c07.gen_song(rng)
            files.append(song.encode())
            files += gen_smf.mutate(rng, files[-1], 2)
        files += [gen_mus.gen_mus(rng), gen_mus.gen_xmi(rng)] + gen_mus.mutate(rng, gen_mus.gen_xmi(rng), 2) + gen_smf.tail_cases()[:6]
        # formats with their own setup: a refused CMF (parsed completely first) and an EA RSXX song (locks the chip setup)
        files += [gen_smf.gen_cmf(rng), gen_smf.gen_rsxx(rng), gen_smf.gen_rsxx(rng)]
        bank = synth_gen.test_bank(rng, nmel=1, nperc=1, blanks=0.1)[0]
        # every device id against the shortest framed SysEx messages of every manufacturer the synthesizer knows
        h = ["new 44100"]
        for d in range(16):
            h.append("devid %d" % d)
            for man in ("41", "43", "7e", "7f", "00"):
                h += ["sysex f0%sf7" % man, "sysex f0%s%02xf7" % (man, 0x10 + d), "sysex f0%s%02x" % (man, d), "sysex f0%s7f" % man]
        h.append("close")
        hs.append(h)
        # bank map churn: create / remove / look up banks whose ids share hash buckets, enumerate after every step (the settings line walks all banks)
        for i in range(8 if tier == "quick" else 150):
            h = ["new 44100"]
            for _ in range(120):
                key = (rng.choice([0, 1]), rng.choice([0, 1, 2, 3, 64]), rng.choice([0, 1, 2, 3]))
                h.append(rng.choice(["getbank %d %d %d 1" % key, "getbank %d %d %d 1" % key, "getbank %d %d %d 3" % key, "rmbank %d %d %d" % key, "getbank %d %d %d 0" % key,
                                     "getins %d %d %d 5" % key, "setins %d %d %d 7 0" % key, "reservebanks %d" % rng.choice([1, 8, 40])]))
                if rng.random() < 0.15:
                    h.append("on 0 60 100"); h.append("off 0 60")
            h.append("close")
            hs.append(h)
        # songs that bring their own chip setup (EA RSXX locks it; a refused CMF must not): configuration calls made while it is in force, then rendering
        for i in range(6 if tier == "quick" else 60):
            h = ["new 44100", "bankdata " + bank.hex(), "opendata " + (gen_smf.gen_rsxx(rng) if i % 3 else gen_smf.gen_cmf(rng)).hex()]
            for _ in range(8):
                h.append(rng.choice(["numchips %d" % rng.choice([1, 3, 4, 100]), "lfo %d" % rng.choice([0, 1]), "lfofreq %d" % rng.choice([0, 5, 7]), "vm %d" % rng.choice([0, 1, 3]),
                                     "runatpcm %d" % rng.choice([0, 1]), "logvol %d" % rng.choice([0, 1]), "gen 1024", "play 1024", "tick 1:-4 1:-10", "on 0 60 100", "scalemod 1", "softpan 1"]))
            h += ["gen 2048", "play 2048", "reset", "gen 64", "close"]
            hs.append(h)
        for i in range(40 if tier == "quick" else 900):
            h = gen_history(rng, 60, files)
            if i % 3:
                h.insert(1, "bankdata " + bank.hex())
            hs.append(h)
    ops = [o for h in hs for o in h]
    # one process for all histories; a call that does not return is a finding, not something to wait half an hour for
    # (the unchanged tree needs a few seconds in the quick tier, about two minutes in the thorough tier)
    impl, _ = common.run_impl("api", "\n".join(ops) + "\n", stateless=True, timeout=180 if tier == "quick" else 1200)
    pos = 0
    nfail = 0
    used = collections.Counter()
    nerr = 0
    for h in hs:
        io = impl[pos:pos + len(h)]
        pos += len(h)
        prev = None
        dev = False
        for k, (o, r) in enumerate(zip(h, io)):
            w = o.split()
            used[w[0]] += 1
            why = None
            if r.startswith("fault=") or r.startswith("skipped"):
                why = "out-of-bounds access, abort, uncaught exception or unbounded loop in %r: %s" % (o[:60], r[:160])
            else:
                if w[0] == "new":
                    dev = True
                elif w[0] == "close":
                    dev = False
                ret = sq.core(r).split()[0][4:] if r.startswith("ret=") else None
                exp = expected_failure(o, prev) if dev else None
                if exp is not None:
                    nerr += 1
                    if ret != exp:
                        why = "%r is documented to fail but returned %s" % (o[:60], ret)
                if w[0] == "describe" and "UNTERMINATED" in r:
                    why = "opn2_describeChannels left the %s-byte buffer unterminated" % w[1]
                if w[0] == "playlog" and "guard=BAD" in r:
                    why = "opn2_play wrote outside its buffer"
            if why:
                nfail += 1
                if nfail <= 3:
                    ctx.violate("monitor", "# %s\n%s\n" % (why, "\n".join(x if len(x) < 400 else x[:200] + "..." for x in h[:k + 1])))
                    common.write_replay(PROP, "monitor-full", "\n".join(h[:k + 1]) + "\n")
                break
    # regression inputs of the real-time layer (synth component, compared with the synth model as well)
    if not replay:
        from . import synth_common
        sh = synth_common.corpus(PROP) + [h for h in synth_common.corpus("C02")]
        if sh:
            def mon(h, io):
                return [("call did not return normally: %s" % r[:120], k) for k, r in enumerate(io) if r.startswith("fault=") or r.startswith("skipped")][:1]
            synth_common.run_histories(ctx, sh, mon, PROP, tag="synth(corpus)")
    unused = [o for o in OP_CALLS if o != "<settings>" and used[o] == 0]
    ctx.samples = [{"ops": [x[:120] for x in h[1:6]]} for h in hs[:3]]
    ctx.cov.update({"evaluations": len(ops) + ctx.cov.get("evaluations", 0), "histories": len(hs), "monitor_failures": nfail + ctx.cov.get("monitor_failures", 0), "disagreements": ctx.cov.get("disagreements", 0), "documented_failures_checked": nerr,
                    "exported_functions": len(surface), "exported_functions_exercised": len([f for f in surface if f in covered]), "operations_not_drawn_this_run": unused,
                    "input_distribution": dict(used), "distinct_nontrivial": len(set(sq.core(r)[:80] for r in impl)), "exhaustive": False,
                    "traces_validated_against_impl": ctx.cov.get("traces_validated_against_impl", 0),
                    "rule": "random call sequences over the whole exported surface (every function of the regenerated export list has a harness operation; a function without one breaks the "
                            "check) with boundary and out-of-range arguments of the parameter types, exact-size buffers, valid and corrupted banks and music files, calls after close; "
                            "under ASan/UBSan with a watchdog; calls documented to fail must return their error value"})
    return ctx.finish(level="proof", trusted_extra=["the sanitizers' verdicts; the watchdog (30 min per batch) for unbounded loops"],
                      assumptions=["buffers are sized as the calls document; pointers are valid or NULL where NULL is documented"])
