"""C04 — Voice-allocation bookkeeping stays consistent after every call."""
import itertools
from .base import Ctx
import common, synth_run, synth_gen

PROP = "C04"
MODULE = "OpnVerif.Props.C04"


def histories(ctx):
    rng = ctx.rng
    g = synth_gen.Gen(rng)
    quick = ctx.tier == "quick"
    hs = []
    n = 14 if quick else 150
    for i in range(n):
        arp = i % 3 == 1
        chips = rng.choice([1, 1, 2])
        if i % 5 == 4:   # polyphony overflow: many keys, one chip
            hs.append(g.history(rng.choice([60, 150]), chips=1, chans=(0, 1, 2, 9), keys=tuple(range(55, 70)), arp=arp, alloc=rng.choice([None, 0, 1, 2])))
        else:
            hs.append(g.history(rng.choice([30, 80, 200]), chips=chips, arp=arp, alloc=rng.choice([None, None, 0, 1, 2])))
    # setup changes under sounding notes (incl. the boundary keys 0, 126, 127 and a young percussion note)
    for i in range(6 if quick else 60):
        chips = rng.choice([1, 2, 3])
        h = ["new 65536 %d" % chips, "bank " + synth_gen.test_bank(rng)[0].hex()]
        for key in rng.sample([0, 1, 60, 126, 127, 127], 3):
            h.append("on %d %d 100" % (rng.choice([0, 1]), key))
        h.append("on 9 %d 100" % rng.choice([36, 127]))
        if rng.random() < 0.5:
            h.append("cc 0 64 127")
        h.append(rng.choice(["emu %d" % rng.choice([0, 1, 2, 3, 4, 5, 6, 8]), "chips %d" % rng.choice([1, 2, 3, 4]), "reset", "runatpcm 1", "chiptype %d" % rng.choice([-1, 0, 1]),
                             "chips 0", "chips 101", "emu 40", "emu -1"]))
        h += ["pb 0 9000", "gen 4096", "off 0 127", "off 1 127", "off 0 126", "on 0 127 90", "gen 2048", "off 0 127", "panic", "gen 4096"]
        hs.append(h)
    # bank reload
    for i in range(3 if quick else 30):
        h = g.history(25, chips=2)
        img = synth_gen.test_bank(rng)[0].hex()
        k = len(h) // 2
        h = h[:k] + ["on 0 60 100", "on 9 36 100", "bank " + img] + h[k:]
        hs.append(h)
    return hs


def exhaustive(depth):
    """all op sequences of the given length over the small alphabet, one chip"""
    img = None
    import random
    r = random.Random(7)
    img = synth_gen.test_bank(r, same_timbre=True, blanks=0)[0].hex()
    hs = []
    for seq in itertools.product(synth_gen.SMALL_ALPHABET, repeat=depth):
        hs.append(["new 65536 1", "bank " + img] + list(seq))
    return hs


def run(tier, replay=None):
    ctx = Ctx(PROP, tier)
    if ctx.translate():
        ctx.prove(MODULE)
    if replay:
        hs = [[l for l in open(replay).read().split("\n") if l.strip() and not l.startswith("#")]]
    else:
        from . import synth_common
        hs = synth_common.corpus(PROP) + synth_common.corpus('C03') + synth_common.corpus('C02') + histories(ctx)
        if tier == "thorough":
            hs += exhaustive(3)
    ops = [o for h in hs for o in h]
    impl, model = synth_run.run(ops)
    ndiff, first, nfail = 0, None, 0
    viol = []
    start = 0
    for i, o in enumerate(ops):
        if o.startswith("new "):
            start = i
        a = model[i] if i < len(model) else "<missing>"
        b = impl[i] if i < len(impl) else "<missing>"
        if b.startswith("fault=") and len(viol) < 3:
            viol.append(("implementation fault %s" % b, start, i))
        if b.startswith("ret="):
            f = synth_gen.inv_failures(synth_gen.parse_snapshot(b))
            if f:
                nfail += 1
                if len(viol) < 3 and not any(v[1] == start for v in viol):
                    viol.append((f[0], start, i))
        if a != b:
            ndiff += 1
            if first is None:
                first = (start, i)
    for why, st, i in viol:
        ctx.violate("monitor", "# %s\n# implementation snapshot after the last op: %s\n%s\n" % (why, impl[i][:600], "\n".join(x if len(x) < 200 else x[:60] + "..." for x in ops[st:i + 1])))
        # keep the complete replay next to the abbreviated one
        common.write_replay(PROP, "monitor-full", "\n".join(ops[st:i + 1]) + "\n")
    if first is not None:
        st, i = first
        ctx.broken.append("correspondence synth: %d differing snapshots, first at op %d %r (history from op %d): model %r / implementation %r" % (
            ndiff, i, ops[i][:50], st, model[i][:300] if i < len(model) else "-", impl[i][:300]))
        if not viol:
            common.write_replay(PROP, "divergence", "# model: %s\n# implementation: %s\n%s\n" % (model[i][:1500] if i < len(model) else "-", impl[i][:1500], "\n".join(ops[st:i + 1])))
    # ---- portamento (implementation only: the model does not reproduce the floating-point end of a glide): legato notes gliding next to
    # plain held notes, ticked through the end of the glide; the invariant monitor (I4: the gliding counter) runs on every snapshot
    port_ops = 0
    if not replay:
        rng = ctx.rng
        phs = []
        for i in range(8 if tier == "quick" else 80):
            h = ["new 65536 1", "bank " + synth_gen.test_bank(rng, blanks=0)[0].hex(), "cc 0 65 127", "cc 0 5 %d" % rng.choice([1, 40, 80, 127])]
            keys = rng.sample([48, 55, 60, 64, 67, 72, 79], 4)
            h += ["on 0 %d 100" % keys[0], "gen %d" % rng.choice([64, 1024])]
            for k in keys[1:]:
                h.append("on 0 %d 100" % k)                    # legato: the earlier keys are still down
                h += ["gen %d" % rng.choice([64, 656, 2048, 8192]) for _ in range(rng.choice([1, 3]))]
                if rng.random() < 0.4:
                    h.append("off 0 %d" % rng.choice(keys))
                if rng.random() < 0.3:
                    h.append("cc 0 65 %d" % rng.choice([0, 127]))
            h += ["gen 65536", "gen 65536", "pb 0 9000", "gen 1024"] + ["off 0 %d" % k for k in keys] + ["gen 4096"]
            phs.append(h)
        pops = [o for h in phs for o in h]
        pimpl, _ = common.run_impl("synth", "\n".join(pops) + "\n", stateless=False)
        port_ops = len(pops)
        st = 0
        pv = 0
        for i, (o, r) in enumerate(zip(pops, pimpl)):
            if o.startswith("new "):
                st = i
            why = None
            if r.startswith("fault="):
                why = "implementation fault %s" % r[:160]
            elif r.startswith("ret="):
                f = synth_gen.inv_failures(synth_gen.parse_snapshot(r))
                why = f[0] if f else None
            if why and pv < 2:
                pv += 1
                nfail += 1
                ctx.violate("monitor", "# %s (portamento history)\n# implementation snapshot after the last op: %s\n%s\n" % (why, r[:600], "\n".join(x if len(x) < 200 else x[:60] + "..." for x in pops[st:i + 1])))
    ctx.cov["portamento_ops_impl_only"] = port_ops
    kinds = {}
    for o in ops:
        k = o.split()[0] + ((":" + o.split()[2]) if o.startswith("cc ") else "")
        kinds[k] = kinds.get(k, 0) + 1
    ctx.cov.update({
        "evaluations": len(ops), "histories": len(hs), "distinct_nontrivial": len(set(r.split(" ctl=")[1] for r in impl if " ctl=" in r and (" m" in r or " c" in r))),
        "rule": "real-time histories (note on/off, CC64/66/120/121/123, panic, reset-state, program/bank changes, bend, time advance, arpeggio on/off, "
                "allocation modes, polyphony overflow, bank reload under sounding notes); thorough adds all sequences of length 3 over the small alphabet; "
                "non-trivial = snapshot with at least one note or user; distinct by snapshot text",
        "traces_validated_against_impl": len(ops) - ndiff, "disagreements": ndiff, "inv_failures_on_impl": nfail, "input_distribution": kinds,
        "samples": [{"op": ops[i][:80], "impl": impl[i][:300]} for i in ctx.rng.sample(range(len(ops)), min(5, len(ops)))],
        "exhaustive": False})
    return ctx.finish(trusted_extra=["instrument references of notes are modelled by value (banks are not edited under sounding notes in the generated histories)"],
                      assumptions=["times are exact because the implementation is driven at 65536 Hz (DESIGN section 3.2)"])
