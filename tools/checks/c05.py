"""C05 — A note sounds exactly while its key, the pedal or sostenuto holds it."""
from .base import Ctx
import common, synth_gen
from . import synth_common

PROP = "C05"
MODULE = "OpnVerif.Props.C05"


import fractions
DRUM_MIN = fractions.Fraction(0.03)      # the double nearest to 0.03, as in the source


class Voice:
    def __init__(self, c, k, born=None):
        self.c, self.k, self.down, self.pedal, self.sost, self.born, self.deferred = c, k, True, False, False, born, False


class Rules:
    """the MIDI rules of the statement at voice granularity: every accepted note-on starts a voice; a voice ends when its key is
    released unless the sustain pedal or its sostenuto mark holds it (then it is parked until those let go).
    Reading fixed in DESIGN.md: a percussion key counts as held for at least 30 ms; a release arriving earlier takes effect
    when that time has passed (with the pedal state of that moment)."""
    def __init__(self):
        self.voices, self.pedal = [], {}
        self.t = fractions.Fraction(0)

    def down_voice(self, c, k):
        for v in self.voices:
            if v.c == c and v.k == k and v.down:
                return v
        return None

    def release_now(self, c, k):
        v = self.down_voice(c, k)
        if v is None:
            return
        v.down = False
        v.deferred = False
        if self.pedal.get(c, False):
            v.pedal = True
        if not (v.pedal or v.sost):
            self.voices.remove(v)

    def release(self, c, k):
        v = self.down_voice(c, k)
        if v is None:
            return
        if v.born is not None and self.t - v.born < DRUM_MIN:
            v.deferred = True
        else:
            self.release_now(c, k)

    def advance(self, dt):
        self.t += dt
        for v in list(self.voices):
            if v.down and v.deferred and self.t - v.born >= DRUM_MIN:
                self.release_now(v.c, v.k)

    def pedal_off(self, c):
        self.pedal[c] = False
        for v in list(self.voices):
            if v.c == c and v.pedal:
                v.pedal = False
                if not v.down and not v.sost:
                    self.voices.remove(v)

    def sost_on(self, c):
        for v in self.voices:
            if v.c == c and v.down and not v.pedal:
                v.sost = True

    def sost_off(self, c):
        for v in list(self.voices):
            if v.c == c and v.sost:
                v.sost = False
                if not v.down and not v.pedal:
                    self.voices.remove(v)

    def drop_parked(self, c=None):
        for v in list(self.voices):
            if (c is None or v.c == c):
                v.pedal = v.sost = False
                if not v.down:
                    self.voices.remove(v)

    def predicted(self):
        return {(v.c, v.k) for v in self.voices}


def monitor_factory(rate=65536):
    def monitor(h, io):
        fails = []
        R = Rules()
        nch = 6
        for k, (o, r) in enumerate(zip(h, io)):
            if not r.startswith("ret="):
                break
            a = o.split()
            sn = synth_gen.parse_snapshot(r)
            if a[0] == "new":
                R = Rules(); nch = int(a[2]) * 6; continue
            if a[0] in ("bank", "chips", "emu", "reset", "chiptype", "runatpcm"):
                if not (a[0] in ("chips", "emu") and sn.ret == "-1"):
                    R = Rules_reset(R)
                nch = sn.nch
                continue
            if a[0] == "on":
                c, key, vel = int(a[1]), min(int(a[2]), 127), int(a[3])
                if c >= 16:
                    c %= 16
                if vel == 0:
                    R.release(c, key)
                else:
                    R.release_now(c, key)          # a note-on first keys the same key off (at once, also for percussion)
                    if sn.ret == "1":
                        perc = any("P" in n["flags"] for n in sn.notes.get(c, []) if n["key"] == key)
                        R.voices.append(Voice(c, key, R.t if perc else None))
            elif a[0] == "off":
                R.release(int(a[1]) % 16 if int(a[1]) >= 16 else int(a[1]), int(a[2]))
            elif a[0] == "cc":
                c, t, v = int(a[1]), int(a[2]), int(a[3])
                if c >= 16:
                    c %= 16
                if t == 64:
                    if v >= 64:
                        R.pedal[c] = True
                    else:
                        R.pedal_off(c)
                elif t == 66:
                    if v >= 64:
                        R.sost_on(c)
                    else:
                        R.sost_off(c)
                elif t in (120, 123):
                    for vv in list(R.voices):
                        if vv.c == c and vv.down:
                            R.release_now(c, vv.k)
                elif t == 121:
                    R.pedal[c] = False
                    R.drop_parked(c)
            elif a[0] == "panic":
                for vv in list(R.voices):
                    if vv.down:
                        R.release(vv.c, vv.k)
                R.drop_parked()
            elif a[0] == "rs" or (a[0] == "sysex" and sn.ret == "1" and a[1][2:4] in ("7e", "41", "43") and not a[1].startswith("f0411042124011") and
                                  not (a[1][2:4] == "41" and a[1][10:12] == "40" and a[1][12:13] == "1")):
                R = Rules_reset(R)
            elif a[0] == "gen":
                n = int(a[1]); n -= n % 2
                if n > 0:
                    R.advance(fractions.Fraction(n // 2, rate))
            pred = R.predicted()
            if len(R.voices) > nch - 1:
                break           # polyphony exceeded: the statement no longer applies to this history
            own = synth_gen.owners(sn)
            missing = pred - own
            extra = own - pred
            if missing:
                fails.append(("note(s) %s should sound (key, pedal or sostenuto holds them) but own no keyed-on chip channel" % sorted(missing), k)); break
            if extra:
                fails.append(("note(s) %s own a keyed-on chip channel although nothing holds them" % sorted(extra), k)); break
        return fails
    return monitor


def Rules_reset(R):
    """controller-state reset (reset-state call, GM/GS/XG mode SysEx): every key and pedal ends"""
    N = Rules()
    N.t = R.t
    return N


def pedal_exhaustive(ctx, depth):
    """sequences over key / sustain pedal / sostenuto / time on one melodic key, one percussion key and the top key, separated by a
    controller-state reset (which ends every note).  quick: note-on, then every sequence of 3 steps, then each releasing step;
    thorough: every sequence of `depth` steps."""
    import itertools
    rng = ctx.rng
    img = synth_gen.test_bank(rng, blanks=0)[0].hex()
    hs = []
    for ch, key in ((0, 60), (9, 40), (0, 127)):
        on, off = "on %d %d 100" % (ch, key), "off %d %d" % (ch, key)
        p1, p0, s1, s0 = "cc %d 64 127" % ch, "cc %d 64 0" % ch, "cc %d 66 127" % ch, "cc %d 66 0" % ch
        h = ["new 65536 1", "bank " + img]
        if ctx.tier == "quick":
            mid = [on, off, p1, p0, s1, s0, "gen 2048"] if ch == 0 and key == 60 else [off, p1, p0, s1, s0]
            for seq in itertools.product(mid, repeat=3):
                for last in (off, p0, s0):
                    h += [on] + list(seq) + [last, "rs"]
        else:
            alpha = [on, off, p1, p0, s1, s0, "gen 2048", "panic"]
            for seq in itertools.product(alpha, repeat=depth):
                if not any(x.startswith("on ") for x in seq[:-1]):
                    continue
                h += list(seq) + ["rs"]
        hs.append(h)
    return hs


def histories(ctx):
    rng = ctx.rng
    g = synth_gen.Gen(rng)
    hs = pedal_exhaustive(ctx, 3 if ctx.tier == "quick" else 5)
    # directed: the extreme keys under panic / reset-state / all-notes-off / all-sound-off, on a melodic and the percussion channel
    img = synth_gen.test_bank(rng)[0].hex()
    for key in (127, 126, 0, 1):
        for stop in ("panic", "rs", "cc 0 123 0", "cc 0 120 0"):
            hs.append(["new 65536 1", "bank " + img, "on 0 %d 100" % key, "on 9 %d 100" % key, "gen 4096", stop, "cc 9 123 0", "gen 4096", "off 0 %d" % key, "off 9 %d" % key, "gen 4096"])
    n = 16 if ctx.tier == "quick" else 200
    for i in range(n):
        chips = rng.choice([1, 2])
        nk = 3 if chips == 1 else 6
        keys = tuple(rng.sample(range(30, 90), nk - 1)) + (rng.choice([127, 0, 126, 1]),)     # the extreme keys too
        hs.append(g.history(rng.choice([40, 120]), chips=chips, chans=(0, 1, 9), keys=keys, arp=False))
    return hs


def run(tier, replay=None):
    ctx = Ctx(PROP, tier)
    if ctx.translate():
        ctx.prove(MODULE)
    if replay:
        hs = [[l for l in open(replay).read().split("\n") if l.strip() and not l.startswith("#")]]
    else:
        hs = histories(ctx)
        hs = synth_common.corpus(PROP) + hs
    impl, model = synth_common.run_histories(ctx, hs, monitor_factory(), PROP)
    # no stuck notes: every history ends with all keys and pedals released and 31 ms of audio
    stuck = 0
    pos = 0
    for h in hs:
        last = impl[pos + len(h) - 1] if pos + len(h) - 1 < len(impl) else ""
        pos += len(h)
        if last.startswith("ret="):
            sn = synth_gen.parse_snapshot(last)
            if any(sn.keyon.values()):
                stuck += 1
                if stuck <= 1:
                    ctx.violate("stuck", "# a chip channel is still keyed on after every key and pedal was released and 31 ms were rendered\n# %s\n%s\n" % (
                        last[:500], "\n".join(x if len(x) < 200 else x[:60] + "..." for x in h)))
    ctx.cov["stuck_histories"] = stuck
    ctx.cov["rule"] = ("real-time histories over 3..6 keys on melodic and percussion channels with at most channels-1 sounding notes (the monitor stops "
                       "following a history once the rule set predicts more); the predicted set of an independent Python rule model is compared with the owners of "
                       "keyed-on chip channels after every call; non-trivial = snapshot with a note or user")
    return ctx.finish(assumptions=["percussion notes may outlive their key by up to 30 ms (the statement's only slack)"])
