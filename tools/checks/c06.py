"""C06 — A new note never displaces a sounding note while a chip channel is idle."""
from .base import Ctx
import common, synth_gen
from . import synth_common

PROP = "C06"
MODULE = "OpnVerif.Props.C06"


def monitor(h, io):
    fails = []
    prev = None
    t_us = 0
    for k, (o, r) in enumerate(zip(h, io)):
        if not r.startswith("ret="):
            break
        sn = synth_gen.parse_snapshot(r)
        a = o.split()
        if a[0] == "new":
            t_us = 0
        if a[0] == "gen":
            n = int(a[1]); n -= n % 2
            t_us += max(n, 0) // 2 * 1000000 // 65536
        if a[0] == "on" and int(a[3]) != 0 and prev is not None and t_us < 600 * 1000000:
            ch = int(a[1]); key = min(int(a[2]), 127)
            before = {c: list(us) for c, us in prev.users.items() if us}
            # the note-on first releases the same key (retrigger); take that into account
            def is_same(u):
                return u["ch"] == ch and u["key"] == key
            idle_before = [c for c in range(prev.nch) if not [u for u in before.get(c, []) if not (is_same(u) and u["sus"] == 0 and not pedal_down(prev, ch))]]
            idle_strict = [c for c in range(prev.nch) if not before.get(c)]
            blank = any(n["key"] == key and "B" in n["flags"] for n in sn.notes.get(ch, []))
            if blank:
                prev = sn; continue
            newchans = [c for n in sn.notes.get(ch, []) if n["key"] == key for c in n["chans"]]
            if idle_strict:
                if sn.ret != "1":
                    fails.append(("note-on rejected although chip channel(s) %s had no user" % idle_strict, k)); break
                if newchans and not any(c in idle_before for c in newchans):
                    fails.append(("note-on placed on chip channel %s although chip channel(s) %s had no user" % (newchans, idle_strict), k)); break
                # every other (MIDI channel, key) keeps its chip channel
                for c, us in before.items():
                    for u in us:
                        if is_same(u):
                            continue
                        if not any(x["ch"] == u["ch"] and x["key"] == u["key"] for x in sn.users.get(c, [])):
                            fails.append(("note %d/%d lost chip channel %d to a new note although chip channel(s) %s had no user" % (u["ch"], u["key"], c, idle_strict), k)); break
                    if fails:
                        break
                if fails:
                    break
            else:
                # all busy: a channel whose only user is released-but-held must go before any channel with a key-down user
                held_only = [c for c, us in before.items() if len(us) == 1 and us[0]["sus"] != 0]
                if held_only and newchans:
                    c = newchans[0]
                    if any(u["sus"] == 0 and not is_same(u) for u in before.get(c, [])) and not shares(before.get(c, []), sn.users.get(c, [])):
                        fails.append(("all channels busy: chip channel %d with a key-down note was taken although channel(s) %s hold only a pedal-held note" % (c, held_only), k)); break
        prev = sn
    return fails


def pedal_down(sn, ch):
    return False


def shares(before, after):
    """the new note joined the channel without displacing its users (arpeggio sharing)"""
    return all(any(x["ch"] == u["ch"] and x["key"] == u["key"] for x in after) for u in before)


def histories(ctx):
    rng = ctx.rng
    g = synth_gen.Gen(rng)
    hs = []
    n = 16 if ctx.tier == "quick" else 200
    for i in range(n):
        chips = rng.choice([1, 1, 2, 3, 8]) if ctx.tier == "thorough" else rng.choice([1, 1, 2])
        h = g.history(rng.choice([60, 150]), chips=chips, chans=(0, 1, 2, 9), keys=tuple(range(50, 50 + 4 * chips + 3)), arp=(i % 4 == 3),
                      alloc=rng.choice([None, 0, 1, 2]))
        hs.append(h)
    # long releases, different timbres, pedal-held notes: the releasing-channel scores
    for i in range(4 if ctx.tier == "quick" else 40):
        h = ["new 65536 1", "bank " + synth_gen.test_bank(rng, blanks=0)[0].hex(), "alloc %d" % rng.choice([-1, 0, 1, 2])]
        for k in range(6):
            h.append("on 0 %d 100" % (60 + k))
        h += ["cc 0 64 127", "off 0 60", "cc 0 64 0"] if i % 2 else ["cc 0 64 127", "off 0 60"]
        for k in range(1, 6):
            h.append("off 0 %d" % (60 + k))
        for _ in range(rng.choice([0, 1, 1, 4, 25])):
            h.append("gen %d" % rng.choice([2, 2048, 262144]))
        h += ["pc 1 3", "on 1 72 100", "on 1 73 100"]
        hs.append(h)
    for i in range(1 if ctx.tier == "quick" else 4):
        h = ["new 65536 1", "bank " + synth_gen.test_bank(rng, blanks=0)[0].hex(), "alloc %d" % rng.choice([-1, 0, 1])]
        h += ["on 0 60 100", "off 0 60", "on 0 61 100", "off 0 61"]
        h += ["gen 262144"] * 280          # 560 s
        h += ["on 0 62 100", "cc 0 64 127", "off 0 62", "pc 1 3", "on 1 70 100", "on 1 71 100"]
        hs.append(h)
    # holds that grow old: a pedal-held and a sostenuto-held note aged to just below the 10-minute bound must still not be displaced while
    # the other chip channels are idle (the held-note penalty shrinks with age: 500000 + kon_ms/2 with kon_ms down to -600000)
    for i in range(1 if ctx.tier == "quick" else 4):
        h = ["new 65536 1", "bank " + synth_gen.test_bank(rng, blanks=0, key_on=rng.choice([1, 500, 5000, 65535]))[0].hex(), "alloc %d" % rng.choice([-1, 0, 1])]
        h += ["cc 0 64 127", "on 0 60 100", "off 0 60", "on 2 64 100", "cc 2 66 127", "off 2 64"]
        h += ["gen 262144"] * rng.choice([255, 285, 295])          # 510 .. 590 s
        h += ["pc 1 3", "on 1 70 100", "on 1 71 100", "on 3 72 100"]
        hs.append(h)
    return hs


def run(tier, replay=None):
    ctx = Ctx(PROP, tier)
    if ctx.translate():
        ctx.prove(MODULE)
    if replay:
        hs = [[l for l in open(replay).read().split("\n") if l.strip() and not l.startswith("#")]]
    else:
        hs = histories(ctx)
        hs = synth_common.corpus(PROP) + hs
    synth_common.run_histories(ctx, hs, monitor, PROP)
    ctx.cov["rule"] = ("note/controller histories with up to 4*chips+3 keys on 1..3 (thorough: ..8) chips, all allocation modes, arpeggio on/off, long releases; "
                       "the monitor compares the user lists before and after every accepted note-on within 10 simulated minutes")
    return ctx.finish(assumptions=["histories stay below 10 simulated minutes (the bound the statement and the theorems use)"])
