"""C07 — The sequencer delivers every file event once, in order, at the right time."""
import os, re, collections
from fractions import Fraction
from .base import Ctx
import common, gen_smf
from . import seq_common as sq

PROP = "C07"
MODULE = "OpnVerif.Props.C07"
GRAN = "1:-24"
EARLY = Fraction(1, 2 ** 24)        # half of the tick granularity: an event may be delivered that much early
RATE = 44100
TOL = Fraction(1, 10**7)


def canon(raw):
    """what the raw event hook must show for a file event: (type, subtype, channel, data hex)"""
    b0 = raw[0]
    if b0 == 0xFF:
        # length is a VLQ
        i = 2
        n = 0
        while True:
            n = (n << 7) | (raw[i] & 0x7F)
            i += 1
            if not raw[i - 1] & 0x80:
                break
        data = raw[i:i + n]
        sub = raw[1]
        if sub == 6 and data.lower() == b"loopstart":
            return (255, 0xE1, 0, "-")
        if sub == 6 and data.lower() == b"loopend":
            return (255, 0xE2, 0, "-")
        if sub == 6 and data.lower().startswith(b"loopstart="):
            digits = re.match(rb"\s*[+-]?(\d*)", data[10:]).group(1)
            return (255, 0xE4, 0, "%02x" % (int(digits or b"0") % 256))        # counted loop start: the count is the payload
        if sub == 6 and data.lower().startswith(b"loopend="):
            return (255, 0xE5, 0, "-")
        return (255, sub, 0, data.hex() or "-")
    if b0 in (0xF0, 0xF7):
        i = 1
        n = 0
        while True:
            n = (n << 7) | (raw[i] & 0x7F)
            i += 1
            if not raw[i - 1] & 0x80:
                break
        return (0xF0, 0, 0, (bytes([b0]) + raw[i:i + n]).hex())
    t, ch = b0 >> 4, b0 & 15
    if t == 9 and raw[2] == 0:
        t = 8
    if t == 0xB and raw[1] == 111:
        return (255, 0xE1, ch, "-")
    return (t, 0, ch, raw[1:].hex())


def gen_song(rng, **kw):
    """C07's songs: tempo events live in track 0, every track owns its MIDI channels (so per-channel order is per-track order)"""
    s = gen_smf.gen_song(rng, **kw)
    for ti, evs in enumerate(s.tracks):
        out = []
        for (tick, raw, d) in evs:
            if d[0] == "tempo" and ti != 0:
                continue
            if raw[0] < 0xF0:
                ch = (ti * 4 + (raw[0] & 3)) & 15
                raw = bytes([(raw[0] & 0xF0) | ch]) + raw[1:]
                d = (d[0], ch) + tuple(d[2:])
            out.append((tick, raw, d))
        s.tracks[ti] = out
    return s


def track_of_channel(ch):
    return ch // 4


def check_delivery(song, line, stamps="time", disabled_tracks=(), solo=None, tempo_mult=Fraction(1), allow_loop=False, known_hits=None):
    """clauses of C07 on one `tickall`/`playlog` observation; returns list of failure strings"""
    fails = []
    if known_hits is None:
        known_hits = []
    evs = sq.parse_events(sq.ev_of(line))
    E = [(st, tuple(f)) for (tag, st, f) in evs if tag == "E"]
    # the synthetic song-begin event
    if E and E[0][1][:2] == ("255", "1") and E[0][1][3] == "-":
        E = E[1:]
    def tval(st):
        return Fraction(int(st[1:]), RATE) if st.startswith("f") else sq.dy(st)
    ref = gen_smf.reference_timeline(song, tempo_mult)
    enabled = lambda ti: (solo is None or ti == solo) and ti not in disabled_tracks
    expected = []
    for (t, ti, i, raw, d, tick) in ref:
        c = canon(raw)
        timing = ti == 0 and song.fmt < 2 and c[0] == 255 and c[1] in (0x51, 0x55)
        if enabled(ti) or timing:
            expected.append((t, ti, i, c, d, tick))
    got = collections.Counter((int(f[0]), int(f[1]), int(f[2]), f[3]) for (st, f) in E)
    want = collections.Counter(c for (_, _, _, c, _, _) in expected)
    if got != want:
        missing = list((want - got).items())[:3]
        extra = list((got - want).items())[:3]
        fails.append("delivered events are not exactly the file's events of the enabled tracks: missing %s, unexpected %s" % (missing, extra))
        return fails
    # an End-of-Track alone at its tick is delivered with the preceding event of its track (trailing silence is skipped)
    eff = []
    last_real = {}
    for (t, ti, i, c, d, tick) in sorted(expected, key=lambda x: (x[1], x[2])):
        if d[0] == "eot" and ti in last_real and last_real[ti][1] != tick:
            eff.append((last_real[ti][0], ti, i, c, d, tick))
        else:
            eff.append((t, ti, i, c, d, tick))
        if d[0] != "eot":
            last_real[ti] = (t, tick)
    # timing: match each file event with the earliest delivery of the same content
    pool = collections.defaultdict(list)
    for (st, f) in E:
        pool[(int(f[0]), int(f[1]), int(f[2]), f[3])].append(tval(st))
    for k in pool:
        pool[k].sort()
    for (t, ti, i, c, d, tick) in sorted(eff, key=lambda x: (x[0], x[1], x[2])):
        td = pool[c].pop(0)
        if stamps == "time":
            if not (t - EARLY * max(1, 1 / tempo_mult) - TOL * (1 + t) <= td <= t + TOL * (1 + t)):
                fails.append("event %s of track %d (tick %d) delivered at %.9f s, file time %.9f s" % (c, ti, tick, float(td), float(t)))
                break
        else:
            # frames: at most one 512-frame period (+ the 64-frame call granularity of the probe) early, never late
            lo = t * RATE - 512 - 64 - 1
            hi = t * RATE + 1
            f = td * RATE
            if not (lo <= f <= hi):
                fails.append("event %s of track %d due at frame %.1f took effect at frame %d" % (c, ti, float(t * RATE), int(f)))
                break
    # same-tick order inside one track (= one channel group).  Allowed deviations from the file order at one tick (property text):
    # controllers / program changes before note-ons, note-offs of already sounding notes before note-ons.
    by_stamp = collections.OrderedDict()
    for (st, f) in E:
        by_stamp.setdefault(st, []).append((int(f[0]), int(f[1]), int(f[2]), f[3]))
    sounding = set()
    tainted = set()
    eff_sorted = sorted(eff, key=lambda x: (x[0], x[1], x[2]))
    ptr = 0
    def subseq(xs, pred):
        return [x for x in xs if pred(x)]
    for st, items in (by_stamp.items() if stamps == "time" else []):        # frame stamps are too coarse to separate ticks
        sl = eff_sorted[ptr:ptr + len(items)]
        ptr += len(items)
        for ti in range(len(song.tracks)):
            F = [c for (t, tj, i, c, d, tick) in sorted(sl, key=lambda x: (x[1], x[2])) if tj == ti and c[0] < 0xF0]
            ticks = set(tick for (t, tj, i, c, d, tick) in sl if tj == ti)
            D = [c for c in items if c[0] < 0xF0 and track_of_channel(c[2]) == ti]
            if len(ticks) != 1 or collections.Counter(F) != collections.Counter(D):
                continue                                 # several ticks fell into one delivery instant: nothing to say about one tick
            # file order is kept among note-ons, among controllers/program changes/bends, among aftertouch
            for name, pred in (("note-ons", lambda c: c[0] == 9), ("controller/program/bend events", lambda c: c[0] in (0xB, 0xC, 0xD, 0xE)), ("note aftertouch", lambda c: c[0] == 0xA)):
                if subseq(F, pred) != subseq(D, pred):
                    fails.append("at %s the %s of track %d are delivered in another order than in the file" % (st, name, ti))
            first_on = next((k for k, c in enumerate(D) if c[0] == 9), None)
            if first_on is not None:
                for k, c in enumerate(D):
                    if k > first_on and c[0] in (0xB, 0xC, 0xD, 0xE):
                        fails.append("at %s a controller/program/bend event %s of track %d is delivered after a note-on of the same tick" % (st, c, ti))
            # per key: the delivered on/off sequence is the file's, except that the first note-off of a key that sounds since an
            # earlier tick may come first
            keys = sorted(set((c[2], c[3][:2]) for c in F if c[0] in (8, 9)))
            for key in keys:
                FK = [c[0] for c in F if c[0] in (8, 9) and (c[2], c[3][:2]) == key]
                DK = [c[0] for c in D if c[0] in (8, 9) and (c[2], c[3][:2]) == key]
                release = key in sounding and 8 in FK
                if release:
                    k0 = FK.index(8)
                    allowed = [[8] + FK[:k0] + FK[k0 + 1:]]
                else:
                    allowed = [FK]
                first_on_f0 = FK.index(9) if 9 in FK else len(FK)
                if FK.count(9) >= 2 or FK[:first_on_f0].count(8) - (1 if key in sounding else 0) > 0:
                    tainted.add(key)            # the known pattern: afterwards the sequencer's note-state cache may disagree with what was delivered
                if DK not in allowed:
                    # a note-off written before a note-on of the same key at the same tick (other than the release of a sounding note)
                    first_on_f = FK.index(9) if 9 in FK else len(FK)
                    offs_before = FK[:first_on_f].count(8) - (1 if key in sounding else 0)
                    if offs_before > 0 or FK.count(9) >= 2 or key in tainted:
                        tainted.add(key)        # from here on the sequencer's idea of whether this key sounds may differ from what was delivered
                        known_hits.append("at %s key %s of channel %d: file order %s delivered as %s" % (st, key[1], key[0], FK, DK))
                    else:
                        fails.append("at %s the note-on/off events of key %s on channel %d (file order %s, key %s before this tick) are delivered as %s" % (
                            st, key[1], key[0], FK, "sounding" if key in sounding else "silent", DK))
                elif release and first_on is not None:
                    if D.index(next(c for c in D if c[0] == 8 and (c[2], c[3][:2]) == key)) > first_on:
                        fails.append("at %s the note-off of key %s (sounding since an earlier tick) is delivered after a note-on of the same tick" % (st, key[1]))
        for c in items:                        # the delivered order decides what sounds afterwards
            if c[0] == 9:
                sounding.add((c[2], c[3][:2]))
            elif c[0] == 8:
                sounding.discard((c[2], c[3][:2]))
        if len(fails) > 2:
            break
    # what reaches the synthesizer = the channel events, in the same order
    R = [(st, tuple(f)) for (tag, st, f) in evs if tag == "R"]
    chan_E = [(st, f) for (st, f) in E if int(f[0]) in (8, 9, 10, 11, 12, 13, 14)]
    def as_rt(f):
        t, ch, data = int(f[0]), int(f[2]), bytes.fromhex(f[3]) if f[3] != "-" else b""
        if t == 8:
            return (8, ch, data[0], 0)
        if t in (12, 13):
            return (t, ch, data[0], 0)
        if t == 14:
            return (14, ch, data[1], data[0])
        return (t, ch, data[0], data[1])
    want_rt = [as_rt(f) for (st, f) in chan_E]
    got_rt = [tuple(int(x) for x in f) for (st, f) in R]
    # the All-Notes-Off burst at the end of the song is not a file event
    while got_rt and got_rt[-1][0] == 11 and got_rt[-1][2] == 123 and (not want_rt or len(got_rt) > len(want_rt)):
        got_rt.pop()
    if got_rt != want_rt and not allow_loop:
        k = next((i for i, (a, b) in enumerate(zip(got_rt, want_rt)) if a != b), min(len(got_rt), len(want_rt)))
        fails.append("calls into the synthesizer differ from the delivered channel events at position %d: %s vs %s" % (k, got_rt[k:k + 2], want_rt[k:k + 2]))
    return fails


def histories(ctx):
    rng = ctx.rng
    quick = ctx.tier == "quick"
    hs = []
    n = 45 if quick else 500
    for i in range(n):
        song = gen_song(rng, loops=None if i % 3 else "none", big=(i % 9 == 8 and not quick))
        if song.loops == "none":
            song.loops = None
        img = song.encode(running_status=rng.random() < 0.5)
        if i % 5 == 4:
            img = gen_smf.rmi(img)
        h = sq.PREFIX + ["opendata " + img.hex(), "total", "tickall 200000 " + GRAN, "atend", "tell"]
        meta = {"song": song, "kind": "linear", "obs": len(h) - 3}
        hs.append((h, meta))
        if i % 3 == 0:
            # rendered through the audio call
            h2 = sq.PREFIX + ["opendata " + img.hex(), "playlog %d 128" % int((float(max(t[0] for t in gen_smf.reference_timeline(song))) + 1.5) * RATE * 2)]
            hs.append((h2, {"song": song, "kind": "frames", "obs": len(h2) - 1}))
        if i % 3 == 1 and len(song.tracks) > 1:
            k = rng.randrange(len(song.tracks))
            mode = rng.choice(["off", "solo"])
            h3 = sq.PREFIX + ["opendata " + img.hex(), "trackopt %d %d" % (k, 2 if mode == "off" else 3), "tickall 200000 " + GRAN]
            hs.append((h3, {"song": song, "kind": mode, "track": k, "obs": len(h3) - 1}))
        if i % 3 == 2:
            c = rng.choice([0, 1, 4, 9])
            h4 = sq.PREFIX + ["opendata " + img.hex(), "chanen %d 0" % c, "chanen 16 0", "tickall 200000 " + GRAN]
            hs.append((h4, {"song": song, "kind": "chan", "chan": c, "obs": len(h4) - 1}))
        if i % 4 == 3:
            tm = rng.choice(["1:1", "1:-1", "3:-1"])
            h5 = sq.PREFIX + ["opendata " + img.hex(), "tempo " + tm, "tickall 200000 " + GRAN]
            hs.append((h5, {"song": song, "kind": "tempo", "mult": sq.dy(tm), "obs": len(h5) - 1}))
    return hs


def run(tier, replay=None):
    ctx = Ctx(PROP, tier)
    if ctx.translate():
        ctx.prove(MODULE)
    if replay:
        lines = [l for l in open(replay).read().split("\n") if l.strip() and not l.startswith("#")]
        hs = [(lines, {"kind": "replay"})]
    else:
        hs = histories(ctx)
    res = sq.run([h for h, _ in hs])
    nfail = 0
    known_hits = []
    kinds = collections.Counter()
    nev = 0
    for (h, meta), (io, mo) in zip(hs, res):
        kinds[meta["kind"]] += 1
        fails = []
        for k, r in enumerate(io):
            if r.startswith("fault=") or r.startswith("skipped"):
                fails.append("implementation fault: %s" % r[:200]); break
        if not fails and meta["kind"] != "replay":
            song = meta["song"]
            line = io[meta["obs"]]
            nev += line.count(";")
            if io[4].split()[0] != "ret=0":
                fails.append("a well-formed file was rejected: %s" % io[4][:100])
            elif meta["kind"] == "linear":
                fails += check_delivery(song, line, allow_loop=False, known_hits=known_hits)
                total = sq.dy(sq.core(io[meta["obs"] - 1]).split("=", 1)[1])
                want = max(t[0] for t in gen_smf.reference_timeline(song)) + 1
                # an End-of-Track alone at its tick does not count (trailing silence is skipped)
                ref = gen_smf.reference_timeline(song)
                latest = Fraction(0)
                for ti, evs in enumerate(song.tracks):
                    rows = [x for x in ref if x[1] == ti]
                    last = rows[-1]
                    if len(rows) > 1 and rows[-2][5] != last[5]:
                        last = rows[-2]
                    latest = max(latest, last[0])
                if abs(total - (latest + 1)) > TOL * (1 + latest):
                    fails.append("reported length %.9f s, latest event time + 1 s = %.9f s" % (float(total), float(latest + 1)))
                if sq.core(io[meta["obs"] + 1]) != "ret=1":
                    fails.append("end of song not reported after the last event")
            elif meta["kind"] == "frames":
                fails += check_delivery(song, line, stamps="frames")
                if "guard=ok" not in line:
                    fails.append("opn2_play wrote outside the buffer or returned an odd/oversized count: %s" % line[:120])
            elif meta["kind"] in ("off", "solo"):
                k = meta["track"]
                dis = (k,) if meta["kind"] == "off" else tuple(t for t in range(len(song.tracks)) if t != k)
                fails += check_delivery(song, line, disabled_tracks=dis)
            elif meta["kind"] == "chan":
                c = meta["chan"]
                if sq.core(io[meta["obs"] - 1]).split()[0] != "ret=-1":
                    fails.append("channel number 16 accepted by opn2_setChannelEnabled")
                evs = sq.parse_events(sq.ev_of(line))
                bad = [f for (tag, st, f) in evs if tag == "R" and int(f[0]) in (8, 9) and int(f[1]) == c]
                if bad:
                    fails.append("disabled channel %d still received note events: %s" % (c, bad[:2]))
                # everything else is unaffected: the raw events are the file's events at the file's times
                fails += [f for f in check_delivery(song, line, allow_loop=True)]
            elif meta["kind"] == "tempo":
                fails += check_delivery(song, line, tempo_mult=meta["mult"])
        for f in fails[:1]:
            nfail += 1
            if nfail <= 3:
                ctx.violate("monitor", "# %s\n# kind=%s\n%s\n" % (f, meta["kind"], "\n".join(h)))
    if known_hits:
        listed = [k for k in common.load_known() if k.get("status") == "open" and k.get("property") == PROP and k.get("id") == "noteoff-before-noteon-same-tick"]
        if listed:
            ctx.known("%s (%d occurrences, e.g. %s)" % (listed[0]["what"], len(known_hits), known_hits[0]))
        else:
            ctx.violate("monitor", "# a note-off preceding a note-on of the same key at one tick is delivered behind it: %s\n" % known_hits[0])
    # ---- SMPTE time division (well-formed SMF: negative frame rate in the high byte, ticks per frame in the low byte): 25 fps x 40 ticks
    # = 1000 ticks per second, whatever the tempo; a note-off 1000 ticks in lies at 1 s, the length is 2 s
    if not replay:
        trk = bytes.fromhex("00903c64" + "8768803c00" + "00ff2f00")
        smpte = b"MThd" + (6).to_bytes(4, "big") + bytes([0, 0, 0, 1, 0xE7, 0x28]) + b"MTrk" + len(trk).to_bytes(4, "big") + trk
        sh = sq.PREFIX + ["opendata " + smpte.hex(), "total"]
        (sio, smo), = sq.run([sh])
        m = re.search(r"ret=(-?\d+:-?\d+)", sio[-1]) if sio and sio[-1].startswith("ret=") else None
        got = sq.dy(m.group(1)) if m else None
        if got is None or abs(got - 2) > Fraction(1, 1000):
            listed = [k for k in common.load_known() if k.get("status") == "open" and k.get("property") == PROP and k.get("id") == "smpte-division"]
            if listed and got is not None:
                ctx.known("%s (reported length %s s, the file's is 2 s)" % (listed[0]["what"], float(got)))
            else:
                ctx.violate("monitor", "# a file with an SMPTE time division (25 fps x 40 ticks per frame) reports the length %s instead of 2 s\n%s\n" % (got, "\n".join(sh)))
    ndiff = sq.compare(ctx, PROP, [h for h, _ in hs], res)
    ctx.cov.update({"evaluations": sum(len(h) for h, _ in hs), "histories": len(hs), "events_delivered": nev, "disagreements": ndiff, "monitor_failures": nfail,
                    "traces_validated_against_impl": sum(1 for (h, _), (io, mo) in zip(hs, res) for k in range(len(h)) if mo[k] is not None) - ndiff,
                    "distinct_nontrivial": len(set(sq.ev_of(io[meta.get("obs", 0)]) for (h, meta), (io, mo) in zip(hs, res) if io)),
                    "input_distribution": dict(kinds), "exhaustive": False,
                    "rule": "generated well-formed SMF/RMI files (1..4 tracks, formats 0/1, divisions 1..32767, tempo maps, running status, same-tick clusters, SysEx, metas, loop "
                            "markers) played through opn2_tickEvents and opn2_play; a Python reference (exact rational tempo map) gives every event's time; clauses checked on the raw "
                            "event hook and on the interposed calls into the synthesizer: multiset equality, time, same-tick order, length, end, track/solo/channel gating, tempo "
                            "multiplier, frame accuracy of rendering; every observation is also compared with the Lean sequencer model"})
    return ctx.finish(trusted_extra=["the Python reference interpretation of SMF (tempo map in exact rationals) used by the monitors",
                                     "IEEE double arithmetic is modelled as exact rational arithmetic followed by round-to-nearest-even (no overflow/denormals at these magnitudes)"],
                      assumptions=["tempo events are in track 0 (well-formed format 0/1 files)", "each track uses its own MIDI channels in the generated files (to attribute events to tracks)"])
