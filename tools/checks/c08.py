"""C08 — Seeking equals playing up to the target, minus the sounding notes."""
import re, collections
from fractions import Fraction
from .base import Ctx
import common, gen_smf
from . import seq_common as sq
from . import c07

PROP = "C08"
MODULE = "OpnVerif.Props.C08"
GRAN = "1:-24"
# The loop-begin position is remembered in the middle of the tick call that meets it, so after every wrap-around the reported position (and the
# delivery of the first events of the loop) is off by up to the size of that one call.  The linear reference therefore starts with a 1 ms call,
# and positions / event times of looped runs are compared to within 2 ms.
STEP = Fraction(1, 1024)
FIRST = "tick 1:-10 " + GRAN
LOOP_TOL = Fraction(1, 500)


def pick_targets(song, rng, n):
    """seek targets well inside gaps between event times (so that 'events up to t' is unambiguous for both drivers)"""
    times = sorted(set(t for (t, ti, i, raw, d, tick) in gen_smf.reference_timeline(song) if d[0] != "eot"))
    gaps = [(a, b) for a, b in zip(times, times[1:]) if b - a > Fraction(1, 500)]
    rng.shuffle(gaps)
    out = []
    for (a, b) in gaps[:n]:
        mid = a + (b - a) * Fraction(rng.choice([1, 2, 3]), 4)
        out.append(Fraction(float(mid)))          # a double
    return out


def ctl_fields(line):
    """per-channel controller state from a `ctl` observation"""
    m = re.search(r"notes=(\d+) users=(\d+) mode=(\d+) mv=(\d+)(.*)", line)
    if not m:
        return None
    # synthesizer mode and master volume are instance-wide, not MIDI channel controller state: not compared
    return int(m.group(1)), int(m.group(2)), "-", "-", m.group(5).strip()


def events_after(line):
    evs = sq.parse_events(sq.ev_of(line))
    return [(tag, sq.dy(st), tuple(f)) for (tag, st, f) in evs]


def histories(ctx):
    rng = ctx.rng
    quick = ctx.tier == "quick"
    hs = []
    for i in range(30 if quick else 300):
        song = c07.gen_song(rng, loops="none")
        song.loops = None
        img = song.encode(running_status=rng.random() < 0.5)
        load = sq.PREFIX + ["opendata " + img.hex()]
        targets = pick_targets(song, rng, 2 if quick else 4)
        total = max(t[0] for t in gen_smf.reference_timeline(song))
        for t in targets:
            ts = sq.dystr(t)
            A = load + ["tick %s %s" % (ts, GRAN), "ctl", "tickall 200000 " + GRAN]
            B = load + ["seek " + ts, "ctl", "tickall 200000 " + GRAN]
            far = sq.dystr(Fraction(float(t + (total - t) * Fraction(3, 4))))
            C = load + ["tick %s %s" % (far, GRAN), "seek " + ts, "ctl", "tickall 200000 " + GRAN]
            case = {"song": song, "t": t, "A": A, "B": B, "C": C}
            if t == targets[0]:
                # the same with a tempo multiplier: seek targets are song time, only ticking is scaled
                m = rng.choice(["1:1", "1:-1", "1:2"])
                mv = sq.dy(m)
                case["m"] = mv
                case["TA"] = load + ["tempo " + m, "tick %s %s" % (sq.dystr(t / mv), GRAN), "ctl", "tickall 200000 " + GRAN]
                case["TB"] = load + ["tempo " + m, "seek " + ts, "ctl", "tickall 200000 " + GRAN]
            hs.append(case)
        # with looping on: the seek must leave the loop bookkeeping as linear playback has it (the wrap-around afterwards delivers the same events)
        if i % 3 == 0:
            lsong = c07.gen_song(rng, loops=["none", "end-only", "start-only", "markers", "cc111"][(i // 3) % 5])
            limg = lsong.encode()
            lload = sq.PREFIX + ["opendata " + limg.hex(), "loop 1"]
            ltl = gen_smf.reference_timeline(lsong)
            ltot = max(t[0] for t in ltl)
            lend = min([x[0] for x in ltl if x[4][0] == "loopend"] + [ltot])        # linear playback never gets behind the loop end
            lstart = max([x[0] for x in ltl if x[4][0] == "loopstart"] + [Fraction(0)])
            body = [x for x in ltl if lstart < x[0] < lend and x[4][0] in ("on", "off", "cc", "pc", "bend")]
            if not body:
                continue                      # a loop without anything in it (markers at the very end): what repeats is decided by C09's cases, not here
            for t in [x for x in pick_targets(lsong, rng, 6) if STEP * 2 < x < lend][:1]:
                ts = sq.dystr(t)
                dur = sq.dystr(Fraction(float(ltot * 2 + 1)))                         # at least two wrap-arounds
                hs.append({"song": lsong, "t": t, "loop": True,
                           "A": lload + [FIRST, "tick %s %s" % (sq.dystr(t - STEP), GRAN), "ctl", "tick %s %s" % (dur, GRAN)],
                           "B": lload + ["tell", "seek " + ts, "ctl", "tick %s %s" % (dur, GRAN)],
                           "C": lload + [FIRST, "tick %s %s" % (sq.dystr(Fraction(float(ltot * Fraction(5, 4)))), GRAN), "seek " + ts, "ctl", "tick %s %s" % (dur, GRAN)],
                           "PA": lload + [FIRST, "tick %s %s" % (sq.dystr(t - STEP), GRAN), "tick %s %s" % (dur, GRAN), "tell"],
                           "PB": lload + ["seek " + ts, "tick %s %s" % (dur, GRAN), "tell"]})
        # beyond the end, negative
        beyond = sq.dystr(Fraction(float(total + 5)))
        D = load + ["tick 1:-3 " + GRAN, "seek " + beyond, "tell", "tickall 200000 " + GRAN]
        E = load + ["tick 1:-3 " + GRAN, "tell", "seek -1:0", "tell", "ctl"]
        hs.append({"song": song, "t": None, "D": D, "E": E, "lin": load + ["tickall 200000 " + GRAN]})
    return hs


def same_events(a, b, tol=Fraction(1, 10**6)):
    if len(a) != len(b):
        return "the seek run delivers %d events afterwards, the linear run %d" % (len(b), len(a))
    for x, y in zip(a, b):
        if x[0] != y[0] or x[2] != y[2]:
            return "event %s %s in the linear run, %s %s after the seek" % (x[0], x[2], y[0], y[2])
        if abs(x[1] - y[1]) > tol:
            return "event %s %s at song time %.9f in the linear run, %.9f after the seek" % (x[0], x[2], float(x[1]), float(y[1]))
    return None


def run(tier, replay=None):
    ctx = Ctx(PROP, tier)
    if ctx.translate():
        ctx.prove(MODULE)
    if replay:
        lines = [l for l in open(replay).read().split("\n") if l.strip() and not l.startswith("#")]
        flat = [lines]
        cases = []
    else:
        cases = histories(ctx)
        # regression inputs: `... opendata X / tick far / seek t / ctl`; the reference is the same load followed by `tick t / ctl`
        import glob, os
        for f in sorted(glob.glob(os.path.join(common.VERIF, "corpus", PROP, "*.ops"))):
            ops = [l for l in open(f).read().split("\n") if l.strip() and not l.startswith("#")]
            k = max(i for i, o in enumerate(ops) if o.startswith("seek "))
            j = max(i for i, o in enumerate(ops[:k]) if o.startswith("opendata "))
            t = sq.dy(ops[k].split()[1]) if ":" in ops[k].split()[1] else Fraction(float(ops[k].split()[1]))
            ts = sq.dystr(Fraction(float(t)))
            if "loop 1" in ops[:k]:
                # looped regression input: `... opendata X / loop 1 / seek t / tick dur`
                dur = ops[k + 1].split()[1]
                pre = ops[:k]
                tt = Fraction(float(t))
                cases.insert(0, {"song": None, "t": tt, "loop": True,
                                 "A": pre + [FIRST, "tick %s %s" % (sq.dystr(tt - STEP), GRAN), "ctl", "tick %s %s" % (dur, GRAN)],
                                 "B": pre + ["seek " + ts, "ctl", "tick %s %s" % (dur, GRAN)],
                                 "C": pre + ["seek " + ts, "ctl", "tick %s %s" % (dur, GRAN)],
                                 "PA": pre + [FIRST, "tick %s %s" % (sq.dystr(tt - STEP), GRAN), "tick %s %s" % (dur, GRAN), "tell"],
                                 "PB": pre + ["seek " + ts, "tick %s %s" % (dur, GRAN), "tell"]})
                continue
            B = ops[:k] + ["seek " + ts, "ctl", "tickall 200000 " + GRAN]
            A = ops[:j + 1] + ["tick %s %s" % (ts, GRAN), "ctl", "tickall 200000 " + GRAN]
            cases.insert(0, {"song": None, "t": Fraction(float(t)), "A": A, "B": B, "C": B})
        flat = []
        for c in cases:
            for k in ("A", "B", "C", "TA", "TB", "D", "E", "lin", "PA", "PB"):
                if k in c:
                    flat.append(c[k])
    res = sq.run(flat)
    idx = 0
    nfail = 0
    def fail(why, h):
        nonlocal nfail
        nfail += 1
        if nfail <= 3:
            ctx.violate("monitor", "# %s\n%s\n" % (why, "\n".join(h)))
    for (io, mo), h in zip(res, flat):
        for r in io:
            if r.startswith("fault=") or r.startswith("skipped"):
                fail("implementation fault: %s" % r[:200], h); break
    for c in cases:
        got = {}
        for k in ("A", "B", "C", "TA", "TB", "D", "E", "lin", "PA", "PB"):
            if k in c:
                got[k] = res[idx][0]; idx += 1
        if c["t"] is not None:
            t = c["t"]
            a_ctl, a_ev = ctl_fields(got["A"][-2]), events_after(got["A"][-1])
            for k in ("B", "C"):
                io = got[k]
                seekline = sq.core(io[-3])
                tell = sq.field(seekline, "tell")
                if tell is None or sq.dy(tell) != t:
                    fail("after seeking to %s the reported position is %s" % (sq.dystr(t), tell), c[k]); continue
                cf = ctl_fields(io[-2])
                if cf is None or a_ctl is None:
                    fail("unparsable controller snapshot", c[k]); continue
                if cf[0] != 0 or cf[1] != 0:
                    fail("%d note(s) / %d chip channel(s) still sounding after the seek" % (cf[0], cf[1]), c[k]); continue
                if cf[2:] != a_ctl[2:]:
                    # which channel differs
                    pa = re.findall(r"ch(\d+)\[([^\]]*)\]", a_ctl[4]); pb = re.findall(r"ch(\d+)\[([^\]]*)\]", cf[4])
                    d = next(((x, y) for x, y in zip(pa, pb) if x != y), None)
                    fail("controller state after seeking to %.6f s%s differs from linear playback to that time: %s (linear) vs %s (seek); fields: patch,msb,lsb,volume,expression,pan,bend,sens msb,sens lsb,sustain,soft,lrpn,mrpn,nrpn,vibrato,aftertouch,portamento,porta-on,brightness,xg-perc" % (
                        float(t), " (after having played further)" if k == "C" else "", d[0] if d else a_ctl[2:4], d[1] if d else cf[2:4]), c[k]); continue
                b_ev = events_after(io[-1])
                if c.get("loop"):
                    # the play window is cut off by the clock, not by the end of the song: events within 10 ms of the cut are delivered or not
                    # depending on the tick granularity, in either run
                    cut = t + sq.dy(c[k][-1].split()[1]) - Fraction(1, 100)
                    a_cmp = [e for e in a_ev if e[1] < cut]
                    b_ev = [e for e in b_ev if e[1] < cut]
                else:
                    a_cmp = a_ev
                why = same_events(a_cmp, b_ev, LOOP_TOL if c.get("loop") else Fraction(1, 10**6))
                if why:
                    fail("after seeking to %.6f s: %s" % (float(t), why), c[k])
            if "PA" in got:
                pa, pb = sq.core(got["PA"][-1]), sq.core(got["PB"][-1])
                try:
                    da = abs(sq.dy(pa.split("=")[1]) - sq.dy(pb.split("=")[1]))
                except Exception:
                    da = None
                if da is None or da > LOOP_TOL:
                    fail("with looping on, after seeking to %.6f s and playing %s s the position is %s, after linear playback of the same time %s" % (
                        float(t), float(sq.dy(c["PB"][-2].split()[1])), pb, pa), c["PB"])
            if "TA" in got:
                m = c["m"]
                ta_ctl, ta_ev = ctl_fields(got["TA"][-2]), events_after(got["TA"][-1])
                io = got["TB"]
                tell = sq.field(sq.core(io[-3]), "tell")
                cf = ctl_fields(io[-2])
                if tell is None or sq.dy(tell) != t:
                    fail("with tempo multiplier %s: after seeking to %s the reported position is %s" % (float(m), sq.dystr(t), tell), c["TB"])
                elif cf is None or ta_ctl is None or cf[2:] != ta_ctl[2:] or cf[0] != 0:
                    fail("with tempo multiplier %s: controller state after seeking to %.6f s differs from linear playback to that song time (or notes still sound)" % (float(m), float(t)), c["TB"])
                else:
                    # real-time stamps: the linear run stands at t/m, the seek run's clock was set to the song position t
                    why = same_events([(a, b - t / m, f) for (a, b, f) in ta_ev], [(a, b - t, f) for (a, b, f) in events_after(io[-1])])
                    if why:
                        fail("with tempo multiplier %s, after seeking to %.6f s: %s" % (float(m), float(t), why), c["TB"])
        else:
            D, E, lin = got["D"], got["E"], got["lin"]
            if sq.core(D[-2]) != "ret=0:0":
                fail("seeking beyond the end does not rewind: position %s" % sq.core(D[-2]), c["D"])
            else:
                why = same_events([(a, b - 0, f) for (a, b, f) in events_after(lin[-1])], events_after(D[-1]))
                if why:
                    fail("after seeking beyond the end (rewind): %s" % why, c["D"])
            if sq.core(E[-4]) != sq.core(E[-2]):
                fail("a negative seek target moved the position from %s to %s" % (sq.core(E[-4]), sq.core(E[-2])), c["E"])
    ndiff = sq.compare(ctx, PROP, flat, res)
    ctx.cov.update({"evaluations": sum(len(h) for h in flat), "histories": len(flat), "seek_targets": sum(1 for c in cases if c["t"] is not None),
                    "disagreements": ndiff, "monitor_failures": nfail, "exhaustive": False,
                    "traces_validated_against_impl": sum(1 for (io, mo) in res for m in mo if m is not None) - ndiff,
                    "distinct_nontrivial": len(set(io[-1][:200] for (io, mo) in res if io)),
                    "rule": "for generated SMFs and targets inside gaps of the event times: run A plays linearly to t (one opn2_tickEvents call), run B seeks to t on a fresh load, run C plays "
                            "3/4 of the rest first and then seeks back to t; clauses: tell == t, no note / chip channel in use, the 20 controller fields of all MIDI channels equal A's, "
                            "the events delivered afterwards (raw hook + calls into the synthesizer) equal A's with the same song times; beyond the end = rewind, negative = ignored; "
                            "every observation is compared with the Lean sequencer model"})
    return ctx.finish(trusted_extra=["controller state is read through the OPNMIDI_VERIF friend access (MIDIchannel fields)"],
                      assumptions=["targets are at least 0.5 ms away from every event time (the two drivers round 'up to t' with different granularities)"])
