"""C09 — Loop points: the marked section repeats exactly as often as requested."""
import re, collections
from fractions import Fraction
from .base import Ctx
import common, gen_smf
from . import seq_common as sq
from . import c07

PROP = "C09"
MODULE = "OpnVerif.Props.C09"
GRAN = "1:-24"


def loop_song(rng, kind):
    """a song on a tick grid with unique, recognisable events; returns (song, startTick or None, endTick or None, valid)"""
    div = rng.choice([24, 96, 480])
    ntr = rng.choice([1, 2, 3])
    s = gen_smf.Song(div, 1 if ntr > 1 else rng.choice([0, 1]))
    length = rng.choice([8, 12, 16]) * div
    S = rng.randrange(1, length // (2 * div)) * div if kind != "start0" else 0
    E = rng.randrange(length // (2 * div) + 1, length // div) * div
    uid = [0]
    for t in range(ntr):
        evs = []
        if t == 0:
            evs.append((0, b"\xff\x51\x03\x07\xa1\x20", ("tempo",)))
        tick = 0
        while tick < length:
            if rng.random() < 0.7 and tick != E:
                ch = (t * 4 + rng.randrange(4)) & 15
                uid[0] += 1
                c = rng.random()
                if c < 0.5:
                    key = 30 + uid[0] % 60
                    evs.append((tick, bytes([0x90 | ch, key, 1 + uid[0] % 120]), ("on", ch, key)))
                    off = tick + div // 4
                    if off != E:
                        evs.append((off, bytes([0x80 | ch, key, 0]), ("off", ch, key)))
                else:
                    evs.append((tick, bytes([0xB0 | ch, rng.choice([7, 10, 11, 1]), uid[0] % 128]), ("cc", ch)))
            tick += div // 2
        evs.sort(key=lambda x: x[0])
        evs.append((length, b"\xff\x2f\x00", ("eot",)))
        s.tracks.append(evs)
    def insert(track, tick, raw, d):
        evs = s.tracks[track]
        i = 0
        while i < len(evs) - 1 and evs[i][0] <= tick:
            i += 1
        evs.insert(i, (tick, raw, d))
    start = end = None
    valid = True
    tk = rng.randrange(ntr)
    mk = lambda txt: b"\xff\x06" + gen_smf.vlq(len(txt)) + txt
    if kind in ("both", "start0"):
        insert(tk, S, mk(rng.choice([b"loopStart", b"LOOPSTART"])), ("loopstart",)); insert(rng.randrange(ntr), E, mk(b"loopEnd"), ("loopend",)); start, end = S, E
    elif kind == "cc111":
        insert(tk, S, bytes([0xB0 | (tk * 4), 111, 0]), ("loopstart",)); start = S
    elif kind == "start-only":
        insert(tk, S, mk(b"loopStart"), ("loopstart",)); start = S
    elif kind == "end-only":
        insert(tk, E, mk(b"loopEnd"), ("loopend",)); end = E
    elif kind == "reversed":
        insert(tk, E, mk(b"loopStart"), ("loopstart",)); insert(tk, S, mk(b"loopEnd"), ("loopend",)); valid = False
    elif kind == "dup-start":
        insert(tk, S, mk(b"loopStart"), ("loopstart",)); insert(tk, S + div, mk(b"loopStart"), ("loopstart",)); insert(tk, E, mk(b"loopEnd"), ("loopend",)); valid = False
    elif kind == "dup-end":
        insert(tk, S, mk(b"loopStart"), ("loopstart",)); insert(tk, E - div, mk(b"loopEnd"), ("loopend",)); insert(tk, E, mk(b"loopEnd"), ("loopend",)); valid = False
    elif kind == "start-at-end":
        insert(tk, length, mk(b"loopStart"), ("loopstart",)); valid = False          # end (= song end) not after start
    elif kind == "same-tick-tracks":
        insert(0, S, mk(b"loopStart"), ("loopstart",)); insert(ntr - 1, S, mk(b"loopEnd"), ("loopend",)); valid = False
    s.kind = kind
    return s, start, end, valid


def expected_counts(song, start, end, valid, enabled, n):
    """how often every file event must be delivered: dict canon -> count"""
    want = collections.Counter()
    length = max(evs[-1][0] for evs in song.tracks)
    if not enabled:
        lo, hi, reps = None, None, 1
    elif not valid or (start is None and end is None):
        lo, hi, reps = 0, length + 1, n            # the whole song is the loop body
    else:
        lo = start if start is not None else 0
        hi = end if end is not None else length + 1
        reps = n
    for evs in song.tracks:
        for idx, (tick, raw, d) in enumerate(evs):
            c = c07.canon(raw)
            if d[0] == "eot" and idx > 0 and evs[idx - 1][0] != tick:
                tick = evs[idx - 1][0]                 # an End-of-Track alone at its tick is delivered with the preceding event
            k = reps if (lo is not None and lo <= tick < hi) else 1
            if d[0] == "loopend" and enabled and valid:
                k = reps                               # the end marker itself is met on every pass
            want[c] += k
    return want


def histories(ctx):
    rng = ctx.rng
    quick = ctx.tier == "quick"
    hs = []
    kinds = ["both", "start0", "cc111", "start-only", "end-only", "none", "reversed", "dup-start", "dup-end", "start-at-end", "same-tick-tracks"]
    for i in range(66 if quick else 700):
        kind = kinds[i % len(kinds)]
        song, start, end, valid = loop_song(rng, kind)
        img = song.encode()
        n = rng.choice([1, 2, 3])
        hooks = ["hook loopstart 1", "hook loopend 1"]
        h = sq.PREFIX + hooks + ["loop 1", "loopcount %d" % n, "opendata " + img.hex(), "loopstart", "loopend", "tickall 400000 " + GRAN, "atend"]
        hs.append((h, {"song": song, "start": start, "end": end, "valid": valid, "enabled": True, "n": n, "obs": len(h) - 2, "kind": kind}))
        if i % 3 == 0:
            h2 = sq.PREFIX + hooks + ["loop 0", "loopcount %d" % n, "opendata " + img.hex(), "loopstart", "loopend", "tickall 400000 " + GRAN, "atend"]
            hs.append((h2, {"song": song, "start": start, "end": end, "valid": valid, "enabled": False, "n": n, "obs": len(h2) - 2, "kind": kind + "/disabled"}))
        if i % 3 == 1:
            # hooks registered before a reset and a (re)load stay registered
            h3 = sq.PREFIX + hooks + ["loop 1", "loopcount 2", "reset", "opendata " + img.hex(), "opendata " + img.hex(), "loopstart", "loopend", "tickall 400000 " + GRAN, "atend"]
            hs.append((h3, {"song": song, "start": start, "end": end, "valid": valid, "enabled": True, "n": 2, "obs": len(h3) - 2, "kind": kind + "/reset"}))
        if i % 4 == 1:
            # a seek into the one-second tail behind the last event runs into the end and rewinds: looping stays in force
            latest = max(t[0] for t in gen_smf.reference_timeline(song) if t[4][0] != "eot")
            tgt = sq.dystr(Fraction(float(latest + Fraction(1, 2))))
            h5 = sq.PREFIX + hooks + ["loop 1", "loopcount %d" % n, "opendata " + img.hex(), "seek " + tgt, "loopend", "tickall 400000 " + GRAN, "atend"]
            hs.append((h5, {"song": song, "start": start, "end": end, "valid": valid, "enabled": True, "n": n, "obs": len(h5) - 2, "kind": kind + "/seek-tail"}))
        if i % 4 == 2:
            # the count is changed after the load; the song is then started over: the new count is the one in force
            n0 = rng.choice([x for x in (1, 2, 3, 4) if x != n])
            h6 = sq.PREFIX + hooks + ["loop 1", "loopcount %d" % n0, "opendata " + img.hex(), "loopcount %d" % n, "rewind", "loopend", "tickall 400000 " + GRAN, "atend"]
            hs.append((h6, {"song": song, "start": start, "end": end, "valid": valid, "enabled": True, "n": n, "obs": len(h6) - 2, "kind": kind + "/recount"}))
        if i % 3 == 2:
            # endless repetition: still not at the end after many passes
            h4 = sq.PREFIX + hooks + ["loop 1", "loopcount -1", "opendata " + img.hex(), "loopstart", "loopend", "tickall 3000 " + GRAN, "atend"]
            hs.append((h4, {"song": song, "start": start, "end": end, "valid": valid, "enabled": True, "n": -1, "obs": len(h4) - 2, "kind": kind + "/endless"}))
    return hs


def run(tier, replay=None):
    ctx = Ctx(PROP, tier)
    if ctx.translate():
        ctx.prove(MODULE)
    if replay:
        lines = [l for l in open(replay).read().split("\n") if l.strip() and not l.startswith("#")]
        hs = [(lines, None)]
    else:
        hs = histories(ctx)
    res = sq.run([h for h, _ in hs])
    nfail = 0
    known_hits = []
    kinds = collections.Counter()
    for (h, meta), (io, mo) in zip(hs, res):
        fails = []
        for r in io:
            if r.startswith("fault=") or r.startswith("skipped"):
                fails.append("implementation fault: %s" % r[:200]); break
        if meta is not None and not fails:
            kinds[meta["kind"]] += 1
            line = io[meta["obs"]]
            evs = sq.parse_events(sq.ev_of(line))
            E = [tuple(f) for (tag, st, f) in evs if tag == "E"]
            if E and E[0][:2] == ("255", "1") and E[0][3] == "-":
                pass
            got = collections.Counter((int(f[0]), int(f[1]), int(f[2]), f[3]) for f in E)
            nbegin = got.pop((255, 1, 0, "-"), 0)
            n = meta["n"]
            atend = sq.core(io[meta["obs"] + 1])
            LS = sum(1 for (tag, st, f) in evs if tag == "LS")
            LE = sum(1 for (tag, st, f) in evs if tag == "LE")
            # every jump back (= every loop-end hook that is not the final one) is followed by All-Notes-Off on the 16 channels
            seq = [(tag, tuple(f)) for (tag, st, f) in evs if tag in ("LE", "R")]
            for k, (tag, f) in enumerate(seq):
                if tag == "LE":
                    if k + 17 > len(seq) and re.search(r"\+\d+$", sq.ev_of(line)):
                        continue                       # the harness log was cut off here (entry cap)
                    nxt = [x for x in seq[k + 1:k + 17]]
                    if [x[1][:4] for x in nxt if x[0] == "R"] != [("11", str(c), "123", "0") for c in range(16)]:
                        fails.append("arrival at the loop end / song end is not followed by All-Notes-Off on all 16 channels"); break
            if n == -1:
                if atend != "ret=0":
                    fails.append("endless looping reported the end of the song")
                body = [c for c, k in expected_counts(meta["song"], meta["start"], meta["end"], meta["valid"], True, 2).items() if k == 2 and c[0] in (9, 11)]
                if body and min(got[c] for c in body) < 3:
                    fails.append("with loop count -1 a body event was delivered only %d times in 3000 steps" % min(got[c] for c in body))
            else:
                want = expected_counts(meta["song"], meta["start"], meta["end"], meta["valid"], meta["enabled"], n)
                if got != want:
                    miss = [(c, want[c], got[c]) for c in want if want[c] != got[c]][:3]
                    extra = [(c, got[c]) for c in got if c not in want][:2]
                    fails.append("loop count %d, loop %s, markers %s (start tick %s, end tick %s): deliveries differ: (event, expected, delivered) %s; unexpected %s" % (
                        n, "enabled" if meta["enabled"] else "disabled", meta["kind"], meta["start"], meta["end"], miss, extra))
                if atend != "ret=1":
                    fails.append("the end of the song is not reported after the requested passes")
                # hooks: loop end once per arrival at the loop end or the song end
                explicit_end = meta["enabled"] and meta["valid"] and meta["end"] is not None
                want_le = (n + 1) if explicit_end else (n if meta["enabled"] else 1)
                if LE != want_le:
                    fails.append("loop-end hook fired %d times, expected %d (count %d, %s)" % (LE, want_le, n, meta["kind"]))
                explicit_start = meta["enabled"] and meta["valid"] and meta["start"] is not None
                want_ls = n if (meta["enabled"]) else 0
                rewound = meta["kind"].endswith(("/seek-tail", "/recount"))
                if LS != want_ls:
                    if meta["enabled"] and ((not explicit_start and LS == (1 if rewound else 0)) or (explicit_start and rewound and LS == want_ls + 1)):
                        known_hits.append("%s: loop-start hook fired %d times in %d passes" % (meta["kind"], LS, n))
                    else:
                        fails.append("loop-start hook fired %d times, expected %d (count %d, %s)" % (LS, want_ls, n, meta["kind"]))
        for f in fails[:1]:
            nfail += 1
            if nfail <= 3:
                ctx.violate("monitor", "# %s\n%s\n" % (f, "\n".join(h)))
    if known_hits:
        listed = [k for k in common.load_known() if k.get("status") == "open" and k.get("property") == PROP and k.get("id") == "loopstart-hook-implicit-start"]
        if listed:
            ctx.known("%s (%d occurrences, e.g. %s)" % (listed[0]["what"], len(known_hits), known_hits[0]))
        else:
            ctx.violate("monitor", "# %s\n" % known_hits[0])
    # ---- directed case: an event written behind the loopEnd marker at the marker's own tick belongs to "everything after the loop end":
    # it is due once, on the last pass
    if not replay:
        trk = bytes.fromhex("00ff0609") + b"loopStart" + bytes.fromhex("00903c64" + "60803c00" + "00ff0607") + b"loopEnd" + bytes.fromhex("00904864" + "60804800" + "00ff2f00")
        img = b"MThd" + (6).to_bytes(4, "big") + bytes([0, 0, 0, 1, 0, 96]) + b"MTrk" + len(trk).to_bytes(4, "big") + trk
        dh = sq.PREFIX + ["loop 1", "loopcount 2", "opendata " + img.hex(), "tickall 200000 " + GRAN]
        (dio, dmo), = sq.run([dh])
        devs = sq.parse_events(sq.ev_of(dio[-1])) if dio and dio[-1].startswith("ret=") else []
        n72 = sum(1 for (tag, st, f) in devs if tag == "E" and f[0] == "9" and f[3].startswith("48"))
        n60 = sum(1 for (tag, st, f) in devs if tag == "E" and f[0] == "9" and f[3].startswith("3c"))
        if n60 != 2 or n72 != 1:
            listed = [k for k in common.load_known() if k.get("status") == "open" and k.get("property") == PROP and k.get("id") == "event-behind-loopend-same-tick"]
            if listed and n60 == 2 and n72 == 0:
                ctx.known("%s (directed case: the note-on behind the marker was delivered %d times)" % (listed[0]["what"], n72))
            else:
                ctx.violate("monitor", "# loop count 2: the body note-on was delivered %d times (2 expected), the note-on written behind the loopEnd marker at its tick %d times (1 expected)\n%s\n" % (n60, n72, "\n".join(dh)))
    ndiff = sq.compare(ctx, PROP, [h for h, _ in hs], res)
    ctx.cov.update({"evaluations": sum(len(h) for h, _ in hs), "histories": len(hs), "disagreements": ndiff, "monitor_failures": nfail, "exhaustive": False,
                    "traces_validated_against_impl": sum(1 for (io, mo) in res for m in mo if m is not None) - ndiff,
                    "distinct_nontrivial": len(set(io[-2][:300] for (io, mo) in res if len(io) > 1)), "input_distribution": dict(kinds),
                    "rule": "songs on a tick grid with unique events and loop points given by markers / CC111 / only one of them / none / reversed / duplicated; loop enabled with "
                            "count 1..3, disabled, endless, hooks registered before reset and reload; per file event the number of deliveries must be count x inside [start, end), once "
                            "elsewhere; end reported; hook counts; All-Notes-Off on 16 channels after every arrival; all observations compared with the Lean sequencer model"})
    return ctx.finish(assumptions=["no other event shares the tick of the loop end marker (what happens to same-tick neighbours of the end marker depends on row sorting)"])
