"""C10 — Programmed pitch = key + bend*range + instrument offset (in tune)."""
import os, re, math, decimal, fractions
from .base import Ctx
import common

PROP = "C10"
MODULE = "OpnVerif.Props.C10"
D = decimal.Decimal


def gen_consts():
    txt = open(os.path.join(common.LEAN, "OpnVerif", "Gen", "Pitch.lean")).read()
    def rat(name):
        m = re.search(r"def %s : Rat := \(?\(?(-?\d+) : Rat\)(?: / (\d+)\))?" % name, txt)
        return fractions.Fraction(int(m.group(1)), int(m.group(2) or 1))
    def nat(name):
        return int(re.search(r"def %s : Nat := (\d+)" % name, txt).group(1))
    return {"c": rat("pitchC"), "coef": [rat("coefOPN2"), rat("coefOPNA")], "limit": rat("pitchHertzLimit"),
            "clock": [nat("clockOPN2"), nat("clockOPNA")], "t2": rat("pitchT2")}


def dy(s):
    m, e = s.split(":")
    return fractions.Fraction(int(m)) * (fractions.Fraction(2) ** int(e))


def gen_ops(ctx):
    rng = ctx.rng
    quick = ctx.tier == "quick"
    ops = []
    bends = [0, 1, 4096, 8191, 8192, 8193, 12288, 16383]
    ranges = [(2, 0), (12, 0), (24, 0), (0, 0), (0, 50), (1, 127), (127, 127)]
    offs = [0, 12, -12, 1, -1, 24, -24, 100, -100]
    def op(fam, key, bend, rng_, off, muls, perc=0, dk=0):
        return "pitch %d %d %d %d %d %d %d %d %d %d %d %d" % (fam, key, bend, rng_[0], rng_[1], off, muls[0], muls[1], muls[2], muls[3], perc, dk)
    def rmul():
        return [rng.choice([0, 1, 2, 7, 14, 15, 0x71, 0x7f, 255, rng.randrange(256)]) for _ in range(4)]
    # every key, both families, centre bend (the chromatic scale)
    for fam in (0, 1):
        for key in range(128):
            ops.append(op(fam, key, 8192, (2, 0), 0, [1, 1, 1, 1]))
    # lattice sample
    n = 2500 if quick else 60000
    for _ in range(n):
        ops.append(op(rng.randrange(2), rng.randrange(128), rng.choice(bends + [rng.randrange(16384)]), rng.choice(ranges),
                      rng.choice(offs + [rng.randrange(-130, 130)]), rmul()))
    # all 16384 bend values for a few keys (thorough) / every 64th (quick)
    for key in ((60,) if quick else (0, 36, 60, 69, 96, 127)):
        for b in range(0, 16384, 64 if quick else 1):
            ops.append(op(rng.randrange(2), key, b, (2, 0) if b % 2 else (12, 0), 0, [1, 2, 3, 4]))
    # percussion: drum key fixes the pitch (drum keys >= 128 mean key - 128)
    for _ in range(150 if quick else 3000):
        ops.append(op(rng.randrange(2), rng.randrange(128), rng.choice(bends), rng.choice(ranges), rng.choice(offs), rmul(), 1,
                      rng.choice([0, 1, 35, 60, 127, 128, 129, 200, 255])))
    # beyond the native range and beyond the refused range (instrument offsets up to int16)
    for off in [130, 150, 190, 200, 203, 204, 205, 210, 300, 1000, 2400, 12000, 12288, 20000, 32767, -200, -1000, -12288, -32768]:
        for key in (0, 60, 127):
            ops.append(op(rng.randrange(2), key, rng.choice(bends), (2, 0), off, rmul()))
    return ops


def parse(line):
    kv = dict(x.split("=", 1) for x in line.split() if "=" in x)
    return kv


def run(tier, replay=None):
    ctx = Ctx(PROP, tier)
    if ctx.translate():
        ctx.prove(MODULE)
    C = gen_consts()
    if replay:
        ops = [l for l in open(replay).read().split("\n") if l.strip() and not l.startswith("#")]
    else:
        ops = gen_ops(ctx)
    impl, _ = common.run_impl("pitch", "\n".join(ops) + "\n", stateless=True)
    decimal.getcontext().prec = 50
    cD = D(C["c"].numerator) / D(C["c"].denominator)
    mops, midx = [], []
    fails, kernel_bad, ambiguous = [], 0, 0
    seen_search = 0
    mono = {0: [], 1: []}
    for i, (o, r) in enumerate(zip(ops, impl)):
        a = [int(x) for x in o.split()[1:]]
        fam, key, bend14, bm, bl, off, muls, perc, dk = a[0], a[1], a[2], a[3], a[4], a[5], a[6:10], a[10], a[11]
        if r.startswith("fault="):
            fails.append(("implementation fault %s" % r, [i])); continue
        kv = parse(r)
        k2 = min(key, 127)
        if perc and dk:
            k2 = dk - 128 if dk >= 128 else dk
        tone = fractions.Fraction(k2 + off) + fractions.Fraction((bend14 - 8192) * (bm * 128 + bl), 1048576)
        pre = (cD * (D(tone.numerator) / D(tone.denominator))).exp()           # exp(c*tone), 50 digits
        lim = D(C["limit"].numerator)
        if "nosearch" in r:
            if pre < lim * (1 - D("1e-12")):
                fails.append(("note-on inside the frequency range wrote no frequency (tone %s)" % float(tone), [i]))
            continue
        if pre > lim * (1 - D("1e-12")):
            # beyond the chip's range: the note is keyed on at the limit frequency (the property speaks about the native range only)
            if kv.get("calls") != "1" or kv.get("keyon") != "1":
                fails.append(("note-on beyond the frequency range did not key the channel on exactly once (%s)" % r[:80], [i]))
            continue
        seen_search += 1
        if kv.get("calls") != "1" or kv.get("keyon") != "1":
            fails.append(("note-on did not programme frequency + key-on exactly once (%s)" % r[:80], [i]))
        # (1) tone: exact
        t_impl = dy(kv["tone"])
        if t_impl != tone:
            fails.append(("tone handed to the chip layer %s differs from key+offset+bend*range = %s" % (float(t_impl), float(tone)), [i]))
        # (2) exp kernel + coefficient, sampled accuracy
        h = dy(kv["hertz"])
        coef = C["coef"][fam]
        expect = pre * D(coef.numerator) / D(coef.denominator)
        rel = abs(D(h.numerator) / D(h.denominator) - expect) / expect
        # the product c*tone is rounded before exp: relative error up to |c*tone| * 2^-53, plus exp and the final product
        xabs = abs(cD * (D(tone.numerator) / D(tone.denominator)))
        if expect < D("1e-290"):
            pass        # exp underflows towards 0 / subnormals: the F-number is 0 either way
        elif rel > (xabs + 3) * D("2.3e-16"):
            kernel_bad += 1
            fails.append(("coef*exp(c*tone) off by relative %s" % rel, [i]))
        # (3) the search, bit-exact, on the tapped frequency
        m, e = kv["hertz"].split(":")
        mops.append("search %s %s %d %d %d %d" % (m, e, muls[0], muls[1], muls[2], muls[3])); midx.append(i)
        # direct monitor: within one F-number step of 440*2^((p-69)/12) inside the native range
        ftone = int(kv["ftone"]); block, fnum = ftone >> 11, ftone & 0x7FF
        if h < C["t2"] * 128:
            p = float(tone)
            target = 440.0 * 2 ** ((p - 69) / 12) * 144 * 2 ** 21 / C["clock"][fam]
            if abs(fnum * 2 ** block - target) > 2 ** block:
                fails.append(("block/F-number %d/%d denote %.3f, nominal %.3f: more than one F-number step (%d)" % (block, fnum, fnum * 2 ** block, target, 2 ** block), [i]))
            if [int(x) for x in kv["mul"].split(",")] != [x % 256 for x in muls]:
                fails.append(("multiplier registers rewritten inside the native range", [i]))
            mono[fam].append((tone, fnum * 2 ** block, i))
    for fam in (0, 1):
        seq = sorted(mono[fam])
        for (t1, f1, i1), (t2, f2, i2) in zip(seq, seq[1:]):
            if f2 < f1:
                fails.append(("frequency not monotone in pitch: p=%s -> %d, p=%s -> %d" % (float(t1), f1, float(t2), f2), [i1, i2])); break
    model = []
    try:
        model = common.run_model("pitch", "\n".join(mops) + "\n") if mops else []
    except Exception as ex:
        ctx.broken.append("model driver failed: %s" % str(ex)[:300])
    ndiff, first = 0, None
    for j, i in enumerate(midx):
        kv = parse(impl[i])
        exp_line = "ftone=%s mul=%s" % (kv["ftone"], kv["mul"])
        got = model[j] if j < len(model) else "<missing>"
        if got != exp_line:
            ndiff += 1
            if first is None:
                first = (i, got, exp_line)
    for why, idx in fails[:3]:
        ctx.violate("monitor", "# %s\n# implementation: %s\n%s\n" % (why, " | ".join(impl[i][:160] for i in idx), "\n".join(ops[i] for i in idx)))
    if first is not None:
        i, got, exp_line = first
        ctx.broken.append("correspondence pitch search: %d differing, first at %r: model %r, implementation %r" % (ndiff, ops[i], got, exp_line))
        if not fails:
            common.write_replay(PROP, "divergence", "# model: %s\n# implementation: %s\n%s\n" % (got, impl[i], ops[i]))
    # ---- histories: a pitch-bend message re-pitches every sounding note of its channel at once; what stands on the chip
    # (block/F-number read back through the chip-wide 0xA4 latch) is key + bend*range for every keyed-on voice
    bend_hist = 0
    if not replay:
        import synth_run, synth_gen
        from . import c20
        rng = ctx.rng
        bank = c20.tone_bank().hex()
        hs = []
        for _ in range(6 if tier == "quick" else 60):
            h = ["new 65536 1", "bank " + bank]
            keys = rng.sample([48, 52, 55, 60, 64, 67, 72, 76], 4)
            st = {"bend": 8192, "msb": 2, "lsb": 0}
            exp = []
            for k in keys:
                h.append("on 0 %d 100" % k); exp.append(None)
            for _ in range(12):
                c = rng.random()
                if c < 0.5:
                    st["bend"] = rng.choice([0, 4096, 8192, 12288, 16383, rng.randrange(16384)])
                    h.append("pb 0 %d" % st["bend"]); exp.append(dict(st))
                elif c < 0.8:
                    # the range changes without the wheel moving; the library re-pitches at the next pitch-bend message
                    st["msb"] = rng.choice([1, 2, 7, 12]); st["lsb"] = 0
                    h += ["cc 0 101 0", "cc 0 100 0", "cc 0 6 %d" % st["msb"]]; exp += [None, None, None]
                    h.append("pb 0 %d" % st["bend"]); exp.append(dict(st))
                elif c < 0.9:
                    # the sostenuto pedal marks the held keys; they are still down, so the wheel keeps re-pitching them
                    h.append("cc 0 66 %d" % rng.choice([127, 127, 0])); exp.append(None)
                else:
                    h.append("gen 256"); exp.append(None)
            hs.append((h, keys, exp))
        sops = [o for h, _, _ in hs for o in h]
        simpl, smodel = synth_run.run(sops)
        pos2 = 0
        sd = 0
        for h, keys, exp in hs:
            io = simpl[pos2:pos2 + len(h)]; mo = smodel[pos2:pos2 + len(h)]
            pos2 += len(h)
            for k, (o, r) in enumerate(zip(h, io)):
                if mo[k] != r:
                    sd += 1
                e = exp[k - 2] if k >= 2 else None
                if e is None or not r.startswith("ret="):
                    continue
                bend_hist += 1
                sn = synth_gen.parse_snapshot(r)
                got = sorted(int(x) for x in re.findall(r" c\d+\{k1 koff=-?\d+ f=(\d+) ", r))
                want = []
                for key in keys:
                    p = key + (e["bend"] - 8192) * (e["msb"] * 128 + e["lsb"]) / 1048576.0
                    want.append(440.0 * 2 ** ((p - 69) / 12) * 144 * 2 ** 21 / C["clock"][0])
                want.sort()
                vals = sorted((ft & 0x7FF) * 2 ** (ft >> 11) for ft in got)
                if len(vals) != len(want) or any(abs(v - w) > 1.01 * 2 ** max(0, (len(bin(int(w))) - 2) - 11) + 1 for v, w in zip(vals, want)):
                    fails.append(("after %r the keyed-on voices of channel 0 stand at %s, key + bend*range gives %s (bend %d, range %d)" % (
                        o, vals, [round(w, 1) for w in want], e["bend"], e["msb"]), []))
                    ctx.violate("monitor", "# %s\n%s\n" % (fails[-1][0], "\n".join(x if len(x) < 200 else x[:50] + "..." for x in h[:k + 1])))
                    common.write_replay(PROP, "monitor-full", "\n".join(h[:k + 1]) + "\n")
                    break
        if sd:
            ctx.broken.append("correspondence synth (bend histories): %d differing snapshots" % sd)
        # ---- portamento (implementation only): a key pressed legato glides to its pitch; once the glide has ended (4 s rendered) a
        # pitch-bend message must leave every held key at key + bend*range
        phs = []
        for _ in range(6 if tier == "quick" else 60):
            keys = rng.sample([48, 52, 55, 60, 64, 67, 72, 76], rng.choice([2, 2, 3]))
            # (portamento times of at most 50: the slowest of these glides, 28 semitones, is over well within the four seconds rendered below;
            #  at 80 a twelve-semitone glide takes about three seconds — a first version of this case rendered too little and raised a false alarm)
            h = ["new 65536 1", "bank " + bank, "cc 0 65 127", "cc 0 5 %d" % rng.choice([10, 30, 50])]
            for k in keys:
                h += ["on 0 %d 100" % k, "gen %d" % rng.choice([64, 656, 4096])]
            h += ["gen 65536", "gen 65536", "gen 65536", "gen 65536"]
            b = rng.choice([0, 4096, 8192, 12288, 16383])
            h.append("pb 0 %d" % b)
            phs.append((h, keys, b))
        pops = [o for h, _, _ in phs for o in h]
        pimpl, _ = common.run_impl("synth", "\n".join(pops) + "\n", stateless=False)
        pos3 = 0
        for h, keys, b in phs:
            r = pimpl[pos3 + len(h) - 1] if pos3 + len(h) - 1 < len(pimpl) else ""
            pos3 += len(h)
            bend_hist += 1
            got = sorted(int(x) for x in re.findall(r" c\d+\{k1 koff=-?\d+ f=(\d+) ", r))
            want = sorted(440.0 * 2 ** ((key + (b - 8192) * 256 / 1048576.0 - 69) / 12) * 144 * 2 ** 21 / C["clock"][0] for key in keys)
            vals = sorted((ft & 0x7FF) * 2 ** (ft >> 11) for ft in got)
            if not r.startswith("ret=") or len(vals) != len(want) or any(abs(v - w) > 1.01 * 2 ** max(0, (len(bin(int(w))) - 2) - 11) + 1 for v, w in zip(vals, want)):
                fails.append(("after portamento glides have ended and %r the keyed-on voices stand at %s, key + bend*range gives %s" % (h[-1], vals, [round(w, 1) for w in want]), []))
                ctx.violate("monitor", "# %s\n%s\n" % (fails[-1][0], "\n".join(x if len(x) < 200 else x[:50] + "..." for x in h)))
                break
    ctx.cov.update({
        "bend_history_checks": bend_hist,
        "evaluations": len(ops), "distinct_nontrivial": len(set(r.split("ftone=")[1] for r in impl if "ftone=" in r)),
        "rule": "note-ons through the public API (bank API instrument with note offset / drum key / DT-MUL bytes, RPN 0 bend range, pitch bend) on both chip families: "
                "chromatic scale, lattice of keys x bends x ranges x offsets, full/strided bend sweeps, percussion, out-of-range offsets; distinct = distinct "
                "(block,fnum,MUL) results",
        "traces_validated_against_impl": len(midx) - ndiff, "disagreements": ndiff, "searches": seen_search,
        "monitor_failures": len(fails), "exp_kernel_outliers": kernel_bad,
        "samples": [{"op": ops[i], "impl": impl[i][:140]} for i in ctx.rng.sample(range(len(ops)), min(6, len(ops)))],
        "exhaustive": False})
    return ctx.finish(
        trusted_extra=["glibc exp and IEEE double arithmetic: coef*exp(c*tone) compared with 50-digit arithmetic at every generated point (relative (|c*tone|+3)*2.3e-16), not proved",
                       "YM2612 frequency latch semantics (0xA4 loads a latch, 0xA0 commits) used by the harness to read back block/F-number"],
        assumptions=["vibrato and portamento offsets are not exercised by this check (they enter the tone additively; see C04/C05 histories)"])
