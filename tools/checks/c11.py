"""C11 — Loudness controls are monotone and stay within the chip's level range."""
import os, sys, json, itertools
from .base import Ctx, digest
import common

PROP = "C11"
MODULE = "OpnVerif.Props.C11"
B7 = [0, 1, 2, 15, 16, 31, 32, 63, 64, 65, 100, 126, 127]
B8 = B7 + [128, 129, 200, 254, 255]


def gen_tables():
    import re
    txt = open(os.path.join(common.LEAN, "OpnVerif", "Gen", "Tables.lean")).read()
    def lst(name):
        m = re.search(r"def %s : List Nat := \[(.*?)\]" % name, txt)
        return [int(x) for x in m.group(1).split(",")]
    algdo = re.search(r"def algDo : List \(List Bool\) := \[(.*)\]\n", txt).group(1)
    rows = re.findall(r"\[([^\[\]]*)\]", algdo)
    alg = [[x.strip() == "true" for x in r.split(",")] for r in rows]
    minv = int(re.search(r"def genericMinVolume : Nat := (\d+)", txt).group(1))
    return {"thr": lst("genericThresholds"), "alg": alg, "minv": minv, "dmx": lst("dmxVolumeModel"), "w9x": lst("w9xVolumeMapping")}


def touch(m, alg, sm, br, vel, vol, ex, ms, tl):
    return "touch %d %d %d %d %d %d %d %d %d %d %d %d" % (m, alg, sm, br, vel, vol, ex, ms, tl[0], tl[1], tl[2], tl[3])


def apitouch(m, alg, sm, fr, cc74, perc, soft, off, vel, vol, ex, ms, tl):
    return "apitouch %d %d %d %d %d %d %d %d %d %d %d %d %d %d %d %d" % (m, alg, sm, fr, cc74, perc, soft, off, vel, vol, ex, ms, tl[0], tl[1], tl[2], tl[3])


def gen_ops(ctx, T):
    """returns (ops, chains): chains = list of (kind, [indices into ops]) along which a monitor is evaluated"""
    rng = ctx.rng
    ops, chains = [], []
    quick = ctx.tier == "quick"

    def rtl():
        return [rng.choice([0, 1, 10, 35, 64, 100, 126, 127, rng.randrange(128)]) for _ in range(4)]

    # 1. monotone chains: sweep one control over 0..127, others fixed (boundary-biased)
    nch = 6 if quick else 40
    for m in range(5):
        for var in range(4):
            for _ in range(nch):
                fixed = [rng.choice([1, 2, 40, 64, 100, 126, 127, rng.randrange(1, 128)]) for _ in range(4)]
                alg = rng.randrange(8); sm = rng.randrange(2); tl = rtl()
                br = rng.choice([127, 127, rng.randrange(128)])
                idx = []
                for x in range(128):
                    v = list(fixed); v[var] = x
                    idx.append(len(ops)); ops.append(touch(m, alg, sm, br, v[0], v[1], v[2], v[3], tl))
                chains.append(("mono", m, alg, sm, idx))
    # 2. boundary lattice incl. zeros, master in {0,1,64,127}
    lat = [0, 1, 64, 127] if quick else [0, 1, 2, 63, 64, 65, 126, 127]
    for m in range(5):
        for vel, vol, ex in itertools.product(lat, lat, lat):
            for ms in (0, 1, 64, 127):
                alg = rng.randrange(8); sm = rng.randrange(2); tl = rtl()
                chains.append(("point", m, alg, sm, [len(ops)], (vel, vol, ex, ms)))
                ops.append(touch(m, alg, sm, 127, vel, vol, ex, ms, tl))
    # 3. Generic thresholds: T_k - 1 and T_k as a raw product (direct call allows any uint_fast32_t)
    for k, t in enumerate(T["thr"]):
        for v in (t - 1, t):
            ops.append(touch(0, 7, 0, 127, v, 1, 1, 1, [0, 0, 0, 0]))
    for v in (T["minv"] - 1, T["minv"], T["minv"] + 1):
        ops.append(touch(0, 7, 0, 127, v, 1, 1, 1, [0, 0, 0, 0]))
    # 4. brightness: all 256 arguments x modulators of every algorithm, and chains over 0..127
    for alg in range(8):
        tl = rtl()
        idx = []
        bm = rng.randrange(5)
        for b in range(256):
            if b < 128:
                idx.append(len(ops))
            ops.append(touch(bm, alg, 0, b, 100, 100, 127, 127, tl))
        chains.append(("bright", 0, alg, 0, idx))
    # 5. level bytes: all 256 values in each operator slot
    for x in range(256):
        ops.append(touch(rng.randrange(5), rng.randrange(8), rng.randrange(2), rng.choice([127, rng.randrange(256)]), 100, 100, 127, 127, [x, 255 - x, (x * 7) % 256, x ^ 0x55]))
    # 6. unfiltered stream: any uint8 controller values (the fixed DMX/9X over-read lives here)
    n = 3000 if quick else 60000
    for _ in range(n):
        ops.append(touch(rng.randrange(5), rng.randrange(256), rng.randrange(2), rng.choice(B8 + [rng.randrange(256)]),
                         rng.choice(B8), rng.choice(B8), rng.choice(B8), rng.choice(B8), [rng.randrange(256) for _ in range(4)]))
    # 7. API path (bank API, setters, SysEx master volume, CC7/11/74/67, note-on)
    n = 1500 if quick else 20000
    for _ in range(n):
        ops.append(apitouch(rng.randrange(5), rng.randrange(256), rng.randrange(2), rng.randrange(2), rng.choice(B7 + [rng.randrange(128)]),
                            rng.randrange(2), rng.randrange(2), rng.choice([0, 0, 1, -1, -24, 20, -128, 127, rng.randrange(-128, 128)]),
                            rng.choice([1, 2, 23, 24, 25, 64, 126, 127, rng.randrange(1, 128)]), rng.choice(B8), rng.choice(B8), rng.choice(B7), rtl()))
    # API velocity chains with a negative instrument velocity offset
    for m in range(5):
        for off in (0, -24, 20):
            idx = []
            alg = rng.randrange(8); tl = rtl()
            for vel in range(1, 128):
                idx.append(len(ops)); ops.append(apitouch(m, alg, 0, 0, 127, 0, 0, off, vel, 100, 127, 127, tl))
            chains.append(("mono", m, alg, 0, idx))
    return ops, chains


def parse(line):
    if line.startswith("ok "):
        return [int(x) for x in line.split()[1:]]
    return None


def monitors(ctx, T, ops, chains, obs, side):
    """evaluate the property clauses directly on observations `obs` (list of lines). Returns list of (why, [op indices])."""
    fails = []
    for ch in chains:
        kind, m, alg, sm, idx = ch[0], ch[1], ch[2], ch[3], ch[4]
        carr = [T["alg"][alg % 8][op] or bool(sm) for op in range(4)]
        vals = [parse(obs[i]) for i in idx]
        if any(v is None for v in vals):
            fails.append(("non-ok observation in chain (%s)" % side, idx[:1] if vals[0] is None else [i for i, v in zip(idx, vals) if v is None][:1]))
            continue
        if kind == "mono":
            for a in range(len(vals) - 1):
                for op in range(4):
                    if carr[op] and vals[a + 1][op] > vals[a][op]:
                        fails.append(("carrier attenuation increased when a control increased (op %d: %d -> %d)" % (op, vals[a][op], vals[a + 1][op]), [idx[a], idx[a + 1]]))
                        break
                else:
                    continue
                break
            for a, v in enumerate(vals):
                if any(carr[op] and v[op] > 127 for op in range(4)):
                    fails.append(("carrier level out of 0..127", [idx[a]])); break
        elif kind == "point":
            vel, vol, ex, ms = ch[5]
            v = vals[0]
            if any(carr[op] and v[op] > 127 for op in range(4)):
                fails.append(("carrier level out of 0..127", idx))
            if (vol == 0 or ex == 0 or ms == 0) and any(carr[op] and v[op] != 127 for op in range(4)):
                fails.append(("zero volume/expression/master does not silence a carrier", idx))
            tl = [int(x) for x in ops[idx[0]].split()[9:13]]
            if any((not carr[op]) and v[op] != tl[op] for op in range(4)):
                fails.append(("modulator changed without scaling/brightness", idx))
        elif kind == "bright":
            for a in range(len(vals) - 1):
                if any(vals[a + 1][op] % 128 > vals[a][op] % 128 for op in range(4)):
                    fails.append(("lower brightness brightened an operator", [idx[a], idx[a + 1]])); break
    return fails


def exhaustive_search(ctx, T):
    """search used when a proof obligation or the tie is broken: exhaustive velocity x volume x expression for
    master in {0,1,64,127}, all 5 models, evaluated on the implementation under the monitors"""
    ops, chains = [], []
    for m in range(5):
        for ms in (0, 1, 64, 127):
            for vol in range(0, 128, 1 if ctx.tier == "thorough" else 3):
                for ex in (0, 1, 32, 64, 100, 127) if ctx.tier == "quick" else range(0, 128, 2):
                    idx = []
                    for vel in range(128):
                        idx.append(len(ops)); ops.append(touch(m, 7, 0, 127, vel, vol, ex, ms, [0, 0, 0, 0]))
                    chains.append(("mono", m, 7, 0, idx))
    return ops, chains


def run(tier, replay=None):
    ctx = Ctx(PROP, tier)
    tr_ok = ctx.translate()
    proof_ok = ctx.prove(MODULE) if tr_ok else False
    T = gen_tables()
    if replay:
        ops = [l for l in open(replay).read().split("\n") if l.strip() and not l.startswith("#")]
        chains = [("mono", int(ops[0].split()[1]), int(ops[0].split()[2]), int(ops[0].split()[3]), list(range(len(ops))))] if ops and ops[0].startswith("touch") and len(ops) > 1 else []
    else:
        ops, chains = gen_ops(ctx, T)
    text = "\n".join(ops) + "\n"
    model = None
    try:
        model = common.run_model("volume", text)
    except Exception as e:
        ctx.broken.append("model driver failed: %s" % str(e)[:300])
    impl, _ = common.run_impl("volume", text, stateless=True)
    # correspondence
    ndiff = 0
    first = None
    if model is not None:
        for i in range(len(ops)):
            a = model[i] if i < len(model) else "<missing>"
            b = impl[i] if i < len(impl) else "<missing>"
            if a != b:
                ndiff += 1
                if first is None:
                    first = (i, a, b)
    faults = [i for i, l in enumerate(impl) if l.startswith("fault=")]
    for i in faults[:3]:
        ctx.violate("fault", "# implementation fault: %s\n%s\n" % (impl[i], ops[i]))
    fails = monitors(ctx, T, ops, chains, impl, "implementation")
    for why, idx in fails[:3]:
        ctx.violate("monitor", "# %s\n# implementation observations: %s\n%s\n" % (why, " | ".join(impl[i] for i in idx), "\n".join(ops[i] for i in idx)))
    if first is not None:
        i, a, b = first
        ctx.broken.append("correspondence volume: %d differing observations, first at op %r: model %r, implementation %r" % (ndiff, ops[i], a, b))
    if (ctx.broken and not ctx.violations) and not replay:
        # search for a concrete failing input on the implementation
        sops, schains = exhaustive_search(ctx, T)
        simpl, _ = common.run_impl("volume", "\n".join(sops) + "\n", stateless=True)
        sf = monitors(ctx, T, sops, schains, simpl, "implementation")
        ctx.cov["search_evaluations"] = len(sops)
        for why, idx in sf[:3]:
            ctx.violate("search", "# found by exhaustive search after a broken obligation/tie: %s\n# broken: %s\n# implementation observations: %s\n%s\n" % (
                why, "; ".join(ctx.broken)[:500], " | ".join(simpl[i] for i in idx), "\n".join(sops[i] for i in idx)))
        if not sf and first is not None:
            # the model's own monitors on the model output (does the *model* still satisfy the property?)
            pass
    distinct = len(set(impl))
    nontrivial = len(set(l for l in impl if l.startswith("ok") and len(set(l.split()[1:])) > 1))
    kinds = {}
    for o in ops:
        k = o.split()[0] + ":m" + o.split()[1]
        kinds[k] = kinds.get(k, 0) + 1
    ctx.cov.update({
        "evaluations": len(ops), "distinct_nontrivial": nontrivial, "distinct_observations": distinct,
        "rule": "operations generated from one PRNG (VERIF_SEED): monotone chains over 0..127 per control and model, boundary lattice, "
                "all Generic thresholds T_k-1/T_k, all 256 brightness values per algorithm, all level bytes, unfiltered uint8 stream, "
                "API-level note-ons; non-trivial = ok observation whose four bytes are not all equal; distinct by observation text",
        "traces_validated_against_impl": len(ops) - ndiff, "disagreements": ndiff, "impl_faults": len(faults),
        "monitor_chains": len(chains), "monitor_failures": len(fails), "input_distribution": kinds,
        "samples": [{"op": ops[i], "model": (model[i] if model else None), "impl": impl[i]} for i in ctx.rng.sample(range(len(ops)), min(6, len(ops)))],
        "exhaustive": False,
    })
    return ctx.finish(
        trusted_extra=["Generic-model thresholds T_k computed by the translator with 60-digit decimal arithmetic from the extracted c1, c2 (validated at every T_k-1, T_k against the implementation)",
                       "glibc log/sqrt and IEEE double within 1 ulp (sampled by the correspondence, not proved)"],
        assumptions=["the emulator cores apply the 7 low bits of the written total-level bytes as attenuation (chip semantics not modelled)"])
