"""C12 — Bank select + program change pick the documented instrument, with fallbacks."""
import struct, re
from .base import Ctx
import common, synth_gen, gen_wopn
from . import synth_common

PROP = "C12"
MODULE = "OpnVerif.Props.C12"


def layout_bank(rng):
    """random subsets of melodic / percussion banks with random blank entries; returns (image, {key: [blank?]*128, timbre digest}, ...)"""
    mel = [(0, 0)] if rng.random() < 0.8 else []
    sfx0 = rng.random() < 0.6
    for _ in range(rng.randrange(0, 4)):
        mel.append((rng.choice([0, 1, 5, 64, 127]), rng.choice([0, 1, 3, 127, 128, 200])))
    mel = list(dict.fromkeys(mel)) or [(1, 1)]
    per = [(0, 0)] if rng.random() < 0.8 else []
    for _ in range(rng.randrange(0, 4)):
        per.append((0, rng.choice([1, 7, 8, 127, 128, 135, 255])))
    if sfx0:
        per.append((0, 128))         # XG SFX kit 0
    per = list(dict.fromkeys(per)) or [(0, 1)]
    out = bytearray(gen_wopn.M2 + struct.pack("<H", 2) + struct.pack(">HH", len(mel), len(per)) + bytes([0]))
    for (m, l) in mel + per:
        out += b"b".ljust(32, b"\0") + bytes([l, m])
    info = {}
    for sec, banks in ((0, mel), (1, per)):
        for (m, l) in banks:
            ent = []
            for i in range(128):
                blank = rng.random() < 0.35
                tag = rng.randrange(1, 250)
                rec = (b"i").ljust(32, b"\0") + struct.pack(">h", 0) + bytes([rng.choice([0, 0, 40, 200]) if sec else 0, tag, 0]) + bytes([tag] * 28)
                rec += struct.pack(">HH", 0, 0) if blank else struct.pack(">HH", 100, 50)
                out += rec
                ent.append(None if blank else tag)
            info[(sec, m, l)] = ent
    return bytes(out), info


def timbre_digest(tag):
    h = 14695981039346656037
    def feed(h, x):
        x &= (1 << 64) - 1
        for i in range(8):
            h ^= (x >> (8 * i)) & 0xFF
            h = (h * 1099511628211) & ((1 << 64) - 1)
        return h
    for b in [tag] * 28 + [tag, 0, 0]:
        h = feed(h, b)
    return h


def expected(info, mode, perc_part, ch, msb, lsb, patch, key):
    """the documented rule, independently of the Lean model: fbalg tag of the instrument that must be loaded, or None (silent)"""
    gs, xg = mode == 1, mode == 2
    if ch % 16 == 9 or perc_part:
        bank = patch + (128 if (xg and msb == 126) else 0)
        sec, entry = 1, key
    else:
        bank = msb * 256 + (0 if gs else lsb)
        sec, entry = 0, patch
    def lookup(b):
        e = info.get((sec, b // 256, b % 256))
        return None if e is None else e[entry]
    for b in (bank, bank // 128 * 128, 0):
        t = lookup(b)
        if t is not None:
            return t
    return None


def histories(ctx):
    rng = ctx.rng
    hs = []
    n = 12 if ctx.tier == "quick" else 150
    for i in range(n):
        img, info = layout_bank(rng)
        h = ["new 65536 2", "bank " + img.hex()]
        meta = [None, None]
        mode = 2
        state = {}
        for _ in range(60 if ctx.tier == "quick" else 150):
            c = rng.random()
            ch = rng.choice([0, 1, 9])
            st = state.setdefault(ch, {"msb": 0, "lsb": 0, "patch": 0, "perc": False})
            if c < 0.12:
                x = rng.choice(["sysex f07e7f0901f7", "sysex f04110421240007f0041f7", "sysex f043104c00007e00f7"])
                h.append(x); meta.append(None)
                mode = {"sysex f07e7f0901f7": 0, "sysex f04110421240007f0041f7": 1, "sysex f043104c00007e00f7": 2}[x]
                for s2 in state.values():
                    if mode == 1:
                        s2["perc"] = False
            elif c < 0.30:
                v = rng.choice([0, 1, 5, 64, 126, 127])
                h.append("cc %d 0 %d" % (ch, v)); meta.append(None); st["msb"] = v
                if mode != 1:
                    st["perc"] = v in (126, 127)
            elif c < 0.45:
                v = rng.choice([0, 1, 3, 7, 8, 127])
                h.append("cc %d 32 %d" % (ch, v)); meta.append(None); st["lsb"] = v
                if mode != 1:
                    st["perc"] = st["msb"] in (126, 127)
            elif c < 0.60:
                kits = [key[2] % 128 for key in info if key[0] == 1]
                v = rng.choice([0, 1, 7, 8, 127, rng.randrange(128)] + kits + [(x + 1) % 128 for x in kits])
                h.append("pc %d %d" % (ch, v)); meta.append(None); st["patch"] = v
            elif c < 0.65 and mode == 1:
                # GS drum part on channel index 1 -> MIDI channel 0 per the map; use part 1 (-> channel 0)
                on = rng.choice([0, 1, 2])
                chk = (128 - ((0x40 + 0x11 + 0x15 + on) % 128)) % 128
                h.append("sysex f041104212401115%02x%02xf7" % (on, chk)); meta.append(None)
                state.setdefault(0, {"msb": 0, "lsb": 0, "patch": 0, "perc": False})["perc"] = on in (1, 2)
            else:
                key = rng.randrange(128)
                h.append("on %d %d 100" % (ch, key))
                meta.append((mode, st["perc"], ch, st["msb"], st["lsb"], st["patch"], min(key, 127)))
                h.append("off %d %d" % (ch, key)); meta.append(None)
        hs.append((h, meta, info))
    return hs


def run(tier, replay=None):
    ctx = Ctx(PROP, tier)
    if ctx.translate():
        ctx.prove(MODULE)
    if replay:
        hs = [([l for l in open(replay).read().split("\n") if l.strip() and not l.startswith("#")], None, None)]
    else:
        hs = histories(ctx)
        hs = [(h, None, None) for h in synth_common.corpus(PROP)] + hs
    metas = {id(h): (m, i) for h, m, i in hs}

    def monitor(h, io):
        m, info = metas.get(id(h), (None, None))
        if m is None:
            return []
        fails = []
        for k, (o, r) in enumerate(zip(h, io)):
            if m[k] is None or not r.startswith("ret="):
                continue
            exp = expected(info, *m[k])
            sn = synth_gen.parse_snapshot(r)
            if exp is None:
                if sn.ret != "0":
                    fails.append(("note-on accepted although exact bank, LSB-cleared bank and bank 0 are all blank/missing for %s" % (m[k],), k)); break
            else:
                if sn.ret != "1":
                    fails.append(("note-on rejected although a non-blank instrument is defined for %s" % (m[k],), k)); break
                # the patch the chip channel of this note received: digest of (28 operator bytes, fbalg, lfosens, note offset)
                a = o.split(); ch = int(a[1]); key = min(int(a[2]), 127)
                chans = [c for n in sn.notes.get(ch, []) if n["key"] == key for c in n["chans"]]
                got = None
                if chans:
                    mm = re.search(r" c%d\{[^}]* p=(\d+) " % chans[0], r)
                    got = int(mm.group(1)) if mm else None
                if got != timbre_digest(exp):
                    fails.append(("instrument with tag %d expected for %s, the chip channel received another patch" % (exp, m[k]), k)); break
        return fails

    synth_common.run_histories(ctx, [h for h, _, _ in hs], monitor, PROP)
    ctx.cov["rule"] = ("random bank layouts (subsets of melodic/percussion banks, 35% blank entries, every instrument tagged by its operator bytes) x histories of mode "
                       "switches (GM/GS/XG SysEx), bank-select MSB/LSB, program changes, GS drum-part SysEx and note-ons on melodic and percussion channels; the monitor "
                       "computes the documented choice independently and compares it with the patch the chip received")
    return ctx.finish()
