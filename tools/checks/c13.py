"""C13 — Audio calls fill exactly what they report, in the requested sample format."""
import struct, gen_wopn
import os, re
from .base import Ctx
import common, synth_gen

PROP = "C13"
MODULE = "OpnVerif.Props.C13"
BY_NAME = {"S8": (1, 2, 4), "U8": (1, 2, 4), "S16": (2, 4), "U16": (2, 4), "S24": (4,), "U24": (4,), "S32": (4,), "U32": (4,), "F32": (4,), "F64": (8,)}


def supported_table():
    txt = open(os.path.join(common.LEAN, "OpnVerif", "Gen", "Enums.lean")).read()
    names = re.search(r"def sampleTypeNames : List String := \[(.*?)\]", txt).group(1)
    names = [x.strip().strip('"') for x in names.split(",")]
    return {i: BY_NAME[n] for i, n in enumerate(names) if n in BY_NAME}


SUPPORTED = {}


def gen_ops(ctx):
    rng = ctx.rng
    quick = ctx.tier == "quick"
    ops, meta = [], []
    img = synth_gen.test_bank(rng, blanks=0)[0]
    # a loud bank: four carriers at full level (algorithm 7), so that simultaneous notes exceed the 16-bit range
    loud = bytearray(gen_wopn.M2 + struct.pack("<H", 2) + struct.pack(">HH", 1, 1) + bytes([0]))
    for _ in range(2):
        loud += b"loud".ljust(32, b"\0") + bytes([0, 0])
    loud += (b"sq".ljust(32, b"\0") + struct.pack(">h", 0) + bytes([0, 0x07, 0xC0]) + bytes([0x01, 0, 0x1f, 0, 0, 0x0f, 0] * 4) + struct.pack(">HH", 40000, 40000)) * 256
    retrig = []
    for emu, chips in ([(0, 4), (2, 1)] if quick else [(0, 4), (2, 1), (1, 2), (3, 3), (4, 1), (5, 2), (6, 1), (8, 1)]):
        ops.append("new 65536 %d %d" % (chips, emu)); meta.append(None)
        ops.append("bank " + open(os.path.join(common.REPO, "fm_banks", "xg.wopn"), "rb").read().hex()); meta.append(None)
        for phase in ("quiet", "loud"):
            if phase == "loud":
                ops.append("bank " + bytes(loud).hex()); meta.append(None)
                retrig = ["on %d %d 127" % (ch, 40 + 5 * k + ch) for ch in range(8) for k in range(6 if chips > 1 else 2)]
            else:
                retrig = []
                ops.append("on 0 60 40"); meta.append(None)
            sizes = [-4, -1, 0, 1, 2, 3, 7, 64, 1023, 1024, 1025, 1026, 2050, 4096, rng.randrange(1, 3000), rng.randrange(1, 3000)]
            if not quick:
                sizes += [70000, 65536, 12345] + [rng.randrange(1, 70001) for _ in range(6)]
            for t in range(-1, 12):
                for c in (1, 2, 3, 4, 8):
                    if quick and rng.random() < 0.45 and not (0 <= t <= 9 and c in SUPPORTED.get(t, ())):
                        continue
                    for planar in (0, 1):
                        for n in rng.sample(sizes, 3 if quick else 6):
                            # offsets keep every store aligned to the container size (misaligned destinations are a caller error)
                            off = rng.choice([2 * c, 2 * c, 3 * c, 4 * c, 8 * c]) if not planar else rng.choice([c, c, 2 * c, 3 * c])
                            if retrig and rng.random() < 0.5:
                                # re-trigger: phases line up again, the mix exceeds 16 bits and the conversion has to clip
                                for o in retrig:
                                    ops.append(o.replace("on ", "off ").rsplit(" ", 1)[0]); meta.append(None)
                                for o in retrig:
                                    ops.append(o); meta.append(None)
                            ops.append("genfmt %d %d %d %d %d" % (t, c, off, planar, n)); meta.append((t, c, off, planar, n))
    return ops, meta


def run(tier, replay=None):
    ctx = Ctx(PROP, tier)
    if ctx.translate():
        ctx.prove(MODULE)
    SUPPORTED.update(supported_table())
    if replay:
        ops = [l for l in open(replay).read().split("\n") if l.strip() and not l.startswith("#")]
        meta = [tuple(int(x) for x in o.split()[1:]) if o.startswith("genfmt") else None for o in ops]
    else:
        ops, meta = gen_ops(ctx)
    impl, _ = common.run_impl("audio", "\n".join(ops) + "\n", stateless=False, timeout=3000)
    fails, mops, mexp = [], [], []
    clipped = 0
    for i, (o, r, m) in enumerate(zip(ops, impl, meta)):
        if r.startswith("fault="):
            fails.append(("implementation fault %s" % r, i)); break
        if m is None:
            continue
        t, c, off, planar, n = m
        mm = re.match(r"ret=(-?\d+) last=(\d+)\+(\d+) buf=(\S+) L=(\S+) R=(\S+) other=(\S+)", r)
        if not mm:
            fails.append(("unparsable observation %s" % r[:80], i)); continue
        ret = int(mm.group(1))
        supported = 0 <= t <= 9 and c in SUPPORTED[t]
        want = 0 if n < 0 else n - n % 2
        if not supported:
            want = 0
        if ret != want:
            fails.append(("returned %d for a request of %d samples (type %d, container %d): expected %d" % (ret, n, t, c, want), i)); continue
        if mm.group(7) != "ok":
            fails.append(("a byte outside the %d reported frames changed (%s)" % (ret // 2, mm.group(7)), i)); continue
        if ret == 0:
            continue
        buf = [int(x) for x in mm.group(4).split(",")]
        if any(abs(x) > 32767 for x in buf):
            clipped += 1
        L = mm.group(5).split(","); R = mm.group(6).split(",")
        mops.append("cvt %d %d %s" % (t, c, " ".join(str(x) for x in buf)))
        inter = []
        for a, b in zip(L, R):
            inter += [a, b]
        mexp.append((i, ",".join(inter)))
        mops.append("genloop %d %d %s" % (n, off, " ".join(["512"] * (ret // 1024 + 2))))
        mexp.append((i, "ret=%d frames=%d inorder=1 offsets=1" % (ret, ret // 2)))
    model = []
    try:
        model = common.run_model("audio", "\n".join(mops) + "\n") if mops else []
    except Exception as ex:
        ctx.broken.append("model driver failed: %s" % str(ex)[:300])
    ndiff, first = 0, None
    for j, (i, exp) in enumerate(mexp):
        got = model[j] if j < len(model) else "<missing>"
        if got != exp:
            ndiff += 1
            if first is None:
                first = (i, mops[j][:80], got[:200], exp[:200])
    for why, i in fails[:3]:
        hist = [o for o in ops[:i + 1] if not o.startswith("genfmt")] + [ops[i]]
        ctx.violate("monitor", "# %s\n# implementation: %s\n%s\n" % (why, impl[i][:300], "\n".join(x if len(x) < 200 else x[:60] + "..." for x in hist)))
        common.write_replay(PROP, "monitor-full", "\n".join(hist) + "\n")
    if first is not None:
        i, mop, got, exp = first
        ctx.broken.append("correspondence audio: %d differing, first at op %r: model op %r gives %r, implementation stored %r" % (ndiff, ops[i], mop, got, exp))
        if not fails:
            # stored samples differ from the documented conversion of the mixed signal: that is the violation itself
            hist = [o for o in ops[:i + 1] if not o.startswith("genfmt")] + [ops[i]]
            ctx.violate("conversion", "# stored samples are not the documented conversion of the mixed signal\n# documented: %s\n# stored:     %s\n%s\n" % (
                got, exp, "\n".join(x if len(x) < 200 else x[:60] + "..." for x in hist)))
            common.write_replay(PROP, "conversion-full", "\n".join(hist) + "\n")
    kinds = {}
    for m in meta:
        if m:
            kinds["type%d/c%d" % (m[0], m[1])] = kinds.get("type%d/c%d" % (m[0], m[1]), 0) + 1
    ctx.cov.update({"evaluations": len(ops), "distinct_nontrivial": len(set(r for r in impl if r.startswith("ret=") and not r.startswith("ret=0"))),
                    "rule": "generateFormat requests (-4..3000, thorough ..70000) x 10 sample types and invalid ids x containers 1/2/3/4/8 x interleaved/planar/padded offsets on "
                            "quiet and loud (clipping) material, several emulators and chip counts; the mixed int32 frames of the last period are read from m_outBuf and "
                            "their documented conversion (Lean model) is compared byte-for-byte with what was stored; every other byte of guard-filled memory must be untouched",
                    "traces_validated_against_impl": len(mexp) - ndiff, "disagreements": ndiff, "monitor_failures": len(fails), "requests_with_clipping": clipped,
                    "input_distribution": kinds, "samples": [{"op": ops[i], "impl": impl[i][:200]} for i in ctx.rng.sample(range(len(ops)), min(5, len(ops))) if meta[i]],
                    "exhaustive": False})
    if not ctx.cov["samples"]:
        ctx.cov["samples"] = [{"op": "genfmt", "impl": "-"}]
    return ctx.finish(trusted_extra=["IEEE single/double rounding is modelled by roundBin (round to nearest even on rationals); the emulator cores produce the mixed signal, which is read back from m_outBuf"],
                      assumptions=["opn2_play/opn2_playFormat (sequencer-driven) are covered with C07"])
