"""C14 — Instances are deterministic and isolated, also across threads."""
import os, re, subprocess, collections
from .base import Ctx
import common, synth_gen
from . import c20

PROP = "C14"
MODULE = "OpnVerif.Props.C14"
EMUS = [0, 1, 2, 3, 4, 5, 6, 8]


def history(rng, k, emu, rate=44100):
    """operations of instance k (without interleaving): list of op strings"""
    h = ["%d new %d %d %d" % (k, rate, emu, rng.choice([1, 2]))]
    return h


def own_ops(rng, k):
    ops = ["%d pc %d %d" % (k, ch, rng.randrange(128)) for ch in (0, 1)]
    if rng.random() < 0.6:
        # the chip's LFO (vibrato / tremolo of patches with LFO sensitivity): its speed tables depend on the chip's rate
        ops += ["%d lfo 1" % k, "%d lfofreq %d" % (k, rng.randrange(8)), "%d pc 1 %d" % (k, rng.choice([11, 17, 18, 20, 21, 28, 29, 30, 31, 35, 40, 41, 42, 43, 44, 48]))]
    for _ in range(rng.choice([6, 10])):
        c = rng.random()
        if c < 0.5:
            ops.append("%d on %d %d %d" % (k, rng.choice([0, 1, 9]), rng.choice([45, 57, 60, 69, 72]), rng.choice([64, 100, 127])))
        elif c < 0.65:
            ops.append("%d off %d %d" % (k, rng.choice([0, 1, 9]), rng.choice([45, 57, 60, 69, 72])))
        elif c < 0.75:
            ops.append("%d cc %d %d %d" % (k, rng.choice([0, 1]), rng.choice([7, 10, 11, 1]), rng.randrange(128)))
        else:
            ops.append("%d gen %d" % (k, rng.choice([256, 1000, 4096])))
    ops.append("%d gen 2048" % k)
    return ops


def other_ops(rng, k, emu, which=None):
    """what another instance may do in between: create, configure, play, close"""
    pick = rng.choice if which is None else (lambda l: l[which % len(l)])
    return pick([["%d new 44100 %d 1" % (k, emu), "%d bank BANK" % k, "%d on 0 60 127" % k, "%d gen 512" % k],
                       ["%d new 48000 %d 2" % (k, emu), "%d bank BANK" % k, "%d chiptype %d" % (k, rng.choice([0, 1])), "%d gen 300" % k, "%d close" % k],
                       ["%d new %d %d 1" % (k, rng.choice([8000, 96000, 192000]), emu), "%d runatpcm 1" % k, "%d bank BANK" % k, "%d on 0 64 127" % k, "%d gen 400" % k],
                       ["%d new 44100 %d 2" % (k, emu), "%d bank BANK" % k, "%d chips 1" % k, "%d runatpcm %d" % (k, rng.choice([0, 1])), "%d reset" % k, "%d gen 256" % k, "%d close" % k],
                       ["%d gen 700" % k], ["%d emu %d" % (k, rng.choice(EMUS))], ["%d close" % k]])


def run_ops(ops, variant="plain", timeout=1200):
    out, _ = common.run_impl("iso", "\n".join(ops) + "\n", variant=variant, stateless=False, timeout=timeout)
    return out


def run(tier, replay=None):
    ctx = Ctx(PROP, tier)
    if ctx.translate():
        ctx.prove(MODULE)
    rng = ctx.rng
    quick = tier == "quick"
    # audible timbres with detune, LFO sensitivity and all algorithms: the repository's own GM bank (random test timbres are mostly silent); sometimes the pure tone bank
    bank = c20.tone_bank().hex() if rng.random() < 0.25 else open(os.path.join(common.REPO, "fm_banks", "gm.wopn"), "rb").read().hex()
    nfail = 0
    known_hits = []
    cases = 0
    samples = []
    def fail(why, ops):
        nonlocal nfail
        nfail += 1
        if nfail <= 3:
            ctx.violate("monitor", "# %s\n%s\n" % (why, "\n".join(x if len(x) < 200 else x[:40] + "..." for x in ops)))
            common.write_replay(PROP, "monitor-full", "\n".join(ops) + "\n")
    if replay:
        ops = [l for l in open(replay).read().split("\n") if l.strip() and not l.startswith("#")]
        out = run_ops(ops)
        print("\n".join(out[-6:]))
        return ctx.finish()
    # regression inputs: an interleaved history; instance 0's observations must equal those of its own calls run alone
    import glob
    for f in sorted(glob.glob(os.path.join(common.VERIF, "corpus", PROP, "*.iso"))):
        mixed = [l for l in open(f).read().split("\n") if l.strip() and not l.startswith("#")]
        own = [o for o in mixed if o.startswith("0 ")]
        res, ref = run_ops(mixed), run_ops(own)
        cases += 1
        mine = [r for o, r in zip(mixed, res) if o.startswith("0 ")]
        if mine != ref:
            fail("corpus %s: instance 0's observations change when the other instances act in between" % os.path.basename(f), mixed)
    mixed_seen = {}
    for emu in EMUS:
        for rep in range(1 if quick else 4):
            mixed_seen[emu] = False
            own = ["0 new 44100 %d %d" % (emu, rng.choice([1, 2])), "0 bank " + bank] + own_ops(rng, 0) + ["0 digest"]
            ref = run_ops(own)
            again = run_ops(own)
            cases += 1
            if any(r.startswith("fault=") for r in ref):
                fail("implementation fault: %s" % next(r for r in ref if r.startswith("fault=")), own); continue
            if ref[-1] != again[-1]:
                fail("repeating the history of an instance (emulator %d) does not reproduce its audio / register stream: %s vs %s" % (emu, ref[-1], again[-1]), own); continue
            # other instances act between the calls
            # a long-lived other instance of the same core in an unusual configuration, set up right after this one was created and only rendering
            # from then on (what it wrote into anything shared stays in force while this instance plays)
            setups = [["1 new %d %d 1" % (r, emu), "1 runatpcm 1", "1 bank BANK", "1 on 0 64 127", "1 gen 400"] for r in (8000, 96000, 192000)] + \
                     [["1 new 48000 %d 2" % emu, "1 bank BANK", "1 chiptype 1", "1 chips 3", "1 on 0 64 127", "1 gen 300"],
                      ["1 new 22050 %d 1" % emu, "1 bank BANK", "1 emu %d" % emu, "1 reset", "1 gen 300"]]
            for su in (setups if not quick else rng.sample(setups[:3], 2) + rng.sample(setups[3:], 1)):
                mixed = own[:2] + [x.replace("BANK", bank) for x in su]
                for o in own[2:]:
                    mixed.append(o)
                    if rng.random() < 0.3:
                        mixed.append("1 gen 300")
                res = run_ops(mixed)
                cases += 1
                mine = [r for o, r in zip(mixed, res) if o.startswith("0 ")]
                if any(r.startswith("fault=") for r in res):
                    fail("implementation fault: %s" % next(r for r in res if r.startswith("fault=")), mixed); break
                if mine != ref:
                    k = next(i for i, (a, b) in enumerate(zip(mine, ref)) if a != b)
                    msg = "instance with emulator %d gives %s instead of %s at its call %r while another instance of the same core (%s) exists" % (
                        emu, mine[k][:60], ref[k][:60], own[k][:40], " / ".join(x[:24] for x in su[:2]))
                    if emu in (1, 8):
                        known_hits.append((msg, mixed))
                    else:
                        fail(msg, mixed)
                    break
            # another instance of the same core first (statics of a core are the likeliest shared cells): every kind of interference, in turn, at every point
            for other in ([emu] + (EMUS if not quick else rng.sample(EMUS, 3) + ([1, 8] if emu in (1, 8) else []))):
                mixed = []
                same = other == emu and not mixed_seen.get(emu)
                mixed_seen[emu] = True
                nins = rng.randrange(7)
                for o in own:
                    mixed.append(o)
                    if same or rng.random() < 0.6:
                        mixed += [x.replace("BANK", bank) for x in other_ops(rng, rng.choice([1, 2]), other, which=(nins if same else None))]
                        nins += 1
                # instance 0's own observations
                res = run_ops(mixed)
                cases += 1
                mine = [r for o, r in zip(mixed, res) if o.startswith("0 ")]
                refm = ref
                if any(r.startswith("fault=") for r in res):
                    fail("implementation fault: %s" % next(r for r in res if r.startswith("fault=")), mixed); break
                if mine != refm:
                    k = next(i for i, (a, b) in enumerate(zip(mine, refm)) if a != b)
                    msg = "instance with emulator %d gives %s instead of %s at its call %r when another instance (emulator %d) is created / configured / played / closed in between" % (
                        emu, mine[k][:60], refm[k][:60], own[k][:40], other)
                    if {emu, other} <= {1, 8} or (emu in (1, 8) and any(" emu " in o for o in mixed)):
                        known_hits.append((msg, mixed))
                    else:
                        fail(msg, mixed)
                    break
                if len(samples) < 3:
                    samples.append({"ops": [x[:60] for x in mixed[:8]], "own_digest": ref[-1]})
    # a shadow instance of the other chip family (and one of the same family) repeats every note / program / controller call of the
    # instance right before it: anything remembered per argument outside the instance (a memo keyed by the tone, a "last patch" cache) shows here
    for emu in (EMUS if not quick else rng.sample(EMUS, 3)):
        own = ["0 new 44100 %d 1" % emu, "0 bank " + bank] + own_ops(rng, 0) + ["0 digest"]
        ref = run_ops(own)
        for fam in (1, 0):
            mixed = own[:2] + ["1 new 44100 %d 1" % emu, "1 bank " + bank, "1 chiptype %d" % fam]
            for o in own[2:]:
                if o.split()[1] in ("on", "pc", "cc", "off"):
                    mixed.append("1 " + o[2:])
                mixed.append(o)
            res = run_ops(mixed)
            cases += 1
            mine = [r for o, r in zip(mixed, res) if o.startswith("0 ")]
            if any(r.startswith("fault=") for r in res):
                fail("implementation fault: %s" % next(r for r in res if r.startswith("fault=")), mixed); break
            if mine != ref:
                k = next(i for i, (a, b) in enumerate(zip(mine, ref)) if a != b)
                fail("instance with emulator %d gives %s instead of %s at its call %r when a shadow instance (chip family %d) makes the same calls just before it" % (
                    emu, mine[k][:60], ref[k][:60], own[k][:40], fam), mixed)
                break
    # concurrent rendering: every instance on its own thread
    thr_cases = 0
    for rep in range(2 if quick else 8):
        ks = list(range(rng.choice([2, 3, 4])))
        emus = [rng.choice(EMUS) for _ in ks]
        setup = []
        solo_digest = {}
        for k, e in zip(ks, emus):
            own = ["%d new 44100 %d 1" % (k, e), "%d bank %s" % (k, bank), "%d on 0 %d 127" % (k, 57 + k), "%d on 1 %d 100" % (k, 64 + k)]
            setup += own
            solo = run_ops(own + ["%d gen 20000" % k])
            solo_digest[k] = solo[-1]
        ops = setup + ["threads 20000 " + " ".join(str(k) for k in ks)] + ["%d digest" % k for k in ks]
        res = run_ops(ops)
        thr_cases += 1
        for k in ks:
            if res[len(setup) + 1 + ks.index(k)] != solo_digest[k]:
                msg = "instance %d (emulator %d) rendered on its own thread while %d others were rendering differs from its solo render" % (k, emus[k], len(ks) - 1)
                if {1, 8} <= set(emus):
                    known_hits.append((msg, ops))
                else:
                    fail(msg, ops)
                break
    # data races: the same under ThreadSanitizer
    races = None
    try:
        exe = common.build_harness("tsan")
        ks = [0, 1, 2]
        emus = [0, 3, 5] if quick else [rng.choice([0, 2, 3, 4, 5, 6]) for _ in ks]
        ops = []
        for k, e in zip(ks, emus):
            ops += ["%d new 44100 %d 1" % (k, e), "%d bank %s" % (k, bank), "%d on 0 %d 127" % (k, 57 + k)]
        ops += ["threads 6000 0 1 2", "0 close", "1 close", "2 close"]
        env = dict(os.environ); env["TSAN_OPTIONS"] = "halt_on_error=0:report_signal_unsafe=0"
        p = subprocess.run([exe, "iso"], input="\n".join(ops) + "\n", stdout=subprocess.PIPE, stderr=subprocess.PIPE, text=True, timeout=1200, env=env)
        reports = re.findall(r"WARNING: ThreadSanitizer: data race.*?(?=\n\n|\Z)", p.stderr, re.S)
        races = len(reports)
        if races:
            loc = re.search(r"#0 (\S+) (\S+)", reports[0])
            fail("ThreadSanitizer: %d data race report(s) between instances rendering on their own threads (emulators %s), first in %s" % (races, emus, loc.group(0)[:120] if loc else "?"), ops)
    except Exception as e:
        ctx.notes.append("ThreadSanitizer run not performed: %s" % str(e)[:200])
    # uninitialised state: the outcome of a history must depend on the history only.  valgrind memcheck over the uninstrumented build reports every branch,
    # address and output that depends on a value nobody wrote (in the library, or in the harness when it prints a field the library left undefined)
    mc_runs, mc_ops = 0, 0
    try:
        import gen_smf
        from . import seq_common as sq
        jobs = []
        ops = []
        for k, emu in enumerate(EMUS):
            ops += ["%d new 44100 %d %d" % (k, emu, rng.choice([1, 2])), "%d bank %s" % (k, bank)] + own_ops(rng, k) + ["%d digest" % k, "%d close" % k]
        jobs.append(("iso", ops))
        g = synth_gen.Gen(rng)
        ops = []
        for i in range(3 if quick else 24):
            chips = rng.choice([1, 2, 3])
            ops += g.history(rng.choice([40, 100]), chips=chips, chans=(0, 1, 9), keys=tuple(range(50, 50 + 4 * chips + 3)), arp=(i % 3 == 2), alloc=rng.choice([None, 0, 1, 2]))
        jobs.append(("synth", ops))
        ops = []
        for i in range(2 if quick else 12):
            song = gen_smf.gen_song(rng)
            ops += sq.PREFIX + ["opendata " + song.encode().hex(), "loop %d" % (i % 2), "playlog 30000 512", "seek 0.5", "playlog 20000 512", "rewind", "tick 0.1 0.01"]
        jobs.append(("api", ops))
        for comp, ops in jobs:
            reps = common.run_memcheck(comp, "\n".join(ops) + "\n")
            if reps is None:
                ctx.notes.append("memcheck run of component %s not performed (valgrind missing or timed out)" % comp)
                continue
            mc_runs += 1; mc_ops += len(ops)
            if reps:
                reps.sort(key=lambda r: ("comp_" in r or "snapshot" in r or "sstream" in r))      # the library's own reads first
                fail("the outcome depends on uninitialised memory (valgrind memcheck, component %s): %s" % (comp, "; ".join(reps[:3])), ops)
    except Exception as e:
        ctx.notes.append("memcheck pass not performed: %s" % str(e)[:200])
    if known_hits:
        listed = [k for k in common.load_known() if k.get("status") == "open" and k.get("property") == PROP and k.get("id") == "nuked-chip-type-global"]
        if listed:
            ctx.known("%s (%d occurrences)" % (listed[0]["what"], len(known_hits)))
        else:
            fail(known_hits[0][0], known_hits[0][1])
    ctx.samples = samples
    ctx.cov.update({"evaluations": cases + thr_cases, "interleaved_cases": cases, "threaded_cases": thr_cases, "tsan_race_reports": races, "memcheck_runs": mc_runs, "memcheck_ops": mc_ops, "monitor_failures": nfail, "disagreements": 0,
                    "traces_validated_against_impl": 0, "distinct_nontrivial": cases, "exhaustive": False,
                    "rule": "per emulator core: a random history of one instance is rendered alone twice (bit-identical PCM and register-write digests), then with another instance of each "
                            "other core created / given a bank / switched / played / closed between its calls (own digests must not change), then several instances render concurrently on "
                            "their own threads (digest = solo digest) and once more under ThreadSanitizer; every case is distinct by construction (fresh random history)"})
    return ctx.finish(level="proof", trusted_extra=["valgrind 3.19 memcheck for the uninitialised-state search", "ThreadSanitizer (g++ 12) for the data-race clause; FNV digests of PCM and register writes"],
                      assumptions=["emulator cores are exercised, not modelled: the Lean part covers the only cross-instance cell the library itself owns (see Props/C14)"])
