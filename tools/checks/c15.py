"""C15 — WOPN/OPNI serialisation round-trips and never writes past its buffer."""
import os, re
from .base import Ctx
import common, gen_wopn

PROP = "C15"
MODULE = "OpnVerif.Props.C15"


def needed(img_len_v2, cm, cp, ver):
    if ver == 1:
        return 16 + 65 * 128 * (cm + cp)
    return 18 + 34 * (cm + cp) + 69 * 128 * (cm + cp)


def gen_ops(ctx):
    rng = ctx.rng
    quick = ctx.tier == "quick"
    ops, meta = [], []
    nimg = 14 if quick else 150
    for k in range(nimg):
        ver = 2 if k % 4 else 1
        cm = rng.choice([1, 1, 2, 3]); cp = rng.choice([1, 1, 2])
        if k % 7 == 6:
            cm = 0 if rng.random() < 0.5 else cm
            cp = 0 if cm else cp
        img = gen_wopn.bank_image(rng, ver, cm, cp)
        h = img.hex()
        lcm, lcp = max(cm, 1), max(cp, 1)        # a zero count loads as one blank bank
        ops.append("load " + h); meta.append(("load", ver))
        for v in (2, 1, 0):
            ops.append("rt %s %d" % (h, v)); meta.append(("rt", ver, v, False))
        # values the loader cannot produce
        mods = ["m.0.%d.flags=%d" % (rng.randrange(128), rng.choice([1, 2, 3, 255])),
                "m.0.%d.delayOn=%d" % (rng.randrange(128), rng.choice([0, 1, 65535])),
                "p.0.%d.vel=%d" % (rng.randrange(128), rng.choice([-128, -1, 5, 127])),
                "f.lfo=%d" % rng.choice([15, 16, 200, 255]), "f.chip=%d" % rng.choice([0, 1, 2, 3, 255]), "f.vm=%d" % rng.choice([0, 1, 4]),
                "m.0.%d.name=%s" % (rng.randrange(128), (b"AB\0" + bytes(rng.randrange(1, 256) for _ in range(29))).hex()),
                "m.0.-.bname=%s" % (bytes(rng.randrange(1, 256) for _ in range(33))).hex(),
                "p.0.-.lsb=%d" % rng.randrange(256)]
        rng.shuffle(mods)
        for v in (2, 1):
            ops.append("rt %s %d %s" % (h, v, " ".join(mods[:rng.randrange(1, 5)]))); meta.append(("rt", ver, v, True))
        # well-formed values the loader's own output cannot show: full-width names, explicit blank flags
        alpha = b"ABCDEFGHIJKLMNOPQRSTUVWXYZ0123456789"
        def full(n):
            return bytes(rng.choice(alpha) for _ in range(n))
        wf = ["m.0.-.bname=%s" % (full(32) + b"\0").hex(), "p.0.-.bname=%s" % (full(rng.choice([1, 31, 32])).ljust(33, b"\0")).hex(),
              "m.0.%d.name=%s" % (rng.randrange(128), (full(31) + b"\0").hex()),
              "p.0.%d.name=%s" % (rng.randrange(128), (full(rng.choice([0, 1, 30])).ljust(32, b"\0")).hex()),
              "f.lfo=%d" % rng.randrange(16), "f.chip=%d" % rng.randrange(2),
              "m.0.-.lsb=%d" % rng.randrange(256), "m.0.-.msb=%d" % rng.randrange(256)]
        k1 = rng.randrange(128)
        wf += ["m.0.%d.flags=2" % k1, "m.0.%d.delayOn=0" % k1, "m.0.%d.delayOff=0" % k1]
        k2 = (k1 + 1 + rng.randrange(126)) % 128
        wf += ["m.0.%d.flags=0" % k2, "m.0.%d.delayOn=%d" % (k2, rng.choice([1, 40000, 65535])), "m.0.%d.delayOff=%d" % (k2, rng.choice([0, 1, 65535]))]
        if ver == 2:
            ops.append("rt %s 2 %s" % (h, " ".join(wf))); meta.append(("rt", ver, 2, False))
        for v in (2, 1, 0):
            for gm in (0, 1):
                nd = needed(len(img), 1 if gm else lcm, 1 if gm else lcp, 1 if v == 1 else 2)
                sizes = {0, 10, 11, 12, 13, 14, 15, 16, 17, 18, 19, nd - 1, nd, nd + 1, nd + 2, nd + 40, rng.randrange(nd + 1), rng.randrange(nd + 1)}
                if not quick:
                    sizes |= {rng.randrange(nd + 1) for _ in range(6)} | {52, 53, 86, 87, 88, nd - 69, nd - 65}
                for n in sorted(x for x in sizes if x >= 0):
                    if quick and rng.random() < 0.45 and n not in (nd - 1, nd, 11, 13):
                        continue
                    ops.append("save %s %d %d %d" % (h, v, gm, n)); meta.append(("save", ver, v, gm, n, nd))
    # many banks in one section: section sizes beyond 64 KiB (capacity arithmetic in narrower types shows here, with destinations that are
    # too small by multiples of 2^16 or just hold a whole number of 64 KiB less than a section)
    for k in range(1 if quick else 6):
        ver = 2 if k % 2 == 0 else 1
        cm, cp = rng.choice([(8, 1), (1, 9), (10, 11), (12, 2)])
        img = gen_wopn.bank_image(rng, ver, cm, cp)
        h = img.hex()
        ops.append("load " + h); meta.append(("load", ver))
        for v in ((2, 1) if not quick else (rng.choice([1, 2]),)):
            isz = 65 if v == 1 else 69
            nd = needed(len(img), cm, cp, v)
            hdr = nd - isz * 128 * (cm + cp)
            s1, s2 = isz * 128 * cm, isz * 128 * cp
            sizes = {nd - 1, nd, hdr - 1, hdr, hdr + s1 - 1, hdr + s1, hdr + s1 % 65536, hdr + s1 % 65536 + 1, hdr + s1 + s2 % 65536, hdr + s1 + s2 % 65536 - 1,
                     hdr + (s1 + s2) % 65536, hdr + 8320, hdr + 8832}
            for j in (1, 2, 3):
                sizes |= {nd - 65536 * j, nd - 65536 * j - 1, nd - 65536 * j + 1}
            sizes |= {rng.randrange(nd + 1) for _ in range(4)}
            for n in sorted(x for x in sizes if 0 <= x):
                ops.append("save %s %d 0 %d" % (h, v, n)); meta.append(("save", ver, v, 0, n, nd))
    # OPNI
    for k in range(40 if quick else 400):
        ver = rng.choice([1, 2, 2])
        img = gen_wopn.inst_image(rng, ver)
        ops.append("loadinst " + img.hex()); meta.append(("loadinst",))
        for v in (1, 2, 0):
            nd = 77 if v == 1 else 79
            for n in sorted({0, 10, 11, 12, 13, 14, nd - 1, nd, nd + 1, rng.randrange(nd + 1)}):
                ops.append("saveinst %s %d %d" % (img.hex(), v, n)); meta.append(("saveinst", v, n, nd))
    return ops, meta


def monitors(ops, meta, obs):
    """property clauses evaluated directly on the implementation's observations"""
    fails = []
    for i, (m, o) in enumerate(zip(meta, obs)):
        if o.startswith("fault="):
            fails.append(("implementation fault %s" % o, i)); continue
        if m[0] in ("save", "saveinst"):
            n, nd = (m[4], m[5]) if m[0] == "save" else (m[2], m[3])
            mm = re.match(r"code=(\d+) size=(\d+) buf=(\S+)", o)
            if not mm:
                fails.append(("unparsable save observation", i)); continue
            code, size = int(mm.group(1)), int(mm.group(2))
            if n >= size and code != 0:
                fails.append(("save into a buffer of the reported size (%d <= %d) failed with code %d" % (size, n, code), i))
            if n < nd and code == 0:
                fails.append(("too-small destination (%d < %d needed) accepted" % (n, nd), i))
        if m[0] == "rt" and not m[3] and m[2] in (2, 0) and m[1] == 2:
            mm = re.search(r"same=(\d)", o)
            # generated v2 images load to values whose names may be unterminated / unpadded; equality is still required
            # because the loader itself canonicalises names (load∘save∘load = load)
            if not mm or mm.group(1) != "1":
                fails.append(("version-2 round trip of a loaded value is not the identity", i))
    return fails


def run(tier, replay=None):
    ctx = Ctx(PROP, tier)
    tr_ok = ctx.translate()
    if tr_ok:
        ctx.prove(MODULE)
    if replay:
        ops = [l for l in open(replay).read().split("\n") if l.strip() and not l.startswith("#")]
        meta = [("replay",)] * len(ops)
    else:
        ops, meta = gen_ops(ctx)
    text = "\n".join(ops) + "\n"
    model = None
    try:
        model = common.run_model("wopn", text)
    except Exception as e:
        ctx.broken.append("model driver failed: %s" % str(e)[:300])
    impl, _ = common.run_impl("wopn", text, stateless=True)
    ndiff, first = 0, None
    if model is not None:
        for i in range(len(ops)):
            a = model[i] if i < len(model) else "<missing>"
            b = impl[i] if i < len(impl) else "<missing>"
            if a != b:
                ndiff += 1
                if first is None:
                    first = i
    fails = monitors(ops, meta, impl)
    for why, i in fails[:3]:
        ctx.violate("monitor", "# %s\n# implementation: %s\n# model: %s\n%s\n" % (why, impl[i][:300], (model[i][:300] if model else "-"), ops[i]))
    if first is not None:
        i = first
        ctx.broken.append("correspondence wopn: %d differing observations, first at op %d (%s...): model %r, implementation %r" % (
            ndiff, i, ops[i][:60], model[i][:160], impl[i][:160]))
        if not fails:
            # the divergence itself, as replay (the monitors found no clause violated on it)
            p = common.write_replay(PROP, "divergence", "# model: %s\n# implementation: %s\n%s\n" % (model[i][:400], impl[i][:400], ops[i]))
            ctx.notes.append("first divergence written to " + p)
    kinds = {}
    for m in meta:
        kinds[m[0]] = kinds.get(m[0], 0) + 1
    ctx.cov.update({
        "evaluations": len(ops), "distinct_nontrivial": len(set(o for o in impl if not o.startswith("err") and not o.startswith("bad"))),
        "rule": "structured WOPN/OPNI images (1..3+1..2 banks, one to six images with 8..12 banks in a section and destinations chosen around multiples of 64 KiB, zero counts, boundary names/offsets/delays) x load, save-load round trips for versions 2/1/0 "
                "with and without struct modifications the loader cannot produce, saves into destinations of 0..needed+40 bytes (exact-size heap blocks under ASan); "
                "non-trivial = distinct observation that is not an error code",
        "traces_validated_against_impl": len(ops) - ndiff, "disagreements": ndiff, "monitor_failures": len(fails),
        "input_distribution": kinds,
        "samples": [{"op": ops[i][:100] + "...", "impl": impl[i][:160]} for i in ctx.rng.sample(range(len(ops)), min(5, len(ops)))],
        "exhaustive": False})
    return ctx.finish(trusted_extra=["struct field values reach the C code only through the load+modify path of the harness (values are those of the C struct types)"],
                      assumptions=["calloc succeeds for the bank counts used (≤ 23 banks)"])
