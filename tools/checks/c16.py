"""C16 — The bank API behaves as a map (percussive, MSB, LSB) -> 128 instruments."""
import os, re, itertools
from .base import Ctx
import common, gen_wopn

PROP = "C16"
MODULE = "OpnVerif.Props.C16"
# keys hashing to the same bucket: hash = (lsb & 127) | (msb << 7) & 255 -> msb parity and lsb decide; percussive bit is dropped
COLLIDE = [(0, 0, 0), (0, 2, 0), (0, 4, 0), (1, 0, 0), (1, 2, 0), (0, 126, 0)]
OTHERS = [(0, 0, 1), (0, 1, 0), (1, 1, 0), (0, 127, 127), (1, 127, 127), (0, 3, 5), (0, 64, 64), (1, 0, 127)]


class Ref:
    """independent reference: the property itself (a dict), used as monitor on the implementation's observations"""
    def __init__(self):
        self.m = {}
        self.cap = 0
        self.regs = {}

    def blank(self):
        return [None] * 128


def gen_seq(ctx, n, universe):
    """one op sequence starting with `new`; never uses a stale handle (tracked with the reference semantics)"""
    rng = ctx.rng
    ops = ["new"]
    present = set()
    regs = {}
    cap = 0

    def grow_insert(k):
        nonlocal cap
        if k not in present:
            if len(present) == cap:
                cap += 4
            present.add(k)

    for _ in range(n):
        c = rng.random()
        if c < 0.08:
            r = rng.choice([0, 1, 2, 3, 5, 8, len(present) + 1, cap + 1, cap + 5])
            ops.append("reserve %d" % r)
            if r > cap:
                cap += max(4, r - cap)
        elif c < 0.45:
            k = rng.choice(universe); reg = rng.randrange(8)
            flags = rng.choice([1, 1, 3, 3, 0])
            ops.append("get %d %d %d %d %d" % (reg, k[0], k[1], k[2], flags))
            if flags == 1:
                grow_insert(k); regs[reg] = k
            elif flags == 3:
                if k in present:
                    regs[reg] = k
                elif len(present) < cap:
                    present.add(k); regs[reg] = k
            else:
                if k in present:
                    regs[reg] = k
        elif c < 0.5:
            ops.append("get %d %d %d %d %d" % (rng.randrange(8), rng.choice([0, 1, 2, 255]), rng.choice([0, 127, 128, 255]), rng.choice([0, 127, 128, 255]), rng.choice([0, 1, 3])))
            # invalid ids are refused unless all three happen to be valid
            a = ops[-1].split()
            if int(a[2]) <= 1 and int(a[3]) <= 127 and int(a[4]) <= 127:
                k = (int(a[2]), int(a[3]), int(a[4])); fl = int(a[5])
                if fl == 1:
                    grow_insert(k); regs[int(a[1])] = k
                elif fl == 3:
                    if k in present:
                        regs[int(a[1])] = k
                    elif len(present) < cap:
                        present.add(k); regs[int(a[1])] = k
                elif k in present:
                    regs[int(a[1])] = k
        elif c < 0.65 and regs:
            reg = rng.choice(sorted(regs))
            k = regs[reg]
            ops.append("remove %d" % reg)
            present.discard(k)
            for r2 in [r for r, kk in regs.items() if kk == k]:
                del regs[r2]
        elif c < 0.72 and regs:
            ops.append("id %d" % rng.choice(sorted(regs)))
        elif c < 0.80:
            ops.append("list")
        elif c < 0.86 and regs:
            reg = rng.choice(sorted(regs)); idx = rng.choice([0, 1, 64, 127, 127, 128, 4000])
            ops.append("setins %d %d %d %d %d %d %d %d %d %s %d %d" % (reg, idx, rng.choice([0, 0, 0, 1]), rng.choice([0, -12, 32767, -32768]), rng.choice([0, -128, 127, 5]),
                       rng.randrange(256), rng.choice([0, 1, 2, 3, 255]), rng.randrange(256), rng.randrange(256), bytes(rng.randrange(256) for _ in range(28)).hex(),
                       rng.choice([0, 1, 40000, 65535]), rng.choice([0, 65535, rng.randrange(65536)])))
        elif c < 0.94 and regs:
            ops.append("getins %d %d" % (rng.choice(sorted(regs)), rng.choice([0, 1, 64, 127, 127, 128])))
        elif c < 0.97:
            ops.append("first 9")
            if present:
                ops.append("next 9")
        else:
            ops.append("list")
    ops.append("list")
    return ops


def monitor(ops, obs):
    """the map property evaluated directly on implementation observations with an independent reference (dict)"""
    fails = []
    m, regs, cap, start = {}, {}, 0, 0
    for i, (o, r) in enumerate(zip(ops, obs)):
        a = o.split()
        if r.startswith("fault=") or r.startswith("skipped"):
            fails.append(("implementation fault %s" % r, start, i)); break
        kv = dict(x.split("=", 1) for x in r.split() if "=" in x)
        if a[0] == "new":
            m, regs, cap, start = {}, {}, 0, i
        elif a[0] == "reserve":
            n = int(a[1])
            if int(kv.get("cap", -1)) < n:
                fails.append(("capacity %s below the reserved %d" % (kv.get("cap"), n), start, i))
        elif a[0] == "get":
            reg, p, ms, ls, fl = map(int, a[1:])
            valid = p <= 1 and ms <= 127 and ls <= 127
            k = (p, ms, ls)
            ret = int(kv["ret"])
            if not valid:
                if ret == 0:
                    fails.append(("invalid bank id accepted", start, i))
                continue
            had = k in m
            capb = int(obs[i - 1].split("cap=")[1]) if i > start and "cap=" in obs[i - 1] else None
            sizeb = int(obs[i - 1].split("size=")[1].split()[0]) if i > start and "size=" in obs[i - 1] else None
            if fl % 2 == 0:
                if (ret == 0) != had:
                    fails.append(("lookup %s: ret=%d but bank %s" % (k, ret, "present" if had else "absent"), start, i))
            elif fl % 4 == 3:
                if had and ret != 0:
                    fails.append(("real-time creation of a present bank failed", start, i))
                if not had and capb is not None:
                    if (ret != 0) != (sizeb == capb):
                        fails.append(("real-time creation ret=%d with size=%d capacity=%d (must fail exactly when the reserved capacity is exhausted)" % (ret, sizeb, capb), start, i))
                    if int(kv["cap"]) != capb:
                        fails.append(("real-time creation changed the capacity (allocated)", start, i))
                if ret == 0 and not had:
                    m[k] = {}
            else:
                if ret != 0:
                    fails.append(("creation failed", start, i))
                elif not had:
                    m[k] = {}
            if ret == 0:
                regs[reg] = k
                if kv.get("key") != "%d:%d:%d" % k:
                    fails.append(("identifier read back %s differs from %s" % (kv.get("key"), k), start, i))
        elif a[0] == "remove":
            reg = int(a[1])
            k = regs.get(reg)
            if k is not None:
                if int(kv["ret"]) != 0:
                    fails.append(("remove failed", start, i))
                m.pop(k, None)
                for r2 in [x for x, kk in regs.items() if kk == k]:
                    del regs[r2]
        elif a[0] == "id":
            k = regs.get(int(a[1]))
            if k is not None and kv.get("key") != "%d:%d:%d" % k:
                fails.append(("identifier read back %s differs from %s" % (kv.get("key"), k), start, i))
        elif a[0] == "list":
            keys = [x for x in kv.get("keys", "").split(",") if x]
            exp = sorted("%d:%d:%d" % k for k in m)
            if sorted(keys) != exp:
                fails.append(("iteration visited %s, present banks are %s" % (keys, exp), start, i))
            if int(kv["size"]) != len(m):
                fails.append(("size %s, present banks %d" % (kv["size"], len(m)), start, i))
        elif a[0] == "setins":
            k = regs.get(int(a[1])); idx = int(a[2]); ver = int(a[3])
            if k is not None:
                ok = idx <= 127 and ver == 0
                if (int(kv["ret"]) == 0) != ok:
                    fails.append(("setInstrument ret=%s for index %d version %d" % (kv["ret"], idx, ver), start, i))
                if ok and int(kv["ret"]) == 0:
                    m[k][idx] = " ".join(a[4:])
        elif a[0] == "getins":
            k = regs.get(int(a[1])); idx = int(a[2])
            if k is not None:
                if idx > 127:
                    if r.strip() != "ret=-1":
                        fails.append(("getInstrument index %d accepted" % idx, start, i))
                else:
                    exp = m[k].get(idx, "0 0 0 2 0 0 " + "00" * 28 + " 0 0")
                    got = r.split("ins=")[1] if "ins=" in r else r
                    if got != exp:
                        fails.append(("instrument read back differs from the last one written (new banks read blank): got %s expected %s" % (got[:60], exp[:60]), start, i))
        if len(fails) >= 5:
            break
    return fails


def exhaustive_ops(depth):
    keys = COLLIDE[:4] + OTHERS[:2]
    alpha = ["reserve 1"] + ["get %d %d %d %d 1" % (i, k[0], k[1], k[2]) for i, k in enumerate(keys)] + \
            ["get %d %d %d %d 3" % (i, k[0], k[1], k[2]) for i, k in enumerate(keys)] + ["remove %d" % i for i in range(6)]
    ops = []
    for seq in itertools.product(alpha, repeat=depth):
        # skip sequences using a handle register before it is set or after removal (stale handles are outside the property)
        live = set(); okseq = True
        for o in seq:
            a = o.split()
            if a[0] == "get":
                live.add(int(a[1]))        # flags 1 always succeeds; flags 3 may fail -> conservative: treat as maybe
                if a[5] == "3":
                    live.discard(int(a[1])) if False else None
            elif a[0] == "remove":
                if int(a[1]) not in live:
                    okseq = False; break
                live.discard(int(a[1]))
        if not okseq:
            continue
        ops.append("new"); ops.extend(seq); ops.append("list")
        for i, k in enumerate(keys):
            ops.append("get 15 %d %d %d 0" % k)
    return ops


def run(tier, replay=None):
    ctx = Ctx(PROP, tier)
    if ctx.translate():
        ctx.prove(MODULE)
    if replay:
        ops = [l for l in open(replay).read().split("\n") if l.strip() and not l.startswith("#")]
    else:
        ops = []
        nseq = 120 if tier == "quick" else 2500
        for s in range(nseq):
            uni = COLLIDE if s % 3 == 0 else (COLLIDE + OTHERS if s % 3 == 1 else OTHERS + COLLIDE[:2])
            ops += gen_seq(ctx, ctx.rng.choice([6, 15, 40, 80]), uni)
        # bank-file loads in between
        for s in range(4 if tier == "quick" else 40):
            img = gen_wopn.bank_image(ctx.rng, 2, ctx.rng.choice([1, 2, 3]), ctx.rng.choice([1, 2]))
            ops += ["new", "get 0 0 5 5 1", "loadbank " + img.hex(), "list", "first 1", "getins 1 0", "getins 1 127", "get 2 0 5 5 0",
                    "loadbank " + img[:50].hex(), "list"]
        if tier == "thorough":
            ops += exhaustive_ops(3)
    text = "\n".join(ops) + "\n"
    model = None
    try:
        model = common.run_model("bankmap", text)
    except Exception as e:
        ctx.broken.append("model driver failed: %s" % str(e)[:300])
    impl, _ = common.run_impl("bankmap", text, stateless=False)
    ndiff, first = 0, None
    if model is not None:
        for i in range(len(ops)):
            a = model[i] if i < len(model) else "<missing>"
            b = impl[i] if i < len(impl) else "<missing>"
            if a != b:
                ndiff += 1
                if first is None:
                    first = i
    # loadbank ops replace the map by the file's banks: the dict monitor skips those sequences (checked by correspondence)
    mon_ops, mon_obs, skip = [], [], False
    for o, r in zip(ops, impl):
        if o == "new":
            skip = False
        if o.startswith("loadbank"):
            skip = True
        if not skip:
            mon_ops.append(o); mon_obs.append(r)
    fails = monitor(mon_ops, mon_obs)
    load_fails = []
    # bank-file loads: after an accepted load the banks present are exactly those of the file, under their 7-bit identifiers
    # (independent reading of the version-2 image: 18 header bytes, then 34 bytes per bank: name, LSB, MSB)
    for i, (o, r) in enumerate(zip(ops, impl)):
        if o.startswith("loadbank ") and r.startswith("ret=0") and i + 1 < len(ops) and ops[i + 1] == "list":
            img = bytes.fromhex(o.split()[1])
            if img[:11] != gen_wopn.M2 or len(img) < 18:
                continue
            cm, cp = int.from_bytes(img[13:15], "big"), int.from_bytes(img[15:17], "big")
            want = set()
            if any(img[18 + 34 * b + 32] > 127 for b in range(cm + cp)):
                continue        # LSB 128..255 is the XG SFX range of the file format, outside the key space of the bank API (identifiers are 7-bit)
            for b in range(cm + cp):
                lsb, msb = img[18 + 34 * b + 32], img[18 + 34 * b + 33]
                want.add("%d:%d:%d" % (1 if b >= cm else 0, msb & 127, lsb & 127))
            m = re.match(r"keys=(\S*) size=(\d+)", impl[i + 1])
            got = [k for k in m.group(1).split(",") if k] if m else None
            if got is None or set(got) != want or len(got) != len(want) or int(m.group(2)) != len(want):
                st = max(j for j in range(i + 1) if ops[j] == "new")
                load_fails.append(("after the bank-file load the banks present are %s, the file holds %s" % (impl[i + 1][:120], sorted(want)), st, i + 1))
    for why, st, i in fails[:3]:
        ctx.violate("monitor", "# %s\n# implementation observation at the last op: %s\n%s\n" % (why, mon_obs[i][:200], "\n".join(mon_ops[st:i + 1])))
    for why, st, i in load_fails[:3]:
        ctx.violate("monitor", "# %s\n%s\n" % (why, "\n".join(ops[st:i + 1])))
    fails = fails + load_fails
    if first is not None:
        i = first
        st = max(j for j in range(i + 1) if ops[j] == "new") if "new" in ops[:i + 1] else 0
        ctx.broken.append("correspondence bankmap: %d differing observations, first at op %d %r: model %r, implementation %r" % (ndiff, i, ops[i][:80], model[i][:120], impl[i][:120]))
        if not fails:
            common.write_replay(PROP, "divergence", "# model: %s\n# implementation: %s\n%s\n" % (model[i][:300], impl[i][:300], "\n".join(ops[st:i + 1])))
    kinds = {}
    for o in ops:
        kinds[o.split()[0]] = kinds.get(o.split()[0], 0) + 1
    ctx.cov.update({
        "evaluations": len(ops), "distinct_nontrivial": len(set(impl)),
        "rule": "op sequences over colliding and non-colliding bank ids (reserve, create, real-time create, lookup, remove, iterate, get/set instrument, bank-file loads), "
                "never using a stale handle; thorough adds all sequences of length 3 over a 6-key universe; distinct = distinct observation lines",
        "traces_validated_against_impl": len(ops) - ndiff, "disagreements": ndiff, "monitor_failures": len(fails), "input_distribution": kinds,
        "samples": [{"op": ops[i][:100], "impl": impl[i][:120]} for i in ctx.rng.sample(range(len(ops)), min(6, len(ops)))],
        "exhaustive": False})
    return ctx.finish(trusted_extra=["the slot/pointer layer of BasicBankMap (next/prev links, slab allocations) is below the proved model: it is covered by the correspondence and the dict monitor only"],
                      assumptions=["handles are used only while their bank is present (stale handles are outside the property)"])
