"""C17 — Container/converter front-ends preserve the music (RMI, GMF, MUS, XMI)."""
import re, collections, statistics
from fractions import Fraction
from .base import Ctx
import common, gen_smf, gen_mus
from . import seq_common as sq
from . import c07

PROP = "C17"
MODULE = "OpnVerif.Props.C17"
GRAN = "1:-24"


def delivered_rt(line):
    """calls into the synthesizer with their times: list of (time, (kind, ch, a, b))"""
    out = []
    for (tag, st, f) in sq.parse_events(sq.ev_of(line)):
        if tag == "R":
            k, ch, a, b = (int(x) for x in f)
            out.append((sq.dy(st), (k, ch, a, b)))
    # the All-Notes-Off burst at the end of the song (channels 0..15 in order, once) is not part of the music
    if len(out) >= 16 and [c[1] for c in out[-16:]] == [(11, ch, 123, 0) for ch in range(16)]:
        out = out[:-16]
    return out


def norm_ref(ev):
    """reference event -> the synthesizer call it must become"""
    k = ev[0]
    if k == 0x8:
        return (8, ev[1], ev[2], 0)
    if k == 0x9:
        return (9, ev[1], ev[2], ev[3])
    if k == 0xB:
        return (11, ev[1], ev[2], ev[3])
    if k == 0xC:
        return (12, ev[1], ev[2], 0)
    if k == 0xE:
        return (14, ev[1], ev[3], ev[2])      # rt_pitchBend(msb, lsb)
    return None


def histories(ctx):
    rng = ctx.rng
    quick = ctx.tier == "quick"
    hs = []
    for i in range(30 if quick else 300):
        song = c07.gen_song(rng, loops="none"); song.loops = None
        img = song.encode(running_status=rng.random() < 0.5)
        bare = sq.PREFIX + ["opendata " + img.hex(), "total", "tracks", "tickall 200000 " + GRAN]
        wrapped = sq.PREFIX + ["opendata " + gen_smf.rmi(img).hex(), "total", "tracks", "tickall 200000 " + GRAN]
        hs.append(("rmi", (bare, wrapped), None))
    for i in range(40 if quick else 600):
        evs = gen_mus.gen_mus_events(rng)
        chans = rng.choice([1, 3, 9, 15])
        img = gen_mus.encode_mus(evs, channels=chans, pad=rng.choice([0, 2, 16]))
        h = sq.PREFIX + ["opendata " + img.hex(), "tickall 400000 " + GRAN]
        hs.append(("mus", (h,), (evs, chans)))
    for i in range(40 if quick else 600):
        nsongs = rng.choice([1, 2, 3])
        songs = [gen_mus.gen_xmi_song(rng, with_tempo=True) for _ in range(nsongs)]
        img = gen_mus.encode_xmi(songs, timb=rng.random() < 0.3)
        sel = rng.randrange(nsongs)
        h = sq.PREFIX + ["selectsong %d" % sel, "opendata " + img.hex(), "songs", "tickall 400000 " + GRAN]
        # switching the song afterwards
        sel2 = rng.randrange(nsongs)
        h += ["selectsong %d" % sel2, "tickall 400000 " + GRAN]
        hs.append(("xmi", (h,), (songs, sel, sel2)))
    return hs


def match_scaled(ref, got, nominal_hz, tol, what):
    """ref: list of (tick, call); got: list of (time, call).  Same multiset of calls per tick, time = tick / f with f within tol of nominal."""
    if collections.Counter(c for _, c in ref) != collections.Counter(c for _, c in got):
        want = collections.Counter(c for _, c in ref); have = collections.Counter(c for _, c in got)
        return "%s: the synthesizer receives other events than the format defines: missing %s, unexpected %s" % (what, list((want - have).items())[:3], list((have - want).items())[:3])
    pool = collections.defaultdict(list)
    for t, c in got:
        pool[c].append(t)
    rates = []
    for tick, c in sorted(ref, key=lambda x: x[0]):
        t = pool[c].pop(0)
        if tick > 0:
            if t <= 0:
                return "%s: event %s of tick %d is delivered at time 0" % (what, c, tick)
            rates.append((Fraction(tick) / t, tick, c, t))
        elif t > Fraction(1, 1000):
            return "%s: event %s of tick 0 is delivered at %.6f s" % (what, c, float(t))
    for (r, tick, c, t) in rates:
        # one-tick rounding of the converters' integer arithmetic is allowed on top of the relative tolerance
        lo = Fraction(tick - 1) / t if tick > 1 else 0
        hi = Fraction(tick + 1) / t
        if not (nominal_hz * (1 - tol) <= r <= nominal_hz * (1 + tol)) and not (lo <= nominal_hz * (1 + tol) and hi >= nominal_hz * (1 - tol)):
            return "%s: event %s of source tick %d is delivered at %.6f s, i.e. %.3f ticks per second (nominal %d Hz)" % (what, c, tick, float(t), float(r), nominal_hz)
    return None


def run(tier, replay=None):
    ctx = Ctx(PROP, tier)
    if ctx.translate():
        ctx.prove(MODULE)
    if replay:
        lines = [l for l in open(replay).read().split("\n") if l.strip() and not l.startswith("#")]
        cases = [("replay", (lines,), None)]
    else:
        cases = histories(ctx)
    flat = [h for (_, hh, _) in cases for h in hh]
    res = sq.run(flat)
    nfail = 0
    idx = 0
    kinds = collections.Counter()
    def fail(why, h):
        nonlocal nfail
        nfail += 1
        if nfail <= 3:
            ctx.violate("monitor", "# %s\n%s\n" % (why, "\n".join(h)))
    for (kind, hh, info) in cases:
        got = [res[idx + k][0] for k in range(len(hh))]
        idx += len(hh)
        kinds[kind] += 1
        bad = next((r for io in got for r in io if r.startswith("fault=") or r.startswith("skipped")), None)
        if bad:
            fail("implementation fault: %s" % bad[:200], hh[0]); continue
        if kind == "rmi":
            a, b = got
            if [sq.core(x) for x in a[4:]] != [sq.core(x) for x in b[4:]]:
                k = next(i for i in range(4, len(a)) if sq.core(a[i]) != sq.core(b[i]))
                fail("the RIFF/RMID wrapped file plays differently from the bare SMF at %r: %s vs %s" % (hh[0][k][:40], sq.core(a[k])[:200], sq.core(b[k])[:200]), hh[1])
        elif kind == "mus":
            evs, chans = info
            io = got[0]
            if sq.core(io[4]) != "ret=0":
                fail("a well-formed MUS score was rejected", hh[0]); continue
            ref = [(0, (11, 9, 7, 100))] + [(tick, norm_ref(e)) for (tick, e) in gen_mus.mus_reference(evs, chans) if e[0] != "end" and norm_ref(e)]
            why = match_scaled(ref, delivered_rt(io[5]), 140, Fraction(25, 1000), "MUS")
            if why:
                fail(why, hh[0])
        elif kind == "xmi":
            songs, sel, sel2 = info
            io = got[0]
            if sq.core(io[5]) != "ret=0":
                fail("a well-formed XMI file was rejected", hh[0]); continue
            if sq.core(io[6]) != "ret=%d" % len(songs):
                fail("opn2_getSongsCount reports %s for %d sequences" % (sq.core(io[6]), len(songs)), hh[0]); continue
            for (s, line, label) in ((sel, io[7], "selected before loading"), (sel2, io[9], "selected after loading")):
                ref = [(tick, norm_ref(e)) for (tick, order, e) in gen_mus.xmi_reference(songs[s]) if norm_ref(e)]
                why = match_scaled(ref, delivered_rt(line), 120, Fraction(1, 100), "XMI song %d (%s)" % (s, label))
                if why:
                    fail(why, hh[0]); break
    ndiff = sq.compare(ctx, PROP, flat, res)
    ctx.cov.update({"evaluations": sum(len(h) for h in flat), "histories": len(flat), "disagreements": ndiff, "monitor_failures": nfail, "input_distribution": dict(kinds),
                    "traces_validated_against_impl": sum(1 for (io, mo) in res for m in mo if m is not None and m != "ret=?") - ndiff, "exhaustive": False,
                    "distinct_nontrivial": len(set(sq.ev_of(io[-1])[:300] for (io, mo) in res if io)),
                    "rule": "RMI: the wrapped file must give the same observations as the bare SMF; MUS: an independent Python reading of the score (channel 15 -> 9, channels in order of "
                            "first use skipping 9, controller table, remembered volumes, volume 100 on first use) must equal the calls into the synthesizer, times = ticks / f with f within "
                            "2.5 % of 140 Hz; XMI: durations become note-offs, CC114 -> 32, the selected song (before and after loading) is played, song count, times = ticks / 120 Hz "
                            "within 1 %; SMF/RMI/GMF/MUS observations are also compared with the Lean model (the XMI converter is not modelled)"})
    return ctx.finish(trusted_extra=["the Python readings of the MUS and XMI formats (tools/gen_mus.py)"],
                      assumptions=["XMI sequences carry a tempo event (the property's condition for the 120 Hz rate)", "MUS delays stay below 2^21 ticks"])
