"""C18 — Settings are transactional: accepted values stick, rejected change nothing."""
import os, re, collections
from fractions import Fraction
from .base import Ctx
import common, gen_wopn, gen_smf, gen_mus, synth_gen
from . import seq_common as sq
from . import c07

PROP = "C18"
MODULE = "OpnVerif.Props.C18"
FIELDS = ["nc", "nco", "lfo", "lff", "ct", "arp", "vm", "al", "emu", "rap", "sm", "frb", "sp", "lv", "dev", "hk", "loop", "lc", "tempo", "nch"]
MODEL_OPS = {"new", "numchips", "emu", "runatpcm", "devid", "lfo", "lfofreq", "chiptype", "scalemod", "frb", "arp", "loop", "loopcount", "loophooksonly", "softpan", "logvol",
             "vm", "alloc", "tempo", "reset", "hook", "bankdata", "opendata"}


def settings_of(line):
    m = re.search(r"S\{([^}]*)\}", line)
    if not m:
        return None
    return dict(kv.split("=", 1) for kv in m.group(1).split() if "=" in kv)


def small_bank(rng):
    img = bytearray(synth_gen.test_bank(rng, nmel=1, nperc=1, blanks=0)[0])
    img[17] = rng.randrange(16)             # LFO byte: enable bit 3, frequency bits 0..2
    return bytes(img)


def gen_history(rng, n):
    h = ["new 44100"]
    song = c07.gen_song(rng, loops="none", ntracks=2); song.loops = None
    good_mid = song.encode()
    for _ in range(n):
        c = rng.random()
        if c < 0.08:
            h.append("numchips %d" % rng.choice([1, 2, 3, 8, 100, 0, -1, 101, 1000, -2147483648, 2147483647]))
        elif c < 0.16:
            h.append("emu %d" % rng.choice([0, 1, 2, 3, 4, 5, 6, 8, -1, 9, 31, 32, 33, 64, 1000, -2147483648, 2147483647]))
        elif c < 0.20:
            h.append("devid %d" % rng.choice([0, 1, 5, 15, 16, 17, 255, 4294967295]))
        elif c < 0.26:
            h.append("lfo %d" % rng.choice([-1, 0, 1, 5, -7]))
        elif c < 0.32:
            h.append("lfofreq %d" % rng.choice([-1, 0, 1, 7, 3]))
        elif c < 0.37:
            h.append("chiptype %d" % rng.choice([-1, 0, 1]))
        elif c < 0.42:
            h.append("vm %d" % rng.choice([0, 1, 2, 3, 4, 5, 6, -1, 100]))
        elif c < 0.47:
            h.append("alloc %d" % rng.choice([-1, 0, 1, 2, 3, -2, 100]))
        elif c < 0.55:
            h.append(rng.choice(["scalemod 1", "scalemod 0", "frb 1", "frb 0", "arp 1", "arp 0", "softpan 1", "softpan 0", "runatpcm 1", "runatpcm 0"]))
        elif c < 0.62:
            h.append(rng.choice(["loop 1", "loop 0", "loopcount 3", "loopcount -1", "loopcount 0", "loopcount 1", "loophooksonly 1", "loophooksonly 0", "tempo 1:1", "tempo 3:-1", "tempo -1:0", "tempo 0:0"]))
        elif c < 0.70:
            h.append("hook %s %d" % (rng.choice(["raw", "note", "debug", "loopstart", "loopend"]), rng.choice([0, 1, 1])))
        elif c < 0.76:
            h.append("reset")
        elif c < 0.84:
            img = small_bank(rng)
            if rng.random() < 0.4:
                img = rng.choice(gen_wopn.mutations(rng, img, 3))
            h.append("bankdata " + img.hex())
        elif c < 0.92:
            img = good_mid if rng.random() < 0.5 else rng.choice(gen_smf.mutate(rng, good_mid, 3) + gen_smf.tail_cases()[:10] + [gen_smf.gen_cmf(rng)] * 4)     # (a well-formed CMF is parsed completely, then refused)
            h.append("opendata " + img.hex())
        elif c < 0.95:
            h.append("trackopt %d %d" % (rng.choice([0, 1, 2, 5, 100000]), rng.choice([1, 2, 3, 0, 4, 7])))
        else:
            h.append("chanen %d %d" % (rng.choice([0, 9, 15, 16, 17, 100000]), rng.choice([0, 1])))
    return h


FAILABLE = ("numchips", "emu", "devid", "bankdata", "opendata", "trackopt", "chanen", "getbank")


def monitor(h, io):
    """the property's clauses on the implementation's own observations"""
    fails = []
    prev = None
    banks_loaded = False
    for k, (o, r) in enumerate(zip(h, io)):
        if r.startswith("fault=") or r.startswith("skipped"):
            fails.append(("implementation fault: %s" % r[:160], k)); break
        cur = settings_of(r)
        ret = sq.core(r).split()[0][4:] if r.startswith("ret=") else None
        w = o.split()
        if cur is None:
            prev = None          # this call shows no settings line: nothing to compare the next one with
            continue
        if prev is not None and w[0] in FAILABLE and ret == "-1":
            # rejected: every observable setting as before (the error flag may be raised)
            diff = [f for f in cur if f not in ("err",) and cur[f] != prev.get(f)]
            # a rejected music file re-applies the setup but must not change any setting; the loaded song may be gone
            if w[0] == "opendata":
                diff = [f for f in diff if f not in ("tracks", "tdis", "solo", "chdis", "songs")]
            if diff:
                fails.append(("%s %s was rejected (-1) but changed %s: %s -> %s" % (w[0], " ".join(w[1:2])[:20], diff[0], prev.get(diff[0]), cur[diff[0]]), k)); break
            if w[0] in ("bankdata", "opendata") and cur.get("err") != "1":
                fails.append(("a rejected %s leaves an empty error text" % ("bank" if w[0] == "bankdata" else "music file"), k)); break
        if ret == "0" or ret == "-":
            v = int(w[1]) if len(w) > 1 and re.fullmatch(r"-?\d+", w[1]) else None
            exp = None
            if w[0] == "numchips" and ret == "0":
                exp = [("nc", str(v)), ("nco", str(v)), ("nch", str(6 * v))]
            elif w[0] == "emu" and ret == "0":
                exp = [("emu", str(v))]
            elif w[0] == "devid" and ret == "0":
                exp = [("dev", str(v))]
            elif w[0] == "lfo" and v >= 0:
                exp = [("lfo", "1" if v else "0")]
            elif w[0] == "lfofreq" and 0 <= v < 256:
                exp = [("lff", str(v))]
            elif w[0] == "chiptype" and v >= 0:
                exp = [("ct", str(v))]
            elif w[0] == "vm" and 1 <= v <= 5:
                exp = [("vm", str(v))]      # an explicit model also ends the deprecated logarithmic-volume switch
            elif w[0] == "alloc":
                exp = [("al", str(v) if -1 <= v < 3 else "-1")]
            elif w[0] == "arp":
                exp = [("arp", "1" if v else "0")]
            elif w[0] in ("scalemod", "frb", "softpan", "runatpcm", "loop"):
                exp = [({"scalemod": "sm", "frb": "frb", "softpan": "sp", "runatpcm": "rap", "loop": "loop"}[w[0]], "1" if v else "0")]
            elif w[0] == "loopcount" and v != 0:
                exp = [("lc", str(v))]          # (0 and 1 both mean a single pass; there is no public getter)
            for (f, val) in exp or []:
                if cur.get(f) != val:
                    fails.append(("%s %s was accepted but the instance reports %s=%s" % (w[0], w[1], f, cur.get(f)), k)); break
            if fails:
                break
        # persistence: calls that are not the setter of a field leave it alone (bank loads reset the per-bank overrides only)
        if prev is not None and w[0] in ("reset", "emu", "numchips", "runatpcm", "opendata", "bankdata", "hook", "devid", "trackopt", "chanen", "chiptype"):
            keep = {"reset": FIELDS, "emu": [f for f in FIELDS if f != "emu"], "numchips": [f for f in FIELDS if f not in ("nc", "nco", "nch")],
                    "runatpcm": [f for f in FIELDS if f != "rap"], "opendata": FIELDS, "hook": [f for f in FIELDS if f != "hk"],
                    "devid": [f for f in FIELDS if f != "dev"], "trackopt": FIELDS, "chanen": FIELDS, "chiptype": [f for f in FIELDS if f != "ct"],
                    "bankdata": [f for f in FIELDS if f not in ("lfo", "lff", "ct", "vm")]}[w[0]]
            diff = [f for f in keep if cur.get(f) != prev.get(f)]
            if diff:
                fails.append(("%s changed the setting %s from %s to %s" % (w[0], diff[0], prev.get(diff[0]), cur[diff[0]]), k)); break
        prev = cur
    return fails


def run(tier, replay=None):
    ctx = Ctx(PROP, tier)
    if ctx.translate():
        ctx.prove(MODULE)
    rng = ctx.rng
    if replay:
        hs = [[l for l in open(replay).read().split("\n") if l.strip() and not l.startswith("#")]]
    else:
        import glob
        hs = [[l for l in open(f).read().split("\n") if l.strip() and not l.startswith("#")] for f in sorted(glob.glob(os.path.join(common.VERIF, "corpus", PROP, "*.api")))]
        hs += [gen_history(rng, 40) for _ in range(50 if tier == "quick" else 900)]
    # ---- directed case: the VGM dumper limits the chips to 2 while it is selected; the accepted count is in force again for the next emulator
    # (the dumper prints a banner on stdout, so this history is read by its last observation only)
    if not replay:
        dh = ["new 44100", "openbankfile %s" % os.path.join(common.REPO, "fm_banks", "gm.wopn"), "numchips 4", "emu 7", "emu 0", "tell"]
        dimpl, _ = common.run_impl("api", "\n".join(dh) + "\n", stateless=True, timeout=120)
        last = [settings_of(l) for l in dimpl if l.startswith("ret=") and settings_of(l)]
        if not last or last[-1].get("emu") != "0" or last[-1].get("nc") != "4" or last[-1].get("nco") != "4":
            ctx.violate("monitor", "# numchips 4 was accepted; after a visit to the VGM dumper (emu 7) and back to emulator 0 the instance reports %s\n%s\n" % (
                {f: last[-1].get(f) for f in ("emu", "nc", "nco")} if last else "nothing", "\n".join(dh)))
    ops = [o for h in hs for o in h]
    impl, _ = common.run_impl("api", "\n".join(ops) + "\n", stateless=True, timeout=1200)
    mops = [o for o in ops if o.split()[0] in MODEL_OPS]
    model = None
    try:
        model = common.run_model("settings", "\n".join(mops) + "\n")
    except Exception as e:
        ctx.broken.append("model driver failed: %s" % str(e)[:200])
    pos = mp = 0
    nfail = ndiff = 0
    first = None
    kinds = collections.Counter()
    rejected = 0
    for h in hs:
        io = impl[pos:pos + len(h)]
        pos += len(h)
        for o, r in zip(h, io):
            kinds[o.split()[0]] += 1
            if sq.core(r).startswith("ret=-1"):
                rejected += 1
        fails = monitor(h, io)
        for why, k in fails[:1]:
            nfail += 1
            if nfail <= 3:
                ctx.violate("monitor", "# %s\n%s\n" % (why, "\n".join(x if len(x) < 300 else x[:120] + "..." for x in h[:k + 1])))
                common.write_replay(PROP, "monitor-full", "\n".join(h[:k + 1]) + "\n")
        unknown = False
        for k, o in enumerate(h):
            if o.split()[0] not in MODEL_OPS:
                continue
            m = model[mp] if model is not None and mp < len(model) else "<missing>"
            mp += 1
            if o.startswith("new "):
                unknown = False
            if m == "ret=?" or unknown or k >= len(io):
                unknown = unknown or m == "ret=?"
                continue
            cur = settings_of(io[k])
            if cur is None:
                continue
            want = dict(kv.split("=", 1) for kv in m.split() if "=" in kv)
            got = {"ret": sq.core(io[k]).split()[0][4:]}
            got.update({f: cur.get(f) for f in FIELDS})
            d = [f for f in ["ret"] + FIELDS if want.get(f) != got.get(f)]
            if d:
                ndiff += 1
                if first is None:
                    first = (h, k, d[0], want.get(d[0]), got.get(d[0]))
    if first:
        h, k, f, a, b = first
        ctx.broken.append("correspondence settings: %d differing observations, first at op %r (op %d of its history): field %s model %s / implementation %s" % (ndiff, h[k][:50], k, f, a, b))
        if not nfail:
            common.write_replay(PROP, "divergence", "# field %s: model %s, implementation %s\n%s\n" % (f, a, b, "\n".join(h[:k + 1])))
    ctx.samples = [{"ops": [x[:120] for x in h[1:6]]} for h in hs[:3]]
    ctx.cov.update({"evaluations": len(ops), "histories": len(hs), "rejected_calls": rejected, "disagreements": ndiff, "monitor_failures": nfail, "input_distribution": dict(kinds),
                    "traces_validated_against_impl": len(mops) - ndiff, "distinct_nontrivial": len(set(re.sub(r"bank=\d+", "", r)[:400] for r in impl)), "exhaustive": False,
                    "rule": "random sequences of setters with boundary and out-of-range arguments, hooks, resets, emulator switches, valid and corrupted bank and music loads; clauses on the "
                            "implementation: a call returning -1 leaves all 30 observable settings (getters + friend-access fields + bank digest) unchanged and, for files, a non-empty "
                            "error text; an accepted value is reported by the matching getter; every other call leaves a setting alone (bank loads reset only LFO / chip type / volume "
                            "model); the 20 fields the Lean settings model covers are compared after every call"})
    return ctx.finish(trusted_extra=["settings without a public getter are read through the OPNMIDI_VERIF friend access"],
                      assumptions=["chip types -1, 0, 1 only (other values select no chip family)", "the deprecated opn2_setLogarithmicVolumes is part of the histories and of the theorems (Consistent covers it)"])
