"""C19 — Only well-formed, correctly addressed SysEx messages take effect."""
from .base import Ctx
import common, synth_gen
from . import synth_common

PROP = "C19"
MODULE = "OpnVerif.Props.C19"


def roland(dev, addr, data):
    body = list(addr) + list(data)
    chk = (128 - (sum(body) % 128)) % 128
    return [0xF0, 0x41, 0x10 + dev, 0x42, 0x12] + body + [chk, 0xF7]


def recognised(dev, rng):
    return [
        ("gmOn", [0xF0, 0x7E, rng.choice([0x7F, dev]), 0x09, 0x01, 0xF7]),
        ("gmOff", [0xF0, 0x7E, rng.choice([0x7F, dev]), 0x09, 0x02, 0xF7]),
        ("mv", [0xF0, 0x7F, rng.choice([0x7F, dev]), 0x04, 0x01, rng.randrange(128), rng.randrange(128), 0xF7]),
        ("gs", roland(dev, [0x40, 0x00, 0x7F], [0x00])),
        ("gssys", roland(dev, [0x00, 0x00, 0x7F], [rng.choice([0, 1])])),
        ("drum", roland(dev, [0x40, 0x10 + rng.randrange(16), 0x15], [rng.choice([0, 1, 2])])),
        ("xg", [0xF0, 0x43, 0x10 + dev, 0x4C, 0x00, 0x00, 0x7E, 0x00, 0xF7]),
    ]


def mutate(rng, msg):
    m = list(msg)
    k = rng.randrange(8)
    if k == 0 and len(m) > 2:
        i = rng.randrange(len(m)); m[i] = (m[i] + rng.choice([1, 0x10, 0x80, 255])) % 256
    elif k == 1:
        m = m[:-1]
    elif k == 2:
        m = m[1:]
    elif k == 3:
        i = rng.randrange(1, len(m)); m.insert(i, rng.randrange(256))
    elif k == 4 and len(m) > 4:
        i = rng.randrange(1, len(m) - 1); del m[i]
    elif k == 5:
        low = m[2] % 16
        m[2] = rng.choice([0, 1, 0x0F, 0x10, 0x1F, 0x20, 0x7E, 0x7F, 0x80, 0xFF, (m[2] + 1) % 256] + [16 * j + low for j in range(8)] * 2)
    elif k == 6 and len(m) > 3:
        m[-2] = (m[-2] + rng.choice([1, 2, 64, 127])) % 256
    else:
        m = m[:rng.randrange(len(m) + 1)]
    return m


def spec_accept(b, dev, nmidi=16):
    """the recognised encodings, written out independently of the Lean model; returns True / False / None (None: the message contains
    data bytes >= 0x80, which the statement does not speak about)"""
    if len(b) < 4 or b[0] != 0xF0 or b[-1] != 0xF7:
        return False
    if any(x >= 0x80 for x in b[3:-1]):
        return None
    man, d, data = b[1], b[2], b[3:-1]
    if man in (0x7E, 0x7F):
        if d not in (0x7F, dev):
            return False
        if man == 0x7E:
            return data in ([0x09, 0x01], [0x09, 0x02])
        return len(data) == 4 and data[:2] == [0x04, 0x01]
    if man == 0x41:
        if d != 0x10 + dev:
            return False
        if len(data) != 7 or data[0] != 0x42 or data[1] != 0x12:
            return False
        addr, val, chk = data[2:5], data[5], data[6]
        if (128 - (sum(addr) + val) % 128) % 128 != chk:
            return False
        if addr in ([0x40, 0x00, 0x7F], [0x00, 0x00, 0x7F]):
            return True
        return addr[0] == 0x40 and addr[1] // 16 == 1 and addr[2] == 0x15
    if man == 0x43:
        if d != 0x10 + dev:
            return False
        return len(data) == 5 and data[:4] == [0x4C, 0x00, 0x00, 0x7E]
    return False


def histories(ctx):
    rng = ctx.rng
    g = synth_gen.Gen(rng)
    hs = []
    n = 10 if ctx.tier == "quick" else 120
    for i in range(n):
        dev = rng.randrange(16)
        if i % 4 == 3:
            dev = rng.choice([7, 15, 1])          # 0xF7 & 0x0F = 7: a terminator mistaken for the device byte would match
        h = g.history(12, chips=1)[:-14]       # a prior state with notes, pedals, controllers
        h.insert(2, "devid %d" % dev)
        for _ in range(40 if ctx.tier == "quick" else 120):
            name, msg = rng.choice(recognised(dev, rng))
            c = rng.random()
            if c < 0.45:
                msg = mutate(rng, msg)
            elif c < 0.55:
                msg = [rng.randrange(256) for _ in range(rng.randrange(0, 65))]
            elif c < 0.65:
                # addressed to another device
                other = (dev + rng.randrange(1, 16)) % 16
                _, msg = rng.choice(recognised(other, rng))
            if rng.random() < (0.25 if dev == 7 else 0.06):
                msg = rng.choice([[0xF0, rng.choice([0x41, 0x43, 0x7E, 0x7F]), 0xF7], [0xF0, 0xF7], [0xF0], [0xF7], [],
                                  [0xF0, rng.choice([0x41, 0x43]), rng.choice([0x10 + dev, 0x7F, dev]), 0xF7]])
            h.append("sysex " + ("".join("%02x" % b for b in msg) if msg else "-"))
            if rng.random() < 0.3:
                h.append(rng.choice(["on 0 60 100", "cc 0 7 90", "cc 0 64 127", "cc 1 11 50", "pb 0 9000", "on 9 40 127", "off 0 60"]))
        hs.append(h)
    return hs


def monitor(h, io):
    """rejected => nothing changes: the whole snapshot (mode, controllers digest, notes, users, registers) is identical to the previous one"""
    fails = []
    dev = 0
    for k in range(1, len(h)):
        if h[k].startswith("devid ") and io[k].startswith("ret=0"):
            dev = int(h[k].split()[1])
        if h[k] in ("reset",) or h[k].startswith("new "):
            dev = 0
        if not h[k].startswith("sysex ") or not io[k].startswith("ret=") or not io[k - 1].startswith("ret="):
            continue
        hx0 = h[k].split()[1]
        b0 = [int(hx0[i:i + 2], 16) for i in range(0, len(hx0), 2)] if hx0 != "-" else []
        exp = spec_accept(b0, dev)
        got = io[k].split(" ", 1)[0] == "ret=1"
        if exp is not None and exp != got:
            fails.append(("message %s for device id %d is %s although it %s a recognised, correctly addressed message" % (
                hx0, dev, "accepted" if got else "rejected", "is not" if got else "is"), k)); break
        if io[k].split(" ", 1)[0] == "ret=0":
            if io[k].split(" ", 1)[1] != io[k - 1].split(" ", 1)[1]:
                fails.append(("a rejected SysEx changed the synthesizer state", k)); break
        # framing / addressing requirements of accepted messages
        else:
            hx = h[k].split()[1]
            b = [int(hx[i:i + 2], 16) for i in range(0, len(hx), 2)] if hx != "-" else []
            if len(b) < 4 or b[0] != 0xF0 or b[-1] != 0xF7:
                fails.append(("an unframed byte string was accepted", k)); break
    return fails


def run(tier, replay=None):
    ctx = Ctx(PROP, tier)
    if ctx.translate():
        ctx.prove(MODULE)
    if replay:
        hs = [[l for l in open(replay).read().split("\n") if l.strip() and not l.startswith("#")]]
    else:
        hs = histories(ctx)
        hs = synth_common.corpus(PROP) + hs
    synth_common.run_histories(ctx, hs, monitor, PROP, model_is_spec_for=lambda op: op.startswith('sysex '))
    ctx.cov["rule"] = ("the seven recognised messages for device ids 0..15 and broadcast, their single-byte / length / checksum / device mutations, messages for "
                       "other devices and random byte strings up to 64 bytes, in prior states with notes, pedals and controller values; the monitor requires an "
                       "identical snapshot after every rejected message")
    return ctx.finish(assumptions=["bytes >= 0x80 inside a message are masked to 7 bits by the recogniser, as in the code; the statement does not mention them"])
