"""C20 — Every emulator core sounds the programmed pitch and goes silent on release."""
import os, re, struct, collections
from .base import Ctx
import common, gen_wopn

PROP = "C20"
MODULE = "OpnVerif.Props.C20"
# emulator id -> chip families it renders (opn2 = 0, opna = 1), from the regenerated enumeration names
EMUS = {0: ("MAME", [0]), 1: ("NUKED_YM3438", [0]), 2: ("GENS", [0]), 3: ("YMFM_OPN2", [0]), 4: ("NP2", [0, 1]), 5: ("MAME_2608", [0, 1]), 6: ("YMFM_OPNA", [0, 1]),
        8: ("NUKED_YM2612", [0])}


def tone_bank():
    """one pure-tone instrument everywhere: a single unmodulated carrier, instant attack, fast release, full level, both speakers"""
    out = bytearray(gen_wopn.M2 + struct.pack("<H", 2) + struct.pack(">HH", 1, 1) + bytes([0]))
    for _ in range(2):
        out += b"tone".ljust(32, b"\0") + bytes([0, 0])
    ops = bytes([0x01, 0x00, 0x1F, 0x00, 0x00, 0x0F, 0x00]) + bytes([0x01, 0x7F, 0x1F, 0x00, 0x00, 0x0F, 0x00]) * 3
    rec = b"sine".ljust(32, b"\0") + struct.pack(">h", 0) + bytes([0, 0x07, 0xC0]) + ops + struct.pack(">HH", 1000, 100)
    out += rec * 256
    return bytes(out)


def nominal(key):
    return 440.0 * 2 ** ((key - 69) / 12.0)


def gen_cases(ctx):
    rng = ctx.rng
    quick = ctx.tier == "quick"
    cases = []
    rates = [44100, 48000, 22050, 8000] if not quick else [44100, 22050, 8000]
    keys = [45, 69, 81] if not quick else [57, 69]
    for emu, (name, fams) in EMUS.items():
        for fam in fams:
            for rate in (rates if not quick else [rng.choice(rates), 44100] if emu not in (0,) else rates):
                for key in ([rng.choice(keys)] if quick else keys):
                    for pcm in ([0] if quick and rng.random() < 0.7 else [0, 1]):
                        cases.append((emu, name, fam, rate, key, pcm))
    return cases


def ops_for(case, bank_hex):
    emu, name, fam, rate, key, pcm = case
    sec = lambda s: int(rate * s)
    ops = ["new %d 1 %d" % (rate, emu), "bank " + bank_hex, "chiptype %d" % fam]
    if pcm:
        ops.append("runatpcm 1")
    ops += ["stat %d" % sec(0.25),                 # idle level before any note
            "on 0 %d 127" % key, "stat %d" % sec(2.0),      # held note
            "off 0 %d" % key, "stat %d" % sec(0.3), "stat %d" % sec(0.3),     # release, then silence
            "on 0 %d 127" % key, "on 1 %d 127" % (key + 4), "stat %d" % sec(0.1), "panic", "stat %d" % sec(0.3), "stat %d" % sec(0.2),
            "on 0 %d 127" % key, "stat %d" % sec(0.1), "reset", "stat %d" % sec(0.3), "stat %d" % sec(0.2)]
    # a dense burst of events, then silence again
    burst = []
    for k in range(40):
        burst += ["on %d %d 100" % (k % 8, 40 + k % 40), "cc %d 7 %d" % (k % 8, 50 + k), "off %d %d" % (k % 8, 40 + k % 40)]
    ops += burst + ["stat %d" % sec(0.4), "stat %d" % sec(0.2)]
    # six voices on the one chip: every held note stays audible while others are released
    chord = [key - 12, key - 5, key, key + 4, key + 7, key + 12]
    ops += ["on 2 %d 127" % k for k in chord] + ["stat %d" % sec(0.2)]
    ops += ["off 2 %d" % k for k in chord[:3]] + ["stat %d" % sec(0.3), "stat %d" % sec(0.2)]       # the last three still held
    ops += ["off 2 %d" % k for k in chord[3:]] + ["stat %d" % sec(0.3), "stat %d" % sec(0.2)]
    ops += ["on 2 %d 127" % k for k in chord] + ["stat %d" % sec(0.1)] + ["off 2 %d" % k for k in chord[3:]] + ["stat %d" % sec(0.3), "stat %d" % sec(0.2)]   # the first three still held
    ops += ["off 2 %d" % k for k in chord[:3]] + ["stat %d" % sec(0.3), "stat %d" % sec(0.2)]
    # a held note under a dense burst of controller changes (several hundred register writes before the next frame is rendered):
    # it stays audible, and its release still silences it
    ops += ["on 3 %d 127" % key] + ["cc 3 7 %d" % (126 + (k & 1)) for k in range(160)] + ["stat %d" % sec(0.5), "off 3 %d" % key, "stat %d" % sec(0.3), "stat %d" % sec(0.2)]
    return ops


def kv(line):
    return {k: int(v) for k, v in re.findall(r"(\w+)=(-?\d+)", line)}


def run(tier, replay=None):
    ctx = Ctx(PROP, tier)
    if ctx.translate():
        ctx.prove(MODULE)
    bank_hex = tone_bank().hex()
    if replay:
        lines = [l for l in open(replay).read().split("\n") if l.strip() and not l.startswith("#")]
        cases = [None]
        all_ops = [lines]
    else:
        cases = gen_cases(ctx)
        all_ops = [ops_for(c, bank_hex) for c in cases]
    flat = [o for h in all_ops for o in h]
    impl, _ = common.run_impl("audio", "\n".join(flat) + "\n", variant="plain", stateless=True, timeout=3000)
    pos = 0
    nfail = 0
    worst = collections.defaultdict(float)
    kinds = collections.Counter()
    for case, h in zip(cases, all_ops):
        io = impl[pos:pos + len(h)]
        pos += len(h)
        fails = []
        bad = next((r for r in io if r.startswith("fault=") or r.startswith("skipped")), None)
        if bad:
            fails.append("implementation fault: %s" % bad[:160])
        elif case is not None:
            emu, name, fam, rate, key, pcm = case
            kinds["%s/fam%d" % (name, fam)] += 1
            stats = [kv(r) for o, r in zip(h, io) if o.startswith("stat")]
            idle, held, rel1, rel2, both, pan1, pan2, one, rst1, rst2, bur1, bur2 = stats[:12]
            idle_level = idle["mean"]
            full = 32768
            def quiet(st, what):
                # within 1 % of full scale of the idle level, and staying there
                dev = max(abs(st["mean"] - idle_level), st["peak"])
                if abs(st["mean"] - idle_level) + st["peak"] > full // 100:
                    fails.append("%s the output is %d away from the idle level %d (1 %% of full scale = %d)" % (what, abs(st["mean"] - idle_level) + st["peak"], idle_level, full // 100))
            if idle["peak"] > full // 100:
                fails.append("before any note the output moves by %d around its mean" % idle["peak"])
            # pitch: rising crossings between the first and the last one
            if held["zc"] < 10 or held["lastz"] <= held["firstz"]:
                fails.append("a held note is not audible as a tone (crossings %d, rms %d)" % (held["zc"], held["rms"]))
            else:
                f = (held["zc"] - 1) * rate / float(held["lastz"] - held["firstz"])
                nom = nominal(key)
                err = abs(f / nom - 1)
                tol = 0.01 if (rate < 22050 and not pcm) else 0.005
                worst["%s/fam%d/%s" % (name, fam, "pcm" if pcm else "native")] = max(worst["%s/fam%d/%s" % (name, fam, "pcm" if pcm else "native")], err)
                if not pcm and err > tol:
                    fails.append("key %d (%.2f Hz) sounds at %.2f Hz through %s at %d Hz output rate: %.2f %% off (allowed %.1f %%)" % (key, nom, f, name, rate, 100 * err, 100 * tol))
                if held["first"] < 0 or held["first"] > rate // 100:
                    fails.append("the note starts %d frames (%.1f ms) after the note-on" % (held["first"], 1000.0 * held["first"] / rate))
                if held["rms"] < 200:
                    fails.append("the held note is not audible (rms %d)" % held["rms"])
            quiet(rel2, "after the release time of a released note")
            quiet(pan2, "after panic")
            quiet(rst2, "after reset")
            quiet(bur2, "after a dense burst of events and its releases")
            c_all, c_a1, c_a2, c_q1, c_q2, c_all2, c_b1, c_b2, c_q3, c_q4 = stats[12:22]
            if c_a2["rms"] < 150:
                fails.append("three notes of a six-note chord are still held but nothing is audible after the other three were released (rms %d)" % c_a2["rms"])
            if c_b2["rms"] < 150:
                fails.append("the first three notes of a six-note chord are still held but nothing is audible after the last three were released (rms %d)" % c_b2["rms"])
            if c_all["rms"] <= max(c_a2["rms"], c_b2["rms"]) * 0.9 and c_all["rms"] < 150:
                fails.append("a six-note chord is not audible (rms %d)" % c_all["rms"])
            quiet(c_q2, "after all notes of a chord were released")
            quiet(c_q4, "after all notes of a chord were released")
            if len(stats) >= 25:
                d_held, d_rel1, d_rel2 = stats[22:25]
                if d_held["rms"] < 150:
                    fails.append("a held note is no longer audible after a dense burst of 160 volume changes (rms %d)" % d_held["rms"])
                quiet(d_rel2, "after the release of a note that was held through a dense burst of controller changes")
        for f in fails[:1]:
            nfail += 1
            if nfail <= 3:
                ctx.violate("monitor", "# %s\n# case: %s\n%s\n" % (f, case, "\n".join(x if len(x) < 200 else x[:60] + "..." for x in h)))
                common.write_replay(PROP, "monitor-full", "\n".join(h) + "\n")
    # ---- the register ring of the YMFM front-end against its model (Model/ChipFront.lean, `Ring`): bursts around the capacity
    front_ops, front_diff = 0, 0
    if not replay:
        rng = ctx.rng
        fops = []
        for i in range(12 if tier == "quick" else 150):
            fops.append("new")
            for _ in range(rng.choice([3, 8, 20])):
                if rng.random() < 0.6:
                    for _ in range(rng.choice([1, 5, 60, 499, 500, 501, 700, 1203])):
                        fops.append("w %d %d %d" % (rng.choice([0, 0, 1, 2]), rng.choice([0x28, 0x30, 0x40, 0xA0, 0xA4, 0xB4, rng.randrange(256)]), rng.randrange(256)))
                else:
                    fops.append("n %d" % rng.choice([0, 1, 2, 7, 499, 500, 501, 1000]))
        ftext = "\n".join(fops) + "\n"
        fimpl, _ = common.run_impl("front", ftext, stateless=False)
        try:
            fmodel = common.run_model("front", ftext)
        except Exception as e:
            fmodel = None
            ctx.broken.append("model driver failed (front): %s" % str(e)[:200])
        front_ops = len(fops)
        if fmodel is not None:
            first = None
            for i in range(len(fops)):
                a = fmodel[i] if i < len(fmodel) else "<missing>"
                b = fimpl[i] if i < len(fimpl) else "<missing>"
                if a != b:
                    front_diff += 1
                    if first is None:
                        first = i
            if first is not None:
                st = max(j for j in range(first + 1) if fops[j] == "new")
                ctx.broken.append("correspondence front (YMFM register ring): %d differing observations, first at op %d %r: model %r, implementation %r" % (
                    front_diff, first, fops[first], fmodel[first][:120] if first < len(fmodel) else "-", fimpl[first][:120]))
                common.write_replay(PROP, "divergence", "# component front\n# model: %s\n# implementation: %s\n%s\n" % (
                    fmodel[first][:200] if first < len(fmodel) else "-", fimpl[first][:200], "\n".join(fops[st:first + 1])))
    ctx.samples = [{"case": str(c), "observations": impl[i * 0:0]} for i, c in enumerate(cases[:3])]
    ctx.samples = [{"case": str(c)} for c in cases[:4]] + [{"stat": r} for r in impl if r.startswith("ret=") and "zc=" in r][:2]
    ctx.cov.update({"evaluations": len(flat) + front_ops, "cases": len(cases), "monitor_failures": nfail, "disagreements": front_diff, "traces_validated_against_impl": front_ops - front_diff,
                    "front_ring_ops": front_ops,
                    "worst_relative_pitch_error": {k: round(v, 5) for k, v in worst.items()}, "input_distribution": dict(kinds), "exhaustive": False,
                    "distinct_nontrivial": len(set(impl)),
                    "rule": "pure-tone instrument; per emulator core x chip family x output rate x key x run-at-PCM-rate: idle level, held note (frequency from rising crossings with "
                            "hysteresis over 2 s, onset, audibility), silence within 1 % of full scale of the idle level after release + release time, after panic, after reset and after a "
                            "dense burst of events; PCM from the optimised (non-sanitizer) build"})
    return ctx.finish(trusted_extra=["the PCM statistics computed by the harness (crossing detector with hysteresis at a quarter of the peak)",
                                     "the emulator cores themselves are not modelled: only the integer resampling ratio is (Props/C20)"],
                      assumptions=["run-at-PCM-rate mode is reduced accuracy by documentation: pitch is recorded, only silence is required", "output rates 8 kHz .. 96 kHz"])
