"""shared flow of the sequencer checks (C01, C07, C08, C09, C17): the `api` harness component against the `seq` model driver"""
import os, re
from fractions import Fraction
import common

MODEL_OPS = {"new", "opendata", "openfiledata", "selectsong", "songs", "tracks", "hook", "loop", "loopcount", "loophooksonly", "tempo", "trackopt", "chanen", "total",
             "loopstart", "loopend", "tell", "atend", "tick", "tickall", "playlog", "seek", "rewind"}
PREFIX = ["new 44100", "openbankfile %s" % os.path.join(common.REPO, "fm_banks", "gm.wopn"), "hook raw 1", "hook rt 1"]


def core(line):
    """the part of an implementation observation the sequencer model reproduces"""
    return line.split(" S{", 1)[0].rstrip()


def _run_batch(args):
    hs, timeout = args
    ops = [o for h in hs for o in h]
    impl, _ = common.run_impl("api", "\n".join(ops) + "\n", stateless=True, timeout=timeout)     # a fault ends the instance: the harness restarts, the next `new` starts afresh
    mops = [o for o in ops if o.split()[0] in MODEL_OPS]
    try:
        mout = common.run_model("seq", "\n".join(mops) + "\n", timeout=timeout)
    except Exception as e:
        mout = None
    return impl, mout


def run(histories, timeout=600, batch=24):
    """histories: list of op lists (each must start with `new`).  Returns per history (impl lines, model lines or None where the model has no opinion).
    The histories are run in batches (own harness / model process each, own watchdog), several batches at a time."""
    from concurrent.futures import ThreadPoolExecutor
    common.build_harness("asan"); common.model_exe()
    batches = [histories[i:i + batch] for i in range(0, len(histories), batch)]
    with ThreadPoolExecutor(max_workers=min(12, max(1, len(batches)))) as ex:
        outs = list(ex.map(_run_batch, [(b, timeout) for b in batches]))
    res = []
    for hs, (impl, mout) in zip(batches, outs):
        pos = mp = 0
        for h in hs:
            io = impl[pos:pos + len(h)]
            mo = []
            for o in h:
                if o.split()[0] in MODEL_OPS:
                    mo.append(mout[mp] if mout is not None and mp < len(mout) else "<missing>")
                    mp += 1
                else:
                    mo.append(None)
            res.append((io, mo))
            pos += len(h)
    return res


def dy(s):
    """'m:e' -> Fraction"""
    m, e = s.split(":")
    m, e = int(m), int(e)
    return Fraction(m) * (Fraction(2) ** e)


def dystr(fr):
    """Fraction that is a double -> 'm:e' (callers pass dyadic values only)"""
    if fr == 0:
        return "0:0"
    n, d = fr.numerator, fr.denominator
    e = 0
    while n % 2 == 0:
        n //= 2; e += 1
    if d != 1:
        e = -(d.bit_length() - 1)
    return "%d:%d" % (n, e)


def to_double_str(x):
    """decimal/float -> exact 'm:e' of the nearest double"""
    f = float(x)
    return dystr(Fraction(f))


def parse_events(evs):
    """'E@t,..;R@t,...;' -> list of (tag, stamp, fields)"""
    out = []
    if evs == "-" or not evs:
        return out
    for item in evs.split(";"):
        if not item or "@" not in item:
            continue                      # "+N": entries beyond the log cap of the harness, counted only
        tag, rest = item.split("@", 1)
        f = rest.split(",")
        out.append((tag, f[0], f[1:]))
    return out


def field(line, name):
    m = re.search(r"(?:^| |=)%s=(\S+)" % name, line)
    return m.group(1) if m else None


def ev_of(line):
    i = line.find(" ev=")
    return line[i + 4:].split(" S{")[0].strip() if i >= 0 else "-"


def compare(ctx, prop, histories, results, tag="seq"):
    """correspondence: first differing observation per run -> ctx.broken; returns number of differing lines"""
    ndiff, first = 0, None
    # a few of the actual cases of this run, for the evidence file
    pool = [(h, io) for h, (io, mo) in zip(histories, results) if io]
    ctx.samples = [{"ops": [x if len(x) < 160 else x[:120] + "..." for x in h[-4:]], "impl": [core(r)[:240] for r in io[-4:]]} for (h, io) in pool[:: max(1, len(pool) // 4)][:4]]
    for h, (io, mo) in zip(histories, results):
        unknown = False
        for k, o in enumerate(h):
            if mo[k] is None:
                continue
            a = mo[k]
            if o.startswith("new "):
                unknown = False
            if a == "ret=?":
                unknown = True                # a format the model does not cover was loaded: no opinion until the model accepts a file again
                continue
            if unknown:
                if o.startswith(("opendata", "openfiledata")) and a == "ret=0":
                    unknown = False
                elif o.startswith(("opendata", "openfiledata")):
                    pass                      # acceptance itself is still compared
                else:
                    continue
            if o.startswith(("opendata", "openfiledata")) and a != "ret=0":
                unknown = True                # a rejected file leaves the previous song in a state the model does not track (tempo, loop flags)
            b = core(io[k]) if k < len(io) else "<missing>"
            if a != b:
                ndiff += 1
                if first is None:
                    first = (h, k, a, b)
    if first is not None:
        h, k, a, b = first
        # locate the first differing character for the report
        i = 0
        while i < min(len(a), len(b)) and a[i] == b[i]:
            i += 1
        ctx.broken.append("correspondence %s: %d differing observations, first at op %r (op %d of its history), at character %d: model ...%r / implementation ...%r" % (
            tag, ndiff, h[k][:60], k, i, a[max(0, i - 60):i + 120], b[max(0, i - 60):i + 120]))
        common.write_replay(prop, "divergence", "# model: %s\n# implementation: %s\n%s\n" % (a[:3000], b[:3000], "\n".join(h[:k + 1])))
    return ndiff
