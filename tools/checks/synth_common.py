"""shared flow of the checks that ride on the `synth` component (C03, C04, C05, C06, C12, C19, C18 partly)"""
import common, synth_run, synth_gen


def corpus(prop):
    """minimized past failures / regression inputs of fixed defects: run first, in every tier"""
    import os, glob
    out = []
    for f in sorted(glob.glob(os.path.join(common.VERIF, "corpus", prop, "*.ops"))):
        out.append([l for l in open(f).read().split("\n") if l.strip() and not l.startswith("#")])
    return out


def run_histories(ctx, hs, monitor, prop, tag="synth", model_is_spec_for=None):
    """hs: list of op lists (each starting with `new`). monitor(ops_of_history, impl_obs_of_history) -> list of (why, last_index_in_history).
    Records violations (monitor failures on the implementation, implementation faults) and correspondence breaks."""
    ops = [o for h in hs for o in h]
    impl, model = synth_run.run(ops)
    pos = 0
    ndiff, first = 0, None
    viol = []
    nmon = 0
    for h in hs:
        io = impl[pos:pos + len(h)]
        mo = model[pos:pos + len(h)]
        for k, r in enumerate(io):
            if r.startswith("fault=") and len(viol) < 3:
                viol.append(("implementation fault %s" % r, h, k, io))
                break
        fails = monitor(h, io)
        nmon += len(fails)
        for why, k in fails[:1]:
            if len(viol) < 3:
                viol.append((why, h, k, io))
        for k in range(len(h)):
            a = mo[k] if k < len(mo) else "<missing>"
            b = io[k] if k < len(io) else "<missing>"
            if a != b:
                ndiff += 1
                if first is None:
                    first = (h, k, a, b)
        pos += len(h)
    for why, h, k, io in viol:
        short = "\n".join(x if len(x) < 200 else x[:60] + "..." for x in h[:k + 1])
        ctx.violate("monitor", "# %s\n# implementation snapshot after the last op: %s\n%s\n" % (why, io[k][:700] if k < len(io) else "-", short))
        common.write_replay(prop, "monitor-full", "\n".join(h[:k + 1]) + "\n")
    if first is not None:
        h, k, a, b = first
        ctx.broken.append("correspondence %s: %d differing snapshots, first at op %r (op %d of its history): model %r / implementation %r" % (
            tag, ndiff, h[k][:50], k, a[:300], b[:300]))
        if model_is_spec_for and model_is_spec_for(h[k]) and a.split(" ", 1)[0] == b.split(" ", 1)[0] and not viol:
            # the model's snapshot is the documented effect of this call (theorem-backed): the history is the failing input
            ctx.violate("effect", "# the implementation's state after %r differs from the documented effect\n# model: %s\n# implementation: %s\n%s\n" % (
                h[k][:60], a[:700], b[:700], "\n".join(x if len(x) < 200 else x[:60] + "..." for x in h[:k + 1])))
            common.write_replay(prop, "effect-full", "\n".join(h[:k + 1]) + "\n")
        elif not viol:
            common.write_replay(prop, "divergence", "# model: %s\n# implementation: %s\n%s\n" % (a[:1500], b[:1500], "\n".join(h[:k + 1])))
    kinds = {}
    for o in ops:
        k = o.split()[0] + ((":" + o.split()[2]) if o.startswith("cc ") else "")
        kinds[k] = kinds.get(k, 0) + 1
    ctx.cov.update({"evaluations": len(ops), "histories": len(hs), "traces_validated_against_impl": len(ops) - ndiff, "disagreements": ndiff,
                    "monitor_failures": nmon, "input_distribution": kinds,
                    "distinct_nontrivial": len(set(r.split(" ctl=")[1] for r in impl if " ctl=" in r and (" m" in r or " c" in r))),
                    "samples": [{"op": ops[i][:80], "impl": impl[i][:300]} for i in ctx.rng.sample(range(len(ops)), min(5, len(ops)))],
                    "exhaustive": False})
    return impl, model
