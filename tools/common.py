#!/usr/bin/env python3
"""Shared machinery of the checks: building /repo's current working tree (with hooks), the harness,
the Lean project, the audit, running the two sides of the line protocol, evidence and violations."""
import os, sys, subprocess, hashlib, json, time, shutil, re, random

HERE = os.path.dirname(os.path.abspath(__file__))
VERIF = os.path.dirname(HERE)
REPO = os.environ.get("VERIF_REPO", "/repo")
LEAN = os.path.join(VERIF, "lean")
CACHE = os.path.join(VERIF, ".cache")
HARNESS_SRC = os.path.join(VERIF, "harness")
EVID = os.path.join(VERIF, "evidence")
REPLAYS = os.path.join(VERIF, "replays")
GUARD = "OPNMIDI_VERIF"
NCPU = os.cpu_count() or 4

VARIANTS = {
    # every correspondence run uses `asan`
    "asan": "-O1 -g -fsanitize=address,undefined -fno-sanitize=null,bool,enum,vptr,alignment,object-size -fno-sanitize-recover=all -fno-omit-frame-pointer -D%s" % GUARD,
    # exhaustive sweeps, PCM renders
    "plain": "-O2 -g -D%s" % GUARD,
    # data races between instances (C14)
    "tsan": "-O1 -g -fsanitize=thread -fno-omit-frame-pointer -D%s" % GUARD,
}


def log(*a):
    print(*a, file=sys.stderr, flush=True)


def run(cmd, cwd=None, timeout=None, env=None, input=None, check=False):
    p = subprocess.run(cmd, cwd=cwd, timeout=timeout, env=env, input=input,
                       stdout=subprocess.PIPE, stderr=subprocess.PIPE, text=True, errors="replace")
    if check and p.returncode != 0:
        raise RuntimeError("command failed (%d): %s\n%s\n%s" % (p.returncode, cmd, p.stdout[-4000:], p.stderr[-4000:]))
    return p


# ---------------------------------------------------------------- tree hash / library build

def tree_files():
    out = []
    for top in ("src", "include", "cmake"):
        for root, dirs, files in os.walk(os.path.join(REPO, top)):
            dirs.sort()
            for f in sorted(files):
                out.append(os.path.join(root, f))
    out.append(os.path.join(REPO, "CMakeLists.txt"))
    for extra in ("libOPNMIDI.pc.in", "libOPNMIDIConfig.cmake.in"):
        p = os.path.join(REPO, extra)
        if os.path.exists(p):
            out.append(p)
    return out


_tree_hash = None


def tree_hash():
    global _tree_hash
    if _tree_hash is None:
        h = hashlib.sha256()
        for p in tree_files():
            h.update(os.path.relpath(p, REPO).encode())
            with open(p, "rb") as f:
                h.update(hashlib.sha256(f.read()).digest())
        _tree_hash = h.hexdigest()[:16]
    return _tree_hash


def _prune_cache(keep):
    if not os.path.isdir(CACHE):
        return
    ents = [d for d in os.listdir(CACHE) if d.startswith("t-")]
    ents.sort(key=lambda d: os.path.getmtime(os.path.join(CACHE, d)), reverse=True)
    for d in ents:
        if d != keep and ents.index(d) >= 2:
            shutil.rmtree(os.path.join(CACHE, d), ignore_errors=True)


def _build_lib_unlocked(variant="asan"):
    """CMake+Ninja build of /repo's working tree, default options + hooks + variant flags.
    Returns the build dir (contains libOPNMIDI.a)."""
    th = tree_hash()
    bdir = os.path.join(CACHE, "t-" + th, variant + "-" + hashlib.sha256((VARIANTS[variant] + open(os.path.join(HERE, "cxxwrap.py")).read()).encode()).hexdigest()[:8])
    lib = os.path.join(bdir, "libOPNMIDI.a")
    stamp = os.path.join(bdir, ".ok")
    if os.path.exists(stamp) and os.path.exists(lib):
        return bdir
    os.makedirs(bdir, exist_ok=True)
    _prune_cache("t-" + th)
    flags = VARIANTS[variant]
    t0 = time.time()
    wrap = os.path.join(HERE, "cxxwrap.py")
    launcher = ["-DCMAKE_C_COMPILER_LAUNCHER=%s;%s" % (sys.executable, wrap), "-DCMAKE_CXX_COMPILER_LAUNCHER=%s;%s" % (sys.executable, wrap)] if variant == "asan" else []
    p = run(["cmake", "-G", "Ninja", "-S", REPO, "-B", bdir, "-DCMAKE_BUILD_TYPE=None"] + launcher + [
             "-DCMAKE_C_FLAGS=" + flags, "-DCMAKE_CXX_FLAGS=" + flags, "-DWITH_UNIT_TESTS=OFF",
             "-DlibOPNMIDI_STATIC=ON", "-DlibOPNMIDI_SHARED=OFF"])
    if p.returncode != 0:
        raise RuntimeError("cmake configure failed:\n" + p.stdout[-3000:] + p.stderr[-3000:])
    p = run(["cmake", "--build", bdir, "-j", str(NCPU)])
    if p.returncode != 0:
        raise RuntimeError("library build failed:\n" + p.stdout[-6000:] + p.stderr[-3000:])
    open(stamp, "w").write("ok")
    log("[build] libOPNMIDI (%s) for tree %s in %.1fs" % (variant, th, time.time() - t0))
    return bdir


def lib_defines(bdir):
    """compile definitions the library was built with (from build.ninja), for the harness"""
    txt = open(os.path.join(bdir, "build.ninja")).read()
    m = re.search(r"DEFINES = (.*)", txt)
    return m.group(1).split() if m else []


def _build_harness_unlocked(variant="asan"):
    bdir = _build_lib_unlocked(variant)
    srcs = sorted(f for f in os.listdir(HARNESS_SRC) if f.endswith(".cpp"))
    h = hashlib.sha256()
    for f in sorted(os.listdir(HARNESS_SRC)):
        h.update(f.encode())
        h.update(open(os.path.join(HARNESS_SRC, f), "rb").read())
    hh = h.hexdigest()[:12]
    exe = os.path.join(bdir, "opnharness-" + hh)
    if os.path.exists(exe):
        return exe
    for old in os.listdir(bdir):
        if old.startswith("opnharness-"):
            os.remove(os.path.join(bdir, old))
    defs = [d for d in lib_defines(bdir) if d.startswith("-D")]
    flags = VARIANTS[variant].split()
    t0 = time.time()
    objs = []
    procs = []
    for s in srcs:
        o = os.path.join(bdir, "h_" + s.replace(".cpp", ".o"))
        objs.append(o)
        cmd = ["g++", "-std=gnu++14", "-c"] + flags + defs + ["-DOPNMIDI_UNSTABLE_API", "-I" + os.path.join(REPO, "include"),
               "-I" + os.path.join(REPO, "src"), os.path.join(HARNESS_SRC, s), "-o", o]
        procs.append((s, subprocess.Popen(cmd, stdout=subprocess.PIPE, stderr=subprocess.PIPE, text=True)))
    for s, p in procs:
        so, se = p.communicate()
        if p.returncode != 0:
            raise RuntimeError("harness compile failed (%s):\n%s" % (s, se[-6000:]))
    cmd = ["g++"] + flags + objs + [os.path.join(bdir, "libOPNMIDI.a"), "-lm", "-lpthread", "-o", exe]
    p = run(cmd)
    if p.returncode != 0:
        raise RuntimeError("harness link failed:\n" + p.stderr[-6000:])
    log("[build] harness (%s) in %.1fs" % (variant, time.time() - t0))
    return exe


def _locked(fn, variant):
    # checks may run side by side: configure/compile into the same cache directory is serialised
    import fcntl
    os.makedirs(CACHE, exist_ok=True)
    with open(os.path.join(CACHE, "build.lock"), "w") as lk:
        fcntl.flock(lk, fcntl.LOCK_EX)
        return fn(variant)


def build_lib(variant="asan"):
    return _locked(_build_lib_unlocked, variant)


def build_harness(variant="asan"):
    return _locked(_build_harness_unlocked, variant)


# ---------------------------------------------------------------- Lean side

def lake_build(targets):
    """returns (ok, output)"""
    t0 = time.time()
    # checks may run side by side: two lake processes building the same target race on the output files, so builds are serialised
    import fcntl
    os.makedirs(os.path.join(LEAN, ".lake"), exist_ok=True)
    with open(os.path.join(LEAN, ".lake", "verif-build.lock"), "w") as lk:
        fcntl.flock(lk, fcntl.LOCK_EX)
        p = run(["lake", "build"] + list(targets), cwd=LEAN)
    out = p.stdout + p.stderr
    log("[lean] lake build %s: %s in %.1fs" % (" ".join(targets), "ok" if p.returncode == 0 else "FAILED", time.time() - t0))
    return p.returncode == 0, out


_model_exe = None


def model_exe():
    global _model_exe
    if _model_exe is None:
        ok, out = lake_build(["opnmodel"])
        if not ok:
            raise RuntimeError("opnmodel build failed:\n" + out[-6000:])
        _model_exe = os.path.join(LEAN, ".lake", "build", "bin", "opnmodel")
    return _model_exe


FORBIDDEN = re.compile(r"\bsorry\b|\badmit\b|^axiom |native_decide|bv_decide|implemented_by|unsafe |maxHeartbeats 0")
ALLOWED_AXIOMS = {"propext", "Classical.choice", "Quot.sound"}


def strip_lean_comments(s):
    s = re.sub(r"/-.*?-/", " ", s, flags=re.S)
    s = re.sub(r"--[^\n]*", " ", s)
    return s


def audit_sources():
    """grep for forbidden constructs in every Lean source of the project (comments stripped)"""
    bad = []
    for root, dirs, files in os.walk(LEAN):
        if ".lake" in root:
            continue
        for f in files:
            if f.endswith(".lean"):
                p = os.path.join(root, f)
                txt = strip_lean_comments(open(p).read())
                for i, line in enumerate(txt.split("\n")):
                    if FORBIDDEN.search(line):
                        bad.append("%s:%d: %s" % (os.path.relpath(p, LEAN), i + 1, line.strip()[:120]))
    return bad


def theorems_in(module_file):
    txt = strip_lean_comments(open(module_file).read())
    ns = None
    names = []
    cur_ns = []
    for line in txt.split("\n"):
        m = re.match(r"\s*namespace\s+(\S+)", line)
        if m:
            cur_ns.append(m.group(1))
            continue
        m = re.match(r"\s*end\s+(\S+)", line)
        if m and cur_ns and cur_ns[-1] == m.group(1):
            cur_ns.pop()
            continue
        m = re.match(r"\s*(?:private\s+|protected\s+)?theorem\s+(\S+)", line)
        if m:
            names.append(".".join(cur_ns + [m.group(1)]))
    return names


def audit_axioms(prop_module, extra_names=()):
    """#print axioms on every theorem of Props/<Cxx>.lean; returns (theorem_names, violations, raw)"""
    mf = os.path.join(LEAN, *prop_module.split(".")) + ".lean"
    names = theorems_in(mf) + list(extra_names)
    scratch = os.path.join(LEAN, ".lake", "axioms_%s.lean" % prop_module.replace(".", "_"))
    os.makedirs(os.path.dirname(scratch), exist_ok=True)
    with open(scratch, "w") as f:
        f.write("import %s\n" % prop_module)
        for n in names:
            f.write("#print axioms %s\n" % n)
    p = run(["lake", "env", "lean", scratch], cwd=LEAN)
    raw = p.stdout + p.stderr
    viol = []
    seen = set()
    for m in re.finditer(r"^'(.+?)' depends on axioms: \[([^\]]*)\]", raw, re.M):
        seen.add(m.group(1))
        axs = [a.strip() for a in m.group(2).replace("\n", " ").split(",") if a.strip()]
        for a in axs:
            if a not in ALLOWED_AXIOMS:
                viol.append("%s depends on %s" % (m.group(1), a))
    for m in re.finditer(r"^'(.+?)' does not depend on any axioms", raw, re.M):
        seen.add(m.group(1))
    for n in names:
        if n not in seen:
            viol.append("%s: no #print axioms result (%s)" % (n, raw.strip()[-300:]))
    if p.returncode != 0:
        viol.append("axiom audit file failed to elaborate: " + raw[-500:])
    return names, viol, raw


def leanchecker(module):
    p = run(["lake", "env", "leanchecker", module], cwd=LEAN, timeout=1800)
    return p.returncode == 0, (p.stdout + p.stderr)[-2000:]


# ---------------------------------------------------------------- two-sided runs

def run_model(component, ops_text, timeout=3600):
    exe = model_exe()
    p = run([exe, component], input=ops_text, timeout=timeout)
    if p.returncode != 0:
        raise RuntimeError("opnmodel %s failed: %s" % (component, p.stderr[-2000:]))
    return p.stdout.split("\n")[:-1] if p.stdout.endswith("\n") else p.stdout.split("\n")


SAN_RE = re.compile(r"(ERROR: AddressSanitizer: [\w\-]+|runtime error: [^\n]+|LeakSanitizer|Assertion [^\n]+ failed|terminate called[^\n]*)")


def classify_crash(stderr, rc):
    m = SAN_RE.search(stderr or "")
    if m:
        t = m.group(1)
        if "AddressSanitizer" in t:
            return "fault=asan:" + t.split(": ")[-1]
        if "runtime error" in t:
            return "fault=ubsan:" + t.replace("runtime error: ", "")[:100].replace(" ", "_")
        if "Assertion" in t:
            return "fault=abort:assert"
        return "fault=abort:" + t[:60].replace(" ", "_")
    if rc is not None and rc < 0:
        return "fault=signal:%d" % (-rc)
    return "fault=exit:%s" % rc


def scratch_dir():
    """a directory for files the harness writes and deletes again (opn2_openFile inputs)"""
    d = os.path.join(CACHE, "scratch")
    os.makedirs(d, exist_ok=True)
    return d


def run_impl(component, ops_text, variant="asan", timeout=600, stateless=False, cpu_limit=None):
    """Runs the harness. Returns list of observation lines, one per op. A crash becomes a `fault=` line for the op
    that was executing; with stateless=True the harness is restarted after it, otherwise the remaining ops
    get `skipped-after-fault`."""
    exe = build_harness(variant)
    ops = [l for l in ops_text.split("\n") if l.strip() and not l.strip().startswith("#")]
    out = []
    pos = 0
    env = dict(os.environ)
    env["ASAN_OPTIONS"] = "detect_leaks=0:abort_on_error=0:allocator_may_return_null=1:max_allocation_size_mb=2048:quarantine_size_mb=8"
    env["UBSAN_OPTIONS"] = "print_stacktrace=0"
    env["VERIF_TMPDIR"] = scratch_dir()
    restarts = 0
    while pos < len(ops):
        chunk = "\n".join(ops[pos:]) + "\n"
        try:
            p = subprocess.run([exe, component], input=chunk, stdout=subprocess.PIPE, stderr=subprocess.PIPE,
                               text=True, errors="replace", timeout=timeout, env=env)
            lines = p.stdout.split("\n")
            if lines and lines[-1] == "":
                lines.pop()
            rc = p.returncode
            err = p.stderr
        except subprocess.TimeoutExpired as e:
            so = e.stdout or b""
            if isinstance(so, bytes):
                so = so.decode(errors="replace")
            lines = so.split("\n")
            if lines and lines[-1] == "":
                lines.pop()
            rc = None
            err = "TIMEOUT"
        if rc == 0 and len(lines) >= len(ops) - pos:
            out.extend(lines[:len(ops) - pos])
            break
        # crashed (or timed out) while executing op number pos+len(lines)
        done = min(len(lines), len(ops) - pos - 1)
        out.extend(lines[:done])
        out.append("fault=timeout" if err == "TIMEOUT" else classify_crash(err, rc))
        pos += done + 1
        restarts += 1
        if not stateless:
            out.extend(["skipped-after-fault"] * (len(ops) - pos))
            break
        if err == "TIMEOUT":
            timeouts = locals().get("timeouts", 0) + 1
            if timeouts >= 2:
                # a second hang: do not spend another watchdog period on every remaining operation
                out.extend(["skipped-after-repeated-timeouts"] * (len(ops) - pos))
                break
        if restarts > 200:
            out.extend(["skipped-too-many-faults"] * (len(ops) - pos))
            break
    return out, ops


def diff_streams(ops, a, b, eq=None):
    """first index where model line a[i] and impl line b[i] differ (eq = custom comparator)"""
    n = max(len(a), len(b))
    for i in range(n):
        x = a[i] if i < len(a) else "<missing>"
        y = b[i] if i < len(b) else "<missing>"
        same = (x == y) if eq is None else eq(x, y)
        if not same:
            return i, x, y
    return None


# ---------------------------------------------------------------- evidence / violations

def seed():
    try:
        return int(os.environ.get("VERIF_SEED", "1"))
    except ValueError:
        return 1


def write_replay(prop, name, text):
    os.makedirs(REPLAYS, exist_ok=True)
    h = hashlib.sha256(text.encode()).hexdigest()[:10]
    p = os.path.join(REPLAYS, "%s-%s-%s.ops" % (prop, name, h))
    with open(p, "w") as f:
        f.write(text)
    return p


def violation(prop, replay, tail=""):
    print("VIOLATION property=%s replay=%s%s" % (prop, replay, (" " + tail) if tail else ""), flush=True)


def write_evidence(prop, tier, level, coverage, wall, violations, assumptions):
    os.makedirs(EVID, exist_ok=True)
    ev = {"property_id": prop, "tier": tier, "seed": seed(), "level": level, "coverage": coverage,
          "assumptions": assumptions, "wall_s": round(wall, 2), "violations": violations}
    with open(os.path.join(EVID, prop + ".json"), "w") as f:
        json.dump(ev, f, indent=1)


def load_known():
    p = os.path.join(VERIF, "known_findings.json")
    if not os.path.exists(p):
        return []
    return json.load(open(p))


def run_memcheck(component, ops_text, timeout=1800):
    """valgrind memcheck over the plain (uninstrumented) harness build: reports of a branch, address or system call argument that depends on an
    uninitialised value inside the library mean that the outcome of the history depends on something other than the history.
    Returns the list of distinct reports (first stack frames in /repo), [] when clean, None when valgrind is not usable."""
    exe = build_harness("plain")
    if shutil.which("valgrind") is None:
        return None
    try:
        p = subprocess.run(["valgrind", "-q", "--error-exitcode=0", "--num-callers=12", exe, component], input=ops_text, stdout=subprocess.PIPE, stderr=subprocess.PIPE,
                           text=True, errors="replace", timeout=timeout)
    except subprocess.TimeoutExpired:
        return None
    reps = []
    for blk in re.split(r"\n==\d+== \n", p.stderr):
        if "uninitialised" not in blk:
            continue
        head = re.search(r"==\d+== (.*uninitialised.*)", blk)
        frames = re.findall(r"(?:at|by) 0x[0-9A-F]+: (.*)", blk)
        # first frame that is neither libc / libstdc++ / valgrind's own: in the library (the library computed with the value) or in the harness
        # (an observation of the library's state printed an undefined field; the harness prints only fields the library defines)
        own = [f for f in frames if "(in /usr/" not in f and not re.search(r"\((ostream|basic_string\.h|[a-z_]+\.tcc|stl_[a-z_]+\.h|char_traits\.h):\d+\)", f)]
        key = (head.group(1) if head else "uninitialised") + " in " + (own[0] if own else frames[0] if frames else "?")
        if key not in reps:
            reps.append(key)
    return reps
