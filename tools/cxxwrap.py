#!/usr/bin/env python3
"""Compiler wrapper for the sanitizer build of /repo: the bundled third-party chip emulator cores (src/chips/<core>/...)
are full of intentional wrap-around arithmetic (phase/envelope accumulators), which UBSan reports and which no property
is about.  For those translation units only, UBSan is switched off; AddressSanitizer stays on everywhere, and libOPNMIDI's
own code (src/*.cpp, src/chips/*_opn2.cpp, *.tcc, the sequencer) keeps both.
One exception: src/chips/gens_opn2.cpp line 100, `((i & 1) ? bufR : bufL)[i / 2]`, is miscompiled by g++ 12 under
-fsanitize=undefined (the index SAVE_EXPR is evaluated in one arm of the conditional only; at -O0 the other arm reads an
unrelated register and faults with i == 0 and valid pointers); the plain build, the ASan-only build and valgrind are clean."""
import os, re, sys
real = sys.argv[1]
args = sys.argv[2:]
if any(re.search(r"/src/chips/[^/]+/", a) and a.endswith((".c", ".cpp", ".cc")) for a in args) or any(a.endswith("/src/chips/gens_opn2.cpp") for a in args):
    args = args + ["-fno-sanitize=undefined"]
os.execvp(real, [real] + args)
