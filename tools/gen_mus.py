"""generators of DMX MUS scores and AIL XMI sequences (structured, valid) with their format-level meaning, plus mutations"""
import struct
from fractions import Fraction

MUS_CTRL = [None, 0x00, 0x01, 0x07, 0x0A, 0x0B, 0x5B, 0x5D, 0x40, 0x43, 0x78, 0x7B, 0x7E, 0x7F, 0x79]


def mus_delay(n):
    out = [n & 0x7F]
    n >>= 7
    while n:
        out.append((n & 0x7F) | 0x80)
        n >>= 7
    return bytes(reversed(out))


def gen_mus_events(rng, n=None):
    """list of (delay_after_in_ticks, kind, channel, a, b) in MUS terms"""
    evs = []
    n = n or rng.choice([3, 10, 40])
    sounding = []
    wide = rng.random() < 0.35           # scores that use many MUS channels (the MIDI channels are handed out in order of first use)
    order = list(range(15)); rng.shuffle(order)
    if wide:
        n = max(n, 20)
    for k in range(n):
        ch = rng.choice([0, 1, 2, 15, 15, 7]) if not wide else (order[k] if k < 15 else rng.choice(order + [15]))
        c = rng.random()
        delay = rng.choice([0, 0, 1, 2, 35, 140, 300, 20000])
        if c < 0.45:
            key = rng.randrange(128)
            vol = rng.choice([None, None, 1, 64, 127])
            evs.append((delay, "on", ch, key, vol)); sounding.append((ch, key))
        elif c < 0.65 and sounding:
            ch, key = sounding.pop(rng.randrange(len(sounding)))
            evs.append((delay, "off", ch, key, None))
        elif c < 0.75:
            evs.append((delay, "bend", ch, rng.randrange(256), None))
        elif c < 0.85:
            evs.append((delay, "ctl", ch, rng.choice([0, 0, 1, 2, 3, 4, 5, 6, 7, 8, 9]), rng.randrange(128)))
        else:
            evs.append((delay, "sys", ch, rng.choice([10, 11, 12, 13, 14]), rng.choice([0, 12, 5])))
    for (ch, key) in sounding:
        evs.append((rng.choice([0, 10]), "off", ch, key, None))
    evs.append((0, "end", 0, 0, None))
    return evs


def encode_mus(evs, channels=3, pad=0):
    score = bytearray()
    for (delay, kind, ch, a, b) in evs:
        last = 0x80 if delay else 0
        if kind == "off":
            score += bytes([last | 0x00 | ch, a])
        elif kind == "on":
            if b is None:
                score += bytes([last | 0x10 | ch, a])
            else:
                score += bytes([last | 0x10 | ch, a | 0x80, b])
        elif kind == "bend":
            score += bytes([last | 0x20 | ch, a])
        elif kind == "sys":
            score += bytes([last | 0x30 | ch, a, b])
        elif kind == "ctl":
            score += bytes([last | 0x40 | ch, a, b])
        elif kind == "end":
            score += bytes([last | 0x60 | ch])
        if delay:
            score += mus_delay(delay)
    instr = b""
    hdr = b"MUS\x1a" + struct.pack("<HHHHH", len(score), 14 + len(instr) + pad, channels, 0, 0)
    return hdr + instr + bytes(pad) + bytes(score)


def gen_mus(rng):
    return encode_mus(gen_mus_events(rng), channels=rng.choice([1, 3, 9, 15]), pad=rng.choice([0, 0, 2, 16]))


def mus_reference(evs, channels):
    """the MIDI meaning of a MUS score: list of (tick, (kind, midi channel, a, b)); channel 15 -> 9, others in order of first use skipping 9,
    note volumes remembered per channel, controller numbers translated"""
    chmap = {15: 9}
    nxt = 0
    vol = {}
    out = []
    tick = 0
    for (delay, kind, ch, a, b) in evs:
        if ch not in chmap:
            chmap[ch] = nxt
            out.append((tick, (0xB, nxt, 7, 100)))
            nxt += 1
            if nxt == 9:
                nxt += 1
        m = chmap[ch]
        if kind == "off":
            out.append((tick, (0x8, m, a, 0x40)))
        elif kind == "on":
            if b is not None:
                vol[m] = b
            v = vol.get(m, 0x40)
            out.append((tick, (0x9 if v else 0x8, m, a, v)))
        elif kind == "bend":
            out.append((tick, (0xE, m, 0, (a >> 1) & 127)))
        elif kind == "sys":
            out.append((tick, (0xB, m, MUS_CTRL[a], (channels + 1) & 0xFF if b == 12 else 0)))
        elif kind == "ctl":
            if a == 0:
                out.append((tick, (0xC, m, b, 0)))
            else:
                out.append((tick, (0xB, m, MUS_CTRL[a], b)))
        elif kind == "end":
            out.append((tick, ("end",)))
        tick += delay
    return out


# --------------------------------------------------------------------------------------------------------- XMI

def vlq(n):
    out = [n & 0x7F]
    n >>= 7
    while n:
        out.append((n & 0x7F) | 0x80)
        n >>= 7
    return bytes(reversed(out))


def xmi_delta(n):
    out = bytearray()
    while n > 127:
        out.append(127); n -= 127
    if n:
        out.append(n)
    return bytes(out)


def gen_xmi_song(rng, with_tempo=True, n=None, loops=False):
    """list of (delta_before, kind, channel, a, b, duration) in XMI ticks"""
    evs = []
    if with_tempo:
        evs.append((0, "tempo", 0, rng.choice([500000, 400000, 1000000]), 0, 0))
    n = n or rng.choice([3, 10, 30])
    for _ in range(n):
        ch = rng.choice([0, 1, 9, 15])
        d = rng.choice([0, 0, 1, 10, 60, 120, 300])
        c = rng.random()
        if c < 0.55:
            evs.append((d, "note", ch, rng.randrange(128), rng.choice([1, 64, 127]), rng.choice([0, 1, 30, 120, 200, 20000])))
        elif c < 0.75:
            if loops and rng.random() < 0.6:
                # AIL loop controllers: 116 FOR (count), 117 NEXT (>= 64) / BREAK (< 64), 119 callback trigger; balanced or not
                evs.append((d, "cc", ch, rng.choice([116, 116, 117, 117, 119]), rng.choice([0, 1, 2, 3, 63, 64, 127]), 0))
            else:
                evs.append((d, "cc", ch, rng.choice([7, 10, 11, 1, 64, 32, 114]), rng.randrange(128), 0))
        elif c < 0.85:
            evs.append((d, "pc", ch, rng.randrange(128), 0, 0))
        elif c < 0.92:
            evs.append((d, "pb", ch, rng.randrange(128), rng.randrange(128), 0))
        else:
            evs.append((d, "text", 0, rng.choice([1, 6]), 0, 0))
    evs.append((rng.choice([0, 60]), "end", 0, 0, 0, 0))
    return evs


def encode_xmi_song(evs, timb=False, rbrn=None):
    b = bytearray()
    for (d, kind, ch, a, x, dur) in evs:
        b += xmi_delta(d)
        if kind == "note":
            b += bytes([0x90 | ch, a, x]) + vlq(dur)
        elif kind == "cc":
            b += bytes([0xB0 | ch, a, x])
        elif kind == "pc":
            b += bytes([0xC0 | ch, a])
        elif kind == "pb":
            b += bytes([0xE0 | ch, a, x])
        elif kind == "tempo":
            b += b"\xff\x51\x03" + struct.pack(">I", a)[1:]
        elif kind == "text":
            b += bytes([0xFF, a, 3]) + b"abc"
        elif kind == "end":
            b += b"\xff\x2f\x00"
    evnt = b"EVNT" + struct.pack(">I", len(b)) + bytes(b) + (b"\0" if len(b) % 2 else b"")
    body = b"XMID"
    if timb:
        body += b"TIMB" + struct.pack(">I", 4) + b"\x01\x00\x05\x00"
    if rbrn is not None:
        body += rbrn
    body += evnt
    return b"FORM" + struct.pack(">I", len(body)) + body


def gen_rbrn(rng):
    """an RBRN (branch point) chunk: count, then (id, offset) pairs; sometimes with a length that does not fit the file"""
    n = rng.choice([0, 1, 3])
    data = struct.pack("<H", n) + b"".join(struct.pack("<HI", rng.choice([0, 1, 127, 128, 300]), rng.choice([0, 3, 40, 0xFFFFFFFF])) for _ in range(n))
    ln = rng.choice([len(data), len(data), len(data) + 1, 0, 1, 0x7FFFFFFF, 0xFFFFFFF8, 0xFFFFFFFE, 0xFFFFFFFF, 0x80000000])
    return b"RBRN" + struct.pack(">I", ln) + data + (b"\0" if len(data) % 2 else b"")


def encode_xmi(songs, timb=False):
    cat = b"XMID" + b"".join(encode_xmi_song(s, timb) for s in songs)
    return (b"FORM" + struct.pack(">I", 14) + b"XDIR" + b"INFO" + struct.pack(">I", 2) + struct.pack("<H", len(songs)) +
            b"CAT " + struct.pack(">I", len(cat)) + cat)


def gen_xmi(rng, nsongs=None, loops=False):
    nsongs = nsongs or rng.choice([1, 1, 2, 3])
    if not loops:
        return encode_xmi([gen_xmi_song(rng, with_tempo=rng.random() < 0.8) for _ in range(nsongs)], timb=rng.random() < 0.3)
    cat = b"XMID" + b"".join(encode_xmi_song(gen_xmi_song(rng, with_tempo=rng.random() < 0.8, loops=True), rng.random() < 0.3,
                                             gen_rbrn(rng) if rng.random() < 0.5 else None) for _ in range(nsongs))
    return (b"FORM" + struct.pack(">I", 14) + b"XDIR" + b"INFO" + struct.pack(">I", 2) + struct.pack("<H", nsongs) +
            b"CAT " + struct.pack(">I", len(cat)) + cat)


def xmi_reference(evs):
    """the MIDI meaning of an XMI sequence: list of (xmi tick, (kind, channel, a, b)), note durations turned into note-offs, sorted by time
    (events of one tick in order of creation: the note-off of a zero-duration note directly follows its note-on)"""
    out = []
    tick = 0
    order = 0
    tempo_seen = False
    for (d, kind, ch, a, x, dur) in evs:
        tick += d
        order += 1
        if kind == "note":
            out.append((tick, order, (0x9, ch, a, x)))
            out.append((tick + dur, order + 0.5 if dur == 0 else order, (0x8, ch, a, 0)))
        elif kind == "cc":
            if a == 114 and ch != 9:
                a = 32
            if a == 0:
                x = 0 if x == 127 else x
            out.append((tick, order, (0xB, ch, a, x)))
        elif kind == "pc":
            out.append((tick, order, (0xC, ch, a, 0)))
        elif kind == "pb":
            out.append((tick, order, (0xE, ch, a, x)))
        elif kind == "tempo":
            if not tempo_seen:
                out.append((tick, order, ("tempo", a)))
            tempo_seen = True
        elif kind == "text":
            out.append((tick, order, ("meta", a)))
        elif kind == "end":
            out.append((tick, order, ("end",)))
            # a note still sounding at the end of the sequence gets no note-off of its own (the end of the song silences everything)
            out = [x for x in out if x[0] <= tick]
    return out


def mutate(rng, img, n):
    out = []
    for _ in range(n):
        b = bytearray(img)
        k = rng.randrange(7)
        if k == 0 and b:
            b = b[:rng.choice([0, 4, 8, 12, 13, 14, 15, 16, 20, 22, 30, rng.randrange(len(b) + 1), max(0, len(b) - 1), max(0, len(b) - 2), max(0, len(b) - 3)])]
        elif k == 1 and b:
            i = rng.randrange(len(b)); b[i] ^= 1 << rng.randrange(8)
        elif k == 2 and len(b) > 14:
            i = rng.randrange(4, min(len(b) - 4, 80)); struct.pack_into(">I", b, i, rng.choice([0, 1, 2, 0x7FFFFFFF, 0x80000000, 0xFFFFFFFF, 0xFFFFFFFE, len(b)]))
        elif k == 3 and len(b) > 14:
            i = rng.randrange(4, min(len(b) - 2, 40)); struct.pack_into("<H", b, i, rng.choice([0, 1, 16, 0xFFFF, len(b), len(b) - 1]))
        elif k == 4 and b:
            i = rng.randrange(len(b)); b[i] = rng.choice([0xFF, 0x80, 0x00, 0x7F, 0x90, 0x60, 0xF0])
        elif k == 5 and b:
            i = rng.randrange(len(b)); b[i:i] = bytes(rng.choice([0xFF, 0x81, 0x80, 0x90, 0x7F]) for _ in range(rng.choice([1, 2, 5])))
        else:
            if len(b) > 20:
                i = rng.randrange(14, len(b)); del b[i:i + rng.choice([1, 2, 3])]
        out.append(bytes(b))
    return out
