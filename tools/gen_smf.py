"""generators of music files: structured, mostly valid Standard MIDI Files (with an independent reference timeline), RMI/GMF
wrappers, MUS and XMI images, and the malformed stream"""
import struct
from fractions import Fraction


def vlq(n):
    out = [n & 0x7F]
    n >>= 7
    while n:
        out.append((n & 0x7F) | 0x80)
        n >>= 7
    return bytes(reversed(out))


def trk(body):
    return b"MTrk" + struct.pack(">I", len(body)) + body


def smf(fmt, division, tracks):
    return b"MThd" + struct.pack(">IHHH", 6, fmt, len(tracks), division) + b"".join(trk(t) for t in tracks)


def rmi(smf_bytes):
    # RIFF <size> RMID data <size> <smf>
    return b"RIFF" + struct.pack("<I", len(smf_bytes) + 12) + b"RMID" + b"data" + struct.pack("<I", len(smf_bytes)) + smf_bytes


class Song:
    """a well-formed SMF as a list of tracks, each a list of (tick, bytes-of-event, descr); descr = (kind, ...) for the reference"""

    def __init__(self, division, fmt=1):
        self.division = division
        self.fmt = fmt
        self.tracks = []

    def encode(self, running_status=False, drop_eot=()):
        out = []
        for ti, evs in enumerate(self.tracks):
            body = bytearray()
            last_tick = 0
            status = None
            for k, (tick, raw, d) in enumerate(evs):
                if ti in drop_eot and k == len(evs) - 1 and d[0] == "eot":
                    break                       # the track simply ends after its last event (no End-of-Track)
                body += vlq(tick - last_tick)
                last_tick = tick
                if running_status and raw[0] < 0xF0 and raw[0] == status:
                    body += raw[1:]
                else:
                    body += raw
                # the parser's running status is only set by channel events (meta and SysEx leave it alone)
                if raw[0] < 0xF0:
                    status = raw[0]
            out.append(bytes(body))
        return smf(self.fmt, self.division, out)


def gen_song(rng, ntracks=None, loops=None, tempo_changes=True, same_tick=True, sysex=True, big=False, eot_alone=None):
    """returns Song; events are well-formed; last event of each track is End-of-Track"""
    division = rng.choice([24, 48, 96, 120, 192, 384, 480, 960, 1, 7, 32767])
    ntracks = ntracks or rng.choice([1, 1, 2, 3, 4])
    fmt = 0 if ntracks == 1 and rng.random() < 0.5 else 1
    s = Song(division, fmt)
    length_ticks = rng.choice([division * 2, division * 8, division * 16]) if not big else division * 64
    loop_start = loop_end = None
    if loops is None:
        loops = rng.choice([None, None, "markers", "cc111", "start-only", "end-only", "invalid-order", "duplicate", "same-row", "stack", "stack"])
    s.loops = loops
    if loops in ("markers", "cc111", "start-only", "invalid-order", "duplicate", "same-row"):
        loop_start = rng.randrange(0, max(1, length_ticks // 2))
    if loops in ("markers", "end-only", "invalid-order", "duplicate"):
        loop_end = rng.randrange(length_ticks // 2 + 1, length_ticks + 1)
    if loops == "invalid-order":
        loop_start, loop_end = loop_end, loop_start
    if loops == "same-row":
        loop_end = loop_start
    for t in range(ntracks):
        evs = []
        tick = 0
        sounding = {}
        n_ev = rng.choice([4, 10, 30]) if not big else 400
        if t == 0 and tempo_changes and rng.random() < 0.7:      # otherwise the song starts with the default tempo (120 BPM) and changes it later
            evs.append((0, b"\xff\x51\x03" + struct.pack(">I", rng.choice([500000, 250000, 1000000, 333333, 16777215, 20000]))[1:], ("tempo",)))
        if rng.random() < 0.5:
            name = bytes(rng.choice(b"abcXYZ 09") for _ in range(rng.randrange(0, 9)))
            evs.append((0, b"\xff\x03" + vlq(len(name)) + name, ("meta",)))
        for _ in range(n_ev):
            if rng.random() < (0.5 if same_tick else 0.05):
                pass                          # same tick as the previous event
            else:
                tick += rng.choice([1, 1, division // 4 or 1, division, rng.randrange(1, 2 * division + 1)])
            if tick > length_ticks:
                tick = length_ticks
            ch = rng.choice([0, 1, 9, 15])
            c = rng.random()
            if c < 0.07 and (ch, 72) not in sounding:
                # a zero-length note: note-on and note-off of one key at one tick
                evs.append((tick, bytes([0x90 | ch, 72, 100]), ("on", ch, 72)))
                evs.append((tick, bytes([0x80 | ch, 72, 0]) if rng.random() < 0.5 else bytes([0x90 | ch, 72, 0]), ("off", ch, 72)))
                tick += rng.choice([1, division])
            elif c < 0.35:
                key = rng.choice([60, 61, 62, 36, 38])
                evs.append((tick, bytes([0x90 | ch, key, rng.choice([1, 64, 127])]), ("on", ch, key)))
                sounding[(ch, key)] = True
            elif c < 0.60:
                if sounding and rng.random() < 0.8:
                    (ch, key) = rng.choice(sorted(sounding))
                    del sounding[(ch, key)]
                else:
                    key = rng.choice([60, 61, 62])
                raw = bytes([0x80 | ch, key, rng.choice([0, 64])]) if rng.random() < 0.6 else bytes([0x90 | ch, key, 0])
                evs.append((tick, raw, ("off", ch, key)))
            elif c < 0.72:
                evs.append((tick, bytes([0xB0 | ch, rng.choice([7, 10, 11, 64, 1, 0, 32, 121, 100, 101, 6]), rng.randrange(128)]), ("cc", ch)))
            elif c < 0.78:
                evs.append((tick, bytes([0xC0 | ch, rng.randrange(128)]), ("pc", ch)))
            elif c < 0.83:
                evs.append((tick, bytes([0xE0 | ch, rng.randrange(128), rng.randrange(128)]), ("pb", ch)))
            elif c < 0.86:
                evs.append((tick, bytes([0xD0 | ch, rng.randrange(128)]), ("cat", ch)))
            elif c < 0.89:
                evs.append((tick, bytes([0xA0 | ch, rng.choice([60, 61]), rng.randrange(128)]), ("nat", ch)))
            elif c < 0.93 and tempo_changes:
                evs.append((tick, b"\xff\x51\x03" + struct.pack(">I", rng.choice([500000, 250000, 750000, 100000, 2000000]))[1:], ("tempo",)))
            elif c < 0.96 and sysex:
                body = rng.choice([bytes.fromhex("7e7f0901f7"), bytes.fromhex("7f7f04010040f7"), bytes([0x41, 0x10, 0x42, 0x12, 0x40, 0x00, 0x7F, 0x00, 0x41, 0xF7])])
                evs.append((tick, b"\xf0" + vlq(len(body)) + body, ("sysex",)))
            else:
                txt = bytes(rng.choice(b"marker12") for _ in range(rng.randrange(0, 6)))
                evs.append((tick, bytes([0xFF, rng.choice([1, 5, 6, 7, 0x58, 0x59, 0x7F])]) + vlq(len(txt)) + txt, ("meta",)))
        # release what still sounds
        for (ch, key) in sorted(sounding):
            tick += rng.choice([0, 1, division])
            evs.append((tick, bytes([0x80 | ch, key, 0]), ("off", ch, key)))
        end_tick = max(tick, length_ticks if t == 0 else tick)
        alone = eot_alone if eot_alone is not None else rng.random() < 0.5
        if alone and end_tick == tick:
            end_tick = tick + rng.choice([1, division, 4 * division])
        evs.append((end_tick, b"\xff\x2f\x00", ("eot",)))
        s.tracks.append(evs)
    # loop points go into a random track (markers) at their ticks, keeping tick order
    def insert(track, tick, raw, d):
        evs = s.tracks[track]
        eot = evs[-1]
        tick = min(tick, eot[0])
        i = 0
        while i < len(evs) - 1 and evs[i][0] <= tick:
            i += 1
        evs.insert(i, (tick, raw, d))
    tk = rng.randrange(ntracks)
    if loops in ("markers", "start-only", "invalid-order", "duplicate", "same-row"):
        insert(tk, loop_start, b"\xff\x06" + vlq(9) + rng.choice([b"loopStart", b"loopstart", b"LOOPSTART"]), ("loopstart",))
    if loops == "cc111":
        insert(tk, loop_start, bytes([0xB0, 111, 0]), ("loopstart",))
    if loops in ("markers", "end-only", "invalid-order", "duplicate", "same-row"):
        insert(rng.randrange(ntracks), loop_end, b"\xff\x06" + vlq(7) + rng.choice([b"loopEnd", b"loopend"]), ("loopend",))
    if loops == "duplicate":
        insert(rng.randrange(ntracks), loop_start + 1, b"\xff\x06" + vlq(9) + b"loopStart", ("loopstart",))
    if loops == "stack":
        # counted loops (marker "loopStart=N" ... "loopEnd=0"), possibly nested, possibly unbalanced
        a = rng.randrange(0, max(1, length_ticks // 3)); b = rng.randrange(length_ticks // 3 + 1, length_ticks)
        seq = [(a, b"loopStart=%d" % rng.choice([0, 1, 2, 3])), (b, b"loopEnd=0")]
        if rng.random() < 0.7:
            seq += [(a + 1, b"loopStart=2"), (max(a + 2, b - 1), b"loopEnd=0")]
        if rng.random() < 0.3:
            seq += [(b + 1, rng.choice([b"loopEnd=0", b"loopStart=1"]))]
        for n2, (tk2, txt) in enumerate(seq):
            # the second pair may live in another track: parsed per track the nesting depth is 1, played interleaved it is 2
            tr = tk if n2 < 2 or rng.random() < 0.4 else (tk + 1) % ntracks
            insert(tr, tk2, b"\xff\x06" + vlq(len(txt)) + txt, ("meta",))
    return s


# ----------------------------------------------------------------------------------------------- reference interpretation

def reference_timeline(song, tempo_mult=Fraction(1)):
    """the documented meaning of a well-formed SMF, independently of the library: list of (time as exact Fraction seconds, track, index in track, raw)
    for every event, and the song length (latest event time + 1 s).  Tempo map: all tempo events of all tracks, by tick."""
    tempos = []
    for evs in song.tracks:
        for (tick, raw, d) in evs:
            if d[0] == "tempo":
                tempos.append((tick, int.from_bytes(raw[3:6], "big")))
    tempos.sort(key=lambda x: x[0])
    def time_of(tick):
        t = Fraction(0)
        cur = 500000
        last = 0
        for (tt, us) in tempos:
            if tt >= tick:
                break
            t += Fraction((tt - last) * cur, 1000000 * song.division)
            last = tt
            cur = us
        t += Fraction((tick - last) * cur, 1000000 * song.division)
        return t / tempo_mult
    out = []
    for ti, evs in enumerate(song.tracks):
        for i, (tick, raw, d) in enumerate(evs):
            out.append((time_of(tick), ti, i, raw, d, tick))
    return out


# ----------------------------------------------------------------------------------------------- malformed stream

def mutate(rng, img, n):
    out = []
    for _ in range(n):
        b = bytearray(img)
        k = rng.randrange(9)
        if k == 0 and b:
            b = b[:rng.choice([0, 1, 4, 8, 13, 14, 15, 21, 22, 23, rng.randrange(len(b) + 1), max(0, len(b) - 1), max(0, len(b) - 2)])]
        elif k == 1 and b:
            i = rng.randrange(len(b)); b[i] ^= 1 << rng.randrange(8)
        elif k == 2 and len(b) > 22:
            struct.pack_into(">I", b, 18, rng.choice([0, 1, len(b), len(b) - 22 + 1, 0xFFFFFFFF, 0xF0000000, 0x7FFFFFFF]))
        elif k == 3 and len(b) > 14:
            struct.pack_into(">HHH", b, 8, rng.choice([0, 1, 2, 3, 65535]), rng.choice([0, 1, 2, 17, 65535]), rng.choice([0, 1, 96, 0x8000, 0xE728, 65535]))
        elif k == 4 and b:
            i = rng.randrange(len(b)); b[i] = rng.choice([0xFF, 0xF0, 0xF7, 0x80, 0x00, 0x2F, 0x51, 0xFF])
        elif k == 5 and b:
            i = rng.randrange(len(b)); b[i:i] = bytes(rng.choice([0xFF, 0x81, 0x80, 0xF0, 0x90]) for _ in range(rng.choice([1, 2, 5])))
        elif k == 6 and len(b) > 30:
            i = rng.randrange(22, len(b)); del b[i:i + rng.choice([1, 2, 3])]
        elif k == 7:
            b += bytes(rng.randrange(256) for _ in range(rng.choice([1, 3, 20])))
        else:
            # the length of a meta / SysEx event becomes a long variable-length number
            pos = [i for i in range(22, len(b) - 2) if b[i] in (0xFF, 0xF0, 0xF7)]
            if pos:
                i = rng.choice(pos) + (2 if b[rng.choice(pos)] == 0xFF else 1)
                i = min(i, len(b))
                b[i:i + 1] = big_varlen(rng.choice([2**32, 2**63, 2**64 - rng.randrange(1, 64), 2**64 + 5, 0xFFFFFFF0]), rng.choice([None, 10]))
        out.append(bytes(b))
    return out


def big_varlen(value, nbytes=None):
    """variable-length quantity with as many bytes as asked (more than 4 is outside the SMF standard, the parser takes any number)"""
    out = [value & 0x7F]
    value >>= 7
    while value or (nbytes and len(out) < nbytes):
        out.append((value & 0x7F) | 0x80)
        value >>= 7
    return bytes(reversed(out))


def special_cases(rng=None):
    """systematic files around the places where the parser trusts a number from the file: event lengths of up to ten bytes, meta types that
    collide with the sequencer's internal event codes (with and without payload), many device names, huge delta times"""
    out = []
    note = b"\x00\x90\x3c\x40\x10\x80\x3c\x00"
    eot = b"\x00\xff\x2f\x00"
    for v in (0x7F, 0x80, 0x3FFF, 0x0FFFFFFF, 0x10000000, 0xFFFFFFFF, 2**32, 2**63 - 1, 2**63, 2**64 - 16, 2**64 - 1, 2**64, 2**70 - 3):
        for lead in (b"\xff\x01", b"\xff\x06", b"\xf0", b"\xf7", b"\xff\x51", b"\xff\x09"):
            out.append(smf(0, 96, [note + b"\x00" + lead + big_varlen(v) + b"abc" + eot]))
        out.append(smf(0, 96, [b"\x00\xff\x01" + b"\x80" * 12 + b"\x03abc" + note + eot]))          # padded length (leading 0x80 bytes)
        out.append(smf(1, 96, [note + eot, big_varlen(v) + b"\x90\x40\x40" + eot]))                    # as a delta time
    for code in range(0xE0, 0xE9):
        for n in (0, 1, 2, 3):
            body = note + b"\x08\xff" + bytes([code, n]) + bytes([2, 1, 0][:n]) + b"\x08\x90\x3e\x40\x10\x80\x3e\x00" + b"\x08\xff" + bytes([code, n]) + bytes([0, 5, 9][:n]) + eot
            out.append(smf(0, 96, [body]))
    for n in (15, 16, 17, 40, 300):
        t = b"".join(b"\x00\xff\x09" + big_varlen(len(b"dev%d" % i)) + (b"dev%d" % i) for i in range(n)) + note + eot
        out.append(smf(0, 96, [t]))
        out.append(smf(1, 96, [t, b"\x00\xff\x09\x01Z" + note + eot]))
    return out


def tail_cases():
    """tracks that end in the middle of an event (the classes the parser has to bound-check)"""
    tails = [b"\xff", b"\xff\x51", b"\xff\x51\x03", b"\xff\x51\x03\x07", b"\xf0", b"\xf0\x05\x01", b"\xf7\x81", b"\x90", b"\x90\x3c", b"\xc0", b"\xf2", b"\xf2\x01",
             b"\xf3", b"\x3c", b"\x81", b"\x81\x80", b"\xff\x06\x7f", b"\xff\x2f", b"\xf1", b"\xf8", b"\xb0\x6f", b"\xff\x7f\xff\xff\xff\xff\x0f"]
    out = []
    for t in tails:
        out.append(smf(0, 96, [b"\x00\x90\x3c\x64\x10" + t]))
        out.append(smf(1, 96, [b"\x00\xff\x2f\x00", b"\x00" + t]))
        out.append(smf(0, 96, [t]))
    out.append(smf(0, 96, [b""]))
    out.append(smf(1, 96, [b"", b""]))
    out.append(smf(0, 96, []))
    out.append(b"MThd\0\0\0\6\0\0\0\1\0\x60")
    return out


def gen_cmf(rng):
    """a well-formed Creative Music File (CTMF): 40-byte header, instrument table, SMF-like event stream.
    libOPNMIDI detects it and refuses it (OPL music) after having parsed it completely."""
    nins = rng.choice([0, 1, 3])
    ins_start = 40
    mus_start = ins_start + 16 * nins
    hdr = b"CTMF" + struct.pack("<HHHHH", 0x0101, ins_start, mus_start, rng.choice([96, 120, 192]), rng.choice([48, 96, 120]))
    hdr += struct.pack("<HHH", 0, 0, 0) + bytes(rng.choice([0, 1]) for _ in range(16)) + struct.pack("<HH", nins, rng.choice([96, 120]))
    assert len(hdr) == 40
    body = bytearray()
    for _ in range(rng.choice([1, 4, 12])):
        k = rng.choice([48, 60, 72, 127])
        body += bytes([rng.choice([0, 10, 0x30]), 0x90 | rng.randrange(9), k, rng.choice([1, 64, 127])])
        body += bytes([rng.choice([1, 0x30]), 0x80 | rng.randrange(9), k, 0])
    body += bytes([0, 0xFF, 0x2F, 0])
    return hdr + bytes(rng.randrange(256) for _ in range(16 * nins)) + bytes(body)


def gen_rsxx(rng):
    """a well-formed EA "RSXX" song: first byte = offset of the music (>= 0x5D), the signature `rsxx}u` sixteen bytes before
    it, then an event stream without a leading delta time.  libOPNMIDI plays it with its own setup (two chips, generic volumes)."""
    start = rng.choice([0x5D, 0x60, 0x7D])
    img = bytearray([start]) + bytes(rng.choice([0, 0, rng.randrange(256)]) for _ in range(start - 1))
    img[start - 0x10:start - 0x10 + 6] = b"rsxx}u"
    body = bytearray()
    first = True
    for _ in range(rng.choice([1, 3, 8])):
        k = rng.choice([36, 60, 72, 100])
        if not first:
            body += bytes([rng.choice([0, 5, 0x30])])
        first = False
        body += bytes([0x90 | rng.randrange(16), k, rng.choice([1, 64, 127])])
        body += bytes([rng.choice([1, 0x30]), 0x80 | rng.randrange(16), k, 0])
    body += bytes([0, 0xFF, 0x2F, 0])
    return bytes(img[:start]) + bytes(body)
