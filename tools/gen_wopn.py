"""generators of WOPN / OPNI images (structured, mostly valid) and of their mutations"""
import struct

M1 = b"WOPN2-BANK\0"
M2 = b"WOPN2-B2NK\0"
I1 = b"WOPN2-INST\0"
I2 = b"WOPN2-IN2T\0"


def rname(rng, n):
    k = rng.choice([0, 1, 5, n - 2, n - 1, n, n])
    body = bytes(rng.choice(b"ABCDEFGHIJKLMNOPQRSTUVWXYZabcdefghijklmnopqrstuvwxyz0123456789 -_") for _ in range(min(k, n)))
    if k >= n and rng.random() < 0.5:
        return body[:n]                      # unterminated, full width
    pad = bytes(n - len(body))
    if rng.random() < 0.15 and len(body) < n - 1:
        pad = b"\0" + bytes(rng.randrange(1, 256) for _ in range(n - len(body) - 1))   # garbage behind the NUL
    return (body + pad)[:n]


def rinst(rng, version, delays=True):
    rec = bytearray(rname(rng, 32))
    off = rng.choice([0, 0, 12, -12, 1, -1, 127, -128, 32767, -32768, 2400, -2400, rng.randrange(-32768, 32768)])
    rec += struct.pack(">h", off)
    rec += bytes([rng.choice([0, 0, 35, 60, 127, 128, 200, 255, rng.randrange(256)])])
    rec += bytes([rng.randrange(256), rng.randrange(256)])
    rec += bytes(rng.choice([0, 0x7f, 0xff, rng.randrange(256)]) for _ in range(28))
    if version >= 2 and delays:
        on = rng.choice([0, 0, 1, 40000, 65535, rng.randrange(65536)])
        offd = rng.choice([0, 0, 1, 65535, rng.randrange(65536)])
        rec += struct.pack(">HH", on, offd)
    return bytes(rec)


def bank_image(rng, version=2, cm=None, cp=None, lfo=None):
    cm = rng.choice([1, 1, 2, 3]) if cm is None else cm
    cp = rng.choice([1, 1, 2]) if cp is None else cp
    lfo = rng.randrange(256) if lfo is None else lfo
    out = bytearray(M2 + struct.pack("<H", version) if version >= 2 else M1)
    out += struct.pack(">HH", cm, cp) + bytes([lfo])
    if version >= 2:
        for _ in range(cm + cp):
            out += rname(rng, 32) + bytes([rng.choice([0, 1, 127, 128, 255, rng.randrange(256)]), rng.choice([0, 1, 126, 127, 255, rng.randrange(256)])])
    for _ in range((cm + cp) * 128):
        out += rinst(rng, version)
    return bytes(out)


def inst_image(rng, version=2):
    out = bytearray(I2 + struct.pack("<H", version) if version >= 2 else I1)
    out += bytes([rng.choice([0, 1, 2, 255])])
    out += rinst(rng, version, delays=False)
    return bytes(out)


def mutations(rng, img, n):
    """malformed stream: truncations, header bit flips, count/version field edits"""
    out = []
    hdr = min(len(img), 19 + 68)
    for _ in range(n):
        k = rng.randrange(6)
        b = bytearray(img)
        if k == 0:
            b = b[:rng.choice([0, 1, 10, 11, 12, 13, 15, 17, 18, 19, 20, 52, 53, rng.randrange(len(img) + 1), len(img) - 1])]
        elif k == 1 and hdr:
            i = rng.randrange(hdr); b[i] ^= 1 << rng.randrange(8)
        elif k == 2 and len(b) >= 13:
            struct.pack_into("<H", b, 11, rng.choice([0, 1, 2, 3, 255, 256, 65535]))
        elif k == 3 and len(b) >= 17:
            off = 13 if bytes(b[:11]) == M2 else 11
            struct.pack_into(">H", b, off + 2 * rng.randrange(2), rng.choice([0, 1, 2, 3, 255, 256, 65535]))
        elif k == 4:
            b += bytes(rng.randrange(256) for _ in range(rng.choice([1, 2, 69, 100])))
        else:
            i = rng.randrange(len(b)) if b else 0
            if b:
                b[i] = rng.randrange(256)
        out.append(bytes(b))
    return out
