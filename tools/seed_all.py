#!/usr/bin/env python3
"""seed_all.py — run every kept seeded change against the check of its property (plus listed cross-checks); writes seeded/RESULTS.json"""
import os, sys, json, subprocess, glob
VERIF = os.path.dirname(os.path.dirname(os.path.abspath(__file__)))
extra = {"C04-m2": ["C05"], "C10-m1": ["C04"], "C12-m2": ["C16", "C03"], "C03-m2": ["C16"], "C02-m2": ["C12"]}
res = {}
for d in sorted(glob.glob(os.path.join(VERIF, "seeded", "*", "meta.json"))):
    sid = os.path.basename(os.path.dirname(d))
    prop = json.load(open(d))["breaks_property"]
    props = [prop] + extra.get(sid, [])
    p = subprocess.run([sys.executable, os.path.join(VERIF, "tools", "seed_run.py"), sid] + props, stdout=subprocess.PIPE, stderr=subprocess.STDOUT, text=True)
    out = p.stdout
    if "does not apply" in out:
        res[sid] = {"status": "patch no longer applies to the repaired tree"}
    else:
        det = {}
        for line in out.split("\n"):
            if line[:3] in props or (line.split(" ")[0] in props):
                w = line.split()
                det[w[0]] = w[1] if len(w) > 1 else ""
        kinds = {}
        cur = None
        for line in out.split("\n"):
            w = line.split()
            if w and w[0] in props and len(w) > 1 and w[1].startswith("rc="):
                cur = w[0]; kinds[cur] = {"rc": int(w[1][3:]), "with_failing_input": False, "first": ""}
            elif cur and "VIOLATION" in line:
                if "no-failing-input-found" not in line:
                    kinds[cur]["with_failing_input"] = True
            elif cur and line.strip().startswith("#") and not kinds[cur]["first"]:
                kinds[cur]["first"] = line.strip()[:200]
        res[sid] = {"status": "ran", "checks": kinds}
    json.dump(res, open(os.path.join(VERIF, "seeded", "RESULTS.json"), "w"), indent=1)
    print(sid, res[sid], flush=True)
