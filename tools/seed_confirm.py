#!/usr/bin/env python3
"""seed_confirm.py <seed-id> <dir with patch.diff demo.* notes.txt> <property>
Confirms a seeded change independently in scratch worktrees of /repo's HEAD:
  - patch applies to HEAD, library builds with the default CMake configuration, ctest 3/3 passes,
  - the demonstration exits 0 on the clean build and non-zero on the changed build.
On success stores /verif/seeded/<seed-id>/{patch.diff,demo.*,notes.txt,meta.json}.
Scratch worktrees live under /tmp/wt/confirm-* and are removed afterwards (the clean one is kept per HEAD)."""
import sys, os, subprocess, json, shutil, re, glob

REPO = "/repo"
VERIF = os.path.dirname(os.path.dirname(os.path.abspath(__file__)))


def sh(cmd, cwd=None, timeout=1800):
    p = subprocess.run(cmd, shell=True, cwd=cwd, stdout=subprocess.PIPE, stderr=subprocess.STDOUT, text=True, timeout=timeout, errors="replace")
    return p.returncode, p.stdout


def build(wt):
    rc, out = sh("cmake -G Ninja -B _b -DWITH_UNIT_TESTS=ON -DCMAKE_BUILD_TYPE=RelWithDebInfo >/dev/null 2>&1 && cmake --build _b 2>&1 | tail -5", cwd=wt)
    return rc == 0 and os.path.exists(os.path.join(wt, "_b", "libOPNMIDI.a")), out


def compile_demo(demo, wt, exe):
    txt = open(demo).read()
    isc = demo.endswith(".c")
    inc = "-I%s/include -I%s/src -I%s/src/wopn" % (wt, wt, wt)
    if isc:
        # WOPN demos compile wopn_file.c directly
        cmd = "gcc -std=c99 %s %s %s/src/wopn/wopn_file.c -o %s -lm" % (inc, demo, wt, exe)
        if "opnmidi.h" in txt:
            cmd = "gcc -std=c99 %s %s %s/_b/libOPNMIDI.a -o %s -lstdc++ -lm -lpthread" % (inc, demo, wt, exe)
    else:
        cmd = "g++ -std=c++11 %s %s %s/_b/libOPNMIDI.a -o %s -lm -lpthread" % (inc, demo, wt, exe)
    return sh(cmd)


def main():
    sid, src, prop = sys.argv[1], sys.argv[2], sys.argv[3]
    head = subprocess.check_output(["git", "-C", REPO, "rev-parse", "--short", "HEAD"], text=True).strip()
    clean = "/tmp/wt/confirm-clean-" + head
    mut = "/tmp/wt/confirm-" + sid
    demo = (glob.glob(os.path.join(src, "demo.cpp")) + glob.glob(os.path.join(src, "demo.c")))[0]
    res = {"id": sid, "property": prop, "repo_head": head}
    if not os.path.exists(os.path.join(clean, "_b", "libOPNMIDI.a")):
        sh("git -C %s worktree remove --force %s" % (REPO, clean))
        sh("git -C %s worktree add --detach %s HEAD" % (REPO, clean))
        ok, out = build(clean)
        if not ok:
            print("clean build failed", out); sys.exit(1)
    sh("git -C %s worktree remove --force %s" % (REPO, mut))
    sh("git -C %s worktree add --detach %s HEAD" % (REPO, mut))
    try:
        rc, out = sh("git apply --3way %s || git apply %s" % (os.path.join(src, "patch.diff"), os.path.join(src, "patch.diff")), cwd=mut)
        if rc != 0:
            rc, out = sh("patch -p1 -F3 < %s" % os.path.join(src, "patch.diff"), cwd=mut)
        res["applies"] = rc == 0
        if rc != 0:
            print("patch does not apply:", out); sys.exit(1)
        # re-diff against HEAD so the stored patch applies to the current tree
        rc, diff = sh("git diff HEAD -- src include", cwd=mut)
        ok, out = build(mut)
        res["builds"] = ok
        if not ok:
            print("mutant build failed", out); sys.exit(1)
        rc, out = sh("ctest --test-dir _b 2>&1 | tail -4", cwd=mut)
        res["ctest_pass"] = "100% tests passed" in out
        rc1, o1 = compile_demo(demo, clean, "/tmp/wt/demo-clean-" + sid)
        rc2, o2 = compile_demo(demo, mut, "/tmp/wt/demo-mut-" + sid)
        if rc1 != 0 or rc2 != 0:
            print("demo compile failed:", o1[-1500:], o2[-1500:]); sys.exit(1)
        rcc, oc = sh("/tmp/wt/demo-clean-%s" % sid, cwd=clean, timeout=600)
        rcm, om = sh("/tmp/wt/demo-mut-%s" % sid, cwd=mut, timeout=600)
        res["demo_clean_rc"] = rcc
        res["demo_mutant_rc"] = rcm
        res["demo_mutant_output_tail"] = om[-600:]
        good = res["ctest_pass"] and rcc == 0 and rcm != 0
        res["confirmed"] = good
        print(json.dumps(res, indent=1))
        if good:
            dst = os.path.join(VERIF, "seeded", sid)
            os.makedirs(dst, exist_ok=True)
            open(os.path.join(dst, "patch.diff"), "w").write(diff)
            shutil.copy(demo, dst)
            if os.path.exists(os.path.join(src, "notes.txt")):
                shutil.copy(os.path.join(src, "notes.txt"), dst)
            notes = open(os.path.join(src, "notes.txt")).read() if os.path.exists(os.path.join(src, "notes.txt")) else ""
            meta = {"id": sid, "breaks_property": prop, "needs_to_manifest": notes.strip()[:1500],
                    "confirmed_by": "tools/seed_confirm.py: patch applied to /repo HEAD %s in a scratch worktree; default CMake build; ctest 3/3; demo rc clean=%d mutant=%d" % (head, rcc, rcm),
                    "detected_by": None}
            json.dump(meta, open(os.path.join(dst, "meta.json"), "w"), indent=1)
    finally:
        sh("git -C %s worktree remove --force %s" % (REPO, mut))
        for f in ("/tmp/wt/demo-clean-" + sid, "/tmp/wt/demo-mut-" + sid):
            if os.path.exists(f):
                os.remove(f)


if __name__ == "__main__":
    main()
