#!/usr/bin/env python3
"""seed_run.py <seed-id> [<Cxx> ...]  — apply seeded/<id>/patch.diff to /repo, run the quick checks, undo, record detection."""
import sys, os, subprocess, json
VERIF = os.path.dirname(os.path.dirname(os.path.abspath(__file__)))
sid = sys.argv[1]
d = os.path.join(VERIF, "seeded", sid)
meta = json.load(open(os.path.join(d, "meta.json")))
props = sys.argv[2:] or [meta["breaks_property"]]
st = subprocess.run(["git", "-C", "/repo", "status", "--porcelain", "--untracked-files=no"], stdout=subprocess.PIPE, text=True).stdout.strip()
if st:
    print("refusing: /repo has uncommitted changes:\n" + st); sys.exit(2)
r = subprocess.run(["git", "-C", "/repo", "apply", os.path.join(d, "patch.diff")])
if r.returncode != 0:
    print("patch does not apply"); sys.exit(2)
res = {}
# the evidence files describe runs against /repo itself: what a run against a changed tree writes is put back afterwards
saved = {}
for p in props:
    ef = os.path.join(VERIF, "evidence", p + ".json")
    saved[ef] = open(ef).read() if os.path.exists(ef) else None
try:
    for p in props:
        pr = subprocess.run([sys.executable, os.path.join(VERIF, "tools", "check.py"), p, "--tier", "quick"], cwd=VERIF, stdout=subprocess.PIPE, stderr=subprocess.PIPE, text=True)
        vl = [l for l in pr.stdout.split("\n") if l.startswith("VIOLATION")]
        res[p] = {"rc": pr.returncode, "violations": vl[:4]}
        print(p, "rc=%d" % pr.returncode)
        for l in vl[:4]:
            print("   ", l)
            rp = l.split("replay=")[1].split()[0]
            if os.path.exists(rp):
                print("      " + "\n      ".join(open(rp).read().split("\n")[:6]))
finally:
    subprocess.run(["git", "-C", "/repo", "checkout", "--", "."])
    for ef, txt in saved.items():
        if txt is not None:
            open(ef, "w").write(txt)
meta["detected_by"] = {p: ("exit %d; %s" % (v["rc"], "; ".join(v["violations"])[:400])) for p, v in res.items()}
json.dump(meta, open(os.path.join(d, "meta.json"), "w"), indent=1)
