#!/usr/bin/env python3
"""setup: build everything the checks need from files on disk (offline): the library variants for /repo's current
tree (with hooks), the harness, the regenerated Gen files and the whole Lean project incl. the opnmodel driver."""
import sys, os
sys.path.insert(0, os.path.dirname(os.path.abspath(__file__)))
import common, translate
translate.translate()
common.build_harness("asan")
ok, out = common.lake_build(["OpnVerif", "Driver", "opnmodel"])
if not ok:
    print(out[-8000:])
    sys.exit(1)
print("setup ok")
