"""generators of real-time API histories for the `synth` component and Python monitors that evaluate property clauses
directly on the implementation's snapshots (independent of the Lean model)"""
import re, struct, itertools
import gen_wopn


def test_bank(rng, nmel=2, nperc=1, blanks=0.15, same_timbre=False, key_on=None):
    """a small v2 WOPN image with recognisable timbres; returns bytes"""
    def inst(idx, blank, perc):
        name = (b"i%d" % idx).ljust(32, b"\0")
        off = rng.choice([0, 0, 0, 12, -12, 1])
        key = rng.choice([0, 0, 35, 60, 200]) if perc else 0
        tim = bytes([1, 30, 0x1f, 5, 2, 0x27, 0] * 4) if same_timbre else bytes(rng.randrange(256) for _ in range(28))
        rec = name + struct.pack(">h", off) + bytes([key, rng.randrange(256), rng.randrange(64)]) + tim
        if blank:
            rec += struct.pack(">HH", 0, 0)
        else:
            rec += struct.pack(">HH", rng.choice([1, 40, 500, 5000, 40000, 65535]) if key_on is None else key_on, rng.choice([0, 1, 100, 2000, 65535]))
        return rec
    out = bytearray(gen_wopn.M2 + struct.pack("<H", 2) + struct.pack(">HH", nmel, nperc) + bytes([rng.randrange(16)]))
    ids = [(0, 0)] + [(rng.choice([0, 1, 5, 64, 127]), rng.choice([0, 1, 3, 127])) for _ in range(nmel - 1)]
    pids = [(0, 0)] + [(0, rng.choice([1, 8, 127, 128, 130])) for _ in range(nperc - 1)]
    for (m, l) in ids + pids:
        out += b"bank".ljust(32, b"\0") + bytes([l, m])
    for b in range(nmel):
        for i in range(128):
            out += inst(i, rng.random() < blanks and not (b == 0 and i < 4), False)
    for b in range(nperc):
        for i in range(128):
            out += inst(i, rng.random() < blanks and not (b == 0 and 35 <= i <= 40), True)
    return bytes(out), ids, pids


class Gen:
    def __init__(self, rng):
        self.rng = rng

    def history(self, n, chips=1, chans=(0, 1, 9), keys=(60, 61, 62, 36, 127), arp=False, wide=False, rate=65536, alloc=None, time=True):
        rng = self.rng
        img, ids, pids = test_bank(rng, same_timbre=arp and rng.random() < 0.7)
        ops = ["new %d %d" % (rate, chips), "bank " + img.hex()]
        if arp:
            ops.append("arp 1")
        if alloc is not None:
            ops.append("alloc %d" % alloc)
        for _ in range(n):
            c = rng.random()
            ch = rng.choice(chans)
            key = rng.choice(keys) if not wide else rng.randrange(128)
            if c < 0.30:
                ops.append("on %d %d %d" % (ch, key, rng.choice([1, 64, 100, 127, 127])))
            elif c < 0.45:
                ops.append("off %d %d" % (ch, key))
            elif c < 0.50:
                ops.append("on %d %d 0" % (ch, key))
            elif c < 0.60:
                ops.append("cc %d 64 %d" % (ch, rng.choice([0, 63, 64, 127])))
            elif c < 0.67:
                ops.append("cc %d 66 %d" % (ch, rng.choice([0, 127])))
            elif c < 0.71:
                ops.append("cc %d %d 0" % (ch, rng.choice([120, 121, 123])))
            elif c < 0.73:
                ops.append(rng.choice(["panic", "rs"]))
            elif c < 0.83 and time:
                ops.append("gen %d" % rng.choice([2, 64, 1024, 1966, 1968, 2048, 4096, 65536, 131072, 262144]))
            elif c < 0.86:
                ops.append("pc %d %d" % (ch, rng.choice([0, 1, 2, 3, 5, 127, 200])))
            elif c < 0.88:
                m, l = rng.choice(ids)
                ops.append("bankmsb %d %d" % (ch, m)); ops.append("banklsb %d %d" % (ch, l))
            elif c < 0.91:
                ops.append("cc %d %d %d" % (ch, rng.choice([7, 11, 10, 74, 67, 1]), rng.choice([0, 1, 64, 100, 127, 200])))
            elif c < 0.93:
                ops.append("pb %d %d" % (ch, rng.choice([0, 8192, 16383, rng.randrange(16384)])))
            elif c < 0.95:
                ops.append("cc %d 101 0" % ch); ops.append("cc %d 100 0" % ch); ops.append("cc %d 6 %d" % (ch, rng.choice([0, 2, 12, 24])))
            elif c < 0.97:
                ops.append(rng.choice(["sysex f07e7f0901f7", "sysex f07e7f0902f7", "sysex f04110421240007f0041f7", "sysex f043104c00007e00f7",
                                       "sysex f07f7f0401%02x%02xf7" % (rng.randrange(128), rng.randrange(128)), "sysex f0411042124011150%d%02xf7" % (rng.randrange(3), 0)]))
            else:
                ops.append("cat %d %d" % (ch, rng.choice([0, 0, 40])) if rng.random() < 0.5 else "nat %d %d %d" % (ch, key, rng.choice([0, 30])))
        # release everything and let 30 ms pass: no stuck notes
        for ch in chans:
            ops.append("cc %d 64 0" % ch); ops.append("cc %d 66 0" % ch)
            for key in (keys if not wide else range(128)):
                ops.append("off %d %d" % (ch, key))
        ops.append("gen 4096")
        return ops


SMALL_ALPHABET = (["on %d %d 100" % (ch, k) for ch in (0, 9) for k in (60, 61, 62)] + ["off %d %d" % (ch, k) for ch in (0, 9) for k in (60, 61, 62)] +
                  ["cc 0 64 127", "cc 0 64 0", "cc 0 66 127", "cc 0 66 0", "cc 0 120 0", "cc 0 121 0", "cc 0 123 0", "panic", "rs", "gen 656", "gen 2624", "arp 1", "arp 0"])


# --------------------------------------------------------------------------------------------- snapshot parsing

class Snap:
    pass


def parse_snapshot(line):
    """-> Snap with .ret, .notes {(midCh,key): dict}, .users {chip: [dict]}, .keyon {chip: bool}, .counters {midCh: (g,e)}, .nch"""
    sn = Snap()
    sn.raw = line
    m = re.match(r"ret=(\S+) ", line)
    sn.ret = m.group(1) if m else None
    sn.nch = int(re.search(r" nch=(\d+)", line).group(1)) if " nch=" in line else 0
    sn.notes, sn.users, sn.keyon, sn.counters, sn.koff = {}, {}, {}, {}, {}
    for mm in re.finditer(r" m(\d+)\{g(\d+),e(\d+):([^}]*)\}", line):
        ch = int(mm.group(1))
        sn.counters[ch] = (int(mm.group(2)), int(mm.group(3)))
        for part in [p for p in mm.group(4).split(";") if p]:
            head, chans = part.split(">")
            f = head.split(":")
            num, den = f[5].split("/")
            sn.notes.setdefault(ch, []).append({"key": int(f[0]), "vol": int(f[1]), "flags": f[4], "ttl": int(num) / int(den),
                                                "chans": [int(x) for x in chans.split(",") if x]})
    for mm in re.finditer(r" c(\d+)\{k(\d) koff=(-?\d+) ([^:}]*):([^}]*)\}", line):
        c = int(mm.group(1))
        sn.keyon[c] = mm.group(2) == "1"
        sn.koff[c] = int(mm.group(3))
        us = []
        for part in [p for p in mm.group(5).split(";") if p]:
            f = part.split(":")
            us.append({"ch": int(f[0]), "key": int(f[1]), "sus": int(f[2]), "fixed": int(f[3]), "kon": int(f[4]), "vib": int(f[5])})
        sn.users[c] = us
    return sn


def inv_failures(sn):
    """C04's clauses I1-I4 and I6 on an implementation snapshot"""
    out = []
    for ch, notes in sn.notes.items():
        keys = [n["key"] for n in notes]
        if len(keys) != len(set(keys)):
            out.append("I3: key twice in the note list of MIDI channel %d" % ch)
        g = sum(1 for n in notes if "G" in n["flags"])
        e = sum(1 for n in notes if n["ttl"] > 0)
        if sn.counters.get(ch, (0, 0)) != (g, e):
            out.append("I4: counters %s of MIDI channel %d, actual gliding/extended notes (%d,%d)" % (sn.counters.get(ch), ch, g, e))
        for n in notes:
            if len(n["chans"]) != len(set(n["chans"])):
                out.append("I3: chip channel twice in note %d/%d" % (ch, n["key"]))
            for c in n["chans"]:
                if c >= sn.nch:
                    out.append("I1: note %d/%d refers to chip channel %d of %d" % (ch, n["key"], c, sn.nch))
                elif not any(u["ch"] == ch and u["key"] == n["key"] for u in sn.users.get(c, [])):
                    out.append("I1: note %d/%d uses chip channel %d, which does not list it as a user" % (ch, n["key"], c))
    for ch, (g, e) in sn.counters.items():
        if ch not in sn.notes and (g, e) != (0, 0):
            out.append("I4: counters (%d,%d) on MIDI channel %d without notes" % (g, e, ch))
    for c, us in sn.users.items():
        locs = [(u["ch"], u["key"]) for u in us]
        if len(locs) != len(set(locs)):
            out.append("I3: location twice in the user list of chip channel %d" % c)
        for u in us:
            if u["sus"] == 0:
                ok = any(n["key"] == u["key"] and c in n["chans"] for n in sn.notes.get(u["ch"], []))
                if not ok:
                    out.append("I2: non-sustained user %d/%d of chip channel %d has no sounding note using it" % (u["ch"], u["key"], c))
    for c in set(list(sn.users) + list(sn.keyon)):
        has = bool(sn.users.get(c))
        if has != sn.keyon.get(c, False):
            out.append("I6: chip channel %d has %d user(s) and key flag %s" % (c, len(sn.users.get(c, [])), sn.keyon.get(c, False)))
    return out


def owners(sn):
    """(MIDI channel, key) pairs that own a keyed-on chip channel"""
    s = set()
    for c, us in sn.users.items():
        if sn.keyon.get(c, False):
            for u in us:
                s.add((u["ch"], u["key"]))
    return s
