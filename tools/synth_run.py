"""two-phase run of the `synth` component: implementation first (it reports its frequency taps), then the model on the
same ops with the taps appended; returns (impl_obs, model_obs) with the tap suffix stripped"""
import common


def run(ops, variant="asan", timeout=1200):
    impl, _ = common.run_impl("synth", "\n".join(ops) + "\n", variant=variant, stateless=False, timeout=timeout)
    mops, iobs = [], []
    for o, r in zip(ops, impl):
        if " @" in r:
            body, taps = r.split(" @", 1)
        else:
            body, taps = r, ""
        iobs.append(body)
        mops.append(o + (" @" + taps if taps.strip() else ""))
    model = common.run_model("synth", "\n".join(mops) + "\n", timeout=timeout)
    return iobs, model
