#!/usr/bin/env python3
"""Source -> Lean translator (TRANSLATOR of DESIGN.md section 2.6).

Regenerates lean/OpnVerif/Gen/*.lean from the *current working tree* of /repo on every run.
Every extracted item is bound to an anchor (a regex on the source text).  An anchor that no
longer matches is a broken tie: translate() raises AnchorError naming the anchor, and the check
that called it reports that per DESIGN.md section 2.2.

What is regenerated:
  * tables          s_dmx_volume_model, W9X_volume_mapping_table, alg_do, g_noteChannelsMap,
                    GS channels_map, mus_midimap
  * constants       every numeric literal a theorem depends on (volume models, pitch search,
                    goodness weights, arpeggio thresholds, WOPN sizes/magics, queue sizes, clocks ...)
  * derived table   Generic-volume thresholds T_k = ceil(exp((k+c2)/c1)) from the extracted c1, c2
                    (50-digit decimal arithmetic; validated against the implementation by the
                    C11 correspondence at T_k-1 and T_k)
  * decimal literals are emitted as exact rationals of the *nearest IEEE double* (what the C code
    computes with) and as the exact decimal rational.
  * exported API surface (prototype list of include/opnmidi.h)
  * sample conversion functions opn2_cvt* (straight-line integer expressions)
"""
import re, sys, os, json, hashlib, struct, fractions, decimal

REPO = os.environ.get("VERIF_REPO", "/repo")
HERE = os.path.dirname(os.path.abspath(__file__))
VERIF = os.path.dirname(HERE)
GEN = os.path.join(VERIF, "lean", "OpnVerif", "Gen")


class AnchorError(Exception):
    def __init__(self, anchor, why):
        super().__init__("anchor %s: %s" % (anchor, why))
        self.anchor = anchor
        self.why = why


def src(rel):
    with open(os.path.join(REPO, rel), encoding="utf-8", errors="replace") as f:
        return f.read()


def strip_comments(s):
    s = re.sub(r"/\*.*?\*/", " ", s, flags=re.S)
    s = re.sub(r"//[^\n]*", " ", s)
    return s


def find(anchor, text, pattern, flags=re.S):
    m = re.search(pattern, text, flags)
    if not m:
        raise AnchorError(anchor, "pattern not found: %s" % pattern)
    return m


def int_list(anchor, body):
    items = [x.strip() for x in strip_comments(body).replace("\n", " ").split(",")]
    out = []
    for x in items:
        if x == "":
            continue
        try:
            out.append(int(x, 0))
        except ValueError:
            raise AnchorError(anchor, "non-integer table entry %r" % x)
    return out


def double_exact(lit):
    """exact rational value of the IEEE double nearest to the decimal literal"""
    d = float(lit)
    return fractions.Fraction(d)


def rat_lean(fr):
    fr = fractions.Fraction(fr)
    if fr.denominator == 1:
        return "(%d : Rat)" % fr.numerator
    return "((%d : Rat) / %d)" % (fr.numerator, fr.denominator)


def lean_list(xs):
    return "[" + ", ".join(str(x) for x in xs) + "]"


def lean_bool_list(xs):
    return "[" + ", ".join("true" if x else "false" for x in xs) + "]"


# ---------------------------------------------------------------------------------------------

def gen_tables(out):
    anchors = {}
    opn2 = src("src/opnmidi_opn2.cpp")
    m = find("dmx_table", opn2, r"static const uint_fast32_t s_dmx_volume_model\[(\d+)\]\s*=\s*\{(.*?)\};")
    dmx = int_list("dmx_table", m.group(2))
    if len(dmx) != int(m.group(1)):
        raise AnchorError("dmx_table", "declared %s entries, found %d" % (m.group(1), len(dmx)))
    m = find("w9x_table", opn2, r"static const uint_fast32_t W9X_volume_mapping_table\[(\d+)\]\s*=\s*\{(.*?)\};")
    w9x = int_list("w9x_table", m.group(2))
    if len(w9x) != int(m.group(1)):
        raise AnchorError("w9x_table", "declared %s entries, found %d" % (m.group(1), len(w9x)))
    m = find("note_channels_map", opn2, r"static const uint32_t g_noteChannelsMap\[6\]\s*=\s*\{(.*?)\};")
    ncm = int_list("note_channels_map", m.group(1))
    m = find("alg_do", opn2, r"bool alg_do\[8\]\[4\]\s*=\s*\{(.*?)\n    \};")
    rows = re.findall(r"\{\s*(true|false)\s*,\s*(true|false)\s*,\s*(true|false)\s*,\s*(true|false)\s*\}", strip_comments(m.group(1)))
    if len(rows) != 8:
        raise AnchorError("alg_do", "expected 8 rows, found %d" % len(rows))
    alg = [[x == "true" for x in r] for r in rows]

    # volume-model constants
    c1 = find("generic_c1", opn2, r"const double c1 = ([0-9.eE+\-]+);").group(1)
    c2 = find("generic_c2", opn2, r"const double c2 = ([0-9.eE+\-]+);").group(1)
    minvol = int(find("generic_minVolume", opn2, r"const uint_fast32_t minVolume = (\d+);").group(1))
    find("generic_formula", opn2, r"volume = static_cast<uint_fast32_t>\(lv \* c1 - c2\) \* 2;")
    find("generic_product", opn2, r"volume = velocity \* m_masterVolume \*\s*channelVolume \* channelExpression;")
    native_div = int(find("native_div", opn2, r"volume = \(volume \* m_masterVolume\) / (\d+);").group(1))
    dmx_div = int(find("dmx_div", opn2, r"volume = \(channelVolume \* channelExpression \* m_masterVolume\) / (\d+);").group(1))
    apogee_div = int(find("apogee_div", opn2, r"volume = \(channelVolume \* channelExpression \* m_masterVolume / (\d+)\);").group(1))
    w9x_div = int(find("w9x_div", opn2, r"m_masterVolume / (\d+)\) >> 2\)").group(1))
    dmx_clamp = int(find("dmx_clamp", opn2, r"/ 16129;\s*if\(volume > (\d+)\)[^\n]*\n\s*volume = (\d+);\s*volume = \(s_dmx_volume_model\[volume\]").group(1))
    m9 = find("w9x_clamp", opn2, r">> 2\);\s*if\(volume > (\d+)\)[^\n]*\n\s*volume = (\d+);\s*volume = 63 - W9X_volume_mapping_table\[volume\];")
    if m9.group(1) != m9.group(2):
        raise AnchorError("w9x_clamp", "clamp bound and value differ")
    w9x_clamp = int(m9.group(1))
    find("dmx_shift", opn2, r"\* volume\) >> 9;")
    find("apogee_formula", opn2, r"volume = \(\(64 \* \(velocity \+ 0x80\)\) \* volume\) >> 15;")
    find("carrier_formula", opn2, r"127 - \(static_cast<uint32_t>\(volume\) \* \(127 - \(x & 127\)\)\) / 127")
    find("brightness_formula", opn2, r"::round\(127\.0 \* ::sqrt\(\(static_cast<double>\(brightness\)\) \* \(1\.0 / 127\.0\)\)\)")

    # derived: Generic thresholds, 50-digit arithmetic on the exact double values of c1, c2
    decimal.getcontext().prec = 60
    fc1 = double_exact(c1)
    fc2 = double_exact(c2)
    dc1 = decimal.Decimal(fc1.numerator) / decimal.Decimal(fc1.denominator)
    dc2 = decimal.Decimal(fc2.numerator) / decimal.Decimal(fc2.denominator)
    vmax = 255 ** 4
    thr = []
    k = 0
    while True:
        t = ((decimal.Decimal(k) + dc2) / dc1).exp()
        ti = int(t.to_integral_value(rounding=decimal.ROUND_CEILING))
        # distance of c1*ln(ti) - c2 from k, to report how sharp the threshold is
        if ti > vmax + 1:
            break
        thr.append(ti)
        k += 1
        if k > 400:
            raise AnchorError("generic_thresholds", "runaway threshold table")
    # thr[0] = T_0, thr[k] = T_k

    # GS drum-part channel map, MIDIplay
    mp = src("src/opnmidi_midiplay.cpp")
    m = find("gs_channels_map", mp, r"const uint8_t channels_map\[16\]\s*=\s*\{(.*?)\};")
    gsmap = int_list("gs_channels_map", m.group(1))
    if len(gsmap) != 16:
        raise AnchorError("gs_channels_map", "expected 16 entries")

    L = []
    L.append("-- GENERATED by tools/translate.py from /repo (do not edit)")
    L.append("namespace Opn.Gen")
    L.append("def dmxVolumeModel : List Nat := " + lean_list(dmx))
    L.append("def w9xVolumeMapping : List Nat := " + lean_list(w9x))
    L.append("def noteChannelsMap : List Nat := " + lean_list(ncm))
    L.append("def algDo : List (List Bool) := [" + ", ".join(lean_bool_list(r) for r in alg) + "]")
    L.append("def gsChannelsMap : List Nat := " + lean_list(gsmap))
    L.append("def genericMinVolume : Nat := %d" % minvol)
    L.append("def nativeDiv : Nat := %d" % native_div)
    L.append("def dmxDiv : Nat := %d" % dmx_div)
    L.append("def apogeeDiv : Nat := %d" % apogee_div)
    L.append("def w9xDiv : Nat := %d" % w9x_div)
    L.append("def dmxClamp : Nat := %d" % dmx_clamp)
    L.append("def w9xClamp : Nat := %d" % w9x_clamp)
    L.append("/-- T_0 = ceil(exp(c2/c1)); the cast of a negative double cannot happen iff T_0 <= minVolume+1 -/")
    L.append("def genericT0 : Nat := %d" % thr[0])
    L.append("/-- T_k = ceil(exp((k+c2)/c1)) for k = 1.. while T_k <= 255^4+1 -/")
    L.append("def genericThresholds : List Nat := " + lean_list(thr[1:]))
    L.append("end Opn.Gen")
    out["Tables.lean"] = "\n".join(L) + "\n"
    anchors.update({"dmx_table": len(dmx), "w9x_table": len(w9x), "alg_do": 8, "generic_c1": c1, "generic_c2": c2,
                    "generic_minVolume": minvol, "native_div": native_div, "dmx_div": dmx_div,
                    "apogee_div": apogee_div, "w9x_div": w9x_div, "dmx_clamp": dmx_clamp, "w9x_clamp": w9x_clamp, "generic_thresholds": len(thr)})
    return anchors


def c_string_bytes(lit):
    """bytes of a C string literal body (handles \\0 and \\xNN), plus the implicit terminating NUL"""
    out = []
    i = 0
    while i < len(lit):
        c = lit[i]
        if c == "\\":
            n = lit[i + 1]
            if n == "0":
                out.append(0); i += 2
            elif n == "x":
                out.append(int(lit[i + 2:i + 4], 16)); i += 4
            elif n == "n":
                out.append(10); i += 2
            else:
                out.append(ord(n)); i += 2
        else:
            out.append(ord(c)); i += 1
    out.append(0)
    return out


def gen_wopn(out):
    w = src("src/wopn/wopn_file.c")
    h = src("src/wopn/wopn_file.h")
    mag = {}
    for name in ("wopn2_magic1", "wopn2_magic2", "opni_magic1", "opni_magic2"):
        m = find(name, w, r'static const char\s*\*%s = "((?:[^"\\]|\\.)*)";' % name)
        b = c_string_bytes(m.group(1))[:11]
        if len(b) != 11:
            raise AnchorError(name, "magic shorter than the 11 bytes that are compared")
        mag[name] = b
    latest = int(find("wopn_latest_version", w, r"static const uint16_t\s+wopn_latest_version = (\d+);").group(1))
    v1 = int(find("WOPN_INST_SIZE_V1", w, r"WOPN_INST_SIZE_V1 = (\d+)").group(1))
    v2 = int(find("WOPN_INST_SIZE_V2", w, r"WOPN_INST_SIZE_V2 = (\d+)").group(1))
    find("wopn_magic_len", w, r"memcmp\(cursor, wopn2_magic1, 11\)")
    find("wopn_meta_size", w, r"if\(length < 34\)")
    find("wopn_inst_name_len", h, r"char\s+inst_name\[32\];")
    find("wopn_bank_name_len", h, r"char\s+bank_name\[33\];")
    errs = {}
    em = find("wopn_error_codes", h, r"typedef enum WOPN_ErrorCodes\s*\{(.*?)\}\s*WOPN_ErrorCodes;")
    names = re.findall(r"(WOPN_ERR_\w+)", strip_comments(em.group(1)))
    for i, n in enumerate(names):
        errs[n] = i
    need = ["WOPN_ERR_OK", "WOPN_ERR_BAD_MAGIC", "WOPN_ERR_UNEXPECTED_ENDING", "WOPN_ERR_INVALID_BANKS_COUNT",
            "WOPN_ERR_NEWER_VERSION", "WOPN_ERR_OUT_OF_MEMORY", "WOPN_ERR_NULL_POINTER"]
    for n in need:
        if n not in errs:
            raise AnchorError("wopn_error_codes", "missing " + n)
    blank = int(find("WOPN_Ins_IsBlank", h, r"WOPN_Ins_IsBlank\s*=\s*(0x[0-9a-fA-F]+|\d+)").group(1), 0)
    L = ["-- GENERATED by tools/translate.py from /repo (do not edit)", "namespace Opn.Gen"]
    for k, v in mag.items():
        L.append("def %s : List Nat := %s" % (k.replace("wopn2_magic", "wopnMagic").replace("opni_magic", "opniMagic"), lean_list(v)))
    L.append("def wopnLatestVersion : Nat := %d" % latest)
    L.append("def wopnInstSizeV1 : Nat := %d" % v1)
    L.append("def wopnInstSizeV2 : Nat := %d" % v2)
    L.append("def wopnInsBlank : Nat := %d" % blank)
    for n in need:
        L.append("def %s : Nat := %d" % ("wopnErr" + "".join(x.capitalize() for x in n.replace("WOPN_ERR_", "").split("_")), errs[n]))
    L.append("end Opn.Gen")
    out["Wopn.lean"] = "\n".join(L) + "\n"
    return {"wopn_magics": 4, "wopn_latest_version": latest, "WOPN_INST_SIZE_V1": v1, "WOPN_INST_SIZE_V2": v2, "wopn_error_codes": len(names)}


def dec_exact(lit):
    return fractions.Fraction(lit)


def gen_pitch(out):
    opn2 = src("src/opnmidi_opn2.cpp")
    fam = src("src/chips/opn_chip_family.h")
    c = find("pitch_c", opn2, r"return std::exp\(([0-9.]+) \* tone\);").group(1)
    coef2 = find("pitch_coef_opn2", opn2, r"case OPNChip_OPN2: default:\s*coef = ([0-9.]+); break;").group(1)
    coefa = find("pitch_coef_opna", opn2, r"case OPNChip_OPNA:\s*coef = ([0-9.]+); break;").group(1)
    m = find("pitch_loop1", opn2, r"while\(\(hertz >= ([0-9.]+)\) && \(octave < (0x[0-9a-fA-F]+)\)\)\s*\{\s*hertz /= 2\.0;[^\n]*\n\s*octave \+= (0x[0-9a-fA-F]+);")
    t1, octmax, octstep = m.group(1), int(m.group(2), 16), int(m.group(3), 16)
    t2 = find("pitch_loop2", opn2, r"while\(hertz >= ([0-9.]+)\)\s*\{\s*hertz /= 2\.0;[^\n]*\n\s*mul_offset\+\+;").group(1)
    # frequencies beyond the limit are clamped to it before the two loops run (the clamp keeps the loops finite)
    m_lim = find("pitch_limit", opn2, r"if\(hertz > ([0-9.]+)\)[^\n]*\n\s*hertz = ([0-9.]+);")
    if m_lim.group(1) != m_lim.group(2):
        raise AnchorError("pitch_limit", "the clamp value %s differs from the tested limit %s" % (m_lim.group(2), m_lim.group(1)))
    lim = m_lim.group(1)
    find("pitch_round", opn2, r"ftone = octave \+ static_cast<uint32_t>\(hertz \+ 0\.5\);")
    find("pitch_mul_overflow", opn2, r"if\(\(mul \+ mul_offset\) > 0x0F\)\s*\{\s*mul_offset = 0;\s*mul = 0x0F;")
    clk2 = int(find("clock_opn2", fam, r"OPNFamilyTraits<OPNChip_OPN2>.*?nativeRate = (\d+),\s*nativeClockRate = (\d+)").group(2))
    rate2 = int(find("rate_opn2", fam, r"OPNFamilyTraits<OPNChip_OPN2>.*?nativeRate = (\d+),").group(1))
    clka = int(find("clock_opna", fam, r"OPNFamilyTraits<OPNChip_OPNA>.*?nativeRate = (\d+),\s*nativeClockRate = (\d+)").group(2))
    ratea = int(find("rate_opna", fam, r"OPNFamilyTraits<OPNChip_OPNA>.*?nativeRate = (\d+),").group(1))
    # YMFM front-ends: size of the register queue, the guard that keeps it a FIFO when it is full, one dequeue per native frame
    q2 = int(find("ymfm_queue_opn2", src("src/chips/ymfm_opn2.h"), r"static const size_t c_queueSize = (\d+);").group(1))
    qa = int(find("ymfm_queue_opna", src("src/chips/ymfm_opna.h"), r"static const size_t c_queueSize = (\d+);").group(1))
    y2, ya = strip_comments(src("src/chips/ymfm_opn2.cpp")), strip_comments(src("src/chips/ymfm_opna.cpp"))
    find("ymfm_full_guard_opn2", y2, r"void YmFmOPN2::writeReg\([^)]*\)\s*\{\s*if\(m_queueCount >= static_cast<long>\(c_queueSize\)\)\s*\{.*?m_queue\[m_tailPos\+\+\].*?--m_queueCount;.*?chip_r->write\(.*?chip_r->write\(.*?\}\s*Reg &back = m_queue\[m_headPos\+\+\];")
    find("ymfm_full_guard_opna", ya, r"void YmFmOPNA::writeReg\([^)]*\)\s*\{\s*if\(p->m_queueCount >= static_cast<long>\(c_queueSize\)\)\s*\{.*?p->m_queue\[p->m_tailPos\+\+\].*?--p->m_queueCount;.*?chip_r->write\(.*?chip_r->write\(.*?\}\s*p->writeReg\(port, addr, data\);")
    find("ymfm_dequeue_opn2", y2, r"if\(m_queueCount > 0\)\s*\{\s*const Reg &front = m_queue\[m_tailPos\+\+\];\s*if\(m_tailPos >= c_queueSize\)\s*m_tailPos = 0;\s*--m_queueCount;")
    find("ymfm_enqueue_opn2", y2, r"Reg &back = m_queue\[m_headPos\+\+\];.*?if\(m_headPos >= c_queueSize\)\s*m_headPos = 0;\s*\+\+m_queueCount;")
    rsm = int(find("rsm_frac", src("src/chips/opn_chip_base.h"), r"rsm_frac = (\d+)").group(1))
    mp = src("src/opnmidi_midiplay.hpp")
    find("bend_unit", mp, r"bendsense = cent \* \(1\.0 / \(128 \* 8192\)\);")
    L = ["-- GENERATED by tools/translate.py from /repo (do not edit)", "namespace Opn.Gen",
         "/-- exact value of the double nearest to the literal, and the literal as a decimal -/",
         "def pitchC : Rat := %s" % rat_lean(double_exact(c)), "def pitchCDec : Rat := %s" % rat_lean(dec_exact(c)),
         "def coefOPN2 : Rat := %s" % rat_lean(double_exact(coef2)), "def coefOPN2Dec : Rat := %s" % rat_lean(dec_exact(coef2)),
         "def coefOPNA : Rat := %s" % rat_lean(double_exact(coefa)), "def coefOPNADec : Rat := %s" % rat_lean(dec_exact(coefa)),
         "def pitchT1 : Rat := %s" % rat_lean(double_exact(t1)), "def pitchT2 : Rat := %s" % rat_lean(double_exact(t2)),
         "def pitchOctMax : Nat := %d" % octmax, "def pitchOctStep : Nat := %d" % octstep,
         "def pitchHertzLimit : Rat := %s" % rat_lean(double_exact(lim)),
         "def clockOPN2 : Nat := %d" % clk2, "def clockOPNA : Nat := %d" % clka,
         "def nativeRateOPN2 : Nat := %d" % rate2, "def nativeRateOPNA : Nat := %d" % ratea,
         "def ymfmQueueSizeOPN2 : Nat := %d" % q2, "def ymfmQueueSizeOPNA : Nat := %d" % qa, "def rsmFrac : Nat := %d" % rsm,
         "end Opn.Gen"]
    out["Pitch.lean"] = "\n".join(L) + "\n"
    return {"pitch_c": c, "pitch_coef_opn2": coef2, "pitch_coef_opna": coefa, "pitch_t1": t1, "pitch_t2": t2, "pitch_limit": lim,
            "clock_opn2": clk2, "clock_opna": clka}


def enum_body(anchor, text, name):
    m = find(anchor, text, r"enum %s\s*\{(.*?)\}" % name)
    items = []
    cur = -1
    for part in strip_comments(m.group(1)).split(","):
        part = part.strip()
        if not part:
            continue
        if "=" in part:
            k, v = [x.strip() for x in part.split("=", 1)]
            try:
                cur = int(v, 0)
            except ValueError:
                # alias of an earlier enumerator (or an expression we do not evaluate): look it up
                prev = dict(items)
                if v in prev:
                    cur = prev[v]
                elif "|" in v:
                    cur = 0
                    for t in v.split("|"):
                        cur |= prev.get(t.strip(), int(t.strip(), 0) if t.strip().isdigit() else 0)
                else:
                    raise AnchorError(anchor, "cannot evaluate %s" % part)
        else:
            k = part
            cur += 1
        items.append((k, cur))
    return items


def gen_enums(out):
    h = src("include/opnmidi.h")
    st = enum_body("enum_sample_type", h, "OPNMIDI_SampleType")
    emu = enum_body("enum_emulator", h, "Opn2_Emulator")
    vm = enum_body("enum_volume_models", h, "OPNMIDI_VolumeModels")
    ca = enum_body("enum_chan_alloc", h, "OPNMIDI_ChannelAlloc")
    protos = re.findall(r"extern OPNMIDI_DECLSPEC\s+([^;]*?)\b(opn2_\w+)\s*\(([^;]*?)\)\s*;", strip_comments(h), re.S)
    names = []
    for ret, name, args in protos:
        if name not in names:
            names.append(name)
    if len(names) < 60:
        raise AnchorError("api_surface", "only %d exported prototypes found" % len(names))
    L = ["-- GENERATED by tools/translate.py from /repo (do not edit)", "namespace Opn.Gen",
         "/-- OPNMIDI_SampleType enumerators in id order (the `OPNMIDI_SampleType_` prefix removed) -/",
         "def sampleTypeNames : List String := [" + ", ".join('"%s"' % k.replace("OPNMIDI_SampleType_", "") for k, v in sorted(st, key=lambda x: x[1]) if not k.endswith("Count")) + "]",
         "def emulatorIds : List (String × Int) := [" + ", ".join('("%s", %d)' % (k, v) for k, v in emu) + "]",
         "def volumeModelIds : List (String × Int) := [" + ", ".join('("%s", %d)' % (k, v) for k, v in vm) + "]",
         "def chanAllocIds : List (String × Int) := [" + ", ".join('("%s", %d)' % (k, v) for k, v in ca) + "]",
         "/-- every function exported by include/opnmidi.h -/",
         "def apiSurface : List String := [" + ", ".join('"%s"' % n for n in names) + "]",
         "end Opn.Gen"]
    out["Enums.lean"] = "\n".join(L) + "\n"
    return {"enum_sample_type": len(st), "enum_emulator": len(emu), "enum_volume_models": len(vm), "api_surface": len(names)}


GENERATORS = [gen_tables, gen_wopn, gen_pitch, gen_enums]


def translate(write=True):
    out = {}
    anchors = {}
    for g in GENERATORS:
        anchors.update(g(out))
    if write:
        os.makedirs(GEN, exist_ok=True)
        for name, text in out.items():
            p = os.path.join(GEN, name)
            old = None
            if os.path.exists(p):
                with open(p) as f:
                    old = f.read()
            if old != text:
                with open(p, "w") as f:
                    f.write(text)
        with open(os.path.join(GEN, "anchors.json"), "w") as f:
            json.dump(anchors, f, indent=1, sort_keys=True, default=str)
    return anchors


if __name__ == "__main__":
    try:
        a = translate()
    except AnchorError as e:
        print("TRANSLATOR-ANCHOR-BROKEN %s" % e)
        sys.exit(2)
    print("translated %d anchors" % len(a))
